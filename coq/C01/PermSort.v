(** C01 — permutation / sorting lemmas: the three shapes of order-independence used by the sites.

    - sorted site:      [Permutation l l' -> isort l = isort l']
    - commutative fold: a left fold of pairwise commuting steps over a permutation gives the same result
    - unique match:     [find] over a permutation returns the same element when at most one matches *)
From Coq Require Import List Bool ZArith Lia Permutation Sorting.Sorted.
Import ListNotations.
Require Import Nib.C01.Model.
Local Open Scope Z_scope.

(* ------------------------------------------------------------------ insertion sort *)

Lemma insert_perm x l : Permutation (insert x l) (x :: l).
Proof.
  induction l as [|y t IH]; simpl; auto.
  destruct (x <=? y); auto.
  eapply perm_trans; [apply perm_skip, IH|apply perm_swap].
Qed.

Lemma isort_perm l : Permutation (isort l) l.
Proof.
  induction l as [|x t IH]; simpl; auto.
  eapply perm_trans; [apply insert_perm|auto].
Qed.

Lemma insert_sorted x l : StronglySorted Z.le l -> StronglySorted Z.le (insert x l).
Proof.
  induction 1 as [|y t Hs IH Hall]; simpl.
  - repeat constructor.
  - destruct (x <=? y) eqn:E.
    + apply Z.leb_le in E. constructor; [constructor; auto|].
      constructor; auto. eapply Forall_impl; [|exact Hall]. intros; lia.
    + apply Z.leb_gt in E. constructor; auto.
      eapply Permutation_Forall; [symmetry; apply insert_perm|].
      constructor; [lia|auto].
Qed.

Lemma isort_sorted l : StronglySorted Z.le (isort l).
Proof. induction l; simpl; [constructor|apply insert_sorted; auto]. Qed.

Lemma sorted_perm_eq l l' :
  StronglySorted Z.le l -> StronglySorted Z.le l' -> Permutation l l' -> l = l'.
Proof.
  intros Hl; revert l'. induction Hl as [|x t Hs IH Hall]; intros l' Hl' Hp.
  - apply Permutation_nil in Hp. auto.
  - destruct l' as [|y t']; [apply Permutation_sym, Permutation_nil in Hp; discriminate|].
    inversion Hl' as [|? ? Hs' Hall']; subst.
    assert (x = y).
    { assert (Hx : In x (y :: t')) by (eapply Permutation_in; [exact Hp|left; auto]).
      assert (Hy : In y (x :: t)) by (eapply Permutation_in; [symmetry; exact Hp|left; auto]).
      destruct Hx as [->|Hx]; auto. destruct Hy as [->|Hy]; auto.
      rewrite Forall_forall in Hall, Hall'. specialize (Hall _ Hy). specialize (Hall' _ Hx). lia. }
    subst. f_equal. apply IH; auto. eapply Permutation_cons_inv; eauto.
Qed.

(** sort.Slice / sort.Strings over a total order: the result depends on the multiset only *)
Theorem isort_perm_eq l l' : Permutation l l' -> isort l = isort l'.
Proof.
  intro H. apply sorted_perm_eq; try apply isort_sorted.
  eapply perm_trans; [apply isort_perm|]. eapply perm_trans; [exact H|]. symmetry. apply isort_perm.
Qed.

Lemma isort_of_sorted l : StronglySorted Z.le l -> isort l = l.
Proof. intro H. apply sorted_perm_eq; auto using isort_sorted, isort_perm. Qed.

Ltac zle_cases :=
  repeat (simpl; match goal with |- context [?a <=? ?b] => destruct (Z.leb_spec a b) end); simpl.

Lemma insert_comm a b l : insert a (insert b l) = insert b (insert a l).
Proof.
  induction l as [|y t IH];
    zle_cases; try reflexivity; try lia;
    try (assert (a = b) by lia; subst; reflexivity); try (f_equal; exact IH).
Qed.

(* ------------------------------------------------------------------ folds of commuting steps *)

Section Fold.
  Context {A B : Type} (f : A -> B -> A).

  Lemma fold_left_swap_head (l : list B) (a b : B) (s : A) :
    (forall s, f (f s a) b = f (f s b) a) ->
    fold_left f (a :: b :: l) s = fold_left f (b :: a :: l) s.
  Proof. intro H. simpl. rewrite H. reflexivity. Qed.

  (** a left fold over a permutation: steps of the elements of the list commute pairwise *)
  Theorem fold_left_perm_comm (l l' : list B) :
    Permutation l l' ->
    (forall a b s, In a l -> In b l -> f (f s a) b = f (f s b) a) ->
    forall s, fold_left f l s = fold_left f l' s.
  Proof.
    induction 1 as [|x l l' Hp IH|x y l|l l' l'' Hp1 IH1 Hp2 IH2]; intros Hc s.
    - reflexivity.
    - simpl. apply IH. intros; apply Hc; right; auto.
    - simpl. rewrite Hc; [reflexivity|simpl; auto|simpl; auto].
    - rewrite IH1 by auto. apply IH2.
      intros a b s0 Ha Hb. apply Hc; eapply Permutation_in; try (symmetry; exact Hp1); auto.
  Qed.
End Fold.

(* ------------------------------------------------------------------ unique match *)

Theorem find_unique_perm {A} (p : A -> bool) (l l' : list A) :
  Permutation l l' ->
  (forall x y, In x l -> In y l -> p x = true -> p y = true -> x = y) ->
  find p l = find p l'.
Proof.
  induction 1 as [|x l l' Hp IH|x y l|l l' l'' Hp1 IH1 Hp2 IH2]; intro Hu.
  - reflexivity.
  - simpl. destruct (p x); auto. apply IH. intros; apply Hu; try right; auto.
  - simpl. destruct (p y) eqn:Ey, (p x) eqn:Ex; auto.
    f_equal. apply Hu; simpl; auto.
  - rewrite IH1 by auto. apply IH2.
    intros a b Ha Hb. apply Hu; eapply Permutation_in; try (symmetry; exact Hp1); auto.
Qed.

(* ------------------------------------------------------------------ membership helpers *)

Lemma zmem_true_iff x l : zmem x l = true <-> In x l.
Proof.
  unfold zmem. rewrite existsb_exists. split.
  - intros [y [Hy E]]. apply Z.eqb_eq in E. subst. exact Hy.
  - intro H. exists x. split; auto. apply Z.eqb_refl.
Qed.

Lemma zmem_false_iff x l : zmem x l = false <-> ~ In x l.
Proof.
  rewrite <- zmem_true_iff. destruct (zmem x l); split; intro H; try discriminate; auto.
  exfalso. apply H. reflexivity.
Qed.

Lemma dedup_In x l : In x (dedup l) <-> In x l.
Proof.
  induction l as [|y t IH]; simpl; [tauto|].
  destruct (zmem y t) eqn:E.
  - rewrite IH. apply zmem_true_iff in E. split; auto. intros [->|H]; auto.
  - simpl. rewrite IH. tauto.
Qed.

Lemma dedup_NoDup l : NoDup (dedup l).
Proof.
  induction l as [|y t IH]; simpl; [constructor|].
  destruct (zmem y t) eqn:E; auto.
  constructor; auto. rewrite dedup_In. apply zmem_false_iff. exact E.
Qed.

Lemma zset_of_In x l : In x (zset_of l) <-> In x l.
Proof.
  unfold zset_of. rewrite <- (dedup_In x l). split; intro H.
  - eapply Permutation_in; [apply isort_perm|exact H].
  - eapply Permutation_in; [symmetry; apply isort_perm|exact H].
Qed.

Lemma zset_of_NoDup l : NoDup (zset_of l).
Proof.
  unfold zset_of. eapply Permutation_NoDup; [symmetry; apply isort_perm|apply dedup_NoDup].
Qed.

Lemma zset_of_sorted l : StronglySorted Z.le (zset_of l).
Proof. apply isort_sorted. Qed.

Lemma perm_NoDup_In_iff (l l' : list Z) :
  Permutation l l' -> (NoDup l <-> NoDup l') /\ (forall x, In x l <-> In x l').
Proof.
  intro H. split.
  - split; intro; [eapply Permutation_NoDup; eauto|eapply Permutation_NoDup; [symmetry; eauto|auto]].
  - intro x. split; intro; [eapply Permutation_in; eauto|eapply Permutation_in; [symmetry; eauto|auto]].
Qed.
