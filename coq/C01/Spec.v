(** C01 — the property on what is observed, as Prop and as boolean checker.

    Observed by the harness:
    - [ODiff t]: one generated block history executed on N replicas built from the same genesis; [t] holds,
      per replica, the sequence of canonical ids of everything the property speaks about (per block: app hash,
      every tx's (code, data, gas wanted, gas used), validator updates) — equal ids iff equal bytes;
    - [OStored l]: a byte-order-sensitive stored list that is rebuilt from a Go map (Sudoers.Contracts),
      as order-preserving ids;
    - [OSelectors l]: the 4-byte ids of one precompile ABI (methodById ranges over a Go map of methods);
    - [ORange rs]: the key sequences that consumers with DIFFERENT wall clocks (no delay, short delays, one long stall
      between two receives) received from `for k := range om.Range()` over the same SortedMap. *)
From Coq Require Import List Bool Arith ZArith Lia Sorting.Sorted.
Import ListNotations.
Require Import Nib.C01.Model.

Inductive obs :=
| ODiff (t : list (list nat))
| OStored (l : list Z)
| OSelectors (l : list Z)
| ORange (rs : list (list Z)).

(** every replica produced the same sequence *)
Definition replicas_agree (t : list (list nat)) : Prop :=
  forall r r', In r t -> In r' t -> r = r'.

(** the stored list is the canonical (strictly increasing) enumeration of its set: a function of the
    SET alone, hence independent of any iteration order *)
Definition canonical (l : list Z) : Prop := StronglySorted Z.lt l.

Definition P (o : obs) : Prop :=
  match o with
  | ODiff t => replicas_agree t
  | OStored l => canonical l
  | OSelectors l => NoDup l
  | ORange rs => forall r r', In r rs -> In r' rs -> r = r'
  end.

Fixpoint zlist_eqb (a b : list Z) : bool :=
  match a, b with
  | [], [] => true
  | x :: a', y :: b' => (x =? y)%Z && zlist_eqb a' b'
  | _, _ => false
  end.

Lemma zlist_eqb_eq a b : zlist_eqb a b = true -> a = b.
Proof.
  revert b; induction a as [|x a IH]; intros [|y b] H; simpl in H; try discriminate; auto.
  apply andb_true_iff in H as [H1 H2]. apply Z.eqb_eq in H1. subst. f_equal. auto.
Qed.

Definition zagree_b (t : list (list Z)) : bool :=
  match t with [] => true | r0 :: rs => forallb (zlist_eqb r0) rs end.

Fixpoint list_eqb (a b : list nat) : bool :=
  match a, b with
  | [], [] => true
  | x :: a', y :: b' => Nat.eqb x y && list_eqb a' b'
  | _, _ => false
  end.

Lemma list_eqb_eq a b : list_eqb a b = true -> a = b.
Proof.
  revert b; induction a as [|x a IH]; intros [|y b] H; simpl in H; try discriminate; auto.
  apply andb_true_iff in H as [H1 H2]. apply Nat.eqb_eq in H1. subst. f_equal. auto.
Qed.

Definition agree_b (t : list (list nat)) : bool :=
  match t with [] => true | r0 :: rs => forallb (list_eqb r0) rs end.

Fixpoint all_lt (x : Z) (l : list Z) : bool :=
  match l with [] => true | y :: t => (x <? y)%Z && all_lt x t end.

Fixpoint canonical_b (l : list Z) : bool :=
  match l with [] => true | x :: t => all_lt x t && canonical_b t end.

Fixpoint nodup_b (l : list Z) : bool :=
  match l with [] => true | x :: t => negb (zmem x t) && nodup_b t end.

Definition Pb (o : obs) : bool :=
  match o with
  | ODiff t => agree_b t
  | OStored l => canonical_b l
  | OSelectors l => nodup_b l
  | ORange rs => zagree_b rs
  end.

Lemma agree_b_sound t : agree_b t = true -> replicas_agree t.
Proof.
  destruct t as [|r0 rs]; intros H r r' Hr Hr'; simpl in *; [contradiction|].
  rewrite forallb_forall in H.
  assert (E : forall x, r0 = x \/ In x rs -> x = r0).
  { intros x [->|Hx]; auto. symmetry. apply list_eqb_eq. auto. }
  rewrite (E r Hr), (E r' Hr'). reflexivity.
Qed.

Lemma zagree_b_sound t : zagree_b t = true -> forall r r', In r t -> In r' t -> r = r'.
Proof.
  destruct t as [|r0 rs]; intros H r r' Hr Hr'; simpl in *; [contradiction|].
  rewrite forallb_forall in H.
  assert (E : forall x, r0 = x \/ In x rs -> x = r0).
  { intros x [->|Hx]; auto. symmetry. apply zlist_eqb_eq. auto. }
  rewrite (E r Hr), (E r' Hr'). reflexivity.
Qed.

Lemma all_lt_sound x l : all_lt x l = true -> Forall (Z.lt x) l.
Proof.
  induction l as [|y t IH]; simpl; intro H; constructor.
  - apply andb_true_iff in H as [H _]. apply Z.ltb_lt. exact H.
  - apply IH. apply andb_true_iff in H as [_ H]. exact H.
Qed.

Lemma canonical_b_sound l : canonical_b l = true -> canonical l.
Proof.
  induction l as [|x t IH]; simpl; intro H; constructor.
  - apply IH. apply andb_true_iff in H as [_ H]. exact H.
  - apply all_lt_sound. apply andb_true_iff in H as [H _]. exact H.
Qed.

Lemma zmem_In x l : zmem x l = true <-> In x l.
Proof.
  unfold zmem. rewrite existsb_exists. split.
  - intros [y [Hy E]]. apply Z.eqb_eq in E. subst. exact Hy.
  - intro H. exists x. split; auto. apply Z.eqb_refl.
Qed.

Lemma nodup_b_sound l : nodup_b l = true -> NoDup l.
Proof.
  induction l as [|x t IH]; simpl; intro H; constructor.
  - apply andb_true_iff in H as [H _]. intro Hin. apply zmem_In in Hin. rewrite Hin in H. discriminate.
  - apply IH. apply andb_true_iff in H as [_ H]. exact H.
Qed.

Lemma Pb_sound o : Pb o = true -> P o.
Proof.
  destruct o; simpl.
  - apply agree_b_sound.
  - apply canonical_b_sound.
  - apply nodup_b_sound.
  - apply zagree_b_sound.
Qed.
