(** C01 — vocabulary of the generated facts (Gen/C01Facts.v): every `for … range <map>` site of the
    non-test code of x/, app/, eth/, every use of set.Set.ToSlice, every time.Now / math/rand /
    `go func` site, every concurrency / timing construct (channels, select, timers, deadlines, sync, runtime).  The generator (harness/gen/c01) prints terms of these types, never verdicts. *)
From Coq Require Import List Bool Arith String.
Import ListNotations.

(** Syntactic shape of the loop body, computed from the AST. *)
Inductive syn :=
| SynCollectSorted    (* body only appends the key/value to ONE slice, and that slice is sorted later in the same function *)
| SynCollectUnsorted  (* same, but no sort call on the slice follows: the iteration order escapes *)
| SynBuildMap         (* body only inserts entries (keyed by the visited key, or with a constant value, or set.Add) or only deletes
                         entries of a map / set declared outside the loop; values never read the destination *)
| SynBuildMapLoose    (* map writes that are not of that strict form (computed key with computed value, inserts mixed with deletes, …) *)
| SynMember           (* no write outside the loop; every exit is guarded by `<visited key> == x` or returns constants only *)
| SynLookup           (* no write outside the loop; some return / break is neither (search whose uniqueness is not syntactic) *)
| SynAccum            (* body only does x += e / x++ on outer INTEGER variables *)
| SynEffect.          (* anything else: calls as statements, assignments to outer variables, go/defer/send *)

(** Package scope, decided by the path: cli / client / simulation / testutil / cmd / eth/rpc /
    eth/indexer / app/server / app/sim* are tooling that never runs inside block execution. *)
Inductive scope := ScopeConsensus | ScopeTooling.

Record site := mk_site {
  s_pkg   : string;       (* package directory relative to the repository root *)
  s_fn    : string;       (* enclosing function, Receiver.Name *)
  s_ord   : nat;          (* ordinal among the map ranges of that function (informational; not used for matching) *)
  s_expr  : string;       (* the ranged expression, variables normalised to "_" *)
  s_type  : string;       (* type of the ranged expression *)
  s_syn   : syn;
  s_scope : scope;
  s_calls : list string   (* normalised callees appearing in the loop body (sorted, unique; leading variable = "_") *)
}.

(** What happens to the slice returned by set.Set.ToSlice at a call site. *)
Inductive ts_kind :=
| UseLen           (* len(s.ToSlice()) *)
| UseSorted        (* v := s.ToSlice(); sort…(v) *)
| UseMessageText   (* argument of fmt.* / errors.* / …Errorf: reaches only an error or log text *)
| UseRanged        (* for … range s.ToSlice() *)
| UseEscapes.      (* anything else *)

Record ts_use := mk_ts {
  t_pkg : string; t_fn : string; t_ord : nat; t_kind : ts_kind; t_scope : scope }.

Inductive inc_kind := IncTimeNow | IncMathRand | IncGoFunc.

Record inc_site := mk_inc {
  i_pkg : string; i_file : string; i_fn : string; i_ord : nat; i_kind : inc_kind;
  i_tele : bool;          (* the call is an argument of a telemetry.* call *)
  i_scope : scope }.

(** Process-local mutable state: a field of a long-lived object (keeper, app, precompile object, msg / query server) of a
    keeper / precompile / app package, or a package-level variable of a consensus package, whose type holds a Go map, a
    channel, or a sync / atomic / cache object (looked into through the repository's own non-keeper struct types). *)
Inductive ps_kind := PSMap | PSChan | PSSync.

Record pstate := mk_ps {
  p_pkg : string; p_owner : string (* struct name, or "<package>" *); p_field : string; p_type : string;
  p_kind : ps_kind;
  p_written : bool;       (* package-level variable: assigned / index-assigned / Store()d in a function other than init *)
  p_scope : scope }.

(** Concurrency / timing constructs: everything through which goroutine scheduling, the wall clock or the machine can
    reach a computation other than by iterating a map.  [k_in_go]: the construct is inside the function started by a `go`
    statement; [k_in_select]: it is the communication of a select clause (`case ch <- v:` / `case x := <-ch:`). *)
Inductive conc_kind :=
| CkGo                                  (* go statement *)
| CkMakeChan (buffered : bool)          (* make(chan T[, n]) *)
| CkSend | CkRecv | CkRangeChan | CkClose
| CkSelect (ncomm : nat) (has_default : bool)
| CkTimer                               (* time.After / NewTimer / NewTicker / Tick / AfterFunc / Sleep, methods of *time.Timer / *time.Ticker *)
| CkDeadline                            (* context.WithTimeout / WithDeadline / WithCancel…, Context.Done / Deadline / Err *)
| CkSync                                (* any function or method of sync / sync/atomic *)
| CkRuntime.                            (* any query of runtime / runtime/debug *)

Record conc_site := mk_conc {
  k_pkg : string; k_fn : string; k_kind : conc_kind;
  k_what : string;        (* callee (`time.NewTimer`, `Mutex.Lock`, `runtime.NumCPU`), normalised channel expression, element type *)
  k_in_go : bool; k_in_select : bool; k_scope : scope }.

Definition conc_kind_eqb (a b : conc_kind) : bool :=
  match a, b with
  | CkGo, CkGo | CkSend, CkSend | CkRecv, CkRecv | CkRangeChan, CkRangeChan | CkClose, CkClose
  | CkTimer, CkTimer | CkDeadline, CkDeadline | CkSync, CkSync | CkRuntime, CkRuntime => true
  | CkMakeChan x, CkMakeChan y => Bool.eqb x y
  | CkSelect n d, CkSelect n' d' => Nat.eqb n n' && Bool.eqb d d'
  | _, _ => false
  end.

(** decidable equalities used by the table lookup *)
Definition syn_eqb (a b : syn) : bool :=
  match a, b with
  | SynCollectSorted, SynCollectSorted | SynCollectUnsorted, SynCollectUnsorted | SynBuildMap, SynBuildMap
  | SynBuildMapLoose, SynBuildMapLoose | SynMember, SynMember
  | SynLookup, SynLookup | SynAccum, SynAccum | SynEffect, SynEffect => true
  | _, _ => false
  end.

Definition scope_eqb (a b : scope) : bool :=
  match a, b with ScopeConsensus, ScopeConsensus | ScopeTooling, ScopeTooling => true | _, _ => false end.

Definition ts_kind_eqb (a b : ts_kind) : bool :=
  match a, b with
  | UseLen, UseLen | UseSorted, UseSorted | UseMessageText, UseMessageText | UseRanged, UseRanged
  | UseEscapes, UseEscapes => true
  | _, _ => false
  end.

Definition inc_kind_eqb (a b : inc_kind) : bool :=
  match a, b with IncTimeNow, IncTimeNow | IncMathRand, IncMathRand | IncGoFunc, IncGoFunc => true | _, _ => false end.

Fixpoint strs_eqb (a b : list string) : bool :=
  match a, b with
  | [], [] => true
  | x :: a', y :: b' => String.eqb x y && strs_eqb a' b'
  | _, _ => false
  end.
