(** C01 — classification of every map-ranging site of the consensus code.

    AUTOMATIC classes.  A site whose syntactic shape is order-insensitive by itself — keys collected and
    sorted before use, body only inserts into / only deletes from another map or set, pure membership test,
    pure integer accumulation — and whose body calls only functions of the [pure_callees] list is accepted
    WITHOUT a table entry, wherever it lives and however it is named ([auto_okb]); each such class has a
    proved order-independence lemma ([auto_statement], [auto_proved]).  Refactorings that move such loops
    into helpers, rename them, or add more of them do not need the table.

    HAND TABLE.  Only the shapes the classifier cannot decide (effectful bodies, searches whose
    uniqueness is semantic, the one unsorted collector [Set.ToSlice]) need a table line: package, type of
    the ranged map, shape, callees of the body, justification ([just]) — NOT function name or ordinal, so
    a loop that moves to a helper keeps matching.  [site_ok] fails — and with it
    [every_map_site_classified] in Gen/C01Oblig.v — when a site that is not automatically accepted matches
    no line: a new effectful `for k := range someMap`, a sort that was dropped
    (SynCollectSorted -> SynCollectUnsorted), a known body that starts calling something else. *)
From Coq Require Import List Bool Arith ZArith String Permutation.
Import ListNotations.
Require Import Nib.C01.Sites Nib.C01.Model Nib.C01.PermSort Nib.C01.Proofs.
Local Open Scope string_scope.

(* ------------------------------------------------------------------ automatic classes *)

Lemma existsb_perm {A} (p : A -> bool) l l' : Permutation l l' -> existsb p l = existsb p l'.
Proof.
  induction 1; simpl; auto.
  - rewrite IHPermutation. reflexivity.
  - destruct (p x), (p y); reflexivity.
  - congruence.
Qed.

Lemma find_key_eq_perm (x : Z) l l' : NoDup l -> Permutation l l' -> find (Z.eqb x) l = find (Z.eqb x) l'.
Proof.
  intros Hn Hp. apply find_unique_perm; auto.
  intros a b _ _ Ha Hb. apply Z.eqb_eq in Ha, Hb. congruence.
Qed.

(** the order-independence statement behind each automatically accepted shape *)
Definition auto_statement (sy : syn) : Prop :=
  match sy with
  | SynCollectSorted => forall l l' : list Z, Permutation l l' -> isort l = isort l'
  | SynBuildMap =>
      (* inserts keyed by the visited key (value may depend on the key and on the entry's own old value) *)
      (forall (f : Z -> option Z -> option Z) (l l' : list Z) (m : kv Z), Permutation l l' ->
         fold_left (fun m k => kv_adjust k (f k) m) l m = fold_left (fun m k => kv_adjust k (f k) m) l' m) /\
      (* inserts of a CONSTANT value under a computed key; set.Add *)
      (forall (g : Z -> Z) (c : Z) (l l' : list Z) (m : kv Z), Permutation l l' ->
         fold_left (fun m k => kv_set (g k) c m) l m = fold_left (fun m k => kv_set (g k) c m) l' m) /\
      (forall (g : Z -> Z) (l l' : list Z) (s : list Z), Permutation l l' ->
         fold_left (fun s k => zset_add (g k) s) l s = fold_left (fun s k => zset_add (g k) s) l' s) /\
      (* deletes only *)
      (forall (p : Z -> bool) (g : Z -> Z) (l l' : list Z) (m : kv Z), Permutation l l' ->
         fold_left (fun m k => if p k then kv_del (g k) m else m) l m =
         fold_left (fun m k => if p k then kv_del (g k) m else m) l' m)
  | SynMember =>
      (forall (p : Z -> bool) (l l' : list Z), Permutation l l' -> existsb p l = existsb p l') /\
      (forall (x : Z) (l l' : list Z), NoDup l -> Permutation l l' -> find (Z.eqb x) l = find (Z.eqb x) l')
  | SynAccum => forall (w : Z -> Z) (l l' : list Z) (acc : Z), Permutation l l' ->
      fold_left (fun acc k => (acc + w k)%Z) l acc = fold_left (fun acc k => (acc + w k)%Z) l' acc
  | _ => True
  end.

Lemma kv_set_same_value_comm {V} (k1 k2 : Z) (c : V) (m : kv V) :
  kv_set k1 c (kv_set k2 c m) = kv_set k2 c (kv_set k1 c m).
Proof.
  destruct (Z.eq_dec k1 k2) as [->|Hne]; auto. apply kv_set_comm; auto.
Qed.

Theorem auto_proved : forall sy, auto_statement sy.
Proof.
  destruct sy; simpl; auto.
  - exact isort_perm_eq.
  - split; [|split; [|split]].
    + intros; apply keyed_fold_perm; auto.
    + intros g c l l' m Hp. apply fold_left_perm_comm; auto. intros; apply kv_set_same_value_comm.
    + intros g l l' s Hp. apply fold_left_perm_comm; auto. intros; apply zset_add_comm.
    + intros p g l l' m Hp. apply fold_left_perm_comm; auto.
      intros a b s _ _. destruct (p a), (p b); auto. apply kv_del_comm.
  - split; [intros; apply existsb_perm; auto|intros; apply find_key_eq_perm; auto].
  - intros; apply sum_fold_perm; auto.
Qed.

(** callees that may appear inside an automatically accepted body: total functions of their arguments
    without access to any store or package-level state (address derivation, stringers, constructors) *)
Definition pure_callees : list string := [
  "authtypes.NewModuleAddress"; "authtypes.NewModuleAddress().String";
  "_.GetAddress"; "_.GetAddress().String"; "_.String"; "_.Bytes";
  "NewPair"; "bytes.Equal"; "bytes.Compare"; "strings.Compare"; "fmt.Sprintf"; "fmt.Sprint"; "fmt.Errorf"
].

Definition ends_with (suffix s : string) : bool :=
  let n := String.length s in let k := String.length suffix in
  Nat.leb k n && String.eqb (substring (n - k) k s) suffix.

(** stringers / byte views (x.String(), x.Bytes()) are pure by convention, whatever they are called on *)
Definition is_pure (c : string) : bool :=
  existsb (String.eqb c) pure_callees || ends_with ".String" c || ends_with ".Bytes" c.

Definition auto_syn (sy : syn) : bool :=
  match sy with SynCollectSorted | SynBuildMap | SynMember | SynAccum => true | _ => false end.

Definition auto_okb (s : site) : bool := auto_syn (s_syn s) && forallb is_pure (s_calls s).

(* ------------------------------------------------------------------ hand table *)

Inductive just :=
| JUnique      (* search with at most one match (semantic uniqueness) *)
| JKeyed       (* one effect per visited key on pairwise disjoint store keys / registries *)
| JViaUses     (* the order escapes to the callers: every caller is classified separately (ToSlice uses) *)
| JLogOnly.    (* reaches only events / log text: not part of app hash, tx results or validator updates *)

Definition just_statement (j : just) : Prop :=
  match j with
  | JUnique => forall (p : Z -> bool) (l l' : list Z), Permutation l l' ->
      (forall x y, In x l -> In y l -> p x = true -> p y = true -> x = y) -> find p l = find p l'
  | JKeyed => forall (f : Z -> option Z -> option Z) (l l' : list Z) (m : kv Z), Permutation l l' ->
      fold_left (fun m k => kv_adjust k (f k) m) l m = fold_left (fun m k => kv_adjust k (f k) m) l' m
  | JViaUses | JLogOnly => True
  end.

Theorem just_proved : forall j, just_statement j.
Proof.
  destruct j; simpl; auto.
  - intros; apply find_unique_perm; auto.
  - intros; apply keyed_fold_perm; auto.
Qed.

Definition compatible (sy : syn) (j : just) : bool :=
  match j, sy with
  | JUnique, SynLookup => true
  | JKeyed, (SynEffect | SynBuildMapLoose) => true
  | JViaUses, SynCollectUnsorted => true
  | JLogOnly, (SynLookup | SynEffect) => true
  | _, _ => false
  end.

Record entry := mk_entry {
  e_pkg : string; e_type : string; e_syn : syn; e_calls : list string; e_just : just;
  e_where : string   (* where it is today — informational only *) }.

Definition table : list entry := [
  (* start-up wiring: one store mounted per key *)
  mk_entry "app" "map[string]*types.KVStoreKey" SynEffect ["_.RegisterStores"; "panic"] JKeyed "NewNibiruApp";
  (* set: the one place where map order leaves a function; its callers are checked by [ts_use_okb] *)
  mk_entry "x/common/set" "set.Set[T]" SynCollectUnsorted [] JViaUses "Set.ToSlice";
  (* registry insertions through omap.Set commute: om_set_comm / add_precompiles_deterministic *)
  mk_entry "x/evm/keeper" "map[common.Address]vm.PrecompiledContract" SynEffect ["_.precompiles.Set"] JKeyed "Keeper.AddPrecompiles";
  (* ABI selectors are unique: method_by_id_deterministic + harness case CAbi *)
  mk_entry "x/evm/precompile" "map[string]abi.Method" SynLookup ["bytes.Equal"] JUnique "methodById";
  (* oracle EndBlock over the ValidatorPerformances map *)
  mk_entry "x/oracle/keeper" "types.ValidatorPerformances" SynEffect
    ["_.EventManager"; "_.EventManager().EmitTypedEvent"; "_.ValAddress.String"] JLogOnly "Keeper.UpdateExchangeRates (EndBlock events)";
  mk_entry "x/oracle/keeper" "types.ValidatorPerformances" SynEffect
    ["_.MissCounters.GetOr"; "_.MissCounters.Insert"; "_.ValAddress.String"] JKeyed "Keeper.incrementMissCounters (incr_miss_deterministic)";
  mk_entry "x/oracle/keeper" "types.ValidatorPerformances" SynEffect
    ["_.Add"; "_.MulDec"; "_.MulDec().TruncateDecimal"; "_.StakingKeeper.Validator"; "_.distrKeeper.AllocateTokensToValidator";
     "math.LegacyNewDec"; "math.LegacyNewDec().QuoInt64"; "sdk.NewDecCoinsFromCoins"] JKeyed "Keeper.rewardWinners (reward_winners_deterministic)"
].

(** callee lists are compared as SETS modulo pure callees and order (temporaries, hoisted expressions and
    added stringers do not change what a body does to consensus state) *)
Definition effect_calls (cs : list string) : list string := filter (fun c => negb (is_pure c)) cs.
Definition subset (a b : list string) : bool := forallb (fun x => existsb (String.eqb x) b) a.
Definition same_effects (a b : list string) : bool :=
  subset (effect_calls a) (effect_calls b) && subset (effect_calls b) (effect_calls a).

Definition entry_matches (s : site) (e : entry) : bool :=
  String.eqb (s_pkg s) (e_pkg e) && String.eqb (s_type s) (e_type e) &&
  syn_eqb (s_syn s) (e_syn e) && same_effects (s_calls s) (e_calls e) && compatible (e_syn e) (e_just e).

Definition site_okb (s : site) : bool :=
  match s_scope s with
  | ScopeTooling => true
  | ScopeConsensus => auto_okb s || existsb (entry_matches s) table
  end.

Definition site_ok (s : site) : Prop := site_okb s = true.

(** a table line that no site matches any more is stale: harmless (the loop is gone), reported as a WARNING
    by Gen/C01Oblig.v, never an obligation *)
Definition entry_liveb (sites : list site) (e : entry) : bool :=
  existsb (fun s => scope_eqb (s_scope s) ScopeConsensus && entry_matches s e) sites.

Theorem table_wellformed : forallb (fun e => compatible (e_syn e) (e_just e)) table = true.
Proof. vm_compute. reflexivity. Qed.

Theorem table_justified : Forall (fun e => just_statement (e_just e)) table.
Proof. apply Forall_forall. intros e _. apply just_proved. Qed.

(** every automatically accepted site has a proved lemma of its shape *)
Theorem auto_sites_justified : forall s, auto_okb s = true -> auto_statement (s_syn s).
Proof. intros s _. apply auto_proved. Qed.

(* ------------------------------------------------------------------ uses of set.Set.ToSlice *)

(** [UseLen]: the length of a permutation; [UseSorted]: the sort of a permutation *)
Theorem use_len_order_independent (l l' : list Z) : Permutation l l' -> List.length l = List.length l'.
Proof. apply Permutation_length. Qed.

Theorem use_sorted_order_independent (l l' : list Z) : Permutation l l' -> isort l = isort l'.
Proof. apply isort_perm_eq. Qed.

(** message-text uses that are accepted in consensus packages (the text of an error / log line is not
    part of ResponseDeliverTx{Code,Data,GasWanted,GasUsed}) — listed one by one *)
Definition ts_message_uses : list (string * string) := [
  ("x/sudo/types", "MsgEditSudoers.ValidateBasic")
].

Definition ts_use_okb (u : ts_use) : bool :=
  match t_scope u with
  | ScopeTooling => true
  | ScopeConsensus =>
      match t_kind u with
      | UseLen | UseSorted => true
      | UseMessageText =>
          existsb (fun e => String.eqb (t_pkg u) (fst e) && String.eqb (t_fn u) (snd e)) ts_message_uses
      | UseRanged | UseEscapes => false
      end
  end.

(* ------------------------------------------------------------------ time.Now / math/rand / go statements *)

Inductive inc_just :=
| ITelemetry     (* argument of a telemetry call *)
| IOrderedChan   (* omap.Range: one producer goroutine, unbuffered channel, keys sent in sorted order *)
| IQueryOnly     (* gRPC query handler *)
| ITestHelper.   (* test fixture compiled into a non-test file *)

(** (package, function, kind, telemetry-argument?, why) — any number of occurrences inside the function *)
Definition inc_table : list (string * string * inc_kind * bool * inc_just) := [
  ("x/common/omap", "SortedMap.Range", IncGoFunc, false, IOrderedChan);
  ("x/epochs", "BeginBlocker", IncTimeNow, true, ITelemetry);
  ("x/oracle", "EndBlocker", IncTimeNow, true, ITelemetry);
  ("x/evm/keeper", "Keeper.TraceEthTxMsg", IncGoFunc, false, IQueryOnly);
  ("x/oracle/keeper", "CreateTestFixture", IncTimeNow, false, ITestHelper);
  ("x/oracle/types", "GenerateRandomTestCase", IncMathRand, false, ITestHelper);
  ("x/oracle/types", "GenerateRandomTestCase", IncTimeNow, false, ITestHelper)
].

Definition inc_matches (i : inc_site) (e : string * string * inc_kind * bool * inc_just) : bool :=
  let '(pkg, fn, kind, tele, j) := e in
  String.eqb (i_pkg i) pkg && String.eqb (i_fn i) fn &&
  inc_kind_eqb (i_kind i) kind && Bool.eqb (i_tele i) tele &&
  match j with ITelemetry => tele | _ => true end.

Definition inc_okb (i : inc_site) : bool :=
  match i_scope i with
  | ScopeTooling => true
  | ScopeConsensus => existsb (inc_matches i) inc_table
  end.

(* ------------------------------------------------------------------ concurrency / timing constructs *)

(** Every channel operation, select, timer, deadline, sync / atomic use and runtime query of the consensus code must match
    a line of [conc_table].  The justification of the one construct that IS on the block-execution path — the producer
    goroutine of omap.SortedMap.Range and the loops consuming it — is a theorem about [range_recv]; that theorem is about
    a producer that offers every key with a plain blocking send, which is what the table lines describe (a channel
    made outside the goroutine, one go statement, a send and a close inside it, nothing else): a timer, a select, a sync
    primitive or a receive in that function is a new fact without a line, and the mechanism flag
    [c_range_blocking] (FactsCfg.range_blocking) turns false. *)
Inductive conc_just :=
| KJRangeProducer   (* single producer goroutine, plain blocking sends in slice order, close at the end: range_recv_blocking *)
| KJRangeConsumer   (* `for k := range om.Range()`: receives until the channel is closed — sees exactly what the producer offers *)
| KJQueryOnly       (* gRPC query handler (the debug_trace family): never runs inside BeginBlock / DeliverTx / EndBlock *)
| KJInitOnly        (* package initialisation, single goroutine, before any block; the value is a build / version string or a
                       registration counter that is the same on every node *)
| KJErrorText.      (* reaches only the text of an error (not part of Code / Data / GasWanted / GasUsed) *)

Definition conc_just_statement (j : conc_just) : Prop :=
  match j with
  | KJRangeProducer | KJRangeConsumer => forall (delays keys : list Z), range_recv None delays keys = keys
  | KJQueryOnly | KJInitOnly | KJErrorText => True
  end.

Theorem conc_just_proved : forall j, conc_just_statement j.
Proof. destruct j; simpl; auto; intros; apply range_recv_blocking. Qed.

Record conc_entry := mk_centry {
  ce_pkg : string;
  ce_fn : string;          (* "" = any function of the package (consumers move between helpers when code is refactored) *)
  ce_kind : conc_kind; ce_what : string; ce_in_go : bool; ce_in_select : bool; ce_just : conc_just }.

Definition conc_table : list conc_entry := [
  mk_centry "x/common/omap" "SortedMap.Range" (CkMakeChan false) "K" false false KJRangeProducer;
  (* a buffered channel is a FIFO queue in front of the same blocking send: the consumer still receives every key, in order,
     and the buffered keys after the close ([range_recv] does not depend on the capacity) *)
  mk_centry "x/common/omap" "SortedMap.Range" (CkMakeChan true) "K" false false KJRangeProducer;
  mk_centry "x/common/omap" "SortedMap.Range" CkGo "go" false false KJRangeProducer;
  mk_centry "x/common/omap" "SortedMap.Range" CkSend "_" true false KJRangeProducer;
  mk_centry "x/common/omap" "SortedMap.Range" CkClose "_" true false KJRangeProducer;
  mk_centry "x/oracle/keeper" "" CkRangeChan "_.Range()" false false KJRangeConsumer;
  mk_centry "x/evm/keeper" "Keeper.TraceEthTxMsg" CkDeadline "context.WithTimeout" false false KJQueryOnly;
  mk_centry "x/evm/keeper" "Keeper.TraceEthTxMsg" CkGo "go" false false KJQueryOnly;
  mk_centry "x/evm/keeper" "Keeper.TraceEthTxMsg" CkRecv "_.Done()" true false KJQueryOnly;
  mk_centry "x/evm/keeper" "Keeper.TraceEthTxMsg" CkDeadline "Context.Done" true false KJQueryOnly;
  mk_centry "x/evm/keeper" "Keeper.TraceEthTxMsg" CkDeadline "Context.Err" true false KJQueryOnly;
  mk_centry "app/appconst" "init" CkRuntime "runtime.Version" false false KJInitOnly;
  mk_centry "app/appconst" "init" CkRuntime "runtime.GOARCH" false false KJInitOnly;
  mk_centry "x/oracle/types" "registerError" CkSync "atomic.AddUint32" false false KJInitOnly;
  mk_centry "x/common" "TryCatch" CkRuntime "debug.Stack" false false KJErrorText
].

Definition conc_matches (s : conc_site) (e : conc_entry) : bool :=
  String.eqb (k_pkg s) (ce_pkg e) && (String.eqb (ce_fn e) "" || String.eqb (k_fn s) (ce_fn e)) &&
  conc_kind_eqb (k_kind s) (ce_kind e) && String.eqb (k_what s) (ce_what e) &&
  Bool.eqb (k_in_go s) (ce_in_go e) && Bool.eqb (k_in_select s) (ce_in_select e).

Definition conc_okb (s : conc_site) : bool :=
  match k_scope s with
  | ScopeTooling => true
  | ScopeConsensus => existsb (conc_matches s) conc_table
  end.

Theorem conc_table_justified : Forall (fun e => conc_just_statement (ce_just e)) conc_table.
Proof. apply Forall_forall. intros e _. apply conc_just_proved. Qed.

(* ------------------------------------------------------------------ process-local mutable state *)

(** Consensus results must be a function of the store and the block alone.  A package-level map that no function writes
    after package initialisation is a constant table.  Every OTHER process-local container reachable from a long-lived
    object must be listed here with the reason why block execution cannot observe a node-specific value in it. *)
Inductive ps_just :=
| PSStartup      (* filled while the app object is constructed, identically on every node, never written afterwards *)
| PSTxScoped.    (* created at the start of a transaction and dropped at its end (not carried across txs / blocks / queries: C09) *)

Definition ps_table : list (string * string * string * ps_just) := [
  ("app", "NibiruApp", "keys", PSStartup);
  ("x/evm/keeper", "Keeper", "precompiles", PSStartup);          (* AddPrecompiles at construction; registry order: add_precompiles_deterministic *)
  ("x/evm/keeper", "NibiruBankKeeper", "StateDB", PSTxScoped)    (* the per-transaction StateDB pointer (subject of C09) *)
].

Definition ps_okb (p : pstate) : bool :=
  match p_scope p with
  | ScopeTooling => true
  | ScopeConsensus =>
      (String.eqb (p_owner p) "<package>" && negb (p_written p) &&
       match p_kind p with PSMap => true | _ => false end) ||
      existsb (fun e => let '(pkg, owner, field, _) := e in
                        String.eqb (p_pkg p) pkg && String.eqb (p_owner p) owner && String.eqb (p_field p) field) ps_table
  end.
