(** C01 — the hand-maintained classification of every map-ranging site of the consensus code.

    For every site the generator reports (Gen/C01Facts.v) this table holds the EXPECTED syntactic shape,
    the expected callees of the loop body and the reason why the iteration order cannot reach
    consensus state ([just]).  Every [just] that is a mathematical claim comes with a PROVED lemma of
    the matching shape ([just_statement], [just_proved]).  [site_ok] fails — and with it the
    obligation [every_map_site_classified] in Gen/C01Oblig.v — when
      - a site appears that the table does not know (a new `for k := range someMap`),
      - the body of a known site changes shape (a sort is dropped: SynCollectSorted -> SynCollectUnsorted),
      - a known body starts calling something else (e.g. a store write is added).  *)
From Coq Require Import List Bool Arith ZArith String Permutation.
Import ListNotations.
Require Import Nib.C01.Sites Nib.C01.Model Nib.C01.PermSort Nib.C01.Proofs.
Local Open Scope string_scope.

Inductive just :=
| JSorted      (* keys collected, sorted, THEN used *)
| JBuildMap    (* body only inserts / deletes entries of another map or set keyed by what it visits *)
| JUnique      (* search with at most one match *)
| JSum         (* commutative accumulation *)
| JKeyed       (* one effect per visited key on pairwise disjoint store keys / registries *)
| JViaUses     (* the order escapes to the callers: every caller is classified separately (ToSlice uses) *)
| JLogOnly     (* reaches only events / log text: not part of app hash, tx results or validator updates *)
| JDebug.      (* debugging helper without callers in block execution *)

(** the order-independence lemma behind each class (over the model's representation of maps) *)
Definition just_statement (j : just) : Prop :=
  match j with
  | JSorted => forall l l' : list Z, Permutation l l' -> isort l = isort l'
  | JBuildMap =>
      (forall (g : Z -> Z) (l l' : list Z) (m : kv Z), Permutation l l' ->
         fold_left (fun m k => kv_set k (g k) m) l m = fold_left (fun m k => kv_set k (g k) m) l' m) /\
      (forall (l l' : list Z) (s : list Z), Permutation l l' ->
         fold_left (fun s k => zset_add k s) l s = fold_left (fun s k => zset_add k s) l' s) /\
      (forall (p : Z -> bool) (l l' : list Z) (m : kv Z), Permutation l l' ->
         fold_left (fun m k => if p k then kv_del k m else m) l m =
         fold_left (fun m k => if p k then kv_del k m else m) l' m)
  | JUnique => forall (p : Z -> bool) (l l' : list Z), Permutation l l' ->
      (forall x y, In x l -> In y l -> p x = true -> p y = true -> x = y) -> find p l = find p l'
  | JSum => forall (w : Z -> Z) (l l' : list Z) (acc : Z), Permutation l l' ->
      fold_left (fun acc k => (acc + w k)%Z) l acc = fold_left (fun acc k => (acc + w k)%Z) l' acc
  | JKeyed => forall (f : Z -> option Z -> option Z) (l l' : list Z) (m : kv Z), Permutation l l' ->
      fold_left (fun m k => kv_adjust k (f k) m) l m = fold_left (fun m k => kv_adjust k (f k) m) l' m
  | JViaUses | JLogOnly | JDebug => True
  end.

Theorem just_proved : forall j, just_statement j.
Proof.
  destruct j; simpl; auto.
  - exact isort_perm_eq.
  - split; [|split].
    + intros; apply build_map_fold_perm; auto.
    + intros; apply build_set_fold_perm; auto.
    + intros; apply delete_fold_perm; auto.
  - intros; apply find_unique_perm; auto.
  - intros; apply sum_fold_perm; auto.
  - intros; apply keyed_fold_perm; auto.
Qed.

(** which syntactic shapes a justification may be attached to *)
Definition compatible (sy : syn) (j : just) : bool :=
  match j, sy with
  | JSorted, SynCollectSorted => true
  | JBuildMap, SynBuildMap => true
  | JUnique, SynLookup => true
  | JSum, SynAccum => true
  | JKeyed, (SynEffect | SynBuildMap) => true
  | JViaUses, SynCollectUnsorted => true
  | JLogOnly, (SynLookup | SynEffect) => true
  | JDebug, _ => true
  | _, _ => false
  end.

Record entry := mk_entry {
  e_pkg : string; e_fn : string; e_ord : nat; e_syn : syn; e_calls : list string; e_just : just }.

(** The table.  One line per `for … range <map>` of the consensus-scope packages. *)
Definition table : list entry := [
  (* app wiring (runs at start-up, identical on every node; the results are maps / keyed registrations) *)
  mk_entry "app" "BlockedAddresses" 0 SynBuildMap ["authtypes.NewModuleAddress"; "authtypes.NewModuleAddress().String"] JBuildMap;
  mk_entry "app" "NewNibiruApp" 0 SynEffect ["_.RegisterStores"; "panic"] JKeyed;        (* one store mounted per key *)
  mk_entry "app" "NewNibiruApp" 1 SynBuildMap ["delete"] JBuildMap;
  mk_entry "app" "NibiruApp.ModuleAccountAddrs" 0 SynBuildMap ["authtypes.NewModuleAddress"; "authtypes.NewModuleAddress().String"] JBuildMap;
  mk_entry "eth/eip712" "sortedJSONKeys" 0 SynCollectSorted [] JSorted;
  (* asset registry: sets *)
  mk_entry "x/common/asset" "registry.BaseDenoms" 0 SynBuildMap ["_.Add"] JBuildMap;
  mk_entry "x/common/asset" "registry.Pair" 0 SynLookup ["NewPair"] JUnique;              (* q == quote: keys of a map are unique *)
  mk_entry "x/common/asset" "registry.QuoteDenoms" 0 SynBuildMap ["_.Add"] JBuildMap;
  mk_entry "x/common/asset" "registry.QuoteDenoms" 1 SynBuildMap ["_.Add"] JBuildMap;
  (* omap *)
  mk_entry "x/common/omap" "SortedMap.Data" 0 SynBuildMap [] JBuildMap;
  mk_entry "x/common/omap" "SortedMap.Union" 0 SynBuildMap [] JBuildMap;
  mk_entry "x/common/omap" "SortedMap.ensureOrder" 0 SynCollectSorted [] JSorted;
  (* set: the one place where map order leaves a function; its callers are in [ts_table] *)
  mk_entry "x/common/set" "Set.ToSlice" 0 SynCollectUnsorted [] JViaUses;
  (* evm *)
  mk_entry "x/evm/evmmodule" "ProvideNibiruBankModule" 0 SynBuildMap ["_.GetAddress"; "_.GetAddress().String"] JBuildMap;
  mk_entry "x/evm/keeper" "Keeper.AddPrecompiles" 0 SynEffect ["_.precompiles.Set"] JKeyed;   (* om_set steps commute: add_precompiles_deterministic *)
  mk_entry "x/evm/precompile" "InitPrecompiles" 0 SynBuildMap [] JBuildMap;
  mk_entry "x/evm/precompile" "methodById" 0 SynLookup ["bytes.Equal"] JUnique;              (* method_by_id_deterministic *)
  mk_entry "x/evm/statedb" "PrecompileCalled.Revert" 0 SynBuildMap [] JBuildMap;
  mk_entry "x/evm/statedb" "PrecompileCalled.Revert" 1 SynBuildMap ["delete"] JBuildMap;
  mk_entry "x/evm/statedb" "StateDB.CacheCtxForPrecompile" 0 SynBuildMap [] JBuildMap;
  mk_entry "x/evm/statedb" "StateDB.CacheCtxForPrecompile" 1 SynBuildMap [] JBuildMap;
  mk_entry "x/evm/statedb" "StateDB.DebugDirtiesCount" 0 SynAccum [] JSum;
  mk_entry "x/evm/statedb" "StateDB.DebugStateObjects" 0 SynBuildMap [] JDebug;
  mk_entry "x/evm/statedb" "Storage.SortedKeys" 0 SynCollectSorted [] JSorted;             (* commit_deterministic *)
  mk_entry "x/evm/statedb" "journal.sortedDirties" 0 SynCollectSorted [] JSorted;          (* commit_deterministic *)
  (* oracle EndBlock *)
  mk_entry "x/oracle/keeper" "Keeper.UpdateExchangeRates" 0 SynEffect
    ["_.EventManager"; "_.EventManager().EmitTypedEvent"; "_.ValAddress.String"] JLogOnly;   (* EndBlock events, in map order *)
  mk_entry "x/oracle/keeper" "Keeper.incrementAbstainsByOmission" 0 SynBuildMap [] JKeyed;  (* abstain_by_omission_deterministic *)
  mk_entry "x/oracle/keeper" "Keeper.incrementMissCounters" 0 SynEffect
    ["_.MissCounters.GetOr"; "_.MissCounters.Insert"; "_.ValAddress.String"] JKeyed;  (* incr_miss_deterministic *)
  mk_entry "x/oracle/keeper" "Keeper.rewardWinners" 0 SynEffect
    ["_.Add"; "_.MulDec"; "_.MulDec().TruncateDecimal"; "_.StakingKeeper.Validator"; "_.distrKeeper.AllocateTokensToValidator";
     "math.LegacyNewDec"; "math.LegacyNewDec().QuoInt64"; "sdk.NewDecCoinsFromCoins"] JKeyed;                      (* reward_winners_deterministic *)
  mk_entry "x/oracle/types" "ValidatorPerformances.TotalRewardWeight" 0 SynAccum [] JSum    (* total_weight_deterministic *)
].

Definition entry_matches (s : site) (e : entry) : bool :=
  String.eqb (s_pkg s) (e_pkg e) && String.eqb (s_fn s) (e_fn e) && Nat.eqb (s_ord s) (e_ord e) &&
  syn_eqb (s_syn s) (e_syn e) && strs_eqb (s_calls s) (e_calls e) && compatible (e_syn e) (e_just e).

(** a site is fine when it lives in tooling (rpc / cli / test helpers), or the table knows exactly it *)
Definition site_okb (s : site) : bool :=
  match s_scope s with
  | ScopeTooling => true
  | ScopeConsensus => existsb (entry_matches s) table
  end.

Definition site_ok (s : site) : Prop := site_okb s = true.

(** a table line that no site matches any more is stale (a site was removed or renamed) *)
Definition entry_liveb (sites : list site) (e : entry) : bool :=
  existsb (fun s => scope_eqb (s_scope s) ScopeConsensus && entry_matches s e) sites.

(** every entry is attached to a shape its lemma speaks about *)
Theorem table_wellformed : forallb (fun e => compatible (e_syn e) (e_just e)) table = true.
Proof. vm_compute. reflexivity. Qed.

(** every entry's justification is a proved statement *)
Theorem table_justified : Forall (fun e => just_statement (e_just e)) table.
Proof. apply Forall_forall. intros e _. apply just_proved. Qed.

(* ------------------------------------------------------------------ uses of set.Set.ToSlice *)

(** [UseLen]: the length of a permutation; [UseSorted]: the sort of a permutation *)
Theorem use_len_order_independent (l l' : list Z) : Permutation l l' -> List.length l = List.length l'.
Proof. apply Permutation_length. Qed.

Theorem use_sorted_order_independent (l l' : list Z) : Permutation l l' -> isort l = isort l'.
Proof. apply isort_perm_eq. Qed.

(** message-text uses that are accepted in consensus packages (the text of an error / log line is not
    part of ResponseDeliverTx{Code,Data,GasWanted,GasUsed}) — listed one by one *)
Definition ts_message_uses : list (string * string * nat) := [
  ("x/sudo/types", "MsgEditSudoers.ValidateBasic", 0%nat)
].

Definition ts_use_okb (u : ts_use) : bool :=
  match t_scope u with
  | ScopeTooling => true
  | ScopeConsensus =>
      match t_kind u with
      | UseLen | UseSorted => true
      | UseMessageText =>
          existsb (fun e => String.eqb (t_pkg u) (fst (fst e)) && String.eqb (t_fn u) (snd (fst e)) && Nat.eqb (t_ord u) (snd e))
            ts_message_uses
      | UseRanged | UseEscapes => false
      end
  end.

(* ------------------------------------------------------------------ time.Now / math/rand / go statements *)

Inductive inc_just :=
| ITelemetry     (* argument of a telemetry call *)
| IOrderedChan   (* omap.Range: one producer goroutine, unbuffered channel, keys sent in sorted order *)
| IQueryOnly     (* gRPC query handler *)
| ITestHelper.   (* test fixture compiled into a non-test file *)

Definition inc_table : list (string * string * string * nat * inc_kind * bool * inc_just) := [
  ("x/common/omap", "omap.go", "SortedMap.Range", 0%nat, IncGoFunc, false, IOrderedChan);
  ("x/epochs", "abci.go", "BeginBlocker", 0%nat, IncTimeNow, true, ITelemetry);
  ("x/oracle", "abci.go", "EndBlocker", 0%nat, IncTimeNow, true, ITelemetry);
  ("x/evm/keeper", "grpc_query.go", "Keeper.TraceEthTxMsg", 0%nat, IncGoFunc, false, IQueryOnly);
  ("x/oracle/keeper", "test_utils.go", "CreateTestFixture", 0%nat, IncTimeNow, false, ITestHelper);
  ("x/oracle/types", "test_utils.go", "GenerateRandomTestCase", 0%nat, IncMathRand, false, ITestHelper);
  ("x/oracle/types", "test_utils.go", "GenerateRandomTestCase", 1%nat, IncMathRand, false, ITestHelper);
  ("x/oracle/types", "test_utils.go", "GenerateRandomTestCase", 2%nat, IncMathRand, false, ITestHelper);
  ("x/oracle/types", "test_utils.go", "GenerateRandomTestCase", 3%nat, IncMathRand, false, ITestHelper);
  ("x/oracle/types", "test_utils.go", "GenerateRandomTestCase", 0%nat, IncTimeNow, false, ITestHelper)
].

Definition inc_matches (i : inc_site) (e : string * string * string * nat * inc_kind * bool * inc_just) : bool :=
  let '(pkg, file, fn, ord, kind, tele, j) := e in
  String.eqb (i_pkg i) pkg && String.eqb (i_file i) file && String.eqb (i_fn i) fn && Nat.eqb (i_ord i) ord &&
  inc_kind_eqb (i_kind i) kind && Bool.eqb (i_tele i) tele &&
  (* a telemetry justification needs the telemetry flag *)
  match j with ITelemetry => tele | _ => true end.

Definition inc_okb (i : inc_site) : bool :=
  match i_scope i with
  | ScopeTooling => true
  | ScopeConsensus => existsb (inc_matches i) inc_table
  end.
