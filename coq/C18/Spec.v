(** C18 — the property over what ONE transaction does to balances and to the fee-share registry,
    as a Prop [P_tx] and as a boolean checker [Pb_tx] (evaluated on implementation traces), with
    [Pb_tx_sound : Pb_tx … = true -> P_tx …].

    Inputs of the predicate: the environment (fee collector, gov address), the x/devgas params, the
    wasm contract infos, the registry BEFORE the tx (as a lookup function), the tx (signer, fee,
    messages), and the observation: class (0 delivered / 1 rejected by ante / 2 messages failed),
    balance deltas [D a d] of the tx, registry AFTER the tx, and the contracts in scope. *)
From Coq Require Import ZArith List Bool Arith Lia.
Import ListNotations.
Require Import Nib.Lib.Dec Nib.C18.Model.
Local Open Scope Z_scope.

(** the fee amount of denom [d] that takes part in fee sharing *)
Definition allowed_amount (p : params) (fee : coins) (d : denom) : Z :=
  if is_nil (p_allowed p) || mem d (p_allowed p) then amount_of fee d else 0.

(** balance change of account [a] in denom [d] when every recipient occurrence is paid [q d]
    out of the fee collector and the signer pays the fee into it *)
Definition pay_formula (E : env) (t : txin) (rc : list addr) (q : denom -> Z) (a : addr) (d : denom) : Z :=
  Z.of_nat (count a rc) * q d
  - (if Nat.eqb a (t_signer t) then amount_of (t_fee t) d else 0)
  + (if Nat.eqb a (e_collector E) then amount_of (t_fee t) d - Z.of_nat (length rc) * q d else 0).

(** Payout part.  [rc] = withdrawers of the registered contracts executed at top level (with
    multiplicity), empty when fee sharing is disabled.
    - every account's delta is given by [pay_formula] for ONE per-recipient amount [q d] per denom:
      equal split, only registered withdrawers (and nobody else) gain, the collector's delta is
      fee − n·q (conservation), nothing is paid when [rc] is empty;
    - n·q d ≤ DeveloperShares × (fee in allowed denom d) + n   (one base unit per recipient and denom);
    - nothing is paid in a denom that is not allowed or not part of the fee;
    - n·q d ≤ (the tx's own fee in d) + n: bounded by the paying tx's fee whatever the share is. *)
Definition P_pay (E : env) (p : params) (rl : addr -> option share_entry) (t : txin)
           (D : addr -> denom -> Z) : Prop :=
  let rc := eff_recipients p rl (t_msgs t) in
  ~ In (e_collector E) rc /\
  exists q : denom -> Z,
    (forall d, 0 <= q d) /\
    (forall a d, D a d = pay_formula E t rc q a d) /\
    (forall d, PREC * (Z.of_nat (length rc) * q d)
               <= p_share p * allowed_amount p (t_fee t) d + Z.of_nat (length rc) * PREC) /\
    (forall d, allowed_amount p (t_fee t) d = 0 -> q d = 0) /\
    (forall d, Z.of_nat (length rc) * q d <= amount_of (t_fee t) d + Z.of_nat (length rc)).

(** who may change the registry entry of contract [c] from [before] to [after] *)
Definition self_entry (c : addr) : share_entry := {| fs_deployer := c; fs_withdrawer := c |}.

Definition auth_change (E : env) (W : wasm) (s c : addr) (before after : option share_entry) : Prop :=
  exists info, wasm_lookup W c = Some info /\
    (admin_or_creator info s = true \/
     (factory E W info s = true /\ before = None /\ after = Some (self_entry c))).

Definition P_reg (E : env) (W : wasm) (t : txin) (class : nat)
           (rb ra : addr -> option share_entry) (scope : list addr) : Prop :=
  forall c, In c scope -> ra c <> rb c -> class = 0%nat /\ auth_change E W (t_signer t) c (rb c) (ra c).

Definition P_tx (E : env) (p : params) (W : wasm) (rb : addr -> option share_entry) (t : txin)
           (class : nat) (D : addr -> denom -> Z) (ra : addr -> option share_entry) (scope : list addr) : Prop :=
  if Nat.eqb class 1
  then (forall a d, D a d = 0) /\ (forall c, In c scope -> ra c = rb c)
  else P_pay E p rb t D /\ P_reg E W t class rb ra scope.

(* -------------------------------------------------------------------- parameters with the same meaning *)

(** is denom [d] one that takes part in fee sharing under [p] *)
Definition allows (p : params) (d : denom) : bool := is_nil (p_allowed p) || mem d (p_allowed p).

(** Two parameter values mean the same to the property: same switch, same share, the same denoms
    allowed (the spelling of AllowedDenoms — order, repeats — is irrelevant).  What
    ModuleParams.Sanitize may do to a valid value without breaking the property. *)
Definition params_same (p q : params) : Prop :=
  p_enabled p = p_enabled q /\ p_share p = p_share q /\ forall d, allows p d = allows q d.

Lemma params_same_refl p : params_same p p.
Proof. repeat split. Qed.

Lemma params_same_sym p q : params_same p q -> params_same q p.
Proof. intros (H1 & H2 & H3). repeat split; auto. Qed.

Lemma params_same_trans p q r : params_same p q -> params_same q r -> params_same p r.
Proof.
  intros (H1 & H2 & H3) (K1 & K2 & K3). split; [congruence|]. split; [congruence|].
  intro d. rewrite H3. apply K3.
Qed.

Lemma allowed_amount_same p q fee d : params_same p q -> allowed_amount p fee d = allowed_amount q fee d.
Proof. intros (_ & _ & H). unfold allowed_amount. specialize (H d). unfold allows in H. rewrite H. reflexivity. Qed.

Lemma eff_recipients_same p q rl ms : params_same p q -> eff_recipients p rl ms = eff_recipients q rl ms.
Proof. intros (H & _ & _). unfold eff_recipients. rewrite H. reflexivity. Qed.

(** the property read against [p] is the property read against any [q] with the same meaning *)
Lemma P_pay_same E p q rl t D : params_same p q -> P_pay E p rl t D -> P_pay E q rl t D.
Proof.
  intros Hs. unfold P_pay. cbv zeta.
  rewrite <- (eff_recipients_same p q rl (t_msgs t) Hs).
  intros [Hc (qq & H0 & H1 & H2 & H3 & H4)]. split; [exact Hc|].
  exists qq. destruct Hs as (He & Hsh & Hal).
  assert (Ha : forall d, allowed_amount q (t_fee t) d = allowed_amount p (t_fee t) d).
  { intro d. symmetry. apply allowed_amount_same. repeat split; auto. }
  split; [exact H0|]. split; [exact H1|]. split; [|split].
  - intro d. rewrite <- Hsh, Ha. apply H2.
  - intro d. rewrite Ha. apply H3.
  - exact H4.
Qed.

Lemma P_tx_same E p q W rb t class D ra scope :
  params_same p q -> P_tx E p W rb t class D ra scope -> P_tx E q W rb t class D ra scope.
Proof.
  intro Hs. unfold P_tx. destruct (Nat.eqb class 1); [auto|].
  intros [H1 H2]. split; [eapply P_pay_same; eassumption|exact H2].
Qed.

(* -------------------------------------------------------------------- boolean checker *)

Definition table := list ((addr * denom) * Z).

Fixpoint tlookup (tb : table) (a : addr) (d : denom) : Z :=
  match tb with
  | [] => 0
  | ((a', d'), z) :: r => if Nat.eqb a' a && Nat.eqb d' d then z else tlookup r a d
  end.

Definition entry_eqb (x y : share_entry) : bool :=
  Nat.eqb (fs_deployer x) (fs_deployer y) && Nat.eqb (fs_withdrawer x) (fs_withdrawer y).

Definition oentry_eqb (x y : option share_entry) : bool :=
  match x, y with
  | None, None => true
  | Some a, Some b => entry_eqb a b
  | _, _ => false
  end.

Definition q_of (E : env) (t : txin) (n : nat) (dl : table) (d : denom) : Z :=
  match n with
  | O => 0
  | _ => (amount_of (t_fee t) d - tlookup dl (e_collector E) d) / Z.of_nat n
  end.

Definition Pb_pay (E : env) (p : params) (rl : addr -> option share_entry) (t : txin) (dl : table) : bool :=
  let rc := eff_recipients p rl (t_msgs t) in
  let n := length rc in
  let q := q_of E t n dl in
  let Ua := t_signer t :: e_collector E :: rc ++ map (fun e => fst (fst e)) dl in
  let Ud := map fst (t_fee t) ++ map (fun e => snd (fst e)) dl in
  negb (mem (e_collector E) rc) &&
  forallb (fun d =>
             Z.leb 0 (q d) &&
             Z.leb (PREC * (Z.of_nat n * q d)) (p_share p * allowed_amount p (t_fee t) d + Z.of_nat n * PREC) &&
             (negb (Z.eqb (allowed_amount p (t_fee t) d) 0) || Z.eqb (q d) 0) &&
             Z.leb (Z.of_nat n * q d) (amount_of (t_fee t) d + Z.of_nat n) &&
             forallb (fun a => Z.eqb (tlookup dl a d) (pay_formula E t rc q a d)) Ua) Ud.

Definition auth_change_b (E : env) (W : wasm) (s c : addr) (before after : option share_entry) : bool :=
  match wasm_lookup W c with
  | None => false
  | Some info =>
      admin_or_creator info s ||
      (factory E W info s && oentry_eqb before None && oentry_eqb after (Some (self_entry c)))
  end.

Definition Pb_reg (E : env) (W : wasm) (t : txin) (class : nat)
           (rb ra : addr -> option share_entry) (scope : list addr) : bool :=
  forallb (fun c => oentry_eqb (ra c) (rb c) ||
                    (Nat.eqb class 0 && auth_change_b E W (t_signer t) c (rb c) (ra c))) scope.

Definition Pb_tx (E : env) (p : params) (W : wasm) (rb : addr -> option share_entry) (t : txin)
           (class : nat) (dl : table) (ra : addr -> option share_entry) (scope : list addr) : bool :=
  if Nat.eqb class 1
  then forallb (fun e => Z.eqb (snd e) 0) dl && forallb (fun c => oentry_eqb (ra c) (rb c)) scope
  else Pb_pay E p rb t dl && Pb_reg E W t class rb ra scope.

(* -------------------------------------------------------------------- soundness of the checker *)

Lemma mem_In x l : mem x l = true <-> In x l.
Proof.
  induction l as [|y l IH]; simpl; [split; [discriminate|tauto]|].
  rewrite orb_true_iff, Nat.eqb_eq, IH. tauto.
Qed.

Lemma mem_false_notin x l : mem x l = false <-> ~ In x l.
Proof. rewrite <- mem_In. destruct (mem x l); split; congruence. Qed.

Lemma count_notin x l : ~ In x l -> count x l = O.
Proof.
  induction l as [|y l IH]; simpl; auto. intro H.
  destruct (Nat.eqb_spec y x); [exfalso; apply H; auto|]. apply IH. tauto.
Qed.

Lemma tlookup_notin_a tb a d : ~ In a (map (fun e => fst (fst e)) tb) -> tlookup tb a d = 0.
Proof.
  induction tb as [|[[a' d'] z] tb IH]; simpl; auto. intro H.
  destruct (Nat.eqb_spec a' a); [exfalso; apply H; auto|]. simpl. apply IH. tauto.
Qed.

Lemma tlookup_notin_d tb a d : ~ In d (map (fun e => snd (fst e)) tb) -> tlookup tb a d = 0.
Proof.
  induction tb as [|[[a' d'] z] tb IH]; simpl; auto. intro H.
  destruct (Nat.eqb_spec d' d); [exfalso; apply H; auto|]. rewrite andb_false_r. apply IH. tauto.
Qed.

Lemma tlookup_all_zero tb : forallb (fun e => Z.eqb (snd e) 0) tb = true -> forall a d, tlookup tb a d = 0.
Proof.
  induction tb as [|[[a' d'] z] tb IH]; simpl; auto. intros H a d.
  apply andb_true_iff in H as [H1 H2]. apply Z.eqb_eq in H1.
  destruct (Nat.eqb a' a && Nat.eqb d' d); auto.
Qed.

Lemma amount_of_notin cs d : ~ In d (map fst cs) -> amount_of cs d = 0.
Proof.
  induction cs as [|[d' a] cs IH]; simpl; auto. intro H.
  destruct (Nat.eqb_spec d' d); [exfalso; apply H; auto|]. apply IH. tauto.
Qed.

Lemma entry_eqb_eq x y : entry_eqb x y = true -> x = y.
Proof.
  destruct x, y. unfold entry_eqb. simpl. intro H. apply andb_true_iff in H as [H1 H2].
  apply Nat.eqb_eq in H1, H2. subst. reflexivity.
Qed.

Lemma oentry_eqb_eq x y : oentry_eqb x y = true -> x = y.
Proof.
  destruct x, y; simpl; intro H; try discriminate; auto. f_equal. apply entry_eqb_eq. exact H.
Qed.

Lemma allowed_amount_zero p fee d : amount_of fee d = 0 -> allowed_amount p fee d = 0.
Proof. unfold allowed_amount. intro H. destruct (_ || _); auto. Qed.

Lemma Pb_pay_sound E p rl t dl : Pb_pay E p rl t dl = true -> P_pay E p rl t (tlookup dl).
Proof.
  unfold Pb_pay, P_pay. cbv zeta.
  set (rc := eff_recipients p rl (t_msgs t)).
  set (n := length rc). set (q := q_of E t n dl).
  set (Ua := t_signer t :: e_collector E :: rc ++ map (fun e => fst (fst e)) dl).
  set (Ud := map fst (t_fee t) ++ map (fun e => snd (fst e)) dl).
  intro H. apply andb_true_iff in H as [Hc H].
  split. { apply mem_false_notin. destruct (mem (e_collector E) rc); [discriminate|reflexivity]. }
  rewrite forallb_forall in H.
  assert (Hout : forall d, ~ In d Ud -> amount_of (t_fee t) d = 0 /\ (forall a, tlookup dl a d = 0) /\ q d = 0).
  { intros d Hd. unfold Ud in Hd. rewrite in_app_iff in Hd.
    assert (H1 : amount_of (t_fee t) d = 0) by (apply amount_of_notin; tauto).
    assert (H2 : forall a, tlookup dl a d = 0) by (intro a; apply tlookup_notin_d; tauto).
    split; [exact H1|]. split; [exact H2|].
    unfold q, q_of. destruct n; [reflexivity|]. rewrite H1, H2. reflexivity. }
  exists q. split; [|split; [|split; [|split]]].
  - intro d. destruct (in_dec Nat.eq_dec d Ud) as [Hd|Hd].
    + specialize (H d Hd). repeat (apply andb_true_iff in H as [H ?]). apply Z.leb_le. exact H.
    + destruct (Hout d Hd) as (_ & _ & Hq). rewrite Hq. lia.
  - intros a d. destruct (in_dec Nat.eq_dec d Ud) as [Hd|Hd].
    + specialize (H d Hd). apply andb_true_iff in H as [_ H]. rewrite forallb_forall in H.
      destruct (in_dec Nat.eq_dec a Ua) as [Ha|Ha].
      * apply Z.eqb_eq. apply H. exact Ha.
      * unfold Ua in Ha. simpl in Ha. rewrite in_app_iff in Ha.
        rewrite tlookup_notin_a by tauto. unfold pay_formula.
        rewrite count_notin by tauto.
        destruct (Nat.eqb_spec a (t_signer t)); [exfalso; apply Ha; auto|].
        destruct (Nat.eqb_spec a (e_collector E)); [exfalso; apply Ha; auto|]. lia.
    + destruct (Hout d Hd) as (Hf & Hl & Hq). rewrite Hl. unfold pay_formula. rewrite Hq, Hf.
      destruct (Nat.eqb a (t_signer t)), (Nat.eqb a (e_collector E)); lia.
  - intro d. destruct (in_dec Nat.eq_dec d Ud) as [Hd|Hd].
    + specialize (H d Hd). repeat (apply andb_true_iff in H as [H ?]). apply Z.leb_le. assumption.
    + destruct (Hout d Hd) as (Hf & _ & Hq). rewrite Hq, (allowed_amount_zero p _ d Hf).
      assert (0 <= Z.of_nat n * PREC) by (unfold PREC; lia). lia.
  - intros d Ha. destruct (in_dec Nat.eq_dec d Ud) as [Hd|Hd].
    + specialize (H d Hd). repeat (apply andb_true_iff in H as [H ?]).
      match goal with X : negb _ || _ = true |- _ => apply orb_true_iff in X as [X|X] end.
      * rewrite Ha in *. discriminate.
      * apply Z.eqb_eq. assumption.
    + apply (Hout d Hd).
  - intro d. destruct (in_dec Nat.eq_dec d Ud) as [Hd|Hd].
    + specialize (H d Hd). repeat (apply andb_true_iff in H as [H ?]). apply Z.leb_le. assumption.
    + destruct (Hout d Hd) as (Hf & _ & Hq). rewrite Hq, Hf. lia.
Qed.

Lemma auth_change_b_sound E W s c b a : auth_change_b E W s c b a = true -> auth_change E W s c b a.
Proof.
  unfold auth_change_b, auth_change. destruct (wasm_lookup W c) as [info|]; [|discriminate].
  intro H. exists info. split; [reflexivity|].
  apply orb_true_iff in H as [H|H]; [left; exact H|right].
  apply andb_true_iff in H as [H H3]. apply andb_true_iff in H as [H1 H2].
  apply oentry_eqb_eq in H2, H3. auto.
Qed.

Lemma Pb_reg_sound E W t class rb ra scope : Pb_reg E W t class rb ra scope = true -> P_reg E W t class rb ra scope.
Proof.
  unfold Pb_reg, P_reg. rewrite forallb_forall. intros H c Hc Hne. specialize (H c Hc).
  apply orb_true_iff in H as [H|H]; [apply oentry_eqb_eq in H; contradiction|].
  apply andb_true_iff in H as [H1 H2]. apply Nat.eqb_eq in H1. split; [exact H1|].
  apply auth_change_b_sound. exact H2.
Qed.

Theorem Pb_tx_sound E p W rb t class dl ra scope :
  Pb_tx E p W rb t class dl ra scope = true -> P_tx E p W rb t class (tlookup dl) ra scope.
Proof.
  unfold Pb_tx, P_tx. destruct (Nat.eqb class 1); intro H; apply andb_true_iff in H as [H1 H2].
  - split; [apply tlookup_all_zero; exact H1|].
    rewrite forallb_forall in H2. intros c Hc. apply oentry_eqb_eq. apply H2. exact Hc.
  - split; [apply Pb_pay_sound; exact H1|apply Pb_reg_sound; exact H2].
Qed.
