(** C18 — dev-gas payouts are bounded by the paying tx's fee and go to registered owners.
    This file holds only the exported statements. *)
From Coq Require Import ZArith List Bool Arith.
Import ListNotations.
Require Import Nib.Lib.Dec Nib.C18.Model Nib.C18.Spec Nib.C18.Proofs.
Local Open Scope Z_scope.

(** Rounding bound of FeePayLogic, for ALL shares, amounts and recipient counts:
    with 0 ≤ share, 0 ≤ amount, n ≥ 1 and per = RoundInt(QuoInt64(MulInt(share, amount), n)):
      per ≥ 0,   n·per ≤ share·amount + n/2,   n·per > share·amount − n/2 − n·10^-18
    (all in units of 10^-18: [PREC] = 10^18, [HALF] = PREC/2). *)
Theorem C18_payout_bound :
  forall (share amount : Z) (n : nat), 0 <= share -> 0 <= amount -> (0 < n)%nat ->
  0 <= per_recipient share amount n /\
  PREC * (Z.of_nat n * per_recipient share amount n) <= share * amount + Z.of_nat n * HALF /\
  share * amount - Z.of_nat n * HALF - Z.of_nat n < PREC * (Z.of_nat n * per_recipient share amount n).
Proof. exact per_recipient_bounds. Qed.
Print Assumptions C18_payout_bound.

(** Hence with DeveloperShares ≤ 1 the n recipients together get at most amount + n/2 — the total
    can exceed the fee by half a base unit per recipient and denom (e.g. fee 3, two recipients:
    2 + 2), which is inside the "one base unit per recipient and denom" the property allows. *)
Theorem C18_payout_at_most_fee_plus_half_unit_each :
  forall (share amount : Z) (n : nat), 0 <= share <= PREC -> 0 <= amount -> (0 < n)%nat ->
  2 * (Z.of_nat n * per_recipient share amount n) <= 2 * amount + Z.of_nat n.
Proof. exact per_recipient_share_le_one. Qed.
Print Assumptions C18_payout_at_most_fee_plus_half_unit_each.

(** The whole property for one transaction, for EVERY state and transaction: whatever the
    registry, contract infos, balances, fee coins, messages, AllowedDenoms list (repeats included)
    and whatever parameter value was last set (every valid corner: disabled with share 0 and no
    denom list, enabled with share 0 or 1, …) — if the fee collector is a blocked address,
    getAllowedFees counts a coin once, ModuleParams.Sanitize keeps the meaning of valid values
    (three generated facts: [env_ok]), the parameters AS SET by the last accepted MsgUpdateParams /
    genesis are valid and the stored item means the same ([store_ok], an invariant of histories)
    and fee amounts are non-negative, the model's transition — which reads the parameters the way
    the keeper does, through Sanitize of the stored item — satisfies [P_tx] (Spec.v) AGAINST THE
    PARAMETERS AS SET: payouts only to the registered withdrawers of top-level executes, equal
    split, total ≤ share × allowed fee + n, nothing in other denoms, nothing when disabled / nobody
    registered, collector delta = fee − payouts, rejected txs change nothing, and registry changes
    only by the admin (creator when there is no admin) or as a factory contract's
    self-registration. *)
Theorem C18_tx_satisfies_property :
  forall (E : env) (st : state) (t : txin) (scope : list addr),
  env_ok E -> store_ok st -> fee_ok (t_fee t) ->
  P_tx E (s_params st) (s_wasm st) (reg_lookup (s_reg st)) t
       (x_class (snd (step_tx E st t))) (delta st (fst (step_tx E st t)))
       (reg_lookup (s_reg (fst (step_tx E st t)))) scope.
Proof. exact tx_satisfies_property. Qed.
Print Assumptions C18_tx_satisfies_property.

(** … and for every transaction of every history of transactions, parameter changes by
    MsgUpdateParams and by genesis (any value; invalid ones are refused) at any point of the
    history, wasm admin changes and block boundaries. *)
Theorem C18_history_satisfies_property :
  forall (E : env) (evs : list event) (st : state),
  env_ok E -> store_ok st -> Forall event_ok evs ->
  Forall (transition_ok E) (transitions E st evs).
Proof. exact history_satisfies_property. Qed.
Print Assumptions C18_history_satisfies_property.

(** Along every such history the stored ModuleParams item keeps meaning what was last set. *)
Theorem C18_stored_params_mean_what_was_set :
  forall (E : env) (evs : list event) (st : state),
  san_ok E -> store_ok st -> store_ok (fold_left (step E) evs st).
Proof. exact history_keeps_store_ok. Qed.
Print Assumptions C18_stored_params_mean_what_was_set.

(** "Nothing is paid when fee sharing is disabled", against the parameters AS SET: while the last
    accepted update / genesis says EnableFeeShare = false — whatever else it says, share 0 and an
    empty denom list included — a transaction moves nothing but its own fee from the signer to
    the collector, and no registry message changes the registry. *)
Theorem C18_disabled_as_set_pays_nothing :
  forall (E : env) (st : state) (t : txin),
  env_ok E -> store_ok st -> fee_ok (t_fee t) -> p_enabled (s_params st) = false ->
  (forall a d, delta st (fst (step_tx E st t)) a d =
               if Nat.eqb (x_class (snd (step_tx E st t))) 1 then 0
               else (if Nat.eqb a (e_collector E) then amount_of (t_fee t) d else 0)
                    - (if Nat.eqb a (t_signer t) then amount_of (t_fee t) d else 0)) /\
  s_reg (fst (step_tx E st t)) = s_reg st.
Proof. exact disabled_as_set_pays_nothing. Qed.
Print Assumptions C18_disabled_as_set_pays_nothing.

(** The variant of ModuleParams.Sanitize that takes the all-zero value {disabled, share 0, no
    denoms} for "never written" and answers DefaultParams() does not keep the meaning of valid
    values, and the history "set everything off (by MsgUpdateParams or by genesis), execute a
    registered contract with fee 1000" pays 500 to the withdrawer while the parameters as set say
    disabled — the property is false for it; registrations stay open as well. *)
Theorem C18_all_zero_params_read_as_defaults_refuted :
  ~ san_ok env_all_zero_is_unset /\
  (forall g, exists st t st' out,
      transitions env_all_zero_is_unset ex_state (off_history g) = [(st, t, st', out)] /\
      store_ok ex_state /\ fee_ok (t_fee t) /\
      p_enabled (s_params st) = false /\ delta st st' 6%nat 2%nat = 500 /\
      ~ transition_ok env_all_zero_is_unset (st, t, st', out)) /\
  x_class (snd (step_tx env_all_zero_is_unset (step_env env_all_zero_is_unset ex_state (SetParams all_off))
                        {| t_signer := 5%nat; t_fee := []; t_msgs := [MRegister 10%nat 10%nat] |})) = 0%nat.
Proof. exact all_zero_params_read_as_defaults_refuted. Qed.
Print Assumptions C18_all_zero_params_read_as_defaults_refuted.

(** Equal split: one per-recipient amount [q d] per denom; every account other than the signer
    and the collector gains (its number of occurrences among the recipients) × q d. *)
Theorem C18_equal_split :
  forall E p R b t b', ante E p R b t = Some b' ->
  exists q : denom -> Z,
    forall a d, a <> t_signer t -> a <> e_collector E ->
      b' a d - b a d = Z.of_nat (count a (eff_recipients p (reg_lookup R) (t_msgs t))) * q d.
Proof. exact equal_split. Qed.
Print Assumptions C18_equal_split.

(** Nothing is paid when fee sharing is disabled or no top-level executed contract is registered:
    the only balance changes are the fee moving from the signer to the collector. *)
Theorem C18_nothing_when_disabled_or_unregistered :
  forall E p R b t b', ante E p R b t = Some b' ->
  p_enabled p = false \/ recipients (reg_lookup R) (t_msgs t) = [] ->
  forall a d, b' a d - b a d =
              (if Nat.eqb a (e_collector E) then amount_of (t_fee t) d else 0)
              - (if Nat.eqb a (t_signer t) then amount_of (t_fee t) d else 0).
Proof. exact nothing_when_disabled_or_unregistered. Qed.
Print Assumptions C18_nothing_when_disabled_or_unregistered.

(** Executes that are not top level (inside an authz exec; dispatched by a contract) earn nothing. *)
Theorem C18_nested_executes_are_not_recipients :
  forall rl ms, Forall (fun m => match m with MExec _ _ _ => False | _ => True end) ms -> recipients rl ms = [].
Proof. exact wrapped_execs_are_not_recipients. Qed.
Print Assumptions C18_nested_executes_are_not_recipients.

(** Conservation: the collector's delta is the fee minus the payouts, and over any duplicate-free
    account set holding the signer, the collector and the recipients the deltas sum to zero. *)
Theorem C18_collector_delta_is_fee_minus_payouts :
  forall E p R b t b' d, t_signer t <> e_collector E -> ante E p R b t = Some b' ->
  let rc := eff_recipients p (reg_lookup R) (t_msgs t) in
  b' (e_collector E) d - b (e_collector E) d
  = amount_of (t_fee t) d - Z.of_nat (length rc) * q_model E p t (length rc) d
    + Z.of_nat (count (e_collector E) rc) * q_model E p t (length rc) d.
Proof. exact collector_delta. Qed.
Print Assumptions C18_collector_delta_is_fee_minus_payouts.

Theorem C18_conservation :
  forall E p R b t b' U d, ante E p R b t = Some b' ->
  NoDup U -> In (t_signer t) U -> In (e_collector E) U ->
  incl (eff_recipients p (reg_lookup R) (t_msgs t)) U ->
  sumZ (fun a => b' a d - b a d) U = 0.
Proof. exact ante_conserves. Qed.
Print Assumptions C18_conservation.

(** Registry authority at message level: along the messages of a tx, every difference to the
    registry at the start of the tx is an admin-or-creator change or a factory self-registration. *)
Theorem C18_registry_authority :
  forall E p W s R0 ms R', run_msgs E p W s R0 ms = inl R' ->
  forall c, reg_lookup R' c <> reg_lookup R0 c -> auth_change E W s c (reg_lookup R0 c) (reg_lookup R' c).
Proof. intros E p W s R0 ms R' H. exact (run_msgs_inv E p W s R0 ms R0 R' (reg_inv_refl E W s R0) H). Qed.
Print Assumptions C18_registry_authority.

(** The boolean checker evaluated on implementation traces is sound for [P_tx]. *)
Theorem C18_checker_sound :
  forall E p W rb t class dl ra scope,
  Pb_tx E p W rb t class dl ra scope = true -> P_tx E p W rb t class (tlookup dl) ra scope.
Proof. exact Pb_tx_sound. Qed.
Print Assumptions C18_checker_sound.

(** Tight form for the model's per-recipient amount: total paid in a denom ≤ share × allowed fee + n/2. *)
Theorem C18_total_payout_tight :
  forall E p t n d, e_allowed_once E = true -> params_ok p -> fee_ok (t_fee t) ->
  2 * PREC * (Z.of_nat n * q_model E p t n d) <= 2 * p_share p * allowed_amount p (t_fee t) d + Z.of_nat n * PREC /\
  2 * (Z.of_nat n * q_model E p t n d) <= 2 * allowed_amount p (t_fee t) d + Z.of_nat n.
Proof. exact total_payout_tight. Qed.
Print Assumptions C18_total_payout_tight.

(** The variant of getAllowedFees before the fix: commit (a fee coin added once per matching
    AllowedDenoms entry; Params.Validate accepts repeated entries) violates the bound: share 1,
    fee 100, AllowedDenoms = [d; d], one recipient: 200 is paid out; the current code pays 100. *)
Theorem C18_duplicate_allowed_denoms_refuted_before_fix :
  params_ok dup_params /\ fee_ok (t_fee dup_tx) /\
  q_model env_before_fix dup_params dup_tx 1 0%nat = 200 /\
  ~ (PREC * (1 * q_model env_before_fix dup_params dup_tx 1 0%nat)
     <= p_share dup_params * allowed_amount dup_params (t_fee dup_tx) 0%nat + 1 * PREC) /\
  q_model env_current dup_params dup_tx 1 0%nat = 100.
Proof. exact duplicate_allowed_denoms_refuted_before_fix. Qed.
Print Assumptions C18_duplicate_allowed_denoms_refuted_before_fix.
