(** C18 — lemmas: rounding bounds of the per-recipient amount, the balance effect of the ante
    part, the authority invariant of the registry handlers, and the property over histories. *)
From Coq Require Import ZArith List Bool Arith Lia.
Import ListNotations.
Require Import Nib.Lib.Dec Nib.C18.Model Nib.C18.Spec.
Local Open Scope Z_scope.

(* ------------------------------------------------------------------ arithmetic *)

Lemma PREC_HALF : PREC = 2 * HALF. Proof. reflexivity. Qed.
Lemma HALF_pos : 0 < HALF. Proof. reflexivity. Qed.

Lemma chop_round_pos_bounds y :
  0 <= y ->
  0 <= chop_round_pos y /\ PREC * chop_round_pos y <= y + HALF /\ y - HALF <= PREC * chop_round_pos y.
Proof.
  intro Hy. unfold chop_round_pos.
  pose proof PREC_HALF as HP. pose proof HALF_pos as HH.
  assert (Hpos : 0 < PREC) by lia.
  pose proof (Z.div_mod y PREC ltac:(lia)) as Hdm.
  pose proof (Z.mod_pos_bound y PREC Hpos) as Hm.
  pose proof (Z.div_pos y PREC Hy Hpos) as Hq.
  set (q := y / PREC) in *. set (r := y mod PREC) in *.
  destruct (Z.eqb_spec r 0); [nia|].
  destruct (Z.ltb_spec r HALF); [nia|].
  destruct (Z.ltb_spec HALF r); [nia|].
  assert (r = HALF) by lia.
  destruct (Z.even q); nia.
Qed.

Lemma chop_round_nonneg y : 0 <= y -> chop_round y = chop_round_pos y.
Proof. intro H. unfold chop_round. destruct (Z.ltb_spec y 0); [lia|reflexivity]. Qed.

Lemma per_recipient_eq s a n :
  0 <= s -> 0 <= a -> (0 < n)%nat ->
  per_recipient s a n = chop_round_pos ((s * a) / Z.of_nat n).
Proof.
  intros Hs Ha Hn. unfold per_recipient, round_int, quo_int, mul_int.
  rewrite Z.quot_div_nonneg by nia.
  apply chop_round_nonneg. apply Z.div_pos; nia.
Qed.

Lemma per_recipient_zero s n : per_recipient s 0 n = 0.
Proof.
  unfold per_recipient, round_int, quo_int, mul_int. rewrite Z.mul_0_r.
  destruct (Z.of_nat n); reflexivity.
Qed.

(** n·per ≤ share·amount + n/2 (in units of 10^-18), per ≥ 0, and the matching lower bound *)
Lemma per_recipient_bounds s a n :
  0 <= s -> 0 <= a -> (0 < n)%nat ->
  0 <= per_recipient s a n /\
  PREC * (Z.of_nat n * per_recipient s a n) <= s * a + Z.of_nat n * HALF /\
  s * a - Z.of_nat n * HALF - Z.of_nat n < PREC * (Z.of_nat n * per_recipient s a n).
Proof.
  intros Hs Ha Hn. rewrite per_recipient_eq by assumption.
  set (N := Z.of_nat n). assert (HN : 0 < N) by (unfold N; lia).
  assert (Hx : 0 <= s * a) by nia.
  set (x := s * a) in *. set (y := x / N).
  assert (Hy : 0 <= y) by (apply Z.div_pos; lia).
  pose proof (Z.mul_div_le x N HN) as H1.
  pose proof (Z.mul_succ_div_gt x N HN) as H2. fold y in H1, H2.
  destruct (chop_round_pos_bounds y Hy) as (B0 & B1 & B2).
  split; [exact B0|]. split; nia.
Qed.

Lemma per_recipient_share_le_one s a n :
  0 <= s <= PREC -> 0 <= a -> (0 < n)%nat ->
  2 * (Z.of_nat n * per_recipient s a n) <= 2 * a + Z.of_nat n.
Proof.
  intros Hs Ha Hn. destruct (per_recipient_bounds s a n) as (_ & B & _); try lia.
  pose proof PREC_HALF. pose proof HALF_pos. nia.
Qed.

(* ------------------------------------------------------------------ coins *)

Lemma amount_of_fee_pay_logic fees s n d :
  amount_of (fee_pay_logic fees s n) d = per_recipient s (amount_of fees d) n.
Proof.
  induction fees as [|[d' a] fees IH]; simpl.
  - symmetry. apply per_recipient_zero.
  - destruct (Nat.eqb d' d); auto.
Qed.

Lemma count_mem_nodup d al : NoDup al -> Z.of_nat (count d al) = if mem d al then 1 else 0.
Proof.
  induction 1 as [|x l Hx Hnd IH]; simpl; [reflexivity|].
  destruct (Nat.eqb_spec x d).
  - subst. simpl. rewrite (count_notin d l Hx). reflexivity.
  - simpl. exact IH.
Qed.

Lemma amount_of_scaled fee (f : denom -> Z) d :
  amount_of (map (fun c => (fst c, snd c * f (fst c))) fee) d = amount_of fee d * f d.
Proof.
  induction fee as [|[d' a] fee IH]; simpl; [lia|].
  destruct (Nat.eqb_spec d' d); [subst; reflexivity|exact IH].
Qed.

Lemma amount_of_allowed_fees E p fee d :
  e_allowed_once E = true -> amount_of (allowed_fees E p fee) d = allowed_amount p fee d.
Proof.
  intro Honce. unfold allowed_fees, allowed_amount.
  destruct (p_allowed p) as [|x al] eqn:Hal; [reflexivity|].
  change (is_nil (x :: al)) with false. rewrite orb_false_l.
  transitivity (amount_of fee d * allowed_factor E (x :: al) d).
  - exact (amount_of_scaled fee (allowed_factor E (x :: al)) d).
  - unfold allowed_factor. rewrite Honce. destruct (mem d (x :: al)); lia.
Qed.

(** with duplicate-free AllowedDenoms both variants coincide *)
Lemma amount_of_allowed_fees_nodup E p fee d :
  NoDup (p_allowed p) -> amount_of (allowed_fees E p fee) d = allowed_amount p fee d.
Proof.
  intro Hnd. unfold allowed_fees, allowed_amount.
  destruct (p_allowed p) as [|x al] eqn:Hal; [reflexivity|].
  change (is_nil (x :: al)) with false. rewrite orb_false_l.
  transitivity (amount_of fee d * allowed_factor E (x :: al) d).
  - exact (amount_of_scaled fee (allowed_factor E (x :: al)) d).
  - unfold allowed_factor. destruct (e_allowed_once E).
    + destruct (mem d (x :: al)); lia.
    + rewrite (count_mem_nodup d (x :: al) Hnd). destruct (mem d (x :: al)); lia.
Qed.

Lemma amount_of_nonneg fee d : Forall (fun c => 0 <= snd c) fee -> 0 <= amount_of fee d.
Proof.
  induction 1 as [|[d' a] fee Ha _ IH]; simpl; [lia|]. destruct (Nat.eqb d' d); auto.
Qed.

Lemma allowed_amount_le p fee d : Forall (fun c => 0 <= snd c) fee -> allowed_amount p fee d <= amount_of fee d.
Proof. intro H. unfold allowed_amount. pose proof (amount_of_nonneg fee d H). destruct (_ || _); lia. Qed.

Lemma allowed_amount_nonneg p fee d : Forall (fun c => 0 <= snd c) fee -> 0 <= allowed_amount p fee d.
Proof. intro H. unfold allowed_amount. destruct (_ || _); [apply amount_of_nonneg; exact H|lia]. Qed.

(* ------------------------------------------------------------------ bank *)

Definition ind (b : bool) : Z := if b then 1 else 0.

Lemma send_effect b from to cs b' :
  send b from to cs = Some b' ->
  forall a d, b' a d = b a d - ind (Nat.eqb a from) * amount_of cs d + ind (Nat.eqb a to) * amount_of cs d.
Proof.
  unfold send. destruct (can_pay b from cs); [|discriminate]. intro H. injection H as <-.
  intros a d. unfold credit, debit, ind.
  destruct (Nat.eqb a to), (Nat.eqb a from); lia.
Qed.

Lemma pay_all_effect E split : forall rc b b',
  pay_all E b rc split = Some b' ->
  (forall w, In w rc -> mem w (e_blocked E) = false) /\
  forall a d, b' a d = b a d + Z.of_nat (count a rc) * amount_of split d
                       - ind (Nat.eqb a (e_collector E)) * (Z.of_nat (length rc) * amount_of split d).
Proof.
  induction rc as [|w rc IH]; intros b b' H.
  - simpl in H. injection H as <-. split; [intros ? []|]. intros a d. simpl. unfold ind. destruct (Nat.eqb _ _); lia.
  - simpl in H. destruct (mem w (e_blocked E)) eqn:Hb; [discriminate|].
    destruct (send b (e_collector E) w split) as [b1|] eqn:Hs; [|discriminate].
    destruct (IH _ _ H) as [Hbl Hf]. split.
    + intros x [<-|Hx]; auto.
    + intros a d. rewrite Hf. rewrite (send_effect _ _ _ _ _ Hs a d).
      cbn [count length]. rewrite (Nat.eqb_sym w a).
      unfold ind. destruct (Nat.eqb a w), (Nat.eqb a (e_collector E)); lia.
Qed.

Definition params_ok (p : params) : Prop := 0 <= p_share p <= PREC.
Definition fee_ok (fee : coins) : Prop := Forall (fun c => 0 <= snd c) fee.

(** ModuleParams.Sanitize keeps the meaning of every valid parameter value — discharged for the
    rules extracted from /repo by [Gen.C18Oblig.C18_sanitize_keeps_the_meaning_of_params] *)
Definition san_ok (E : env) : Prop := forall p, params_ok p -> params_same (sanitize E p) p.

Definition env_ok (E : env) : Prop :=
  In (e_collector E) (e_blocked E) /\ e_allowed_once E = true /\ san_ok E.

(** the stored item means what was set, and what was set is valid *)
Definition store_ok (st : state) : Prop := params_ok (s_params st) /\ params_same (s_store st) (s_params st).

(** per-recipient amount the ante part pays in denom [d] *)
Definition q_model (E : env) (p : params) (t : txin) (n : nat) (d : denom) : Z :=
  match n with
  | O => 0
  | _ => per_recipient (p_share p) (amount_of (allowed_fees E p (t_fee t)) d) n
  end.

Lemma ante_effect E p R b t b' :
  ante E p R b t = Some b' ->
  (forall w, In w (eff_recipients p (reg_lookup R) (t_msgs t)) -> mem w (e_blocked E) = false) /\
  forall a d, b' a d - b a d =
              pay_formula E t (eff_recipients p (reg_lookup R) (t_msgs t))
                          (q_model E p t (length (eff_recipients p (reg_lookup R) (t_msgs t)))) a d.
Proof.
  unfold ante. intro H. remember (eff_recipients p (reg_lookup R) (t_msgs t)) as rc eqn:Hrc0. clear Hrc0.
  assert (H1 : exists b1, (if is_nil (t_fee t) then Some b else send b (t_signer t) (e_collector E) (t_fee t)) = Some b1 /\
                          forall a d, b1 a d = b a d - ind (Nat.eqb a (t_signer t)) * amount_of (t_fee t) d
                                                + ind (Nat.eqb a (e_collector E)) * amount_of (t_fee t) d).
  { destruct (if is_nil (t_fee t) then Some b else send b (t_signer t) (e_collector E) (t_fee t)) as [b1|] eqn:Hd; [|discriminate].
    exists b1. split; [reflexivity|].
    destruct (t_fee t) as [|c fee] eqn:Hf.
    - simpl in Hd. injection Hd as <-. intros a d. simpl. unfold ind. destruct (Nat.eqb _ _), (Nat.eqb _ _); lia.
    - simpl in Hd. exact (send_effect _ _ _ _ _ Hd). }
  destruct H1 as (b1 & Hd & Hb1). rewrite Hd in H.
  destruct rc as [|w rc'].
  - injection H as <-. split; [intros ? []|]. intros a d. rewrite Hb1. unfold pay_formula, ind. simpl.
    destruct (Nat.eqb a (t_signer t)), (Nat.eqb a (e_collector E)); lia.
  - destruct (pay_all_effect _ _ _ _ _ H) as [Hbl Hf]. split; [exact Hbl|].
    intros a d. rewrite Hf, Hb1, amount_of_fee_pay_logic. unfold pay_formula.
    change (q_model E p t (length (w :: rc')) d)
      with (per_recipient (p_share p) (amount_of (allowed_fees E p (t_fee t)) d) (length (w :: rc'))).
    unfold ind. destruct (Nat.eqb a (t_signer t)), (Nat.eqb a (e_collector E)); lia.
Qed.

(* ------------------------------------------------------------------ payout part of the property *)

Lemma q_model_props E p t n d :
  e_allowed_once E = true -> params_ok p -> fee_ok (t_fee t) ->
  0 <= q_model E p t n d /\
  PREC * (Z.of_nat n * q_model E p t n d) <= p_share p * allowed_amount p (t_fee t) d + Z.of_nat n * HALF /\
  (allowed_amount p (t_fee t) d = 0 -> q_model E p t n d = 0).
Proof.
  intros Honce Hs Hf. unfold params_ok in Hs. unfold q_model. destruct n as [|n'].
  - pose proof (allowed_amount_nonneg p (t_fee t) d Hf). repeat split; try lia; try nia.
  - rewrite (amount_of_allowed_fees E p (t_fee t) d Honce).
    pose proof (allowed_amount_nonneg p (t_fee t) d Hf) as Ha.
    destruct (per_recipient_bounds (p_share p) (allowed_amount p (t_fee t) d) (S n')) as (B0 & B1 & _); try lia.
    repeat split; auto. intros ->. apply per_recipient_zero.
Qed.

Lemma ante_satisfies_P_pay E p R b t b' :
  env_ok E -> params_ok p -> fee_ok (t_fee t) ->
  ante E p R b t = Some b' ->
  P_pay E p (reg_lookup R) t (fun a d => b' a d - b a d).
Proof.
  intros (HE & Honce & _) Hp Hf H. destruct (ante_effect _ _ _ _ _ _ H) as [Hbl Hform].
  unfold P_pay. cbv zeta. split.
  - intro Hin. specialize (Hbl _ Hin). apply mem_false_notin in Hbl. apply Hbl. exact HE.
  - exists (q_model E p t (length (eff_recipients p (reg_lookup R) (t_msgs t)))).
    split; [|split; [|split; [|split]]].
    + intro d. apply q_model_props; assumption.
    + exact Hform.
    + intro d. destruct (q_model_props E p t (length (eff_recipients p (reg_lookup R) (t_msgs t))) d Honce Hp Hf) as (_ & B & _).
      pose proof PREC_HALF. pose proof HALF_pos. nia.
    + intro d. apply q_model_props; assumption.
    + intro d. destruct (q_model_props E p t (length (eff_recipients p (reg_lookup R) (t_msgs t))) d Honce Hp Hf) as (B0 & B & _).
      pose proof (allowed_amount_le p (t_fee t) d Hf). pose proof (allowed_amount_nonneg p (t_fee t) d Hf).
      unfold params_ok in Hp. pose proof PREC_HALF. pose proof HALF_pos. nia.
Qed.

(** nothing but the fee moves when fee sharing is off or no top-level executed contract is registered *)
Lemma nothing_when_disabled_or_unregistered_ante E p R b t b' :
  ante E p R b t = Some b' ->
  p_enabled p = false \/ recipients (reg_lookup R) (t_msgs t) = [] ->
  forall a d, b' a d - b a d =
              (if Nat.eqb a (e_collector E) then amount_of (t_fee t) d else 0)
              - (if Nat.eqb a (t_signer t) then amount_of (t_fee t) d else 0).
Proof.
  intros H Hc. destruct (ante_effect _ _ _ _ _ _ H) as [_ Hf]. intros a d. rewrite Hf.
  assert (Hrc : eff_recipients p (reg_lookup R) (t_msgs t) = []).
  { unfold eff_recipients. destruct Hc as [-> | ->]; [reflexivity|]. destruct (p_enabled p); reflexivity. }
  rewrite Hrc. unfold pay_formula. simpl.
  destruct (Nat.eqb a (e_collector E)), (Nat.eqb a (t_signer t)); lia.
Qed.

(* ------------------------------------------------------------------ registry part *)

Lemma assoc_filter_ne {V} (l : list (addr * V)) c k :
  assoc (filter (fun kv => negb (Nat.eqb (fst kv) c)) l) k = if Nat.eqb c k then None else assoc l k.
Proof.
  induction l as [|[k' v] l IH]; simpl.
  - destruct (Nat.eqb c k); reflexivity.
  - destruct (Nat.eqb_spec k' c); simpl.
    + subst. rewrite IH. destruct (Nat.eqb_spec c k); reflexivity.
    + rewrite IH. destruct (Nat.eqb_spec k' k); destruct (Nat.eqb_spec c k); try reflexivity. congruence.
Qed.

Lemma lookup_remove R c k : reg_lookup (reg_remove R c) k = if Nat.eqb c k then None else reg_lookup R k.
Proof. apply assoc_filter_ne. Qed.

Lemma lookup_insert R c e k : reg_lookup (reg_insert R c e) k = if Nat.eqb c k then Some e else reg_lookup R k.
Proof.
  unfold reg_insert, reg_lookup, reg_remove. simpl. destruct (Nat.eqb_spec c k); [reflexivity|].
  rewrite assoc_filter_ne. destruct (Nat.eqb_spec c k); [contradiction|reflexivity].
Qed.

(** every difference between the current registry and the registry at the start of the tx is one
    the signer was entitled to make *)
Definition reg_inv (E : env) (W : wasm) (s : addr) (R0 R : registry) : Prop :=
  forall c, reg_lookup R c <> reg_lookup R0 c -> auth_change E W s c (reg_lookup R0 c) (reg_lookup R c).

Lemma reg_inv_refl E W s R : reg_inv E W s R R.
Proof. intros c H. contradiction. Qed.

Lemma reg_inv_update E W s R0 R c info newv :
  reg_inv E W s R0 R ->
  wasm_lookup W c = Some info ->
  admin_or_creator info s = true ->
  forall R', (forall k, reg_lookup R' k = if Nat.eqb c k then newv else reg_lookup R k) ->
  reg_inv E W s R0 R'.
Proof.
  intros Hinv Hw Ha R' HR' k Hk. rewrite HR' in *. destruct (Nat.eqb_spec c k).
  - subst. exists info. split; [exact Hw|]. left. exact Ha.
  - apply Hinv. exact Hk.
Qed.

Lemma run_msg_inv E p W s R0 : forall m R R',
  reg_inv E W s R0 R -> run_msg E p W s R m = inl R' -> reg_inv E W s R0 R'.
Proof.
  induction m as [c good nested|m IH|c w|c w|c|good]; intros R R' Hinv H; simpl in H.
  - destruct (exec_ok W s c good nested); [|discriminate]. injection H as <-. exact Hinv.
  - eapply IH; eassumption.
  - destruct (negb (p_enabled p)); [discriminate|].
    destruct (reg_lookup R c) eqn:HRc; [discriminate|].
    destruct (wasm_lookup W c) as [info|] eqn:Hw; [|discriminate].
    destruct (factory E W info s) eqn:Hfac.
    + destruct (Nat.eqb_spec w c); [|discriminate]. subst w. injection H as <-.
      intros k Hk. rewrite lookup_insert in *. destruct (Nat.eqb_spec c k).
      * subst k. exists info. split; [exact Hw|].
        destruct (reg_lookup R0 c) eqn:HR0c.
        -- (* it was registered at the start of the tx and removed since: only the authority can have done that *)
           assert (Hd : reg_lookup R c <> reg_lookup R0 c) by (rewrite HRc, HR0c; discriminate).
           destruct (Hinv c Hd) as (info' & Hw' & [Ha|(_ & _ & Habs)]).
           ++ rewrite Hw in Hw'. injection Hw' as <-. left. exact Ha.
           ++ rewrite HRc in Habs. discriminate.
        -- right. split; [exact Hfac|]. split; reflexivity.
      * apply Hinv. exact Hk.
    + destruct (admin_or_creator info s) eqn:Ha; [|discriminate]. injection H as <-.
      eapply reg_inv_update; [exact Hinv|exact Hw|exact Ha|]. intro k. apply lookup_insert.
  - destruct (negb (p_enabled p)); [discriminate|].
    destruct (reg_lookup R c) as [e|] eqn:HRc; [|discriminate].
    destruct (Nat.eqb w (fs_withdrawer e)); [discriminate|].
    destruct (wasm_lookup W c) as [info|] eqn:Hw; [|discriminate].
    destruct (admin_or_creator info s) eqn:Ha; [|discriminate]. injection H as <-.
    eapply reg_inv_update; [exact Hinv|exact Hw|exact Ha|]. intro k. apply lookup_insert.
  - destruct (negb (p_enabled p)); [discriminate|].
    destruct (reg_lookup R c) as [e|] eqn:HRc; [|discriminate].
    destruct (wasm_lookup W c) as [info|] eqn:Hw; [|discriminate].
    destruct (admin_or_creator info s) eqn:Ha; [|discriminate]. injection H as <-.
    eapply reg_inv_update; [exact Hinv|exact Hw|exact Ha|]. intro k. apply lookup_remove.
  - destruct good; [|discriminate]. injection H as <-. exact Hinv.
Qed.

Lemma run_msgs_inv E p W s R0 : forall ms R R',
  reg_inv E W s R0 R -> run_msgs E p W s R ms = inl R' -> reg_inv E W s R0 R'.
Proof.
  induction ms as [|m ms IH]; intros R R' Hinv H; simpl in H.
  - injection H as <-. exact Hinv.
  - destruct (run_msg E p W s R m) as [R1|e] eqn:Hm; [|discriminate].
    eapply IH; [|exact H]. eapply run_msg_inv; eassumption.
Qed.

(* ------------------------------------------------------------------ one transaction, histories *)

Definition delta (st st' : state) : addr -> denom -> Z := fun a d => s_bank st' a d - s_bank st a d.

Lemma params_ok_same p q : params_same p q -> params_ok q -> params_ok p.
Proof. intros (_ & H & _). unfold params_ok. rewrite H. auto. Qed.

(** what the code reads (Sanitize of the stored item) means what was set *)
Lemma read_params_same E st : san_ok E -> store_ok st -> params_same (read_params E st) (s_params st).
Proof.
  intros HS [Hp Hsame]. unfold read_params.
  eapply params_same_trans; [|exact Hsame]. apply HS. eapply params_ok_same; eassumption.
Qed.

(** the property of one transaction, read against the parameters the code reads *)
Lemma tx_satisfies_property_as_read E st t scope :
  env_ok E -> params_ok (read_params E st) -> fee_ok (t_fee t) ->
  P_tx E (read_params E st) (s_wasm st) (reg_lookup (s_reg st)) t
       (x_class (snd (step_tx E st t))) (delta st (fst (step_tx E st t)))
       (reg_lookup (s_reg (fst (step_tx E st t)))) scope.
Proof.
  intros HE Hp Hf. unfold step_tx, P_tx. cbv zeta.
  destruct (ante E (read_params E st) (s_reg st) (s_bank st) t) as [b'|] eqn:Ha.
  - pose proof (ante_satisfies_P_pay _ _ _ _ _ _ HE Hp Hf Ha) as HP.
    destruct (run_msgs E (read_params E st) (s_wasm st) (t_signer t) (s_reg st) (t_msgs t)) as [R'|e] eqn:Hm; simpl.
    + split; [exact HP|]. intros c _ Hne. split; [reflexivity|].
      exact (run_msgs_inv _ _ _ _ _ _ _ _ (reg_inv_refl _ _ _ _) Hm c Hne).
    + split; [exact HP|]. intros c _ Hne. contradiction.
  - simpl. split; [intros a d; unfold delta; lia|reflexivity].
Qed.

(** … and against the parameters AS SET by the last accepted update / genesis *)
Theorem tx_satisfies_property E st t scope :
  env_ok E -> store_ok st -> fee_ok (t_fee t) ->
  P_tx E (s_params st) (s_wasm st) (reg_lookup (s_reg st)) t
       (x_class (snd (step_tx E st t))) (delta st (fst (step_tx E st t)))
       (reg_lookup (s_reg (fst (step_tx E st t)))) scope.
Proof.
  intros HE Hst Hf. pose proof HE as (_ & _ & HS).
  pose proof (read_params_same E st HS Hst) as Hsame.
  eapply P_tx_same; [exact Hsame|].
  apply tx_satisfies_property_as_read; auto.
  eapply params_ok_same; [exact Hsame|apply Hst].
Qed.

Definition event_ok (ev : event) : Prop :=
  match ev with
  | EvTx t => fee_ok (t_fee t)
  | EvEnv _ => True
  end.

Lemma params_valid_ok p : params_valid p = true -> params_ok p.
Proof. unfold params_valid, params_ok. intro H. apply andb_true_iff in H as [H1 H2]. apply Z.leb_le in H1, H2. lia. Qed.

Definition transition_ok (E : env) (tr : state * txin * state * txout) : Prop :=
  let '(st, t, st', out) := tr in
  forall scope, P_tx E (s_params st) (s_wasm st) (reg_lookup (s_reg st)) t (x_class out) (delta st st')
                     (reg_lookup (s_reg st')) scope.

Lemma step_tx_params E st t :
  s_params (fst (step_tx E st t)) = s_params st /\ s_store (fst (step_tx E st t)) = s_store st.
Proof.
  unfold step_tx. cbv zeta. destruct (ante _ _ _ _ _); [|split; reflexivity].
  destruct (run_msgs _ _ _ _ _ _); split; reflexivity.
Qed.

Lemma step_tx_store_ok E st t : store_ok st -> store_ok (fst (step_tx E st t)).
Proof. unfold store_ok. destruct (step_tx_params E st t) as [-> ->]. auto. Qed.

(** parameter changes (MsgUpdateParams, genesis) keep "the stored item means what was set" *)
Lemma step_env_store_ok E st o : san_ok E -> store_ok st -> store_ok (step_env E st o).
Proof.
  intros HS Hst. destruct o as [p'|p'| |]; simpl; auto.
  - destruct (params_valid p') eqn:Hv; [|exact Hst]. split; simpl; [apply params_valid_ok; exact Hv|apply params_same_refl].
  - destruct (params_valid p') eqn:Hv; [|exact Hst]. apply params_valid_ok in Hv. split; simpl; [exact Hv|apply HS; exact Hv].
Qed.

Theorem history_satisfies_property E : forall evs st,
  env_ok E -> store_ok st -> Forall event_ok evs ->
  Forall (transition_ok E) (transitions E st evs).
Proof.
  induction evs as [|ev evs IH]; intros st HE Hp Hev; simpl; [constructor|].
  inversion Hev as [|? ? H1 H2]; subst.
  destruct ev as [t|o].
  - destruct (step_tx E st t) as [st' out] eqn:Hst. constructor.
    + intro scope. pose proof (tx_satisfies_property E st t scope HE Hp H1) as HP. rewrite Hst in HP. exact HP.
    + apply IH; auto. pose proof (step_tx_store_ok E st t Hp) as Hpp. rewrite Hst in Hpp. exact Hpp.
  - apply IH; auto. apply step_env_store_ok; [apply HE|exact Hp].
Qed.

(** along every history the stored item keeps meaning what was last set (and that is valid) *)
Lemma history_keeps_store_ok E : forall evs st,
  san_ok E -> store_ok st -> store_ok (fold_left (step E) evs st).
Proof.
  induction evs as [|ev evs IH]; intros st HS Hst; simpl; [exact Hst|].
  apply IH; [exact HS|]. destruct ev as [t|o]; simpl.
  - apply step_tx_store_ok. exact Hst.
  - apply step_env_store_ok; assumption.
Qed.

(** environment operations and failing transactions never change the registry *)
Lemma env_keeps_registry E st o : s_reg (step_env E st o) = s_reg st.
Proof. destruct o as [p'|p'| |]; simpl; try reflexivity; destruct (params_valid p'); reflexivity. Qed.

(* ------------------------------------------------------------------ fee sharing disabled AS SET *)

Lemma run_msgs_disabled E p W s : p_enabled p = false ->
  forall ms R R', run_msgs E p W s R ms = inl R' -> R' = R.
Proof.
  intro Hd.
  assert (H1 : forall m R R', run_msg E p W s R m = inl R' -> R' = R).
  { induction m as [c good nested|m IH|c w|c w|c|good]; intros R R' H; simpl in H; try rewrite Hd in H; simpl in H;
      try discriminate.
    - destruct (exec_ok W s c good nested); [|discriminate]. injection H as <-. reflexivity.
    - eapply IH; eassumption.
    - destruct good; [|discriminate]. injection H as <-. reflexivity. }
  induction ms as [|m ms IH]; intros R R' H; simpl in H.
  - injection H as <-. reflexivity.
  - destruct (run_msg E p W s R m) as [R1|e] eqn:Hm; [|discriminate].
    apply H1 in Hm. subst R1. eapply IH; eassumption.
Qed.

(** While the parameters AS SET say "disabled" — whatever Sanitize makes of the stored item —
    a transaction moves nothing but its own fee (signer -> collector), and the registry is frozen. *)
Theorem disabled_as_set_pays_nothing E st t :
  env_ok E -> store_ok st -> fee_ok (t_fee t) -> p_enabled (s_params st) = false ->
  (forall a d, delta st (fst (step_tx E st t)) a d =
               if Nat.eqb (x_class (snd (step_tx E st t))) 1 then 0
               else (if Nat.eqb a (e_collector E) then amount_of (t_fee t) d else 0)
                    - (if Nat.eqb a (t_signer t) then amount_of (t_fee t) d else 0)) /\
  s_reg (fst (step_tx E st t)) = s_reg st.
Proof.
  intros HE Hst Hf Hd. pose proof HE as (_ & _ & HS).
  pose proof (read_params_same E st HS Hst) as (Hen & _ & _). rewrite Hd in Hen.
  unfold step_tx. cbv zeta.
  destruct (ante E (read_params E st) (s_reg st) (s_bank st) t) as [b'|] eqn:Ha.
  - pose proof (nothing_when_disabled_or_unregistered_ante E _ _ _ _ _ Ha (or_introl Hen)) as Hn.
    destruct (run_msgs E (read_params E st) (s_wasm st) (t_signer t) (s_reg st) (t_msgs t)) as [R'|e] eqn:Hm; simpl.
    + split; [intros a d; unfold delta; simpl; apply Hn|]. eapply run_msgs_disabled; eassumption.
    + split; [intros a d; unfold delta; simpl; apply Hn|reflexivity].
  - simpl. split; [intros a d; unfold delta; lia|reflexivity].
Qed.

(* ------------------------------------------------------------------ named consequences *)

(** equal split: every account other than the signer and the collector gains exactly
    (number of its occurrences among the recipients) × one common per-recipient amount *)
Lemma equal_split E p R b t b' :
  ante E p R b t = Some b' ->
  exists q : denom -> Z,
    forall a d, a <> t_signer t -> a <> e_collector E ->
      b' a d - b a d = Z.of_nat (count a (eff_recipients p (reg_lookup R) (t_msgs t))) * q d.
Proof.
  intro H. destruct (ante_effect _ _ _ _ _ _ H) as [_ Hf].
  exists (q_model E p t (length (eff_recipients p (reg_lookup R) (t_msgs t)))).
  intros a d H1 H2. rewrite Hf. unfold pay_formula.
  destruct (Nat.eqb_spec a (t_signer t)); [contradiction|].
  destruct (Nat.eqb_spec a (e_collector E)); [contradiction|]. lia.
Qed.

Lemma nothing_when_disabled_or_unregistered E p R b t b' :
  ante E p R b t = Some b' ->
  p_enabled p = false \/ recipients (reg_lookup R) (t_msgs t) = [] ->
  forall a d, b' a d - b a d =
              (if Nat.eqb a (e_collector E) then amount_of (t_fee t) d else 0)
              - (if Nat.eqb a (t_signer t) then amount_of (t_fee t) d else 0).
Proof. exact (nothing_when_disabled_or_unregistered_ante E p R b t b'). Qed.

(** a registered contract executed only inside a carrier (authz exec) is not a recipient *)
Lemma wrapped_execs_are_not_recipients rl ms :
  Forall (fun m => match m with MExec _ _ _ => False | _ => True end) ms -> recipients rl ms = [].
Proof.
  induction 1 as [|m ms Hm _ IH]; [reflexivity|]. unfold recipients in *. simpl. rewrite IH.
  destruct m; try reflexivity. contradiction.
Qed.

Fixpoint sumZ (f : addr -> Z) (U : list addr) : Z :=
  match U with [] => 0 | a :: r => f a + sumZ f r end.

Lemma sumZ_ext f g U : (forall a, f a = g a) -> sumZ f U = sumZ g U.
Proof. intro H. induction U; simpl; congruence. Qed.

Lemma sumZ_plus f g U : sumZ (fun a => f a + g a) U = sumZ f U + sumZ g U.
Proof. induction U; simpl; lia. Qed.

Lemma sumZ_scale k f U : sumZ (fun a => k * f a) U = k * sumZ f U.
Proof. induction U; simpl; lia. Qed.

Lemma sumZ_indicator w U : NoDup U -> sumZ (fun a => ind (Nat.eqb a w)) U = ind (mem w U).
Proof.
  induction 1 as [|x U Hx _ IH]; simpl; [reflexivity|]. rewrite IH.
  destruct (Nat.eqb_spec x w).
  - subst. simpl. apply mem_false_notin in Hx. rewrite Hx. reflexivity.
  - simpl. lia.
Qed.

Lemma sumZ_count rc U : NoDup U -> incl rc U -> sumZ (fun a => Z.of_nat (count a rc)) U = Z.of_nat (length rc).
Proof.
  intros Hnd. induction rc as [|w rc IH]; intro Hinc.
  - simpl. clear. induction U; simpl; auto.
  - rewrite (sumZ_ext _ (fun a => ind (Nat.eqb a w) + Z.of_nat (count a rc))).
    + rewrite sumZ_plus, sumZ_indicator by exact Hnd. rewrite IH.
      * assert (Hm : mem w U = true) by (apply mem_In; apply Hinc; left; reflexivity).
        rewrite Hm. simpl length. unfold ind. lia.
      * intros x Hx. apply Hinc. right. exact Hx.
    + intro a. cbn [count]. rewrite (Nat.eqb_sym w a). unfold ind. destruct (Nat.eqb a w); lia.
Qed.

(** conservation: over any duplicate-free set of accounts that contains the signer, the fee
    collector and every recipient, the deltas of one ante run sum to zero in every denom *)
Lemma ante_conserves E p R b t b' U d :
  ante E p R b t = Some b' ->
  NoDup U -> In (t_signer t) U -> In (e_collector E) U ->
  incl (eff_recipients p (reg_lookup R) (t_msgs t)) U ->
  sumZ (fun a => b' a d - b a d) U = 0.
Proof.
  intros H Hnd Hs Hc Hinc. destruct (ante_effect _ _ _ _ _ _ H) as [_ Hf].
  set (rc := eff_recipients p (reg_lookup R) (t_msgs t)) in *.
  set (q := q_model E p t (length rc) d). set (F := amount_of (t_fee t) d).
  rewrite (sumZ_ext _ (fun a => q * Z.of_nat (count a rc) + ((- F) * ind (Nat.eqb a (t_signer t))
                                 + (F - Z.of_nat (length rc) * q) * ind (Nat.eqb a (e_collector E))))).
  - rewrite sumZ_plus, sumZ_plus, !sumZ_scale, sumZ_count, !sumZ_indicator by assumption.
    apply mem_In in Hs, Hc. rewrite Hs, Hc. unfold ind. clearbody q F. unfold addr in *. lia.
  - intro a. rewrite Hf. unfold pay_formula. fold rc q F. unfold ind.
    destruct (Nat.eqb a (t_signer t)), (Nat.eqb a (e_collector E)); lia.
Qed.

(** the fee collector's change is the fee minus the sum of the payouts *)
Lemma collector_delta E p R b t b' d :
  t_signer t <> e_collector E ->
  ante E p R b t = Some b' ->
  let rc := eff_recipients p (reg_lookup R) (t_msgs t) in
  b' (e_collector E) d - b (e_collector E) d
  = amount_of (t_fee t) d - Z.of_nat (length rc) * q_model E p t (length rc) d
    + Z.of_nat (count (e_collector E) rc) * q_model E p t (length rc) d.
Proof.
  intros Hne H. destruct (ante_effect _ _ _ _ _ _ H) as [_ Hf]. cbv zeta. rewrite Hf. unfold pay_formula.
  rewrite Nat.eqb_refl. destruct (Nat.eqb_spec (e_collector E) (t_signer t)); [congruence|]. lia.
Qed.

(** tight form: with DeveloperShares ≤ 1 the total paid in a denom is at most fee + n/2 *)
Lemma total_payout_tight E p t n d :
  e_allowed_once E = true -> params_ok p -> fee_ok (t_fee t) ->
  2 * PREC * (Z.of_nat n * q_model E p t n d) <= 2 * p_share p * allowed_amount p (t_fee t) d + Z.of_nat n * PREC /\
  2 * (Z.of_nat n * q_model E p t n d) <= 2 * allowed_amount p (t_fee t) d + Z.of_nat n.
Proof.
  intros Honce Hp Hf. destruct (q_model_props E p t n d Honce Hp Hf) as (B0 & B1 & _).
  pose proof PREC_HALF. pose proof HALF_pos. pose proof Hp as Hs. unfold params_ok in Hs.
  pose proof (allowed_amount_nonneg p (t_fee t) d Hf). split; nia.
Qed.

(* ------------------------------------------------------------------ the variant before the fix *)

(** Params.Validate accepts an AllowedDenoms list that names a denom twice.  Before the fix:
    commit getAllowedFees counted that fee coin once per entry and the payout exceeded
    DeveloperShares × fee by far more than the rounding allowance (share 1, fee 100, one recipient:
    200 paid).  With the current code (first match only) the same input pays 100. *)
(** types.DefaultParams() and ModuleParams.Sanitize of the pinned tree: an empty AllowedDenoms is
    replaced by DefaultAllowedDenoms (= empty: all denoms) — the identity on the model's values *)
Definition module_defaults : params := {| p_enabled := true; p_share := HALF; p_allowed := [] |}.
Definition san_current : list san_rule :=
  [{| sr_cond := PcAllowedEmpty; sr_on_copy := true; sr_set := [FAllowed]; sr_stop := false |}].

Definition env_before_fix : env :=
  {| e_collector := 0%nat; e_gov := 1%nat; e_blocked := [0%nat; 2%nat]; e_allowed_once := false;
     e_defaults := module_defaults; e_san := san_current |}.
Definition env_current : env :=
  {| e_collector := 0%nat; e_gov := 1%nat; e_blocked := [0%nat; 2%nat]; e_allowed_once := true;
     e_defaults := module_defaults; e_san := san_current |}.

Lemma san_ok_current : san_ok env_current.
Proof. intros [en sh [|d al]] _; apply params_same_refl. Qed.

Lemma env_ok_current : env_ok env_current.
Proof. split; [simpl; auto|]. split; [reflexivity|exact san_ok_current]. Qed.
Definition dup_params : params := {| p_enabled := true; p_share := PREC; p_allowed := [0%nat; 0%nat] |}.
Definition dup_tx : txin := {| t_signer := 3%nat; t_fee := [(0%nat, 100)]; t_msgs := [MExec 8%nat true None] |}.

Lemma duplicate_allowed_denoms_refuted_before_fix :
  params_ok dup_params /\ fee_ok (t_fee dup_tx) /\
  q_model env_before_fix dup_params dup_tx 1 0%nat = 200 /\
  ~ (PREC * (1 * q_model env_before_fix dup_params dup_tx 1 0%nat)
     <= p_share dup_params * allowed_amount dup_params (t_fee dup_tx) 0%nat + 1 * PREC) /\
  q_model env_current dup_params dup_tx 1 0%nat = 100.
Proof.
  split; [unfold params_ok, dup_params, PREC; simpl; lia|].
  split; [unfold fee_ok; simpl; repeat constructor; simpl; lia|].
  split; [vm_compute; reflexivity|]. split; [|vm_compute; reflexivity].
  vm_compute. intro H. apply H. reflexivity.
Qed.

(* ------------------------------------------------------------------ non-vacuity *)

Definition ex_env : env := env_current.
Definition ex_wasm : wasm :=
  [(8%nat, {| ci_creator := 3%nat; ci_admin := None; ci_owner := None |});
   (9%nat, {| ci_creator := 3%nat; ci_admin := Some 4%nat; ci_owner := None |});
   (10%nat, {| ci_creator := 3%nat; ci_admin := Some 1%nat; ci_owner := None |})].
Definition ex_bank : bank := fun a d => if Nat.eqb a 0 then 1000 else if Nat.eqb a 5 then 1000000 else 0.
Definition ex_state : state :=
  {| s_params := {| p_enabled := true; p_share := PREC; p_allowed := [] |};
     s_store := {| p_enabled := true; p_share := PREC; p_allowed := [] |}; s_wasm := ex_wasm;
     s_reg := [(8%nat, {| fs_deployer := 3%nat; fs_withdrawer := 6%nat |});
               (9%nat, {| fs_deployer := 4%nat; fs_withdrawer := 7%nat |})];
     s_bank := ex_bank |}.
(** share 1, fee 3, two recipients: 1.5 rounds half-to-even to 2 each — 4 are paid for a fee of 3 *)
Definition ex_tx : txin := {| t_signer := 5%nat; t_fee := [(2%nat, 3)]; t_msgs := [MExec 8%nat true None; MExec 9%nat true None] |}.

Example payout_nonvacuous :
  env_ok ex_env /\ store_ok ex_state /\ fee_ok (t_fee ex_tx) /\
  x_class (snd (step_tx ex_env ex_state ex_tx)) = 0%nat /\
  delta ex_state (fst (step_tx ex_env ex_state ex_tx)) 6%nat 2%nat = 2 /\
  delta ex_state (fst (step_tx ex_env ex_state ex_tx)) 7%nat 2%nat = 2 /\
  delta ex_state (fst (step_tx ex_env ex_state ex_tx)) 0%nat 2%nat = -1.
Proof.
  split; [exact env_ok_current|].
  split; [split; [unfold params_ok; simpl; unfold PREC; lia|apply params_same_refl]|].
  split; [unfold fee_ok; simpl; repeat constructor; simpl; lia|]. vm_compute. repeat split; reflexivity.
Qed.

(** a stranger cannot register, the admin can, anyone can self-register a gov-admin contract *)
Example authority_nonvacuous :
  x_class (snd (step_tx ex_env ex_state {| t_signer := 5%nat; t_fee := []; t_msgs := [MUpdate 9%nat 5%nat] |})) = 2%nat /\
  reg_lookup (s_reg (fst (step_tx ex_env ex_state {| t_signer := 4%nat; t_fee := []; t_msgs := [MUpdate 9%nat 5%nat] |}))) 9%nat
    = Some {| fs_deployer := 4%nat; fs_withdrawer := 5%nat |} /\
  reg_lookup (s_reg (fst (step_tx ex_env ex_state {| t_signer := 5%nat; t_fee := []; t_msgs := [MRegister 10%nat 10%nat] |}))) 10%nat
    = Some (self_entry 10%nat) /\
  x_err (snd (step_tx ex_env ex_state {| t_signer := 5%nat; t_fee := []; t_msgs := [MRegister 10%nat 6%nat] |})) = E_BADWITHDRAWER.
Proof. vm_compute. repeat split; reflexivity. Qed.

(* ------------------------------------------------------------------ parameters in the history *)

(** the corner "everything off": disabled, share 0, no denom list — a valid governance setting *)
Definition all_off : params := {| p_enabled := false; p_share := 0; p_allowed := [] |}.

(** the variant of ModuleParams.Sanitize that takes an all-zero value for "never written" and
    answers DefaultParams() (seeded/C18-all-zero-params-read-as-defaults) *)
Definition san_all_zero_is_unset : list san_rule :=
  {| sr_cond := PcAnd (PcAnd (PcNot PcEnabled) (PcOr PcShareNil PcShareZero)) PcAllowedEmpty;
     sr_on_copy := true; sr_set := [FEnabled; FShare; FAllowed]; sr_stop := true |} :: san_current.
Definition env_all_zero_is_unset : env :=
  {| e_collector := 0%nat; e_gov := 1%nat; e_blocked := [0%nat; 2%nat]; e_allowed_once := true;
     e_defaults := module_defaults; e_san := san_all_zero_is_unset |}.

Definition off_history (via_genesis : bool) : list event :=
  [EvEnv (if via_genesis then Genesis all_off else SetParams all_off);
   EvTx {| t_signer := 5%nat; t_fee := [(2%nat, 1000)]; t_msgs := [MExec 8%nat true None] |}].

(** with the current Sanitize the history "switch everything off, then execute a registered
    contract" pays nothing and refuses a registration … *)
Example all_off_current_nonvacuous :
  params_valid all_off = true /\
  (forall g, match transitions env_current ex_state (off_history g) with
             | [(st, _, st', out)] => p_enabled (s_params st) = false /\ x_class out = 0%nat /\
                                     delta st st' 6%nat 2%nat = 0 /\ delta st st' 0%nat 2%nat = 1000
             | _ => False
             end) /\
  x_err (snd (step_tx env_current (step_env env_current ex_state (SetParams all_off))
                      {| t_signer := 5%nat; t_fee := []; t_msgs := [MRegister 10%nat 10%nat] |})) = E_DISABLED.
Proof. split; [reflexivity|]. split; [intros [|]; vm_compute; repeat split; reflexivity|vm_compute; reflexivity]. Qed.

(** … with the variant the all-off value is read back as the defaults: the same history pays half
    of the fee to the withdrawer although the parameters AS SET say "disabled" — through
    MsgUpdateParams and through genesis alike; [P_tx] against the parameters as set is false, the
    variant's Sanitize does not keep the meaning of valid values, and registrations stay open. *)
Lemma all_zero_params_read_as_defaults_refuted :
  ~ san_ok env_all_zero_is_unset /\
  (forall g, exists st t st' out,
      transitions env_all_zero_is_unset ex_state (off_history g) = [(st, t, st', out)] /\
      store_ok ex_state /\ fee_ok (t_fee t) /\
      p_enabled (s_params st) = false /\ delta st st' 6%nat 2%nat = 500 /\
      ~ transition_ok env_all_zero_is_unset (st, t, st', out)) /\
  x_class (snd (step_tx env_all_zero_is_unset (step_env env_all_zero_is_unset ex_state (SetParams all_off))
                        {| t_signer := 5%nat; t_fee := []; t_msgs := [MRegister 10%nat 10%nat] |})) = 0%nat.
Proof.
  split; [|split; [|vm_compute; reflexivity]].
  - intro H. assert (Hp : params_ok all_off) by (unfold params_ok, all_off, PREC; simpl; lia).
    destruct (H all_off Hp) as (He & _ & _). vm_compute in He. discriminate.
  - intro g.
    assert (Hok : store_ok ex_state) by (split; [unfold params_ok; simpl; unfold PREC; lia|apply params_same_refl]).
    assert (Hfee : fee_ok [(2%nat, 1000)]) by (unfold fee_ok; repeat constructor; simpl; lia).
    destruct g; eexists; eexists; eexists; eexists; (split; [vm_compute; reflexivity|]);
      (split; [exact Hok|]); (split; [exact Hfee|]); (split; [reflexivity|]); (split; [vm_compute; reflexivity|]);
      intro Htr; specialize (Htr []); unfold P_tx in Htr; simpl in Htr;
      destruct Htr as [(_ & q & _ & Hform & _) _]; specialize (Hform 6%nat 2%nat);
      vm_compute in Hform; discriminate.
Qed.
