(** C18 — executable model of the x/devgas fee-share path.

    Ante part (x/devgas/v1/ante/ante.go, after the SDK DeductFeeDecorator — app/ante.go):
      deduct the fee from the payer into the fee collector; if fee sharing is enabled, collect the
      withdrawers of the registered contracts targeted by the TOP-LEVEL MsgExecuteContract messages
      (with multiplicity, in order); if there is at least one, filter the fee by AllowedDenoms
      (getAllowedFees), compute per denom RoundInt(QuoInt64(MulInt(DeveloperShares, amount), n))
      (FeePayLogic) and send that same coin set from the fee collector to every recipient
      (SendCoinsFromModuleToAccount: blocked recipient or insufficient collector balance fails the
      whole ante handler, nothing is written).
    Message part (x/devgas/v1/keeper/msg_server.go): RegisterFeeShare / UpdateFeeShare /
      CancelFeeShare with the admin / creator / factory rules, executed in order; any failure
      reverts all message effects but not the ante effects.
    Parameters (x/devgas/v1/types/params.go, keeper/params.go, genesis.go): the state holds the
      params AS SET by the last accepted MsgUpdateParams / genesis ([s_params], what the property
      talks about) next to the stored item ([s_store]); every reader (ante handler, the three
      registry handlers) goes through Keeper.GetParams = ModuleParams.Sanitize of the stored item,
      InitGenesis stores Sanitize of the genesis params, UpdateParams stores the request as is.
      What Sanitize rewrites is a generated fact ([e_san], [e_defaults]).
    No proofs in this file. *)
From Coq Require Import ZArith List Bool Arith.
Import ListNotations.
Require Import Nib.Lib.Dec.
Local Open Scope Z_scope.

Definition addr := nat.
Definition denom := nat.
Definition coins := list (denom * Z).

(* -------------------------------------------------------------------- parameters, wasm, registry *)

Record params := { p_enabled : bool; p_share : Z (* raw LegacyDec *); p_allowed : list denom }.

Definition is_nil {A} (l : list A) : bool := match l with [] => true | _ => false end.

(** ModuleParams.Sanitize as a list of guarded rewrites, in source order (generated fact):
    "if <cond> { <fields> = their defaults [; return] }".  [sr_on_copy]: the condition reads the
    working copy (already rewritten by earlier rules) rather than the receiver. *)
Inductive pcond :=
| PcTrue
| PcNot (c : pcond)
| PcAnd (a b : pcond)
| PcOr (a b : pcond)
| PcEnabled            (* .EnableFeeShare *)
| PcShareZero          (* .DeveloperShares.IsZero() *)
| PcShareNil           (* .DeveloperShares.IsNil(): Validate refuses nil, a stored value is never nil *)
| PcAllowedEmpty       (* len(.AllowedDenoms) == 0 *)
| PcUnknown.           (* a condition the extractor does not understand *)

Inductive pfield := FEnabled | FShare | FAllowed.

Record san_rule := { sr_cond : pcond; sr_on_copy : bool; sr_set : list pfield; sr_stop : bool }.

Fixpoint eval_pcond (c : pcond) (p : params) : bool :=
  match c with
  | PcTrue => true
  | PcNot a => negb (eval_pcond a p)
  | PcAnd a b => eval_pcond a p && eval_pcond b p
  | PcOr a b => eval_pcond a p || eval_pcond b p
  | PcEnabled => p_enabled p
  | PcShareZero => Z.eqb (p_share p) 0
  | PcShareNil => false
  | PcAllowedEmpty => is_nil (p_allowed p)
  | PcUnknown => false
  end.

Definition set_default (D : params) (q : params) (f : pfield) : params :=
  match f with
  | FEnabled => {| p_enabled := p_enabled D; p_share := p_share q; p_allowed := p_allowed q |}
  | FShare => {| p_enabled := p_enabled q; p_share := p_share D; p_allowed := p_allowed q |}
  | FAllowed => {| p_enabled := p_enabled q; p_share := p_share q; p_allowed := p_allowed D |}
  end.

Fixpoint apply_rules (D : params) (rs : list san_rule) (orig cur : params) : params :=
  match rs with
  | [] => cur
  | r :: rest =>
      if eval_pcond (sr_cond r) (if sr_on_copy r then cur else orig)
      then let cur' := fold_left (set_default D) (sr_set r) cur in
           if sr_stop r then cur' else apply_rules D rest orig cur'
      else apply_rules D rest orig cur
  end.

(** wasm ContractInfo as far as x/devgas reads it; [ci_owner] only tells the model whether an
    execute by a given sender succeeds ([None]: anyone — hello_world_counter; [Some o]: reflect). *)
Record cinfo := { ci_creator : addr; ci_admin : option addr; ci_owner : option addr }.
Definition wasm := list (addr * cinfo).

Record share_entry := { fs_deployer : addr; fs_withdrawer : addr }.
Definition registry := list (addr * share_entry).

(** [e_allowed_once]: getAllowedFees stops at the first AllowedDenoms entry matching a fee coin
    (generated fact; before the fix: commit every matching entry added the coin again) *)
Record env := { e_collector : addr; e_gov : addr; e_blocked : list addr; e_allowed_once : bool;
                e_defaults : params        (* types.DefaultParams() — generated fact *);
                e_san : list san_rule      (* what ModuleParams.Sanitize rewrites — generated fact *) }.

(** ModuleParams.Sanitize *)
Definition sanitize (E : env) (p : params) : params := apply_rules (e_defaults E) (e_san E) p p.

Fixpoint assoc {V} (l : list (addr * V)) (k : addr) : option V :=
  match l with
  | [] => None
  | (k', v) :: r => if Nat.eqb k' k then Some v else assoc r k
  end.

Definition wasm_lookup (W : wasm) (c : addr) : option cinfo := assoc W c.
Definition reg_lookup (R : registry) (c : addr) : option share_entry := assoc R c.
Definition reg_remove (R : registry) (c : addr) : registry := filter (fun kv => negb (Nat.eqb (fst kv) c)) R.
Definition reg_insert (R : registry) (c : addr) (e : share_entry) : registry := (c, e) :: reg_remove R c.

Definition is_contract (W : wasm) (a : addr) : bool :=
  match wasm_lookup W a with Some _ => true | None => false end.

Fixpoint mem (x : nat) (l : list nat) : bool :=
  match l with [] => false | y :: r => Nat.eqb y x || mem x r end.

Fixpoint count (x : nat) (l : list nat) : nat :=
  match l with [] => O | y :: r => if Nat.eqb y x then S (count x r) else count x r end.

(* -------------------------------------------------------------------- bank *)

Definition bank := addr -> denom -> Z.

Fixpoint amount_of (cs : coins) (d : denom) : Z :=
  match cs with
  | [] => 0
  | (d', a) :: r => if Nat.eqb d' d then a else amount_of r d
  end.

(** sdk.Coins never holds a zero coin: zero amounts are skipped *)
Definition can_pay (b : bank) (a : addr) (cs : coins) : bool :=
  forallb (fun c => Z.eqb (snd c) 0 || Z.leb (snd c) (b a (fst c))) cs.

Definition credit (b : bank) (a : addr) (cs : coins) : bank :=
  fun x d => if Nat.eqb x a then b x d + amount_of cs d else b x d.
Definition debit (b : bank) (a : addr) (cs : coins) : bank :=
  fun x d => if Nat.eqb x a then b x d - amount_of cs d else b x d.

Definition send (b : bank) (from to : addr) (cs : coins) : option bank :=
  if can_pay b from cs then Some (credit (debit b from cs) to cs) else None.

(* -------------------------------------------------------------------- messages *)

Inductive msg :=
| MExec (c : addr) (good : bool) (nested : option addr)
    (* top-level MsgExecuteContract; [good]: the payload is well formed; [nested]: target of the
       execute a reflect contract is asked to dispatch *)
| MWrap (m : msg)                    (* authz MsgExec{grantee = signer} around one message *)
| MRegister (c w : addr)             (* deployer = signer *)
| MUpdate (c w : addr)
| MCancel (c : addr)
| MOther (good : bool).              (* any other message without effect on the tracked state *)

Record txin := { t_signer : addr; t_fee : coins; t_msgs : list msg }.

(* -------------------------------------------------------------------- ante: payout *)

(** getWithdrawAddressesFromMsgs over a registry lookup function *)
Definition recipients (rl : addr -> option share_entry) (ms : list msg) : list addr :=
  flat_map (fun m => match m with
                     | MExec c _ _ => match rl c with Some e => [fs_withdrawer e] | None => [] end
                     | _ => []
                     end) ms.

Definition eff_recipients (p : params) (rl : addr -> option share_entry) (ms : list msg) : list addr :=
  if p_enabled p then recipients rl ms else [].

(** getAllowedFees: an empty list allows everything; otherwise a fee coin is added when an entry
    matches it — once (current code) or once per matching entry (before the fix) *)
Definition allowed_factor (E : env) (al : list denom) (d : denom) : Z :=
  if e_allowed_once E then (if mem d al then 1 else 0) else Z.of_nat (count d al).

Definition allowed_fees (E : env) (p : params) (fee : coins) : coins :=
  match p_allowed p with
  | [] => fee
  | al => map (fun c => (fst c, snd c * allowed_factor E al (fst c))) fee
  end.

(** govPercent.MulInt(amount).QuoInt64(numPairs).RoundInt() *)
Definition per_recipient (share amount : Z) (n : nat) : Z :=
  round_int (quo_int (mul_int share amount) (Z.of_nat n)).

Definition fee_pay_logic (fees : coins) (share : Z) (n : nat) : coins :=
  map (fun c => (fst c, per_recipient share (snd c) n)) fees.

Fixpoint pay_all (E : env) (b : bank) (rc : list addr) (split : coins) : option bank :=
  match rc with
  | [] => Some b
  | w :: r =>
      if mem w (e_blocked E) then None
      else match send b (e_collector E) w split with
           | None => None
           | Some b' => pay_all E b' r split
           end
  end.

(** DeductFeeDecorator followed by DevGasPayoutDecorator; [None] = the ante handler fails *)
Definition ante (E : env) (p : params) (R : registry) (b : bank) (t : txin) : option bank :=
  match (if is_nil (t_fee t) then Some b else send b (t_signer t) (e_collector E) (t_fee t)) with
  | None => None
  | Some b1 =>
      let rc := eff_recipients p (reg_lookup R) (t_msgs t) in
      match rc with
      | [] => Some b1
      | _ => pay_all E b1 rc (fee_pay_logic (allowed_fees E p (t_fee t)) (p_share p) (length rc))
      end
  end.

(* -------------------------------------------------------------------- messages: registry *)

Definition E_DISABLED := 1%nat.
Definition E_ALREADY := 2%nat.
Definition E_NOTREG := 4%nat.
Definition E_BADWITHDRAWER := 6%nat.
Definition E_UNAUTH := 10%nat.
Definition E_FUNDS := 11%nat.
Definition E_WASM := 13%nat.
Definition E_NOCONTRACT := 14%nat.
Definition E_OTHER := 15%nat.

Definition opt_eqb (a : option addr) (s : addr) : bool :=
  match a with Some x => Nat.eqb x s | None => false end.

(** GetContractAdminOrCreatorAddress *)
Definition admin_or_creator (info : cinfo) (s : addr) : bool :=
  match ci_admin info with
  | None => Nat.eqb (ci_creator info) s
  | Some a => Nat.eqb a s
  end.

(** isContractCreatedFromFactory *)
Definition factory (E : env) (W : wasm) (info : cinfo) (s : addr) : bool :=
  match ci_admin info with
  | Some a => Nat.eqb a (e_gov E) || (negb (Nat.eqb a s) && is_contract W a)
  | None => is_contract W (ci_creator info)
  end.

Definition exec_ok (W : wasm) (s : addr) (c : addr) (good : bool) (nested : option addr) : bool :=
  good &&
  match wasm_lookup W c with
  | None => false
  | Some info =>
      match ci_owner info with
      | None => true
      | Some o =>
          Nat.eqb o s &&
          match nested with
          | None => false           (* the plain payload is not a reflect message *)
          | Some tgt => match wasm_lookup W tgt with
                        | Some ti => match ci_owner ti with None => true | Some _ => false end
                        | None => false
                        end
          end
      end
  end.

Fixpoint run_msg (E : env) (p : params) (W : wasm) (s : addr) (R : registry) (m : msg) : registry + nat :=
  match m with
  | MExec c good nested => if exec_ok W s c good nested then inl R else inr E_WASM
  | MWrap m' => run_msg E p W s R m'
  | MOther good => if good then inl R else inr E_FUNDS
  | MRegister c w =>
      if negb (p_enabled p) then inr E_DISABLED
      else match reg_lookup R c with
           | Some _ => inr E_ALREADY
           | None =>
               match wasm_lookup W c with
               | None => inr E_NOCONTRACT
               | Some info =>
                   if factory E W info s then
                     if Nat.eqb w c then inl (reg_insert R c {| fs_deployer := c; fs_withdrawer := w |})
                     else inr E_BADWITHDRAWER
                   else if admin_or_creator info s then
                     inl (reg_insert R c {| fs_deployer := s; fs_withdrawer := w |})
                   else inr E_UNAUTH
               end
           end
  | MUpdate c w =>
      if negb (p_enabled p) then inr E_DISABLED
      else match reg_lookup R c with
           | None => inr E_NOTREG
           | Some e =>
               if Nat.eqb w (fs_withdrawer e) then inr E_ALREADY
               else match wasm_lookup W c with
                    | None => inr E_UNAUTH
                    | Some info =>
                        if admin_or_creator info s
                        then inl (reg_insert R c {| fs_deployer := fs_deployer e; fs_withdrawer := w |})
                        else inr E_UNAUTH
                    end
           end
  | MCancel c =>
      if negb (p_enabled p) then inr E_DISABLED
      else match reg_lookup R c with
           | None => inr E_NOTREG
           | Some _ =>
               match wasm_lookup W c with
               | None => inr E_UNAUTH
               | Some info => if admin_or_creator info s then inl (reg_remove R c) else inr E_UNAUTH
               end
           end
  end.

Fixpoint run_msgs (E : env) (p : params) (W : wasm) (s : addr) (R : registry) (ms : list msg) : registry + nat :=
  match ms with
  | [] => inl R
  | m :: r => match run_msg E p W s R m with
              | inl R' => run_msgs E p W s R' r
              | inr e => inr e
              end
  end.

(* -------------------------------------------------------------------- state and steps *)

(** [s_params]: the parameters as set by the last accepted MsgUpdateParams / genesis (never read by
    the code — it is what the property is stated against); [s_store]: the stored ModuleParams item *)
Record state := { s_params : params; s_store : params; s_wasm : wasm; s_reg : registry; s_bank : bank }.

(** Keeper.GetParams: the stored item through Sanitize — the only way the ante handler and the
    registry handlers see the parameters *)
Definition read_params (E : env) (st : state) : params := sanitize E (s_store st).

Record txout := { x_class : nat (* 0 delivered, 1 rejected by the ante handler, 2 messages failed *);
                  x_err : nat }.

Definition step_tx (E : env) (st : state) (t : txin) : state * txout :=
  let p := read_params E st in
  match ante E p (s_reg st) (s_bank st) t with
  | None => (st, {| x_class := 1; x_err := E_FUNDS |})
  | Some b' =>
      match run_msgs E p (s_wasm st) (t_signer t) (s_reg st) (t_msgs t) with
      | inl R' => ({| s_params := s_params st; s_store := s_store st; s_wasm := s_wasm st; s_reg := R'; s_bank := b' |},
                   {| x_class := 0; x_err := 0 |})
      | inr e => ({| s_params := s_params st; s_store := s_store st; s_wasm := s_wasm st; s_reg := s_reg st; s_bank := b' |},
                  {| x_class := 2; x_err := e |})
      end
  end.

(** environment operations between transactions *)
Inductive envop :=
| SetParams (p : params)      (* MsgUpdateParams by the gov authority: Validate, then stored as is *)
| Genesis (p : params)        (* InitGenesis: Validate, then Sanitize(p) stored *)
| SetAdmin (c : addr) (a : option addr)
| Resync (b : bank).          (* block boundary: balances re-read (distribution sweeps the collector) *)

Fixpoint wasm_set_admin (W : wasm) (c : addr) (a : option addr) : wasm :=
  match W with
  | [] => []
  | (k, i) :: r =>
      if Nat.eqb k c
      then (k, {| ci_creator := ci_creator i; ci_admin := a; ci_owner := ci_owner i |}) :: r
      else (k, i) :: wasm_set_admin r c a
  end.

(** ModuleParams.Validate as used by the UpdateParams handler: 0 ≤ DeveloperShares ≤ 1
    (AllowedDenoms entries only have to be non-blank; repeats are accepted).  GenesisState.Validate
    ends in the same check. *)
Definition params_valid (p : params) : bool := Z.leb 0 (p_share p) && Z.leb (p_share p) PREC.

Definition step_env (E : env) (st : state) (o : envop) : state :=
  match o with
  | SetParams p =>
      if params_valid p
      then {| s_params := p; s_store := p; s_wasm := s_wasm st; s_reg := s_reg st; s_bank := s_bank st |}
      else st
  | Genesis p =>
      if params_valid p
      then {| s_params := p; s_store := sanitize E p; s_wasm := s_wasm st; s_reg := s_reg st; s_bank := s_bank st |}
      else st
  | SetAdmin c a => {| s_params := s_params st; s_store := s_store st; s_wasm := wasm_set_admin (s_wasm st) c a; s_reg := s_reg st; s_bank := s_bank st |}
  | Resync b => {| s_params := s_params st; s_store := s_store st; s_wasm := s_wasm st; s_reg := s_reg st; s_bank := b |}
  end.

Inductive event := EvTx (t : txin) | EvEnv (o : envop).

Definition step (E : env) (st : state) (ev : event) : state :=
  match ev with
  | EvTx t => fst (step_tx E st t)
  | EvEnv o => step_env E st o
  end.

(** all transaction transitions (state before, tx, state after, outcome) of a history *)
Fixpoint transitions (E : env) (st : state) (evs : list event) : list (state * txin * state * txout) :=
  match evs with
  | [] => []
  | EvTx t :: r => let '(st', o) := step_tx E st t in (st, t, st', o) :: transitions E st' r
  | EvEnv o :: r => transitions E (step_env E st o) r
  end.

Definition default_params : params :=
  {| p_enabled := true; p_share := 500000000000000000; p_allowed := [] |}.
