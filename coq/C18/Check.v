(** C18 — evaluation of implementation traces: correspondence (model vs observed) and the property
    predicate [Pb_tx] on the observed trace itself. *)
From Coq Require Import ZArith List Bool Arith.
Import ListNotations.
Require Import Nib.Lib.Dec Nib.C18.Model Nib.C18.Spec.
Local Open Scope Z_scope.

Definition regtable := list (addr * option share_entry).

Definition rt_lookup (rt : regtable) (c : addr) : option share_entry :=
  match assoc rt c with Some (Some e) => Some e | _ => None end.

(** what the implementation showed for one delivered transaction *)
Record tx_obs := { o_class : nat; o_err : nat; o_delta : table; o_reg : regtable }.

Inductive cstep :=
| CParams (p : params) (accepted : bool)      (* observed: did UpdateParams accept it *)
| CGenesis (p : params) (accepted : bool)     (* observed: did InitGenesis accept it (no panic) *)
| CAdmin (c : addr) (a : option addr)
| CBlock (bal : table)            (* balances re-read after EndBlock/BeginBlock *)
| CTx (t : txin) (o : tx_obs).

Record case := {
  c_env : env;
  c_wasm : wasm;
  c_ids : list addr;              (* every tracked address *)
  c_denoms : list denom;
  c_bal0 : table;
  c_reg0 : regtable;
  c_steps : list cstep }.

(* shorthands used by the generated case files *)
Definition fs (d w : addr) : option share_entry := Some {| fs_deployer := d; fs_withdrawer := w |}.
Definition ci (creator : addr) (admin owner : option addr) : cinfo :=
  {| ci_creator := creator; ci_admin := admin; ci_owner := owner |}.
Definition mkp (en : bool) (share : Z) (al : list denom) : params :=
  {| p_enabled := en; p_share := share; p_allowed := al |}.
Definition mkt (s : addr) (fee : coins) (ms : list msg) : txin := {| t_signer := s; t_fee := fee; t_msgs := ms |}.
Definition mko (cl er : nat) (dl : table) (rg : regtable) : tx_obs :=
  {| o_class := cl; o_err := er; o_delta := dl; o_reg := rg |}.

Definition registry_of (rt : regtable) : registry :=
  flat_map (fun kv => match snd kv with Some e => [(fst kv, e)] | None => [] end) rt.

Definition init_state (c : case) : state :=
  {| s_params := default_params; s_store := default_params; s_wasm := c_wasm c; s_reg := registry_of (c_reg0 c); s_bank := tlookup (c_bal0 c) |}.

(** the nil dereference on a missing contract surfaces as a recovered panic; a proper
    "unauthorized / not found" error would be the same class for the property *)
Definition err_matches (model observed : nat) : bool :=
  Nat.eqb model observed || (Nat.eqb model E_NOCONTRACT && Nat.eqb observed E_UNAUTH).

Definition tx_mismatch (c : case) (st st' : state) (out : txout) (o : tx_obs) : bool :=
  negb (Nat.eqb (x_class out) (o_class o)
        && err_matches (x_err out) (o_err o)
        && forallb (fun a => forallb (fun d =>
                      Z.eqb (s_bank st' a d - s_bank st a d) (tlookup (o_delta o) a d)) (c_denoms c)) (c_ids c)
        && forallb (fun kv => oentry_eqb (reg_lookup (s_reg st') (fst kv)) (snd kv)) (o_reg o)).

Fixpoint run_mismatch (c : case) (st : state) (steps : list cstep) : bool :=
  match steps with
  | [] => false
  | CParams p ok :: r => negb (Bool.eqb (params_valid p) ok) || run_mismatch c (step_env (c_env c) st (SetParams p)) r
  | CGenesis p ok :: r => negb (Bool.eqb (params_valid p) ok) || run_mismatch c (step_env (c_env c) st (Genesis p)) r
  | CAdmin k a :: r => run_mismatch c (step_env (c_env c) st (SetAdmin k a)) r
  | CBlock bal :: r => run_mismatch c (step_env (c_env c) st (Resync (tlookup bal))) r
  | CTx t o :: r =>
      let '(st', out) := step_tx (c_env c) st t in
      tx_mismatch c st st' out o || run_mismatch c st' r
  end.

Definition mismatch (c : case) : bool := run_mismatch c (init_state c) (c_steps c).

(** the property on the OBSERVED trace: the params are the ones AS SET by the last accepted
    MsgUpdateParams / genesis of the input (never what the keeper reads back), contract infos
    follow the inputs, the registry before a tx is the registry observed after the previous one *)
Fixpoint run_violates (E : env) (p : params) (W : wasm) (rb : regtable) (steps : list cstep) : bool :=
  match steps with
  | [] => false
  | CParams p' ok :: r => run_violates E (if ok then p' else p) W rb r
  | CGenesis p' ok :: r => run_violates E (if ok then p' else p) W rb r
  | CAdmin k a :: r => run_violates E p (wasm_set_admin W k a) rb r
  | CBlock _ :: r => run_violates E p W rb r
  | CTx t o :: r =>
      negb (Pb_tx E p W (rt_lookup rb) t (o_class o) (o_delta o) (rt_lookup (o_reg o)) (map fst (o_reg o)))
      || run_violates E p W (o_reg o) r
  end.

Definition violates (c : case) : bool :=
  run_violates (c_env c) default_params (c_wasm c) (c_reg0 c) (c_steps c).
