(** C12 — the property over OBSERVED histories: what the oracle store / module balance / staking
    state / distribution credits look like after each step, as Prop [P_step] / [P_history] and as
    boolean checker [Pb_step] / [Pb_history]; soundness [Pb_history_sound].

    The declarative notions used to state it ([spec_miss], [spec_weight]) do not mention the
    iteration structure of the code (no loop over sorted votes, no "missedValidators" set). *)
From Coq Require Import ZArith List Bool Arith Lia.
Import ListNotations.
Require Import Nib.Lib.Dec Nib.C10.Model Nib.C10.Spec Nib.C12.Model.
Local Open Scope Z_scope.

(* ---------------------------------------------------------------- observations *)

Record sobs := mkSObs {
  so_panic   : bool;
  so_miss    : list (nat * Z);          (* MissCounters, sorted by validator id *)
  so_rewards : list reward;             (* Rewards store in id order *)
  so_balance : list Z;                  (* oracle module account, one amount per denom *)
  so_paid    : list (nat * list Z);     (* increase of distribution outstanding rewards during this call *)
  so_post    : list (nat * bool * Z)    (* (id, jailed, tokens) after the call *)
}.
Definition empty_sobs : sobs := mkSObs false [] [] [] [] [].

Definition norm2 (l : list Z) : list Z := [nth 0 l 0; nth 1 l 0].
Definition nonzero2 (l : list Z) : bool := negb ((nth 0 l 0 =? 0) && (nth 1 l 0 =? 0)).

Fixpoint insert_paid (e : nat * list Z) (l : list (nat * list Z)) : list (nat * list Z) :=
  match l with
  | [] => [e]
  | x :: r => if Nat.leb (fst e) (fst x) then e :: l else x :: insert_paid e r
  end.
Definition canon_paid (l : list (nat * list Z)) : list (nat * list Z) :=
  fold_right insert_paid [] (map (fun e => (fst e, norm2 (snd e))) (filter (fun e => nonzero2 (snd e)) l)).

(** what the model state + effects look like to the observer *)
Definition obs_of (s : ostate) (e : effects) : sobs :=
  mkSObs false (os_miss s) (os_rewards s) (norm2 (os_balance s)) (canon_paid (ef_paid e)) (ef_post e).

Section ListEq.
  Context {A : Type} (eqb : A -> A -> bool).
  Fixpoint list_eqb (a b : list A) : bool :=
    match a, b with
    | [], [] => true
    | x :: a', y :: b' => eqb x y && list_eqb a' b'
    | _, _ => false
    end.
  Lemma list_eqb_eq : (forall x y, eqb x y = true -> x = y) -> forall a b, list_eqb a b = true -> a = b.
  Proof.
    intro H. induction a as [|x a IH]; intros [|y b] E; simpl in E; try discriminate; [reflexivity|].
    apply andb_true_iff in E as [E1 E2]. rewrite (H _ _ E1), (IH _ E2). reflexivity.
  Qed.
End ListEq.

Definition nz_eqb (a b : nat * Z) : bool := Nat.eqb (fst a) (fst b) && (snd a =? snd b).
Definition zs_eqb : list Z -> list Z -> bool := list_eqb Z.eqb.
Definition reward_eqb (a b : reward) : bool := (rw_periods a =? rw_periods b) && zs_eqb (rw_coins a) (rw_coins b).
Definition paid_eqb (a b : nat * list Z) : bool := Nat.eqb (fst a) (fst b) && zs_eqb (snd a) (snd b).
Definition post_eqb (a b : nat * bool * Z) : bool :=
  Nat.eqb (fst (fst a)) (fst (fst b)) && Bool.eqb (snd (fst a)) (snd (fst b)) && (snd a =? snd b).

Lemma nz_eqb_eq a b : nz_eqb a b = true -> a = b.
Proof. destruct a, b. unfold nz_eqb. simpl. intro H. apply andb_true_iff in H as [H1 H2]. apply Nat.eqb_eq in H1. apply Z.eqb_eq in H2. subst. reflexivity. Qed.
Lemma zs_eqb_eq a b : zs_eqb a b = true -> a = b.
Proof. apply list_eqb_eq. intros x y. apply Z.eqb_eq. Qed.
Lemma reward_eqb_eq a b : reward_eqb a b = true -> a = b.
Proof. destruct a, b. unfold reward_eqb. simpl. intro H. apply andb_true_iff in H as [H1 H2]. apply Z.eqb_eq in H1. apply zs_eqb_eq in H2. subst. reflexivity. Qed.
Lemma paid_eqb_eq a b : paid_eqb a b = true -> a = b.
Proof. destruct a, b. unfold paid_eqb. simpl. intro H. apply andb_true_iff in H as [H1 H2]. apply Nat.eqb_eq in H1. apply zs_eqb_eq in H2. subst. reflexivity. Qed.
Lemma post_eqb_eq a b : post_eqb a b = true -> a = b.
Proof.
  destruct a as [[a1 a2] a3], b as [[b1 b2] b3]. unfold post_eqb. simpl. intro H.
  apply andb_true_iff in H as [H H3]. apply andb_true_iff in H as [H1 H2].
  apply Nat.eqb_eq in H1. apply Bool.eqb_prop in H2. apply Z.eqb_eq in H3. subst. reflexivity.
Qed.

Definition obs_eqb (a b : sobs) : bool :=
  Bool.eqb (so_panic a) (so_panic b) &&
  list_eqb nz_eqb (so_miss a) (so_miss b) &&
  list_eqb reward_eqb (so_rewards a) (so_rewards b) &&
  zs_eqb (norm2 (so_balance a)) (norm2 (so_balance b)) &&
  list_eqb paid_eqb (canon_paid (so_paid a)) (canon_paid (so_paid b)) &&
  list_eqb post_eqb (so_post a) (so_post b).

(* ---------------------------------------------------------------- declarative notions *)

(** validator [id] submitted, for a pair, a POSITIVE rate OUTSIDE the reward band around the median *)
Definition missed_pair (band : Z) (vs : list pvote) (id : nat) : bool :=
  let m := wmedian true vs in
  let s := reward_spread band m vs in
  existsb (fun v => Nat.eqb (pv_voter v) id && (0 <? pv_rate v) && negb (in_band m s v)) vs.

(** number of quorum pairs on which [id] missed *)
Definition spec_miss (p : params) (st : state) (id : nat) : Z :=
  Z.of_nat (length (filter (fun pr => missed_pair (p_reward_band p) (pair_votes st pr) id) (valid_pairs p st))).

(** power of [id]'s in-band votes of one pair *)
Definition pair_weight (band : Z) (vs : list pvote) (id : nat) : Z :=
  let m := wmedian true vs in
  let s := reward_spread band m vs in
  total_power (filter (fun v => Nat.eqb (pv_voter v) id && in_band m s v) vs).

(** reward weight: voting power summed over the quorum pairs where the vote was in band *)
Definition spec_weight (p : params) (st : state) (id : nat) : Z :=
  fold_right Z.add 0 (map (fun pr => pair_weight (p_reward_band p) (pair_votes st pr) id) (valid_pairs p st)).

Definition eligible_ids (st : state) : list nat := map fst (eligible st).
Definition spec_total_weight (p : params) (st : state) : Z :=
  fold_right Z.add 0 (map (spec_weight p st) (eligible_ids st)).

(** miss counters after a period end *)
Definition exp_miss_f (f : nat -> Z) (ids : list nat) (mc : list (nat * Z)) : list (nat * Z) :=
  fold_left (fun mc id => let k := f id in if 0 <? k then bump id k mc else mc) ids mc.
Definition exp_miss (p : params) (st : state) (mc : list (nat * Z)) : list (nat * Z) :=
  exp_miss_f (spec_miss p st) (eligible_ids st) mc.

(** the same notions with median and spread of every quorum pair computed once (used by the checker) *)
Definition pair_ctxs (p : params) (st : state) : list (list pvote * Z * Z) :=
  map (fun pr => let vs := pair_votes st pr in let m := wmedian true vs in
                 (vs, m, reward_spread (p_reward_band p) m vs)) (valid_pairs p st).
Definition ctx_weight (c : list pvote * Z * Z) (id : nat) : Z :=
  total_power (filter (fun v => Nat.eqb (pv_voter v) id && in_band (snd (fst c)) (snd c) v) (fst (fst c))).
Definition ctx_missed (c : list pvote * Z * Z) (id : nat) : bool :=
  existsb (fun v => Nat.eqb (pv_voter v) id && (0 <? pv_rate v) && negb (in_band (snd (fst c)) (snd c) v)) (fst (fst c)).
Definition weight_of (cs : list (list pvote * Z * Z)) (id : nat) : Z :=
  fold_right Z.add 0 (map (fun c => ctx_weight c id) cs).
Definition miss_of (cs : list (list pvote * Z * Z)) (id : nat) : Z :=
  Z.of_nat (length (filter (fun c => ctx_missed c id) cs)).

Lemma spec_weight_ctx p st id : spec_weight p st id = weight_of (pair_ctxs p st) id.
Proof. unfold spec_weight, weight_of, pair_ctxs. rewrite map_map. reflexivity. Qed.

Lemma filter_map_length {A B} (h : A -> B) (g : B -> bool) l :
  length (filter g (map h l)) = length (filter (fun x => g (h x)) l).
Proof. induction l as [|x l IH]; simpl; [reflexivity|]. destruct (g (h x)); simpl; rewrite IH; reflexivity. Qed.

Lemma spec_miss_ctx p st id : spec_miss p st id = miss_of (pair_ctxs p st) id.
Proof. unfold spec_miss, miss_of, pair_ctxs. rewrite filter_map_length. reflexivity. Qed.

Lemma exp_miss_f_ext f g ids : (forall id, f id = g id) -> forall mc, exp_miss_f f ids mc = exp_miss_f g ids mc.
Proof.
  intro H. unfold exp_miss_f. induction ids as [|i ids IH]; simpl; intro mc; [reflexivity|].
  rewrite H. apply IH.
Qed.

Lemma total_weight_ctx p st :
  spec_total_weight p st = fold_right Z.add 0 (map (weight_of (pair_ctxs p st)) (eligible_ids st)).
Proof.
  unfold spec_total_weight. f_equal. apply map_ext. intro id. apply spec_weight_ctx.
Qed.

(** what is still owed by the module: coins per period * remaining periods *)
Definition owed (rs : list reward) : list Z :=
  coins_sum (map (fun r => map (Z.mul (rw_periods r)) (rw_coins r)) rs).
Definition solvent (o : sobs) : Prop := coins_le (norm2 (owed (so_rewards o))) (norm2 (so_balance o)) = true.

(** [paid] is the pro-rata share of [pot] for weight [w] out of [W]: never more, and less by under one
    unit plus a 10^-18 relative truncation *)
Definition fair_share (pot w W paid : Z) : Prop :=
  0 <= paid /\ paid * W <= pot * w /\ pot * w * PREC < (paid + 1) * W * PREC + pot * W.
Definition fair_share_b (pot w W paid : Z) : bool :=
  (0 <=? paid) && (paid * W <=? pot * w) && (pot * w * PREC <? (paid + 1) * W * PREC + pot * W).

Fixpoint paid_of (id : nat) (l : list (nat * list Z)) : list Z :=
  match l with
  | [] => [0; 0]
  | (i, c) :: r => if Nat.eqb i id then norm2 c else paid_of id r
  end.

Definition fair2 (pot : list Z) (w W : Z) (paid : list Z) : Prop :=
  fair_share (nth 0 pot 0) w W (nth 0 paid 0) /\ fair_share (nth 1 pot 0) w W (nth 1 paid 0).
Definition fair2_b (pot : list Z) (w W : Z) (paid : list Z) : bool :=
  fair_share_b (nth 0 pot 0) w W (nth 0 paid 0) && fair_share_b (nth 1 pot 0) w W (nth 1 paid 0).

(** the overflow-free part of the input space (C10's domain for a state without stored rates) *)
Definition dom12 (q : oparams) (st : state) : bool :=
  domain (op_base q) (mkState (validators st) (max_validators st) (bonded_tokens st) (power_reduction st)
                              (whitelist st) (votes st) []) 0 &&
  (0 <? p_vote_period (op_base q)) && (p_vote_period (op_base q) <=? op_slash_window q).

(* ---------------------------------------------------------------- the property of one step *)

Definition P_end (q : oparams) (prev : sobs) (st : state) (svs : list sval) (h : Z) (cur : sobs) : Prop :=
  let p := op_base q in
  let upd := is_period_last h (p_vote_period p) in
  let win := is_period_last h (op_slash_window q) in
  let m1 := if upd then exp_miss p st (so_miss prev) else so_miss prev in
  let W := spec_total_weight p st in
  let pays := upd && negb (W =? 0) in
  let pot := norm2 (fst (gather (so_rewards prev))) in
  so_panic cur = false /\
  (* miss counters grow by the number of quorum pairs with a positive out-of-band vote; reset at a window end *)
  so_miss cur = (if win then [] else m1) /\
  (* exactly the low-valid-rate, existing, bonded, unjailed validators are slashed and jailed *)
  so_post cur = (if win then slash_post q (power_reduction st) m1 svs else unchanged_post svs) /\
  (* reward allocations: one period consumed iff someone has reward weight *)
  so_rewards cur = (if pays then snd (gather (so_rewards prev)) else so_rewards prev) /\
  (* each eligible validator receives its pro-rata share, nobody else receives anything *)
  (if pays
   then (forall id, In id (eligible_ids st) -> fair2 pot (spec_weight p st id) W (paid_of id (so_paid cur))) /\
        (forall e, In e (so_paid cur) -> In (fst e) (eligible_ids st)) /\
        coins_le (norm2 (coins_sum (map snd (so_paid cur)))) pot = true
   else so_paid cur = []) /\
  (* the module account pays exactly what was credited *)
  norm2 (so_balance cur) = norm2 (coins_sub (norm2 (so_balance prev)) (norm2 (coins_sum (map snd (so_paid cur))))) /\
  solvent cur.

Definition P_step (q : oparams) (prev : sobs) (o : op) (cur : sobs) : Prop :=
  match o with
  | OEnd st svs h => dom12 q st = true -> P_end q prev st svs h cur
  | OAlloc coins n =>
      so_panic cur = false /\ so_miss cur = so_miss prev /\
      so_rewards cur = so_rewards prev ++ [mkReward n (per_period coins n)] /\
      norm2 (so_balance cur) = norm2 (coins_add (norm2 (so_balance prev)) coins) /\
      so_paid cur = [] /\ solvent cur
  | OOther =>
      so_panic cur = false /\ so_miss cur = so_miss prev /\ so_rewards cur = so_rewards prev /\
      norm2 (so_balance cur) = norm2 (so_balance prev) /\ so_paid cur = [] /\ solvent cur
  end.

(** the history: every step satisfies [P_step] w.r.t. the observation before it *)
Fixpoint P_history (q : oparams) (prev : sobs) (l : list (op * sobs)) : Prop :=
  match l with
  | [] => True
  | (o, cur) :: r => P_step q prev o cur /\ P_history q cur r
  end.

(* ---------------------------------------------------------------- boolean checker *)

Definition solvent_b (o : sobs) : bool := coins_le (norm2 (owed (so_rewards o))) (norm2 (so_balance o)).

Definition Pb_end (q : oparams) (prev : sobs) (st : state) (svs : list sval) (h : Z) (cur : sobs) : bool :=
  let p := op_base q in
  let upd := is_period_last h (p_vote_period p) in
  let win := is_period_last h (op_slash_window q) in
  let cs := pair_ctxs p st in
  let m1 := if upd then exp_miss_f (miss_of cs) (eligible_ids st) (so_miss prev) else so_miss prev in
  let W := fold_right Z.add 0 (map (weight_of cs) (eligible_ids st)) in
  let pays := upd && negb (W =? 0) in
  let pot := norm2 (fst (gather (so_rewards prev))) in
  negb (so_panic cur) &&
  list_eqb nz_eqb (so_miss cur) (if win then [] else m1) &&
  list_eqb post_eqb (so_post cur) (if win then slash_post q (power_reduction st) m1 svs else unchanged_post svs) &&
  list_eqb reward_eqb (so_rewards cur) (if pays then snd (gather (so_rewards prev)) else so_rewards prev) &&
  (if pays
   then forallb (fun id => fair2_b pot (weight_of cs id) W (paid_of id (so_paid cur))) (eligible_ids st) &&
        forallb (fun e => memb (fst e) (eligible_ids st)) (so_paid cur) &&
        coins_le (norm2 (coins_sum (map snd (so_paid cur)))) pot
   else match so_paid cur with [] => true | _ => false end) &&
  zs_eqb (norm2 (so_balance cur)) (norm2 (coins_sub (norm2 (so_balance prev)) (norm2 (coins_sum (map snd (so_paid cur)))))) &&
  solvent_b cur.

Definition Pb_step (q : oparams) (prev : sobs) (o : op) (cur : sobs) : bool :=
  match o with
  | OEnd st svs h => negb (dom12 q st) || Pb_end q prev st svs h cur
  | OAlloc coins n =>
      negb (so_panic cur) && list_eqb nz_eqb (so_miss cur) (so_miss prev) &&
      list_eqb reward_eqb (so_rewards cur) (so_rewards prev ++ [mkReward n (per_period coins n)]) &&
      zs_eqb (norm2 (so_balance cur)) (norm2 (coins_add (norm2 (so_balance prev)) coins)) &&
      (match so_paid cur with [] => true | _ => false end) && solvent_b cur
  | OOther =>
      negb (so_panic cur) && list_eqb nz_eqb (so_miss cur) (so_miss prev) &&
      list_eqb reward_eqb (so_rewards cur) (so_rewards prev) &&
      zs_eqb (norm2 (so_balance cur)) (norm2 (so_balance prev)) &&
      (match so_paid cur with [] => true | _ => false end) && solvent_b cur
  end.

Fixpoint Pb_history (q : oparams) (prev : sobs) (l : list (op * sobs)) : bool :=
  match l with
  | [] => true
  | (o, cur) :: r => Pb_step q prev o cur && Pb_history q cur r
  end.

(* ---------------------------------------------------------------- soundness *)

Lemma fair_share_b_iff pot w W paid : fair_share_b pot w W paid = true <-> fair_share pot w W paid.
Proof. unfold fair_share_b, fair_share. rewrite !andb_true_iff, !Z.leb_le, Z.ltb_lt. tauto. Qed.

Lemma fair2_b_iff pot w W paid : fair2_b pot w W paid = true <-> fair2 pot w W paid.
Proof. unfold fair2_b, fair2. rewrite andb_true_iff, !fair_share_b_iff. tauto. Qed.

Lemma paid_nil_b (l : list (nat * list Z)) : (match l with [] => true | _ => false end) = true -> l = [].
Proof. destruct l; [reflexivity | discriminate]. Qed.

Lemma Pb_end_sound q prev st svs h cur : Pb_end q prev st svs h cur = true -> P_end q prev st svs h cur.
Proof.
  unfold Pb_end, P_end. intro H.
  rewrite <- total_weight_ctx in H.
  rewrite (exp_miss_f_ext (miss_of (pair_ctxs (op_base q) st)) (spec_miss (op_base q) st)) in H
    by (intro; symmetry; apply spec_miss_ctx).
  fold (exp_miss (op_base q) st (so_miss prev)) in H.
  repeat (apply andb_true_iff in H as [H ?]).
  rename H into H1, H5 into H2, H4 into H3, H3 into H4, H2 into H5, H1 into H6, H0 into H7.
  split; [apply negb_true_iff; exact H1|].
  split; [apply (list_eqb_eq nz_eqb nz_eqb_eq); exact H2|].
  split; [apply (list_eqb_eq post_eqb post_eqb_eq); exact H3|].
  split; [apply (list_eqb_eq reward_eqb reward_eqb_eq); exact H4|].
  split.
  - destruct (is_period_last h (p_vote_period (op_base q)) && negb (spec_total_weight (op_base q) st =? 0)).
    + apply andb_true_iff in H5 as [H5 Hc]. apply andb_true_iff in H5 as [Ha Hb].
      rewrite forallb_forall in Ha, Hb. split; [|split; [|exact Hc]].
      * intros id Hid. apply fair2_b_iff. rewrite spec_weight_ctx. apply Ha. exact Hid.
      * intros e He. apply memb_iff. apply Hb. exact He.
    + apply paid_nil_b. exact H5.
  - split; [apply zs_eqb_eq; exact H6 | exact H7].
Qed.

Lemma Pb_step_sound q prev o cur : Pb_step q prev o cur = true -> P_step q prev o cur.
Proof.
  destruct o as [st svs h | coins n |]; simpl; intro H.
  - intro Hd. rewrite Hd in H. simpl in H. apply Pb_end_sound. exact H.
  - repeat (apply andb_true_iff in H as [H ?]).
    split; [apply negb_true_iff; exact H|].
    split; [apply (list_eqb_eq nz_eqb nz_eqb_eq); assumption|].
    split; [apply (list_eqb_eq reward_eqb reward_eqb_eq); assumption|].
    split; [apply zs_eqb_eq; assumption|]. split; [apply paid_nil_b; assumption | assumption].
  - repeat (apply andb_true_iff in H as [H ?]).
    split; [apply negb_true_iff; exact H|].
    split; [apply (list_eqb_eq nz_eqb nz_eqb_eq); assumption|].
    split; [apply (list_eqb_eq reward_eqb reward_eqb_eq); assumption|].
    split; [apply zs_eqb_eq; assumption|]. split; [apply paid_nil_b; assumption | assumption].
Qed.

Lemma Pb_history_sound q : forall l prev, Pb_history q prev l = true -> P_history q prev l.
Proof.
  induction l as [|[o cur] l IH]; simpl; intros prev H; [exact I|].
  apply andb_true_iff in H as [H1 H2]. split; [apply Pb_step_sound; exact H1 | apply IH; exact H2].
Qed.

(* ================================================================ histories with a persistent Votes store *)

(** One observed step = (operation, observation, Votes store after it).  [cast] = the votes submitted
    since the last vote-period end, tracked by the specification itself (not read from the
    implementation): misses, reward weights and payouts of a period are judged against the votes of THAT
    period only, and no vote may survive a period end. *)
Definition P_hstep12 (q : oparams) (prev : sobs) (cast : list avote) (o : op) (cur : sobs) (vs : list avote) : Prop :=
  P_step q prev (eff_op cast o) cur /\ (so_panic cur = false -> vs = next_store q cast o).

Fixpoint P_history12 (q : oparams) (prev : sobs) (cast : list avote) (l : list (op * sobs * list avote)) : Prop :=
  match l with
  | [] => True
  | (o, cur, vs) :: r => P_hstep12 q prev cast o cur vs /\ P_history12 q cur (next_store q cast o) r
  end.

Definition Pb_hstep12 (q : oparams) (prev : sobs) (cast : list avote) (o : op) (cur : sobs) (vs : list avote) : bool :=
  Pb_step q prev (eff_op cast o) cur && (so_panic cur || leqb avote_eqb vs (next_store q cast o)).

Fixpoint Pb_history12 (q : oparams) (prev : sobs) (cast : list avote) (l : list (op * sobs * list avote)) : bool :=
  match l with
  | [] => true
  | (o, cur, vs) :: r => Pb_hstep12 q prev cast o cur vs && Pb_history12 q cur (next_store q cast o) r
  end.

Lemma Pb_history12_sound q : forall l prev cast, Pb_history12 q prev cast l = true -> P_history12 q prev cast l.
Proof.
  induction l as [|[[o cur] vs] l IH]; intros prev cast H; [exact I|].
  cbn [Pb_history12 P_history12] in *. apply andb_true_iff in H as [H1 H2].
  split; [|apply IH; exact H2].
  unfold Pb_hstep12 in H1. apply andb_true_iff in H1 as [A B]. split; [apply Pb_step_sound; exact A|].
  intro Hp. rewrite Hp in B. simpl in B. apply (leqb_eq avote_eqb avote_eqb_eq). exact B.
Qed.

(* ================================================================ histories with parameter edits *)

(** The oracle parameters can be edited between two steps (MsgEditOracleParams; also to the zero values that
    Params.Validate accepts: RewardBand 0, SlashFraction 0, MinValidPerWindow 0).  One observed step =
    (parameters in force at the step, operation, observation, Votes store after it): every step is judged
    under the parameters stored when it runs — the counters collected earlier in the window under other
    parameters included. *)
Fixpoint P_history12v (prev : sobs) (cast : list avote) (l : list (oparams * op * sobs * list avote)) : Prop :=
  match l with
  | [] => True
  | (q, o, cur, vs) :: r => P_hstep12 q prev cast o cur vs /\ P_history12v cur (next_store q cast o) r
  end.

Fixpoint Pb_history12v (prev : sobs) (cast : list avote) (l : list (oparams * op * sobs * list avote)) : bool :=
  match l with
  | [] => true
  | (q, o, cur, vs) :: r => Pb_hstep12 q prev cast o cur vs && Pb_history12v cur (next_store q cast o) r
  end.

Lemma Pb_hstep12_sound q prev cast o cur vs : Pb_hstep12 q prev cast o cur vs = true -> P_hstep12 q prev cast o cur vs.
Proof.
  unfold Pb_hstep12. intro H. apply andb_true_iff in H as [A B]. split; [apply Pb_step_sound; exact A|].
  intro Hp. rewrite Hp in B. simpl in B. apply (leqb_eq avote_eqb avote_eqb_eq). exact B.
Qed.

Lemma Pb_history12v_sound : forall l prev cast, Pb_history12v prev cast l = true -> P_history12v prev cast l.
Proof.
  induction l as [|[[[q o] cur] vs] l IH]; intros prev cast H; [exact I|].
  cbn [Pb_history12v P_history12v] in *. apply andb_true_iff in H as [H1 H2].
  split; [apply Pb_hstep12_sound; exact H1 | apply IH; exact H2].
Qed.

(** with the same parameters at every step this is [P_history12] *)
Lemma P_history12v_const q : forall l prev cast,
  P_history12v prev cast (map (fun x => (q, fst (fst x), snd (fst x), snd x)) l) <-> P_history12 q prev cast l.
Proof.
  induction l as [|[[o cur] vs] l IH]; intros prev cast; [simpl; tauto|].
  cbn [map P_history12v P_history12 fst snd]. rewrite IH. tauto.
Qed.
