(** C12 — the structural facts about the slashing / reward / tally code that the model is
    parameterised by; re-extracted from /repo on every check (Gen/C12Facts.v, harness/gen/c12).
    No proofs in this file. *)
From Coq Require Import ZArith List Bool Arith String.
Import ListNotations.
Require Import Nib.Lib.Dec Nib.C10.Model Nib.C10.Cfg Nib.C12.Model.

Inductive cast_form := CastInt64 | CastUint64 | CastOther.
Inductive div_form := DivQuoRaw | DivOther.

Record code_cfg12 := {
  sc_guard_nonnil : bool;            (* Slash is reached only for validator != nil (fe7d502) *)
  sc_guard_bonded : bool;            (* … IsBonded() *)
  sc_guard_notjailed : bool;         (* … !IsJailed() *)
  sc_guard_other : nat;              (* further conditions on the way to Slash *)
  sc_delete_in_loop_body : bool;     (* MissCounters.Delete is a statement of the loop body itself *)
  sc_continues_before_delete : nat;  (* `continue`s that can skip it … *)
  sc_continues_only_on_error : bool; (* … all guarded by an error condition (GetConsAddr failed) *)
  sc_periods_minus_misses : cast_form; (* uint64 difference re-read through int64(...) *)
  sc_per_period : div_form;          (* AllocateRewards: Amount.QuoRaw(periods) *)
  sc_share_normalised : bool;        (* rewardWinners: NewDec(weight).QuoInt64(totalRewardWeight) *)
  sc_share_truncated : bool;         (* … TruncateDecimal *)
  sc_tally_lower : bool;
  sc_tally_upper : tally_form;
  sc_band_halved : bool;
  sc_abstain_not_positive : bool;    (* isAbstainVote := !rate.IsPositive() *)
  sc_update_gate : list string;      (* EndBlocker: gates on the path to UpdateExchangeRates *)
  sc_slash_gate : list string;       (* … to SlashAndResetMissCounters: only the slash-window gate *)
  sc_endblock_order : list string;   (* EndBlocker: UpdateExchangeRates, then SlashAndResetMissCounters *)
  sc_update_order : list string;     (* UpdateExchangeRates: Tally, incrementMissCounters, rewardWinners, clearVotesAndPrevotes *)
  sc_update_guards : nat             (* non-error path conditions on the last three of them *)
}.

Definition structural_ok12 (c : code_cfg12) : bool :=
  sc_guard_bonded c && sc_guard_notjailed c && Nat.eqb (sc_guard_other c) 0 &&
  sc_delete_in_loop_body c && Nat.leb (sc_continues_before_delete c) 1 && sc_continues_only_on_error c &&
  (match sc_periods_minus_misses c with CastInt64 => true | _ => false end) &&
  (match sc_per_period c with DivQuoRaw => true | _ => false end) &&
  sc_share_normalised c && sc_share_truncated c &&
  sc_tally_lower c && (match sc_tally_upper c with TallyNoAdd => true | _ => false end) &&
  sc_band_halved c && sc_abstain_not_positive c &&
  strs_eqb (sc_update_gate c) ["+VotePeriod"%string] && strs_eqb (sc_slash_gate c) ["+SlashWindow"%string] &&
  strs_eqb (sc_endblock_order c) ["UpdateExchangeRates"%string; "SlashAndResetMissCounters"%string] &&
  strs_eqb (sc_update_order c) ["Tally"%string; "incrementMissCounters"%string; "rewardWinners"%string; "clearVotesAndPrevotes"%string] &&
  Nat.eqb (sc_update_guards c) 0.

(** the model variant denoted by the configuration: the flag of [step] (nil check present or not) *)
Definition variant12 (c : code_cfg12) : option bool :=
  if structural_ok12 c then Some (sc_guard_nonnil c) else None.

Definition step_cfg (c : code_cfg12) (q : oparams) (s : ostate) (o : op) : option result :=
  match variant12 c with Some fx => Some (step fx q s o) | None => None end.

Definition cfg_ok12 (c : code_cfg12) : bool :=
  match variant12 c with Some true => true | _ => false end.
