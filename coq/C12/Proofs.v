(** C12 — readable corollaries, solvency over histories, the pre-fix witness, non-vacuity examples.
    Re-exports the other proof files. *)
From Coq Require Import ZArith List Bool Arith Lia Permutation.
Import ListNotations.
Require Import Nib.Lib.Dec Nib.C10.Model Nib.C10.Spec Nib.C10.ProofsMedian Nib.C10.ProofsUpdate.
Require Import Nib.C12.Model Nib.C12.Spec.
Require Export Nib.C12.ProofsTally Nib.C12.ProofsReward Nib.C12.ProofsStep Nib.C12.ProofsSpread.
Local Open Scope Z_scope.
Local Arguments Z.mul : simpl never.
Local Arguments Z.add : simpl never.
Local Arguments Z.sub : simpl never.

(* ---------------------------------------------------------------- misses *)

(** abstaining, not voting, or voting only in band never increases the counter *)
Theorem abstain_never_miss p st mc id :
  ids_nodup st -> mc_sorted mc ->
  (forall pr v, quorum p st pr -> In v (pair_votes st pr) -> pv_voter v = id -> 0 < pv_rate v ->
                inside_b (p_reward_band p) (pair_votes st pr) (wmedian true (pair_votes st pr)) v = true) ->
  mc_get id (exp_miss p st mc) = mc_get id mc.
Proof.
  intros Hn Hs Hall. rewrite miss_counter_growth by assumption.
  assert (Hz : spec_miss p st id = 0).
  { pose proof (spec_miss_nonneg p st id). destruct (Z.eq_dec (spec_miss p st id) 0) as [E|E]; [exact E|].
    assert (Hpos : 0 < spec_miss p st id) by lia.
    apply spec_miss_pos_iff in Hpos as [pr [v [Hq [Hv [Hi [Hp Hout]]]]]].
    rewrite (Hall pr v Hq Hv Hi Hp) in Hout. discriminate. }
  rewrite Hz. destruct (memb id (eligible_ids st)); lia.
Qed.

(* ---------------------------------------------------------------- slashing *)

Lemma to_int64_small x : - 2 ^ 63 <= x < 2 ^ 63 -> to_int64 x = x.
Proof.
  intro H. unfold to_int64. cbv zeta.
  destruct (Z_lt_le_dec x 0) as [Hneg|Hpos].
  - assert (E : x mod 2 ^ 64 = x + 2 ^ 64).
    { symmetry. apply (Z.mod_unique x (2 ^ 64) (-1) (x + 2 ^ 64)); lia. }
    rewrite E. assert (E2 : (x + 2 ^ 64 <? 2 ^ 63) = false) by (apply Z.ltb_ge; lia). rewrite E2. lia.
  - rewrite Z.mod_small by lia. assert (E2 : (x <? 2 ^ 63) = true) by (apply Z.ltb_lt; lia). rewrite E2. reflexivity.
Qed.

(** the uint64 subtraction periods - misses wraps, but re-read as int64 it is the signed difference:
    the valid-vote rate is (periods - misses) / periods even when misses exceed periods *)
Theorem valid_rate_exact P miss :
  - 2 ^ 63 <= P - miss < 2 ^ 63 -> valid_rate P miss = Z.quot ((P - miss) * PREC) P.
Proof. intro H. unfold valid_rate, quo_int. rewrite to_int64_small by exact H. reflexivity. Qed.

Theorem slashed_b_iff q mc sv :
  slashed_b q mc sv = true <->
  (exists c, In (sv_id sv, c) mc /\ low_rate q c = true) /\
  sv_exists sv = true /\ sv_bonded sv = true /\ sv_jailed sv = false.
Proof.
  unfold slashed_b. rewrite !andb_true_iff, negb_true_iff, existsb_exists. split.
  - intros [[[[[i c] [Hin Hc]] He] Hb] Hj]. simpl in Hc. apply andb_true_iff in Hc as [Hi Hl].
    apply Nat.eqb_eq in Hi. subst i. split; [exists c; auto | auto].
  - intros [[c [Hin Hl]] [He [Hb Hj]]]. split; [split; [split|]|]; auto.
    exists (sv_id sv, c). split; [exact Hin|]. simpl. rewrite Nat.eqb_refl, Hl. reflexivity.
Qed.

(** at a window end exactly the existing, bonded, unjailed validators with a low valid-vote rate are
    jailed and lose min(trunc(power * powerReduction * SlashFraction), tokens); everybody else is untouched *)
Theorem slash_post_exact q pr mc svs sv :
  In sv svs ->
  In (if slashed_b q mc sv then (sv_id sv, true, sv_tokens sv - slash_burn q pr sv)
      else (sv_id sv, sv_jailed sv, sv_tokens sv)) (slash_post q pr mc svs).
Proof. intro H. unfold slash_post. apply in_map_iff. exists sv. split; [reflexivity | exact H]. Qed.

Lemma slash_burn_bounds q pr sv : 0 <= sv_tokens sv -> 0 <= slash_burn q pr sv <= sv_tokens sv.
Proof. intro H. unfold slash_burn. lia. Qed.

Theorem counters_reset fx q s st svs h s' e :
  end_block12 fx q s st svs h = ROk s' e -> is_period_last h (op_slash_window q) = true -> os_miss s' = [].
Proof.
  unfold end_block12. intros H Hw.
  destruct (is_period_last h (p_vote_period (op_base q)) && update_panics (op_base q) st); [discriminate|].
  destruct (if is_period_last h (p_vote_period (op_base q)) then period_update (op_base q) st s else (s, [])) as [s1 paid].
  rewrite Hw in H. destruct (negb fx && slash_panics q (os_miss s1) svs); [discriminate|].
  injection H as <- _. reflexivity.
Qed.

(* ---------------------------------------------------------------- solvency over histories *)

Theorem history_solvent q : forall ops s,
  inv s -> Forall wf_op ops ->
  Forall (fun x => so_panic (snd x) = false -> solvent (snd x)) (run_obs true q s ops).
Proof.
  induction ops as [|o ops IH]; intros s Hi Hw; simpl; [constructor|].
  inversion Hw as [|? ? Ho Hr]; subst.
  pose proof (step_P q s (mkEff [] []) o Hi Ho) as Hs.
  destruct (step true q s o) as [|s' e].
  - constructor; [simpl; discriminate | constructor].
  - destruct Hs as [_ Hi']. constructor; [intros _; apply solvent_of_inv; exact Hi' | apply IH; assumption].
Qed.

(* ---------------------------------------------------------------- witnesses *)

Definition q_ex : oparams :=
  mkOP (mkParams 1 500000000000000000 1 900 20000000000000000) 100000000000000000 10 690000000000000000.
Definition hundred : Z := 100000000000000000000.

(** F9: validator 2 has 4 misses in a window of 10 periods (valid rate 0.6 < 0.69) and is no validator
    any more when the window ends *)
Definition st_f9 : state :=
  mkState [mkVal 0 true 10; mkVal 1 true 10] 100 20000000 1000000 [0%nat]
          [mkAVote 0 [(0%nat, hundred)]; mkAVote 1 [(0%nat, hundred)]] [].
Definition svs_f9 : list sval :=
  [mkSV 0 true true false 10 10000000; mkSV 1 true true false 10 10000000; mkSV 2 false false false 0 0].
Definition s_f9 : ostate := mkOS [(2%nat, 4)] [] [].

Theorem refuted_before_fix :
  exists q s st svs h, inv s /\ wf st /\ ids_nodup st /\ dom12 q st = true /\
                       end_block12 false q s st svs h = RPanic /\
                       exists s' e, end_block12 true q s st svs h = ROk s' e /\ os_miss s' = [].
Proof.
  exists q_ex, s_f9, st_f9, svs_f9, 9.
  split; [split; [intros r []|split; [intro k; destruct k; simpl; lia | simpl; split; [intros ? []|exact I]]]|].
  split; [intros v [<-|[<-|[]]]; simpl; lia|].
  split; [unfold ids_nodup; simpl; repeat constructor; simpl; intuition; discriminate|].
  split; [vm_compute; reflexivity|]. split; [vm_compute; reflexivity|].
  eexists. eexists. split; [vm_compute; reflexivity | reflexivity].
Qed.

(* ---------------------------------------------------------------- non-vacuity *)

(** three validators (power 10, 10, 5); validator 2 votes 150 instead of 100 twice, validator 1
    abstains once; two overlapping allocations; window of 2 periods: validator 2 is slashed *)
Definition q2 : oparams :=
  mkOP (mkParams 1 500000000000000000 1 900 20000000000000000) 100000000000000000 2 690000000000000000.
Definition vals3 : list valinfo := [mkVal 0 true 10; mkVal 1 true 10; mkVal 2 true 5].
Definition svs3 : list sval :=
  [mkSV 0 true true false 10 10000000; mkSV 1 true true false 10 10000000; mkSV 2 true true false 5 5000000].
Definition st3 (vs : list avote) : state := mkState vals3 100 25000000 1000000 [0%nat] vs [].
Definition bad_votes : list avote :=
  [mkAVote 0 [(0%nat, hundred)]; mkAVote 1 [(0%nat, hundred)]; mkAVote 2 [(0%nat, 150000000000000000000)]].
Definition abst_votes : list avote :=
  [mkAVote 0 [(0%nat, hundred)]; mkAVote 1 [(0%nat, 0)]; mkAVote 2 [(0%nat, 150000000000000000000)]].
Definition ops_ex : list op :=
  [OAlloc [100; 0] 3; OEnd (st3 bad_votes) svs3 2; OAlloc [7; 1000] 2; OOther; OEnd (st3 abst_votes) svs3 3].

Example ex_ops_wf : Forall wf_op ops_ex.
Proof.
  assert (Hw : forall vs, wf (st3 vs)) by (intros vs v [<-|[<-|[<-|[]]]]; simpl; lia).
  assert (Hn : forall vs, ids_nodup (st3 vs)) by (intro vs; unfold ids_nodup; simpl; repeat constructor; simpl; intuition; discriminate).
  unfold ops_ex. repeat constructor; try apply Hw; try apply Hn; simpl; try lia; intro k; destruct k as [|[|[|k]]]; simpl; lia.
Qed.

Example ex_history :
  map snd (run_obs true q2 (mkOS [] [] []) ops_ex) =
  [ mkSObs false [] [mkReward 3 [33; 0]] [100; 0] [] [];
    mkSObs false [(2%nat, 1)] [mkReward 2 [33; 0]] [68; 0] [(0%nat, [16; 0]); (1%nat, [16; 0])]
           [(0%nat, false, 10000000); (1%nat, false, 10000000); (2%nat, false, 5000000)];
    mkSObs false [(2%nat, 1)] [mkReward 2 [33; 0]; mkReward 2 [3; 500]] [75; 1000] [] [];
    mkSObs false [(2%nat, 1)] [mkReward 2 [33; 0]; mkReward 2 [3; 500]] [75; 1000] [] [];
    mkSObs false [] [mkReward 1 [33; 0]; mkReward 1 [3; 500]] [39; 500] [(0%nat, [36; 500])]
           [(0%nat, false, 10000000); (1%nat, false, 10000000); (2%nat, true, 4500000)] ].
Proof. vm_compute. reflexivity. Qed.

Example ex_domain : dom12 q2 (st3 bad_votes) = true.
Proof. vm_compute. reflexivity. Qed.

Example ex_miss_nonvacuous : spec_miss (op_base q2) (st3 bad_votes) 2 = 1 /\ spec_miss (op_base q2) (st3 abst_votes) 1 = 0.
Proof. split; vm_compute; reflexivity. Qed.

Example ex_fair_share_nonvacuous : fair_share 33 10 20 16 /\ portion 33 10 20 = 16.
Proof. split; [unfold fair_share, PREC; lia | vm_compute; reflexivity]. Qed.

(** parameter edits in the middle of the slash window of [q2] (2 periods; validator 2 misses both): unedited the
    window end jails validator 2 and burns 10 %; MinValidPerWindow edited to 0 before the window end — nobody is
    touched; SlashFraction edited to 0 — jailed, nothing burned *)
Definition q2_mv0 : oparams :=
  mkOP (mkParams 1 500000000000000000 1 900 20000000000000000) 100000000000000000 2 0.
Definition q2_sf0 : oparams :=
  mkOP (mkParams 1 500000000000000000 1 900 20000000000000000) 0 2 690000000000000000.
Definition last_post (l : list (oparams * op * sobs * list avote)) : list (nat * bool * Z) :=
  so_post (snd (fst (last l (q2, OOther, panic_obs, [])))).
Definition ops_edit (q' : oparams) : list (oparams * op) :=
  [(q2, OEnd (st3 bad_votes) svs3 2); (q', OOther); (q', OEnd (st3 bad_votes) svs3 3)].

Example ex_param_edit_nonvacuous :
  Forall (fun x => wf_op (snd x)) (ops_edit q2_mv0) /\
  last_post (run_obs12v true (mkHst12 (mkOS [] [] []) []) (ops_edit q2)) =
    [(0%nat, false, 10000000); (1%nat, false, 10000000); (2%nat, true, 4500000)] /\
  last_post (run_obs12v true (mkHst12 (mkOS [] [] []) []) (ops_edit q2_mv0)) =
    [(0%nat, false, 10000000); (1%nat, false, 10000000); (2%nat, false, 5000000)] /\
  last_post (run_obs12v true (mkHst12 (mkOS [] [] []) []) (ops_edit q2_sf0)) =
    [(0%nat, false, 10000000); (1%nat, false, 10000000); (2%nat, true, 5000000)].
Proof.
  split; [|split; [|split]]; try (vm_compute; reflexivity).
  pose proof ex_ops_wf as H. unfold ops_ex in H.
  inversion H as [|? ? _ H1]; subst. inversion H1 as [|? ? Hb _]; subst.
  unfold ops_edit. constructor; [exact Hb|]. constructor; [exact I|]. constructor; [exact Hb|]. constructor.
Qed.
