(** C12 — lemmas (filled in below). *)
From Coq Require Import ZArith List Bool Arith Lia.
Import ListNotations.
Require Import Nib.Lib.Dec Nib.C10.Model Nib.C12.Model Nib.C12.Spec.
Local Open Scope Z_scope.
