(** C12 — evaluation of implementation traces (histories): [mismatch] = the model, run along the
    history from the empty oracle state, disagrees with what the implementation showed after some
    step; [violates] = the property checker [Pb_history] is false on the OBSERVED sequence. *)
From Coq Require Import ZArith List Bool Arith.
Import ListNotations.
Require Import Nib.Lib.Dec Nib.C10.Model Nib.C10.Spec Nib.C12.Model Nib.C12.Spec.
Local Open Scope Z_scope.

(** every step carries the parameters in force when it ran (the initial ones until the first edit) *)
Record case := mkCase { c_steps : list (oparams * op * sobs * list avote) }.

Definition model_agrees (r : hresult) (o : sobs) (vs : list avote) : bool :=
  match r with
  | HPanic => so_panic o
  | HOk s e => negb (so_panic o) && obs_eqb (obs_of (h12_os s) e) o && leqb avote_eqb (h12_store s) vs
  end.

Fixpoint run_cmp (s : hst12) (l : list (oparams * op * sobs * list avote)) : bool :=
  match l with
  | [] => true
  | (q, o, ob, vs) :: r =>
      let res := hstep12 true q s o in
      model_agrees res ob vs &&
      match res with
      | HPanic => true
      | HOk s' _ => run_cmp s' r
      end
  end.

Definition empty_os : ostate := mkOS [] [] [].

Definition mismatch (c : case) : bool := negb (run_cmp (mkHst12 empty_os []) (c_steps c)).
Definition violates (c : case) : bool := negb (Pb_history12v empty_sobs [] (c_steps c)).
