(** C12 — evaluation of implementation traces (histories): [mismatch] = the model, run along the
    history from the empty oracle state, disagrees with what the implementation showed after some
    step; [violates] = the property checker [Pb_history] is false on the OBSERVED sequence. *)
From Coq Require Import ZArith List Bool Arith.
Import ListNotations.
Require Import Nib.Lib.Dec Nib.C10.Model Nib.C12.Model Nib.C12.Spec.
Local Open Scope Z_scope.

Record case := mkCase { c_params : oparams; c_steps : list (op * sobs) }.

Definition model_agrees (r : result) (o : sobs) : bool :=
  match r with
  | RPanic => so_panic o
  | ROk s e => negb (so_panic o) && obs_eqb (obs_of s e) o
  end.

Fixpoint run_cmp (q : oparams) (s : ostate) (l : list (op * sobs)) : bool :=
  match l with
  | [] => true
  | (o, ob) :: r =>
      let res := step true q s o in
      model_agrees res ob &&
      match res with
      | RPanic => true
      | ROk s' _ => run_cmp q s' r
      end
  end.

Definition empty_os : ostate := mkOS [] [] [].

Definition mismatch (c : case) : bool := negb (run_cmp (c_params c) empty_os (c_steps c)).
Definition violates (c : case) : bool := negb (Pb_history (c_params c) empty_sobs (c_steps c)).
