(** C12 — reward arithmetic: pro-rata share with truncation, sum paid <= pot, pointwise algebra of
    coin vectors, the solvency invariant of the reward pool. *)
From Coq Require Import ZArith List Bool Arith Lia.
Import ListNotations.
Require Import Nib.Lib.Dec Nib.C10.Model Nib.C10.Spec Nib.C10.ProofsMedian Nib.C10.ProofsUpdate Nib.C10.ProofsPanic.
Require Import Nib.C12.Model Nib.C12.Spec Nib.C12.ProofsTally.
Local Open Scope Z_scope.
Local Arguments Z.mul : simpl never.
Local Arguments Z.add : simpl never.
Local Arguments Z.sub : simpl never.

(* ---------------------------------------------------------------- coin vectors, pointwise *)

Lemma nth_nil k : nth k (@nil Z) 0 = 0.
Proof. destruct k; reflexivity. Qed.

Lemma nth_coins_add k : forall a b, nth k (coins_add a b) 0 = nth k a 0 + nth k b 0.
Proof.
  induction k as [|k IH]; intros [|x a] [|y b]; simpl; try lia. apply IH.
Qed.

Lemma nth_map_opp k l : nth k (map Z.opp l) 0 = - nth k l 0.
Proof. change 0 with (Z.opp 0) at 1. apply map_nth. Qed.

Lemma nth_coins_sub k : forall a b, nth k (coins_sub a b) 0 = nth k a 0 - nth k b 0.
Proof.
  induction k as [|k IH]; intros [|x a] [|y b]; simpl; try lia.
  - rewrite nth_map_opp. lia.
  - apply IH.
Qed.

Lemma coins_le_iff : forall a b, coins_le a b = true <-> forall k, nth k a 0 <= nth k b 0.
Proof.
  induction a as [|x a IH]; intros b.
  - cbn [coins_le]. rewrite forallb_forall. split.
    + intros H k. rewrite nth_nil. destruct (nth_in_or_default k b 0) as [Hin|Hd]; [apply Z.leb_le; apply H; exact Hin | rewrite Hd; lia].
    + intros H y Hy. apply Z.leb_le. destruct (In_nth b y 0 Hy) as [k [_ Hk]]. specialize (H k). rewrite nth_nil, Hk in H. exact H.
  - destruct b as [|y b].
    + cbn [coins_le]. rewrite forallb_forall. split.
      * intros H k. rewrite nth_nil.
        destruct (nth_in_or_default k (x :: a) 0) as [Hin|Hd]; [apply Z.leb_le; apply H; exact Hin | rewrite Hd; lia].
      * intros H z Hz. apply Z.leb_le. destruct (In_nth (x :: a) z 0 Hz) as [k [_ Hk]]. specialize (H k). rewrite nth_nil, Hk in H. exact H.
    + cbn [coins_le]. rewrite andb_true_iff, Z.leb_le, IH. split.
      * intros [H1 H2] [|k]; simpl; [exact H1 | apply H2].
      * intro H. split; [apply (H 0%nat) | intro k; apply (H (S k))].
Qed.

Lemma nth_norm2 k l : nth k (norm2 l) 0 = if Nat.ltb k 2 then nth k l 0 else 0.
Proof. unfold norm2. destruct k as [|[|k]]; simpl; try reflexivity. destruct k; reflexivity. Qed.

Definition colsum (k : nat) (ls : list (list Z)) : Z := fold_right (fun l acc => nth k l 0 + acc) 0 ls.

Lemma nth_coins_sum k ls : nth k (coins_sum ls) 0 = colsum k ls.
Proof.
  unfold coins_sum, colsum. induction ls as [|l ls IH]; simpl; [apply nth_nil|].
  rewrite nth_coins_add, IH. reflexivity.
Qed.

(* ---------------------------------------------------------------- pro-rata share *)

Lemma chop_round_mult k : 0 <= k -> chop_round (k * PREC) = k.
Proof.
  intro Hk. pose proof PREC_pos. rewrite chop_round_nonneg by nia.
  unfold chop_round_pos. rewrite Z.mod_mul by lia. rewrite Z.div_mul by lia. reflexivity.
Qed.

Lemma portion_eq amt w W : 0 <= amt -> 0 <= w -> 0 < W -> portion amt w W = amt * (w * PREC / W) / PREC.
Proof.
  intros Ha Hw HW. unfold portion, truncate_int, mul, quo_int. pose proof PREC_pos.
  rewrite (Z.quot_div_nonneg (w * PREC) W) by nia.
  assert (Hf : 0 <= w * PREC / W) by (apply Z.div_pos; nia).
  replace (amt * PREC * (w * PREC / W)) with (amt * (w * PREC / W) * PREC) by ring.
  rewrite chop_round_mult by nia. rewrite Z.quot_div_nonneg by nia. reflexivity.
Qed.

Lemma portion_zero w W : portion 0 w W = 0.
Proof. unfold portion, mul. rewrite !Z.mul_0_l. reflexivity. Qed.

Theorem portion_fair amt w W : 0 <= amt -> 0 <= w -> 0 < W -> fair_share amt w W (portion amt w W).
Proof.
  intros Ha Hw HW. rewrite portion_eq by assumption. pose proof PREC_pos as HP.
  set (f := w * PREC / W). set (x := amt * f). set (paid := x / PREC).
  assert (Hf : f * W <= w * PREC < f * W + W).
  { unfold f. pose proof (Z.div_mod (w * PREC) W ltac:(lia)). pose proof (Z.mod_pos_bound (w * PREC) W HW). lia. }
  assert (Hf0 : 0 <= f) by (unfold f; apply Z.div_pos; nia).
  assert (Hx : PREC * paid <= x < PREC * paid + PREC).
  { unfold paid. pose proof (Z.div_mod x PREC ltac:(lia)). pose proof (Z.mod_pos_bound x PREC HP). lia. }
  assert (Hx0 : 0 <= x) by (unfold x; nia).
  assert (Hp0 : 0 <= paid) by (unfold paid; apply Z.div_pos; lia).
  unfold fair_share. split; [exact Hp0|]. split.
  - assert (paid * W * PREC <= amt * w * PREC) by (unfold x in *; nia). nia.
  - assert (amt * w * PREC <= x * W + amt * W) by (unfold x; nia).
    assert (x * W < (PREC * paid + PREC) * W) by nia. nia.
Qed.

(** the shares of all validators together never exceed the pot *)
Lemma portion_sum_le amt W (ws : list Z) :
  0 <= amt -> 0 < W -> (forall w, In w ws -> 0 <= w) -> fold_right Z.add 0 ws <= W ->
  fold_right Z.add 0 (map (fun w => portion amt w W) ws) <= amt.
Proof.
  intros Ha HW Hws Hsum. pose proof PREC_pos as HP.
  assert (G : PREC * fold_right Z.add 0 (map (fun w => portion amt w W) ws)
              <= amt * fold_right Z.add 0 (map (fun w => w * PREC / W) ws) /\
              fold_right Z.add 0 (map (fun w => w * PREC / W) ws) * W <= fold_right Z.add 0 ws * PREC /\
              0 <= fold_right Z.add 0 (map (fun w => w * PREC / W) ws)).
  { clear Hsum. induction ws as [|w ws IH]; simpl; [lia|].
    assert (Hw : 0 <= w) by (apply Hws; left; reflexivity).
    destruct IH as [I1 [I2 I3]]; [intros; apply Hws; right; assumption|].
    rewrite portion_eq by assumption.
    set (f := w * PREC / W) in *.
    assert (Hf : f * W <= w * PREC) by (unfold f; pose proof (Z.div_mod (w * PREC) W ltac:(lia)); pose proof (Z.mod_pos_bound (w * PREC) W HW); lia).
    assert (Hf0 : 0 <= f) by (unfold f; apply Z.div_pos; nia).
    assert (Hx : PREC * (amt * f / PREC) <= amt * f) by (pose proof (Z.div_mod (amt * f) PREC ltac:(lia)); pose proof (Z.mod_pos_bound (amt * f) PREC HP); lia).
    split; [lia|]. split; lia. }
  destruct G as [G1 [G2 G3]].
  assert (fold_right Z.add 0 (map (fun w => w * PREC / W) ws) <= PREC) by nia.
  nia.
Qed.

(* ---------------------------------------------------------------- the reward pool *)

Definition rewards_ok (rs : list reward) : Prop :=
  forall r, In r rs -> 1 <= rw_periods r /\ forall k, 0 <= nth k (rw_coins r) 0.

Lemma nth_scale n k l : nth k (map (Z.mul n) l) 0 = n * nth k l 0.
Proof. replace 0 with (n * 0) at 1 by lia. apply map_nth. Qed.

Lemma nth_owed k rs : nth k (owed rs) 0 = fold_right (fun r acc => rw_periods r * nth k (rw_coins r) 0 + acc) 0 rs.
Proof.
  unfold owed. rewrite nth_coins_sum. unfold colsum. induction rs as [|r rs IH]; simpl; [reflexivity|].
  rewrite nth_scale, IH. reflexivity.
Qed.

Lemma nth_pot k rs : nth k (fst (gather rs)) 0 = fold_right (fun r acc => nth k (rw_coins r) 0 + acc) 0 rs.
Proof.
  unfold gather. simpl. rewrite nth_coins_sum. unfold colsum. induction rs as [|r rs IH]; simpl; [reflexivity|].
  rewrite IH. reflexivity.
Qed.

Lemma nth_owed_gather k rs : nth k (owed (snd (gather rs))) 0 = nth k (owed rs) 0 - nth k (fst (gather rs)) 0.
Proof.
  rewrite nth_pot, !nth_owed. unfold gather. simpl.
  induction rs as [|r rs IH]; simpl; [lia|].
  destruct (rw_periods r - 1 =? 0) eqn:E; simpl; rewrite IH.
  - apply Z.eqb_eq in E. nia.
  - nia.
Qed.

Lemma rewards_ok_gather rs : rewards_ok rs -> rewards_ok (snd (gather rs)).
Proof.
  intros H r Hr. unfold gather in Hr. simpl in Hr. apply filter_In in Hr as [Hr Hz].
  apply in_map_iff in Hr as [r0 [E Hr0]]. subst r. simpl in *.
  destruct (H r0 Hr0) as [H1 H2]. apply negb_true_iff, Z.eqb_neq in Hz. split; [lia | exact H2].
Qed.

Lemma pot_nonneg k rs : rewards_ok rs -> 0 <= nth k (fst (gather rs)) 0.
Proof.
  intro H. rewrite nth_pot. induction rs as [|r rs IH]; simpl; [lia|].
  destruct (H r (or_introl eq_refl)) as [_ H2]. specialize (H2 k).
  assert (0 <= fold_right (fun r acc => nth k (rw_coins r) 0 + acc) 0 rs) by (apply IH; intros x Hx; apply H; right; exact Hx).
  lia.
Qed.

Lemma pot_le_owed k rs : rewards_ok rs -> nth k (fst (gather rs)) 0 <= nth k (owed rs) 0.
Proof.
  intro H. rewrite nth_pot, nth_owed. induction rs as [|r rs IH]; simpl; [lia|].
  destruct (H r (or_introl eq_refl)) as [H1 H2]. specialize (H2 k).
  assert (fold_right (fun r acc => nth k (rw_coins r) 0 + acc) 0 rs <= fold_right (fun r acc => rw_periods r * nth k (rw_coins r) 0 + acc) 0 rs)
    by (apply IH; intros x Hx; apply H; right; exact Hx).
  nia.
Qed.

(** AllocateRewards: per-period coins * periods never exceeds what moved into the module *)
Lemma nth_per_period k coins n : nth k (per_period coins n) 0 = Z.quot (nth k coins 0) n.
Proof.
  unfold per_period. replace 0 with (Z.quot 0 n) at 1 by (destruct n; reflexivity).
  apply (map_nth (fun a => Z.quot a n)).
Qed.

Lemma alloc_covers k coins n : 1 <= n -> (forall j, 0 <= nth j coins 0) -> 0 <= nth k (per_period coins n) 0 /\ n * nth k (per_period coins n) 0 <= nth k coins 0.
Proof.
  intros Hn Hc. rewrite nth_per_period. specialize (Hc k). rewrite Z.quot_div_nonneg by lia.
  pose proof (Z.div_mod (nth k coins 0) n ltac:(lia)). pose proof (Z.mod_pos_bound (nth k coins 0) n ltac:(lia)).
  split; [apply Z.div_pos; lia | lia].
Qed.
