(** C12 — Oracle penalties and rewards follow actual voting behaviour.
    Exported statements only; every proof is [exact <lemma>].  Model: Nib.C12.Model on top of
    Nib.C10.Model; [true] = current code, [false] = SlashAndResetMissCounters before commit fe7d502. *)
From Coq Require Import ZArith List Bool Arith.
Import ListNotations.
Require Import Nib.Lib.Dec Nib.C10.Model Nib.C10.Spec Nib.C10.ProofsMedian Nib.C10.ProofsUpdate.
Require Import Nib.C12.Model Nib.C12.Spec Nib.C12.Proofs.
Local Open Scope Z_scope.

(** FULL STATEMENT over histories.  From any state satisfying the invariant (in particular the empty
    one), for every history of EndBlocker calls (arbitrary validator sets with distinct ids and
    non-negative power, arbitrary Votes stores, heights, staking answers), funded reward allocations and
    staking operations: the sequence of observations produced by the model satisfies [P_history] — after
    every step inside the overflow-free domain: no panic; miss counters = previous counters + number of
    quorum pairs with a positive out-of-band vote (reset at a window end); exactly the existing, bonded,
    unjailed validators with a low valid-vote rate are jailed and burned; one period of every allocation
    is consumed iff somebody has reward weight; every eligible validator is credited its pro-rata share
    (never more, less by under one unit + 10^-18 relative), nobody else anything, the sum at most the pot;
    the module pays exactly what was credited and stays solvent. *)
Theorem C12_history_holds :
  forall q ops s e0, inv s -> Forall wf_op ops -> P_history q (obs_of s e0) (run_obs true q s ops).
Proof. exact history_P. Qed.
Print Assumptions C12_history_holds.

(** The same over histories in which the Votes store PERSISTS between steps (an EndBlocker step carries
    only the votes submitted since the previous step; the store is what was put before and not yet
    cleared): every step is judged against the votes submitted since the last vote-period end — misses,
    reward weights and payouts of a period never depend on votes of an earlier period — and the store is
    empty after every vote-period end, with or without quorum. *)
Theorem C12_history_with_vote_store_holds :
  forall q ops s e0, inv (h12_os s) -> Forall wf_op ops ->
  P_history12 q (obs_of (h12_os s) e0) (h12_store s) (run_obs12 true q s ops).
Proof. exact history12_P. Qed.
Print Assumptions C12_history_with_vote_store_holds.

Theorem C12_period_end_clears_vote_store :
  forall fx q s st svs h s' e,
  hstep12 fx q s (OEnd st svs h) = HOk s' e -> is_period_last h (p_vote_period (op_base q)) = true -> h12_store s' = [].
Proof. exact period_end_clears_store. Qed.
Print Assumptions C12_period_end_clears_vote_store.

Theorem C12_history_checker_with_vote_store_sound :
  forall q l prev cast, Pb_history12 q prev cast l = true -> P_history12 q prev cast l.
Proof. exact Pb_history12_sound. Qed.
Print Assumptions C12_history_checker_with_vote_store_sound.

(** Histories in which the oracle parameters are EDITED between steps (also to the zero values accepted by
    Params.Validate): every step — a slash-window end judging counters collected under earlier parameters
    included — satisfies the per-step property under the parameters in force when it runs. *)
Theorem C12_history_with_param_edits_holds :
  forall ops s e0, inv (h12_os s) -> Forall (fun x => wf_op (snd x)) ops ->
  P_history12v (obs_of (h12_os s) e0) (h12_store s) (run_obs12v true s ops).
Proof. exact history12v_P. Qed.
Print Assumptions C12_history_with_param_edits_holds.

Theorem C12_module_solvent_with_param_edits :
  forall ops s, inv (h12_os s) -> Forall (fun x => wf_op (snd x)) ops ->
  Forall (fun x => so_panic (snd (fst x)) = false -> solvent (snd (fst x))) (run_obs12v true s ops).
Proof. exact history12v_solvent. Qed.
Print Assumptions C12_module_solvent_with_param_edits.

Theorem C12_history_checker_with_param_edits_sound :
  forall l prev cast, Pb_history12v prev cast l = true -> P_history12v prev cast l.
Proof. exact Pb_history12v_sound. Qed.
Print Assumptions C12_history_checker_with_param_edits_sound.

Theorem C12_empty_state_satisfies_invariant : inv (mkOS [] [] []).
Proof. exact inv_empty. Qed.
Print Assumptions C12_empty_state_satisfies_invariant.

(** The Tally loop (sorted votes, performance map, missedValidators set) yields for every eligible
    validator exactly the declarative reward weight and miss count. *)
Theorem C12_tally_is_declarative :
  forall p st id, In id (eligible_ids st) ->
  pf_get id (tally_all p st) = (spec_weight p st id, spec_miss p st id).
Proof. exact tally_all_get. Qed.
Print Assumptions C12_tally_is_declarative.

(** A miss counter grows at a period end by exactly the number of quorum pairs on which the validator
    (eligible: bonded, within MaxValidators) submitted a positive rate outside the reward band ... *)
Theorem C12_miss_counter_growth :
  forall p st mc id, ids_nodup st -> mc_sorted mc ->
  mc_get id (exp_miss p st mc) = mc_get id mc + (if memb id (eligible_ids st) then spec_miss p st id else 0).
Proof. exact miss_counter_growth. Qed.
Print Assumptions C12_miss_counter_growth.

Theorem C12_miss_only_when_positive_out_of_band_on_quorum_pair :
  forall p st id,
  0 < spec_miss p st id <->
  exists pr v, quorum p st pr /\ In v (pair_votes st pr) /\ pv_voter v = id /\ 0 < pv_rate v /\
               inside_b (p_reward_band p) (pair_votes st pr) (wmedian true (pair_votes st pr)) v = false.
Proof. exact spec_miss_pos_iff. Qed.
Print Assumptions C12_miss_only_when_positive_out_of_band_on_quorum_pair.

(** ... hence abstaining (rate <= 0), not voting at all, or voting only in band never counts as a miss. *)
Theorem C12_abstain_never_miss :
  forall p st mc id, ids_nodup st -> mc_sorted mc ->
  (forall pr v, quorum p st pr -> In v (pair_votes st pr) -> pv_voter v = id -> 0 < pv_rate v ->
                inside_b (p_reward_band p) (pair_votes st pr) (wmedian true (pair_votes st pr)) v = true) ->
  mc_get id (exp_miss p st mc) = mc_get id mc.
Proof. exact abstain_never_miss. Qed.
Print Assumptions C12_abstain_never_miss.

(** The band's "standard deviation" is the implemented one; without overflow (deviations up to 10^27,
    up to 10^6 votes) it is floor(sqrt(mean of rounded squared deviations of the positive votes)). *)
Theorem C12_stddev_exact_when_no_overflow :
  forall vs m, Z.of_nat (length vs) <= N_MAX ->
  (forall v, In v vs -> 0 < pv_rate v -> Z.abs (pv_rate v - m) <= DEV_MAX) ->
  stddev vs m = if npos vs =? 0 then 0 else Z.sqrt (Z.quot (sq_sum m vs) (npos vs)) * Nib.C10.ProofsPanic.E9.
Proof. exact stddev_exact. Qed.
Print Assumptions C12_stddev_exact_when_no_overflow.

(** Slash window: who is slashed, by how much, and what the valid-vote rate is. *)
Theorem C12_slash_exactly_low_valid_rate_bonded_unjailed :
  forall q mc sv,
  slashed_b q mc sv = true <->
  (exists c, In (sv_id sv, c) mc /\ low_rate q c = true) /\
  sv_exists sv = true /\ sv_bonded sv = true /\ sv_jailed sv = false.
Proof. exact slashed_b_iff. Qed.
Print Assumptions C12_slash_exactly_low_valid_rate_bonded_unjailed.

Theorem C12_slash_effect :
  forall q pr mc svs sv, In sv svs ->
  In (if slashed_b q mc sv then (sv_id sv, true, sv_tokens sv - slash_burn q pr sv)
      else (sv_id sv, sv_jailed sv, sv_tokens sv)) (slash_post q pr mc svs).
Proof. exact slash_post_exact. Qed.
Print Assumptions C12_slash_effect.

Theorem C12_valid_rate_uint64_wrap_is_benign :
  forall P miss, - 2 ^ 63 <= P - miss < 2 ^ 63 -> valid_rate P miss = Z.quot ((P - miss) * PREC) P.
Proof. exact valid_rate_exact. Qed.
Print Assumptions C12_valid_rate_uint64_wrap_is_benign.

Theorem C12_counters_reset :
  forall fx q s st svs h s' e,
  end_block12 fx q s st svs h = ROk s' e -> is_period_last h (op_slash_window q) = true -> os_miss s' = [].
Proof. exact counters_reset. Qed.
Print Assumptions C12_counters_reset.

(** Rewards: pro rata with truncation, and bounded by the pot. *)
Theorem C12_rewards_split_pro_rata :
  forall amt w W, 0 <= amt -> 0 <= w -> 0 < W -> fair_share amt w W (portion amt w W).
Proof. exact portion_fair. Qed.
Print Assumptions C12_rewards_split_pro_rata.

Theorem C12_rewards_sum_bounded_by_pot :
  forall amt W ws, 0 <= amt -> 0 < W -> (forall w, In w ws -> 0 <= w) -> fold_right Z.add 0 ws <= W ->
  fold_right Z.add 0 (map (fun w => portion amt w W) ws) <= amt.
Proof. exact portion_sum_le. Qed.
Print Assumptions C12_rewards_sum_bounded_by_pot.

(** Module solvency over all histories: after every step that did not panic (inside or outside the
    domain) the module balance covers coins-per-period * remaining periods of every allocation. *)
Theorem C12_module_solvent :
  forall q ops s, inv s -> Forall wf_op ops ->
  Forall (fun x => so_panic (snd x) = false -> solvent (snd x)) (run_obs true q s ops).
Proof. exact history_solvent. Qed.
Print Assumptions C12_module_solvent.

(** No panic inside the domain (a step of the model panics only outside it). *)
Theorem C12_step_holds_and_preserves_invariant :
  forall q s e0 o, inv s -> wf_op o ->
  match step true q s o with
  | RPanic => match o with OEnd st _ _ => dom12 q st = false | _ => False end
  | ROk s' e => P_step q (obs_of s e0) o (obs_of s' e) /\ inv s'
  end.
Proof. exact step_P. Qed.
Print Assumptions C12_step_holds_and_preserves_invariant.

(** The boolean checker evaluated on implementation traces is sound for P_history. *)
Theorem C12_checker_sound : forall q l prev, Pb_history q prev l = true -> P_history q prev l.
Proof. exact Pb_history_sound. Qed.
Print Assumptions C12_checker_sound.

(** Before commit fe7d502 a miss counter of a validator that was removed from staking made the window
    end panic (chain halt); the current code resets the counters. *)
Theorem C12_refuted_before_fix :
  exists q s st svs h, inv s /\ wf st /\ ids_nodup st /\ dom12 q st = true /\
                       end_block12 false q s st svs h = RPanic /\
                       exists s' e, end_block12 true q s st svs h = ROk s' e /\ os_miss s' = [].
Proof. exact refuted_before_fix. Qed.
Print Assumptions C12_refuted_before_fix.
