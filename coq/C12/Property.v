(** C12 — exported statements only. *)
From Coq Require Import ZArith List Bool Arith.
Import ListNotations.
Require Import Nib.Lib.Dec Nib.C10.Model Nib.C12.Model Nib.C12.Spec Nib.C12.Proofs.
Local Open Scope Z_scope.

Theorem C12_checker_sound : forall q l prev, Pb_history q prev l = true -> P_history q prev l.
Proof. exact Pb_history_sound. Qed.
Print Assumptions C12_checker_sound.
