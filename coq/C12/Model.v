(** C12 — executable model of the oracle's penalty and reward bookkeeping:
    keeper/ballot.go Tally, keeper/update_exchange_rates.go (incrementMissCounters, rewardWinners call),
    keeper/reward.go (AllocateRewards, GatherRewardsForVotePeriod, rewardWinners),
    keeper/slash.go SlashAndResetMissCounters, abci.go EndBlocker.
    Extends the C10 model (eligible validators, grouping of votes, quorum, weighted median, reward
    spread, overflow panics).  Exact LegacyDec arithmetic on raw integers.  No proofs in this file.

    [fx] selects the variant of SlashAndResetMissCounters: [true] = current tree (commit fe7d502: a
    removed validator is skipped), [false] = before that fix (nil dereference = panic). *)
From Coq Require Import ZArith List Bool Arith.
Import ListNotations.
Require Import Nib.Lib.Dec Nib.C10.Model.
Local Open Scope Z_scope.

Record oparams := mkOP {
  op_base : params;            (* VotePeriod, VoteThreshold, MinVoters, ExpirationBlocks, RewardBand *)
  op_slash_fraction : Z;       (* raw Dec *)
  op_slash_window : Z;         (* uint64 *)
  op_min_valid : Z             (* MinValidPerWindow, raw Dec *)
}.

(* ---------------------------------------------------------------- Tally classification *)

(** isInsideSpread: median - spread <= rate <= median + spread *)
(* since commit 66a0ce3 the upper test is rate - spread <= median (same truth value, no overflowing Add) *)
Definition in_band (m s : Z) (v : pvote) : bool := (m - s <=? pv_rate v) && (pv_rate v - s <=? m).
Definition inside_b (band : Z) (all : list pvote) (m : Z) (v : pvote) : bool :=
  in_band m (reward_spread band m all) v.
(** isAbstainVote: rate not positive *)
Definition abstain_b (v : pvote) : bool := negb (0 <? pv_rate v).

(** ValidatorPerformances restricted to what has effects on state: id |-> (RewardWeight, MissCount) *)
Definition perfmap := list (nat * (Z * Z)).
Fixpoint pf_upd (id : nat) (f : Z * Z -> Z * Z) (m : perfmap) : perfmap :=
  match m with
  | [] => []
  | (i, x) :: r => if Nat.eqb i id then (i, f x) :: r else (i, x) :: pf_upd id f r
  end.
Fixpoint pf_get (id : nat) (m : perfmap) : Z * Z :=
  match m with
  | [] => (0, 0)
  | (i, x) :: r => if Nat.eqb i id then x else pf_get id r
  end.

(** the loop of Tally over the (sorted) votes of one pair; [m] median, [s] reward spread,
    [missed] = missedValidators *)
Fixpoint tally_loop (m s : Z) (vs : list pvote) (missed : list nat) (pm : perfmap) : perfmap :=
  match vs with
  | [] => pm
  | v :: r =>
      if in_band m s v then
        tally_loop m s r missed (pf_upd (pv_voter v) (fun x => (fst x + pv_power v, snd x)) pm)
      else if negb (abstain_b v) then
        if memb (pv_voter v) missed then tally_loop m s r missed pm
        else tally_loop m s r (pv_voter v :: missed) (pf_upd (pv_voter v) (fun x => (fst x, snd x + 1)) pm)
      else tally_loop m s r missed pm
  end.

Definition tally_pair (band : Z) (vs : list pvote) (pm : perfmap) : perfmap :=
  let m := wmedian true vs in
  let s := reward_spread band m vs in
  tally_loop m s (sort_votes vs) [] pm.

Definition init_perfs (st : state) : perfmap := map (fun x => (fst x, (0, 0))) (eligible st).

(** tallyVotesAndUpdatePrices, performance part: pairs in sorted order *)
Definition tally_all (p : params) (st : state) : perfmap :=
  fold_left (fun pm pr => tally_pair (p_reward_band p) (pair_votes st pr) pm) (valid_pairs p st) (init_perfs st).

(* ---------------------------------------------------------------- miss counters *)

(** MissCounters store as a list sorted by validator id; entries exist only after an insert *)
Fixpoint bump (id : nat) (k : Z) (l : list (nat * Z)) : list (nat * Z) :=
  match l with
  | [] => [(id, k)]
  | (i, c) :: r => if Nat.ltb id i then (id, k) :: l
                   else if Nat.eqb id i then (i, c + k) :: r
                   else (i, c) :: bump id k r
  end.
Fixpoint mc_get (id : nat) (l : list (nat * Z)) : Z :=
  match l with
  | [] => 0
  | (i, c) :: r => if Nat.eqb i id then c else mc_get id r
  end.

(** incrementMissCounters *)
Definition incr_miss (pm : perfmap) (mc : list (nat * Z)) : list (nat * Z) :=
  fold_left (fun mc e => if 0 <? snd (snd e) then bump (fst e) (snd (snd e)) mc else mc) pm mc.

(* ---------------------------------------------------------------- rewards *)

(** a Rewards store entry: remaining vote periods and coins per period (one amount per denom) *)
Record reward := mkReward { rw_periods : Z; rw_coins : list Z }.

Fixpoint coins_add (a b : list Z) : list Z :=
  match a, b with
  | [], _ => b
  | _, [] => a
  | x :: a', y :: b' => (x + y) :: coins_add a' b'
  end.
Fixpoint coins_sub (a b : list Z) : list Z :=
  match a, b with
  | [], _ => map Z.opp b
  | _, [] => a
  | x :: a', y :: b' => (x - y) :: coins_sub a' b'
  end.
Fixpoint coins_le (a b : list Z) : bool :=
  match a, b with
  | [], _ => forallb (fun y => 0 <=? y) b
  | _, [] => forallb (fun x => x <=? 0) a
  | x :: a', y :: b' => (x <=? y) && coins_le a' b'
  end.
Definition coins_sum (l : list (list Z)) : list Z := fold_right coins_add [] l.

(** GatherRewardsForVotePeriod: sum of the per-period coins; every entry loses one period and is
    deleted at 0 *)
Definition gather (rs : list reward) : list Z * list reward :=
  (coins_sum (map rw_coins rs),
   filter (fun r => negb (rw_periods r =? 0)) (map (fun r => mkReward (rw_periods r - 1) (rw_coins r)) rs)).

(** totalRewards.MulDec(NewDec(weight).QuoInt64(total)).TruncateDecimal(), one denom *)
Definition portion (amt w W : Z) : Z := truncate_int (mul (amt * PREC) (quo_int (w * PREC) W)).

(** AllocateRewards: coins / periods per period (QuoRaw), all coins move into the module account *)
Definition per_period (coins : list Z) (n : Z) : list Z := map (fun a => Z.quot a n) coins.

(* ---------------------------------------------------------------- slashing *)

(** staking keeper's answer for one operator at the time of the slash *)
Record sval := mkSV { sv_id : nat; sv_exists : bool; sv_bonded : bool; sv_jailed : bool; sv_power : Z; sv_tokens : Z }.

Definition to_int64 (x : Z) : Z := let y := x mod 2 ^ 64 in if y <? 2 ^ 63 then y else y - 2 ^ 64.

(** LegacyNewDec(SlashWindow).QuoInt64(VotePeriod).TruncateInt64() *)
Definition periods_per_window (q : oparams) : Z :=
  truncate_int (quo_int (op_slash_window q * PREC) (p_vote_period (op_base q))).
(** NewDecFromInt(int64(periods - missCounter)).QuoInt64(periods): the uint64 subtraction wraps and is
    re-read as int64 *)
Definition valid_rate (P miss : Z) : Z := quo_int (to_int64 (P - miss) * PREC) P.
Definition low_rate (q : oparams) (miss : Z) : bool := valid_rate (periods_per_window q) miss <? op_min_valid q.

(** staking Slash without unmatured unbonding / redelegation entries:
    burn min(trunc(power * powerReduction * fraction), tokens) *)
Definition slash_burn (q : oparams) (pr : Z) (sv : sval) : Z :=
  Z.max 0 (Z.min (truncate_int (mul (sv_power sv * pr * PREC) (op_slash_fraction q))) (sv_tokens sv)).

Fixpoint find_sv (id : nat) (l : list sval) : option sval :=
  match l with
  | [] => None
  | s :: r => if Nat.eqb (sv_id s) id then Some s else find_sv id r
  end.

(** is the operator slashed + jailed at this window end? *)
Definition slashed_b (q : oparams) (mc : list (nat * Z)) (sv : sval) : bool :=
  existsb (fun e => Nat.eqb (fst e) (sv_id sv) && low_rate q (snd e)) mc &&
  sv_exists sv && sv_bonded sv && negb (sv_jailed sv).

(** before fe7d502: a counter with a low rate whose operator is no validator any more = nil dereference *)
Definition slash_panics (q : oparams) (mc : list (nat * Z)) (svs : list sval) : bool :=
  existsb (fun e => low_rate q (snd e) &&
                    match find_sv (fst e) svs with Some s => negb (sv_exists s) | None => true end) mc.

(** post view of the staking state: (id, jailed, tokens) *)
Definition slash_post (q : oparams) (pr : Z) (mc : list (nat * Z)) (svs : list sval) : list (nat * bool * Z) :=
  map (fun sv => if slashed_b q mc sv then (sv_id sv, true, sv_tokens sv - slash_burn q pr sv)
                 else (sv_id sv, sv_jailed sv, sv_tokens sv)) svs.

(* ---------------------------------------------------------------- EndBlocker *)

Record ostate := mkOS { os_miss : list (nat * Z); os_rewards : list reward; os_balance : list Z }.

(** what one EndBlocker call did outside the oracle store: rewards credited per validator (one amount
    per denom) and the staking post view *)
Record effects := mkEff { ef_paid : list (nat * list Z); ef_post : list (nat * bool * Z) }.

Inductive result := RPanic | ROk (s : ostate) (e : effects).

Definition update_panics (p : params) (st : state) : bool :=
  ((match voted_pairs st with [] => false | _ => true end) && negb (threshold_ok p (bonded_power st))) ||
  negb (forallb (fun pr => tally_ok (p_reward_band p) (pair_votes st pr) (wmedian true (pair_votes st pr))) (valid_pairs p st)).

Definition total_weight (pm : perfmap) : Z := fold_right (fun e acc => fst (snd e) + acc) 0 pm.

(** UpdateExchangeRates as far as miss counters and rewards are concerned *)
Definition period_update (p : params) (st : state) (s : ostate) : ostate * list (nat * list Z) :=
  let pm := tally_all p st in
  let mc := incr_miss pm (os_miss s) in
  let W := total_weight pm in
  if W =? 0 then (mkOS mc (os_rewards s) (os_balance s), [])
  else
    let (pot, rs) := gather (os_rewards s) in
    let paid := map (fun e => (fst e, map (fun amt => portion amt (fst (snd e)) W) pot)) pm in
    let total := coins_sum (map snd paid) in
    let bal := if coins_le total (os_balance s) then coins_sub (os_balance s) total else os_balance s in
    (mkOS mc rs bal, paid).

Definition unchanged_post (svs : list sval) : list (nat * bool * Z) :=
  map (fun sv => (sv_id sv, sv_jailed sv, sv_tokens sv)) svs.

(** oracle.EndBlocker *)
Definition end_block12 (fx : bool) (q : oparams) (s : ostate) (st : state) (svs : list sval) (h : Z) : result :=
  let p := op_base q in
  let upd := is_period_last h (p_vote_period p) in
  if upd && update_panics p st then RPanic else
  let '(s1, paid) := if upd then period_update p st s else (s, []) in
  if is_period_last h (op_slash_window q) then
    if negb fx && slash_panics q (os_miss s1) svs then RPanic
    else ROk (mkOS [] (os_rewards s1) (os_balance s1)) (mkEff paid (slash_post q (power_reduction st) (os_miss s1) svs))
  else ROk s1 (mkEff paid (unchanged_post svs)).

(* ---------------------------------------------------------------- histories *)

Inductive op :=
| OEnd (st : state) (svs : list sval) (h : Z)     (* EndBlocker at height h with this staking view / Votes store *)
| OAlloc (coins : list Z) (periods : Z)           (* AllocateRewards, funded *)
| OOther.                                         (* a staking operation: no effect on oracle bookkeeping *)

Definition step (fx : bool) (q : oparams) (s : ostate) (o : op) : result :=
  match o with
  | OEnd st svs h => end_block12 fx q s st svs h
  | OAlloc coins n =>
      ROk (mkOS (os_miss s) (os_rewards s ++ [mkReward n (per_period coins n)]) (coins_add (os_balance s) coins))
          (mkEff [] [])
  | OOther => ROk s (mkEff [] [])
  end.

(* ================================================================ the Votes store across steps *)

(** The Votes store lives across blocks: a validator's aggregate vote stays until it is overwritten or
    until clearVotesAndPrevotes at a vote-period end.  In a history, an [OEnd st svs h] step carries in
    [votes st] only the votes SUBMITTED since the previous step; the store the EndBlocker sees is the
    previous store with these put on top. *)
Definition with_votes (st : state) (vs : list avote) : state :=
  mkState (validators st) (max_validators st) (bonded_tokens st) (power_reduction st) (whitelist st) vs (rates st).
Definition eff_state (store : list avote) (st : state) : state := with_votes st (put_votes store (votes st)).
Definition eff_op (store : list avote) (o : op) : op :=
  match o with OEnd st svs h => OEnd (eff_state store st) svs h | _ => o end.
Definition next_store (q : oparams) (store : list avote) (o : op) : list avote :=
  match o with
  | OEnd st _ h => if is_period_last h (p_vote_period (op_base q)) then [] else put_votes store (votes st)
  | _ => store
  end.

Record hst12 := mkHst12 { h12_os : ostate; h12_store : list avote }.
Inductive hresult := HPanic | HOk (s : hst12) (e : effects).

Definition hstep12 (fx : bool) (q : oparams) (s : hst12) (o : op) : hresult :=
  match step fx q (h12_os s) (eff_op (h12_store s) o) with
  | RPanic => HPanic
  | ROk s1 e => HOk (mkHst12 s1 (next_store q (h12_store s) o)) e
  end.
