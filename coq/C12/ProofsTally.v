(** C12 — the Tally loop (sorted votes, performance map, "missedValidators" set) computes, for every
    eligible validator, exactly the declarative reward weight and miss count of Spec.v; consequences
    for the miss counters. *)
From Coq Require Import ZArith List Bool Arith Lia Permutation.
Import ListNotations.
Require Import Nib.Lib.Dec Nib.C10.Model Nib.C10.Spec Nib.C10.ProofsMedian Nib.C10.ProofsUpdate.
Require Import Nib.C12.Model Nib.C12.Spec.
Local Open Scope Z_scope.
Local Arguments Z.mul : simpl never.
Local Arguments Z.add : simpl never.

Definition keys (pm : perfmap) : list nat := map fst pm.

(* ---------------------------------------------------------------- performance map *)

Lemma pf_upd_keys id f pm : keys (pf_upd id f pm) = keys pm.
Proof.
  induction pm as [|[i x] pm IH]; simpl; [reflexivity|].
  destruct (Nat.eqb i id); simpl; [reflexivity | rewrite IH; reflexivity].
Qed.

Lemma pf_get_upd_same id f pm : In id (keys pm) -> pf_get id (pf_upd id f pm) = f (pf_get id pm).
Proof.
  induction pm as [|[i x] pm IH]; simpl; intro H; [contradiction|].
  destruct (Nat.eqb i id) eqn:E; simpl; rewrite E; [reflexivity|].
  apply IH. destruct H as [H|H]; [apply Nat.eqb_neq in E; contradiction | exact H].
Qed.

Lemma pf_get_upd_other id id' f pm : id <> id' -> pf_get id (pf_upd id' f pm) = pf_get id pm.
Proof.
  intro Hne. induction pm as [|[i x] pm IH]; simpl; [reflexivity|].
  destruct (Nat.eqb i id') eqn:E; simpl.
  - apply Nat.eqb_eq in E. subst i. assert (E2 : Nat.eqb id' id = false) by (apply Nat.eqb_neq; auto). rewrite E2. reflexivity.
  - destruct (Nat.eqb i id); [reflexivity | exact IH].
Qed.

Lemma pm_canon pm : NoDup (keys pm) -> pm = map (fun id => (id, pf_get id pm)) (keys pm).
Proof.
  induction pm as [|[i x] pm IH]; simpl; intro H; [reflexivity|].
  inversion H as [|? ? Hn Hd]; subst. rewrite Nat.eqb_refl. f_equal.
  rewrite (IH Hd) at 1. apply map_ext_in. intros id Hid.
  assert (E : Nat.eqb i id = false) by (apply Nat.eqb_neq; intro; subst; contradiction). rewrite E. reflexivity.
Qed.

(* ---------------------------------------------------------------- one pair *)

Definition wsum (m s : Z) (id : nat) (vs : list pvote) : Z :=
  total_power (filter (fun v => Nat.eqb (pv_voter v) id && in_band m s v) vs).
Definition msd (m s : Z) (id : nat) (vs : list pvote) : bool :=
  existsb (fun v => Nat.eqb (pv_voter v) id && (0 <? pv_rate v) && negb (in_band m s v)) vs.

Lemma memb_cons_ne id x l : id <> x -> memb id (x :: l) = memb id l.
Proof. intro H. unfold memb. simpl. assert (E : Nat.eqb id x = false) by (apply Nat.eqb_neq; exact H). rewrite E. reflexivity. Qed.
Lemma memb_cons_eq id l : memb id (id :: l) = true.
Proof. unfold memb. simpl. rewrite Nat.eqb_refl. reflexivity. Qed.

Lemma tally_loop_keys m s : forall vs missed pm, keys (tally_loop m s vs missed pm) = keys pm.
Proof.
  induction vs as [|v vs IH]; simpl; intros missed pm; [reflexivity|].
  destruct (in_band m s v); [rewrite IH; apply pf_upd_keys|].
  destruct (negb (abstain_b v)); [|apply IH].
  destruct (memb (pv_voter v) missed); [apply IH|]. rewrite IH. apply pf_upd_keys.
Qed.

Lemma tally_loop_get m s id : forall vs missed pm,
  In id (keys pm) ->
  pf_get id (tally_loop m s vs missed pm) =
  (fst (pf_get id pm) + wsum m s id vs,
   snd (pf_get id pm) + (if negb (memb id missed) && msd m s id vs then 1 else 0)).
Proof.
  induction vs as [|v vs IH]; intros missed pm Hin.
  - simpl. unfold wsum, msd. simpl. rewrite andb_false_r. destruct (pf_get id pm). simpl. f_equal; lia.
  - simpl. unfold wsum, msd in *. simpl.
    destruct (in_band m s v) eqn:Eb.
    + rewrite IH by (rewrite pf_upd_keys; exact Hin).
      destruct (Nat.eqb (pv_voter v) id) eqn:Ev; simpl.
      * apply Nat.eqb_eq in Ev. rewrite Ev. rewrite pf_get_upd_same by exact Hin. simpl.
        rewrite andb_false_r. simpl. f_equal. lia.
      * apply Nat.eqb_neq in Ev. rewrite pf_get_upd_other by auto. reflexivity.
    + unfold abstain_b. rewrite negb_involutive.
      destruct (0 <? pv_rate v) eqn:Ep; simpl.
      * destruct (memb (pv_voter v) missed) eqn:Em.
        -- rewrite IH by exact Hin.
           destruct (Nat.eqb (pv_voter v) id) eqn:Ev; simpl; [|reflexivity].
           apply Nat.eqb_eq in Ev. rewrite <- Ev, Em. simpl. reflexivity.
        -- rewrite IH by (rewrite pf_upd_keys; exact Hin).
           destruct (Nat.eqb (pv_voter v) id) eqn:Ev; simpl.
           ++ apply Nat.eqb_eq in Ev. rewrite Ev in *. rewrite pf_get_upd_same by exact Hin.
              simpl. rewrite ?Nat.eqb_refl, ?Em. simpl. f_equal. lia.
           ++ apply Nat.eqb_neq in Ev. rewrite pf_get_upd_other by auto.
              assert (E2 : Nat.eqb id (pv_voter v) = false) by (apply Nat.eqb_neq; auto).
              simpl. rewrite ?E2. simpl. reflexivity.
      * rewrite andb_false_r. simpl. rewrite IH by exact Hin. reflexivity.
Qed.

Lemma existsb_perm {A} (f : A -> bool) a b : Permutation a b -> existsb f a = existsb f b.
Proof. intro H. induction H as [|x a b H IH|x y a|a b c H1 IH1 H2 IH2]; simpl; [reflexivity | rewrite IH; reflexivity | destruct (f x), (f y); reflexivity | congruence]. Qed.

Lemma tally_pair_keys band vs pm : keys (tally_pair band vs pm) = keys pm.
Proof. unfold tally_pair. apply tally_loop_keys. Qed.

Lemma tally_pair_get band vs id pm :
  In id (keys pm) ->
  pf_get id (tally_pair band vs pm) =
  (fst (pf_get id pm) + pair_weight band vs id, snd (pf_get id pm) + (if missed_pair band vs id then 1 else 0)).
Proof.
  intro Hin. unfold tally_pair, pair_weight, missed_pair. cbv zeta.
  rewrite tally_loop_get by exact Hin. simpl.
  unfold wsum, msd. rewrite (tp_filter_perm _ _ _ (sort_votes_perm vs)).
  rewrite (existsb_perm _ _ _ (sort_votes_perm vs)). reflexivity.
Qed.

(* ---------------------------------------------------------------- all pairs *)

Lemma tally_fold_keys band (pv : nat -> list pvote) : forall prs pm,
  keys (fold_left (fun pm pr => tally_pair band (pv pr) pm) prs pm) = keys pm.
Proof. induction prs as [|pr prs IH]; simpl; intro pm; [reflexivity|]. rewrite IH. apply tally_pair_keys. Qed.

Lemma tally_fold_get band (pv : nat -> list pvote) id : forall prs pm,
  In id (keys pm) ->
  pf_get id (fold_left (fun pm pr => tally_pair band (pv pr) pm) prs pm) =
  (fst (pf_get id pm) + fold_right Z.add 0 (map (fun pr => pair_weight band (pv pr) id) prs),
   snd (pf_get id pm) + Z.of_nat (length (filter (fun pr => missed_pair band (pv pr) id) prs))).
Proof.
  induction prs as [|pr prs IH]; intros pm Hin.
  - simpl. destruct (pf_get id pm). simpl. f_equal; lia.
  - simpl fold_left. rewrite IH by (rewrite tally_pair_keys; exact Hin).
    rewrite tally_pair_get by exact Hin. cbn [fst snd map fold_right filter].
    destruct (missed_pair band (pv pr) id); cbn [length]; f_equal; lia.
Qed.

Lemma init_perfs_keys st : keys (init_perfs st) = eligible_ids st.
Proof. unfold keys, init_perfs, eligible_ids. rewrite map_map. reflexivity. Qed.

Lemma init_perfs_get st id : pf_get id (init_perfs st) = (0, 0).
Proof.
  unfold init_perfs. induction (eligible st) as [|[i x] l IH]; simpl; [reflexivity|].
  destruct (Nat.eqb i id); [reflexivity | exact IH].
Qed.

Lemma tally_all_keys p st : keys (tally_all p st) = eligible_ids st.
Proof. unfold tally_all. rewrite tally_fold_keys. apply init_perfs_keys. Qed.

(** for every eligible validator the loop yields the declarative reward weight and miss count *)
Theorem tally_all_get p st id :
  In id (eligible_ids st) -> pf_get id (tally_all p st) = (spec_weight p st id, spec_miss p st id).
Proof.
  intro Hin. unfold tally_all.
  rewrite (tally_fold_get (p_reward_band p) (pair_votes st) id) by (rewrite init_perfs_keys; exact Hin).
  rewrite init_perfs_get. reflexivity.
Qed.

Theorem tally_all_closed_form p st :
  NoDup (eligible_ids st) ->
  tally_all p st = map (fun id => (id, (spec_weight p st id, spec_miss p st id))) (eligible_ids st).
Proof.
  intro Hnd. rewrite (pm_canon (tally_all p st)) by (rewrite tally_all_keys; exact Hnd).
  rewrite tally_all_keys. apply map_ext_in. intros id Hid. rewrite tally_all_get by exact Hid. reflexivity.
Qed.

Lemma performances_ids_sub vs : forall fuel i, In i (map fst (performances vs fuel)) -> In i (map v_id vs).
Proof.
  intros fuel i H. apply in_map_iff in H as [[j pw] [E H]]. simpl in E. subst j.
  apply performances_in in H as [v [Hv [Hi _]]]. apply in_map_iff. exists v. auto.
Qed.

Lemma performances_nodup vs : forall fuel, NoDup (map v_id vs) -> NoDup (map fst (performances vs fuel)).
Proof.
  induction vs as [|a vs IH]; simpl; intros fuel H; [constructor|].
  inversion H as [|? ? Hn Hd]; subst. destruct fuel as [|f]; [constructor|].
  destruct (v_bonded a); [|apply IH; exact Hd].
  simpl. constructor; [|apply IH; exact Hd].
  intro Hin. apply Hn. eapply performances_ids_sub. exact Hin.
Qed.

Definition ids_nodup (st : state) : Prop := NoDup (map v_id (validators st)).

Lemma eligible_ids_nodup st : ids_nodup st -> NoDup (eligible_ids st).
Proof. intro H. unfold eligible_ids, eligible. apply performances_nodup. exact H. Qed.

(* ---------------------------------------------------------------- miss counters *)

Lemma incr_miss_closed (w k : nat -> Z) : forall ids mc,
  incr_miss (map (fun id => (id, (w id, k id))) ids) mc = exp_miss_f k ids mc.
Proof.
  unfold incr_miss, exp_miss_f. induction ids as [|i ids IH]; simpl; intro mc; [reflexivity|]. apply IH.
Qed.

Lemma total_weight_closed (w k : nat -> Z) ids :
  total_weight (map (fun id => (id, (w id, k id))) ids) = fold_right Z.add 0 (map w ids).
Proof. unfold total_weight. induction ids as [|i ids IH]; simpl; [reflexivity|]. rewrite IH. reflexivity. Qed.

Theorem incr_miss_spec p st mc :
  ids_nodup st -> incr_miss (tally_all p st) mc = exp_miss p st mc.
Proof.
  intro H. rewrite tally_all_closed_form by (apply eligible_ids_nodup; exact H).
  unfold exp_miss. apply incr_miss_closed.
Qed.

Theorem total_weight_spec p st :
  ids_nodup st -> total_weight (tally_all p st) = spec_total_weight p st.
Proof.
  intro H. rewrite tally_all_closed_form by (apply eligible_ids_nodup; exact H).
  unfold spec_total_weight. apply total_weight_closed.
Qed.

(** the MissCounters list is kept strictly sorted by validator id *)
Fixpoint mc_sorted (l : list (nat * Z)) : Prop :=
  match l with
  | [] => True
  | e :: r => (forall x, In x r -> (fst e < fst x)%nat) /\ mc_sorted r
  end.

Lemma mc_get_above id l : (forall x, In x l -> (id < fst x)%nat) -> mc_get id l = 0.
Proof.
  induction l as [|[j c] l IH]; simpl; intro H; [reflexivity|].
  assert (E : Nat.eqb j id = false) by (apply Nat.eqb_neq; specialize (H (j, c) (or_introl eq_refl)); simpl in H; lia).
  rewrite E. apply IH. intros x Hx. apply H. right. exact Hx.
Qed.

Lemma bump_in x i k l : In x (bump i k l) -> fst x = i \/ In (fst x) (map fst l).
Proof.
  induction l as [|[j c] l IH]; simpl.
  - intros [<-|[]]. left. reflexivity.
  - destruct (Nat.ltb i j).
    + intros [<-|[<-|H]]; [left; reflexivity | right; left; reflexivity | right; right; apply in_map; exact H].
    + destruct (Nat.eqb i j) eqn:E.
      * intros [<-|H]; [right; left; reflexivity | right; right; apply in_map; exact H].
      * intros [<-|H]; [right; left; reflexivity|]. destruct (IH H) as [H1|H1]; [left; exact H1 | right; right; exact H1].
Qed.

Lemma bump_sorted i k l : mc_sorted l -> mc_sorted (bump i k l).
Proof.
  induction l as [|[j c] l IH]; simpl; intro H.
  - split; [intros ? []|exact I].
  - destruct H as [H1 H2]. destruct (Nat.ltb i j) eqn:E1.
    + apply Nat.ltb_lt in E1. simpl. split.
      * intros x [<-|Hx]; [simpl; exact E1|]. specialize (H1 x Hx). simpl in H1. lia.
      * split; assumption.
    + apply Nat.ltb_ge in E1. destruct (Nat.eqb i j) eqn:E2.
      * simpl. split; assumption.
      * apply Nat.eqb_neq in E2. simpl. split; [|apply IH; exact H2].
        intros x Hx. apply bump_in in Hx as [Hx|Hx]; [simpl; lia|].
        apply in_map_iff in Hx as [y [Ey Hy]]. specialize (H1 y Hy). simpl in H1. lia.
Qed.

(** reading a counter after [bump] / after a period end *)
Lemma mc_get_bump id i k mc : mc_sorted mc -> mc_get id (bump i k mc) = mc_get id mc + (if Nat.eqb i id then k else 0).
Proof.
  induction mc as [|[j c] mc IH]; simpl; intro Hs.
  - destruct (Nat.eqb i id); lia.
  - destruct Hs as [H1 H2]. destruct (Nat.ltb i j) eqn:E1; simpl.
    + destruct (Nat.eqb i id) eqn:E2; [|lia]. apply Nat.eqb_eq in E2. subst i. apply Nat.ltb_lt in E1.
      assert (E3 : Nat.eqb j id = false) by (apply Nat.eqb_neq; lia). rewrite E3.
      rewrite mc_get_above; [lia|]. intros x Hx. specialize (H1 x Hx). simpl in H1. lia.
    + destruct (Nat.eqb i j) eqn:E2; simpl.
      * apply Nat.eqb_eq in E2. subst j. destruct (Nat.eqb i id); lia.
      * destruct (Nat.eqb j id) eqn:E3.
        -- apply Nat.eqb_eq in E3. subst j. rewrite E2. lia.
        -- apply IH. exact H2.
Qed.

Lemma exp_miss_f_sorted (f : nat -> Z) : forall ids mc, mc_sorted mc -> mc_sorted (exp_miss_f f ids mc).
Proof.
  unfold exp_miss_f. induction ids as [|i ids IH]; simpl; intros mc H; [exact H|].
  apply IH. destruct (0 <? f i); [apply bump_sorted; exact H | exact H].
Qed.

Lemma mc_get_exp_miss_f (f : nat -> Z) id : forall ids mc,
  NoDup ids -> mc_sorted mc ->
  mc_get id (exp_miss_f f ids mc) = mc_get id mc + (if memb id ids then Z.max 0 (f id) else 0).
Proof.
  induction ids as [|i ids IH]; intros mc Hnd Hs; [unfold exp_miss_f; simpl; lia|].
  inversion Hnd as [|? ? Hn Hd]; subst.
  change (exp_miss_f f (i :: ids) mc) with (exp_miss_f f ids (if 0 <? f i then bump i (f i) mc else mc)).
  assert (Hs' : mc_sorted (if 0 <? f i then bump i (f i) mc else mc)) by (destruct (0 <? f i); [apply bump_sorted; exact Hs | exact Hs]).
  rewrite (IH _ Hd Hs').
  unfold memb. simpl. fold (memb id ids).
  destruct (Nat.eqb id i) eqn:E; simpl.
  - apply Nat.eqb_eq in E. subst i.
    assert (Em : memb id ids = false) by (apply memb_false; exact Hn). rewrite Em.
    destruct (0 <? f id) eqn:Ef.
    + rewrite mc_get_bump by exact Hs. rewrite Nat.eqb_refl. apply Z.ltb_lt in Ef. lia.
    + apply Z.ltb_ge in Ef. lia.
  - destruct (0 <? f i); [|reflexivity]. rewrite mc_get_bump by exact Hs.
    assert (E2 : Nat.eqb i id = false) by (rewrite Nat.eqb_sym; exact E). rewrite E2. lia.
Qed.

Lemma spec_miss_nonneg p st id : 0 <= spec_miss p st id.
Proof. unfold spec_miss. lia. Qed.

(** a validator's counter grows at a period end by exactly the number of quorum pairs on which it
    submitted a positive out-of-band rate — and not at all if it is not eligible *)
Theorem miss_counter_growth p st mc id :
  ids_nodup st -> mc_sorted mc ->
  mc_get id (exp_miss p st mc) = mc_get id mc + (if memb id (eligible_ids st) then spec_miss p st id else 0).
Proof.
  intros H Hs. unfold exp_miss. rewrite (mc_get_exp_miss_f _ id _ mc (eligible_ids_nodup st H) Hs).
  pose proof (spec_miss_nonneg p st id). destruct (memb id (eligible_ids st)); lia.
Qed.

(** [spec_miss] is positive iff there is a quorum pair with a positive out-of-band vote of [id] *)
Theorem spec_miss_pos_iff p st id :
  0 < spec_miss p st id <->
  exists pr v, quorum p st pr /\ In v (pair_votes st pr) /\ pv_voter v = id /\ 0 < pv_rate v /\
               inside_b (p_reward_band p) (pair_votes st pr) (wmedian true (pair_votes st pr)) v = false.
Proof.
  unfold spec_miss. split.
  - intro H.
    destruct (filter (fun pr => missed_pair (p_reward_band p) (pair_votes st pr) id) (valid_pairs p st)) as [|pr l] eqn:E; [simpl in H; lia|].
    assert (Hin : In pr (filter (fun pr => missed_pair (p_reward_band p) (pair_votes st pr) id) (valid_pairs p st))) by (rewrite E; left; reflexivity).
    apply filter_In in Hin as [Hv Hm]. unfold missed_pair in Hm. cbv zeta in Hm.
    apply existsb_exists in Hm as [v [Hvin Hc]].
    apply andb_true_iff in Hc as [Hc Hn]. apply andb_true_iff in Hc as [Hi Hp].
    exists pr, v. split; [apply valid_pairs_iff; exact Hv|]. split; [exact Hvin|].
    split; [apply Nat.eqb_eq; exact Hi|]. split; [apply Z.ltb_lt; exact Hp|].
    unfold inside_b. apply negb_true_iff. exact Hn.
  - intros [pr [v [Hq [Hvin [Hi [Hp Hn]]]]]].
    assert (Hin : In pr (filter (fun pr => missed_pair (p_reward_band p) (pair_votes st pr) id) (valid_pairs p st))).
    { apply filter_In. split; [apply valid_pairs_iff; exact Hq|].
      unfold missed_pair. cbv zeta. apply existsb_exists. exists v. split; [exact Hvin|].
      rewrite !andb_true_iff. split; [split; [apply Nat.eqb_eq; exact Hi | apply Z.ltb_lt; exact Hp]|].
      apply negb_true_iff. exact Hn. }
    destruct (filter _ _); [contradiction | simpl; lia].
Qed.
