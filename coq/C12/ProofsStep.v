(** C12 — every step of the model satisfies the property of Spec.v and preserves the invariant
    (reward entries well-formed, module solvent, counters sorted); hence every history does. *)
From Coq Require Import ZArith List Bool Arith Lia Permutation.
Import ListNotations.
Require Import Nib.Lib.Dec Nib.C10.Model Nib.C10.Spec Nib.C10.ProofsMedian Nib.C10.ProofsUpdate Nib.C10.ProofsPanic.
Require Import Nib.C12.Model Nib.C12.Spec Nib.C12.ProofsTally Nib.C12.ProofsReward.
Local Open Scope Z_scope.
Local Arguments Z.mul : simpl never.
Local Arguments Z.add : simpl never.
Local Arguments Z.sub : simpl never.
Local Arguments gather : simpl never.
Local Arguments coins_sum : simpl never.
Local Arguments owed : simpl never.

Definition inv (s : ostate) : Prop :=
  rewards_ok (os_rewards s) /\
  (forall k, nth k (owed (os_rewards s)) 0 <= nth k (os_balance s) 0) /\
  mc_sorted (os_miss s).

Definition wf_op (o : op) : Prop :=
  match o with
  | OEnd st svs h => wf st /\ ids_nodup st
  | OAlloc coins n => 1 <= n /\ forall k, 0 <= nth k coins 0
  | OOther => True
  end.

(* ---------------------------------------------------------------- canonical paid lists *)

Fixpoint raw_of (id : nat) (l : list (nat * list Z)) : list Z :=
  match l with
  | [] => []
  | (i, c) :: r => if Nat.eqb i id then c else raw_of id r
  end.

Lemma norm2_idem l : norm2 (norm2 l) = norm2 l.
Proof. reflexivity. Qed.

Lemma norm2_zero l : nonzero2 l = false -> norm2 l = [0; 0].
Proof.
  unfold nonzero2, norm2. intro H. apply negb_false_iff, andb_true_iff in H as [H1 H2].
  apply Z.eqb_eq in H1, H2. rewrite H1, H2. reflexivity.
Qed.

Lemma paid_of_insert_ne id e l : fst e <> id -> paid_of id (insert_paid e l) = paid_of id l.
Proof.
  intro Hne. induction l as [|[j c] l IH]; simpl.
  - destruct e as [i c]. simpl in *. assert (E : Nat.eqb i id = false) by (apply Nat.eqb_neq; exact Hne). rewrite E. reflexivity.
  - destruct (Nat.leb (fst e) j); simpl.
    + destruct e as [i c0]. simpl in *. assert (E : Nat.eqb i id = false) by (apply Nat.eqb_neq; exact Hne). rewrite E. reflexivity.
    + rewrite IH. reflexivity.
Qed.

Lemma paid_of_insert_eq id e l : fst e = id -> ~ In id (map fst l) -> paid_of id (insert_paid e l) = norm2 (snd e).
Proof.
  intros He Hn. induction l as [|[j c] l IH]; simpl.
  - destruct e as [i c]. simpl in *. subst i. rewrite Nat.eqb_refl. reflexivity.
  - destruct (Nat.leb (fst e) j); simpl.
    + destruct e as [i c0]. simpl in *. subst i. rewrite Nat.eqb_refl. reflexivity.
    + assert (E : Nat.eqb j id = false) by (apply Nat.eqb_neq; intro; subst; apply Hn; left; reflexivity).
      rewrite E. apply IH. intro H. apply Hn. right. exact H.
Qed.

Lemma insert_paid_keys e l x : In x (map fst (insert_paid e l)) <-> x = fst e \/ In x (map fst l).
Proof.
  induction l as [|[j c] l IH]; simpl; [split; intros [H|H]; auto; contradiction|].
  destruct (Nat.leb (fst e) j); simpl.
  - split; [intros [H|[H|H]]; auto | intros [H|[H|H]]; auto].
  - rewrite IH. split; [intros [H|[H|H]]; auto | intros [H|[H|H]]; auto].
Qed.

Lemma canon_paid_keys l x : In x (map fst (canon_paid l)) -> In x (map fst l).
Proof.
  unfold canon_paid. induction l as [|[i c] l IH]; simpl; [auto|].
  destruct (nonzero2 c); simpl.
  - intro H. apply insert_paid_keys in H as [H|H]; [left; simpl in H; auto | right; apply IH; exact H].
  - intro H. right. apply IH. exact H.
Qed.

Lemma paid_of_canon id l : NoDup (map fst l) -> paid_of id (canon_paid l) = norm2 (raw_of id l).
Proof.
  unfold canon_paid. induction l as [|[i c] l IH]; simpl; intro Hnd; [reflexivity|].
  inversion Hnd as [|? ? Hn Hd]; subst.
  destruct (Nat.eqb i id) eqn:E.
  - apply Nat.eqb_eq in E. subst i. destruct (nonzero2 c) eqn:Ez; simpl.
    + rewrite paid_of_insert_eq; [reflexivity | reflexivity |].
      intro H. apply Hn. apply (canon_paid_keys l id). exact H.
    + rewrite IH by exact Hd. rewrite (norm2_zero c Ez).
      assert (G : forall l', ~ In id (map fst l') -> raw_of id l' = []).
      { induction l' as [|[j c'] l' IH']; simpl; intro H; [reflexivity|].
        assert (E : Nat.eqb j id = false) by (apply Nat.eqb_neq; intro; subst; apply H; left; reflexivity).
        rewrite E. apply IH'. intro H'. apply H. right. exact H'. }
      rewrite (G l Hn). reflexivity.
  - apply Nat.eqb_neq in E. destruct (nonzero2 c); simpl.
    + rewrite paid_of_insert_ne by (simpl; exact E). apply IH. exact Hd.
    + apply IH. exact Hd.
Qed.

Lemma colsum_insert k e l : colsum k (map snd (insert_paid e l)) = nth k (snd e) 0 + colsum k (map snd l).
Proof.
  unfold colsum. induction l as [|[j c] l IH]; simpl; [reflexivity|].
  destruct (Nat.leb (fst e) j); simpl; [reflexivity|]. rewrite IH. lia.
Qed.

Lemma colsum_cons k c l : colsum k (c :: l) = nth k c 0 + colsum k l.
Proof. reflexivity. Qed.

Lemma colsum_canon k l : (k < 2)%nat -> colsum k (map snd (canon_paid l)) = colsum k (map snd l).
Proof.
  intro Hk. unfold canon_paid. induction l as [|[i c] l IH]; [reflexivity|].
  cbn [filter map snd fst]. destruct (nonzero2 c) eqn:Ez; cbn [filter map snd fst fold_right].
  - rewrite colsum_insert. cbn [snd]. rewrite IH, colsum_cons, nth_norm2.
    assert (E : Nat.ltb k 2 = true) by (apply Nat.ltb_lt; exact Hk). rewrite E. reflexivity.
  - rewrite IH, colsum_cons.
    pose proof (norm2_zero c Ez) as Hz. unfold norm2 in Hz. injection Hz as H0 H1.
    destruct k as [|[|k]]; [rewrite H0; lia | rewrite H1; lia | lia].
Qed.

Lemma norm2_ext a b : nth 0 a 0 = nth 0 b 0 -> nth 1 a 0 = nth 1 b 0 -> norm2 a = norm2 b.
Proof. unfold norm2. intros -> ->. reflexivity. Qed.

Lemma coins_le_norm2 a b : (forall k, (k < 2)%nat -> nth k a 0 <= nth k b 0) -> coins_le (norm2 a) (norm2 b) = true.
Proof.
  intro H. apply coins_le_iff. intro k. rewrite !nth_norm2. destruct (Nat.ltb k 2) eqn:E; [apply H; apply Nat.ltb_lt; exact E | lia].
Qed.

(* ---------------------------------------------------------------- weights *)

Lemma pair_weight_nonneg band vs id : nonneg vs -> 0 <= pair_weight band vs id.
Proof. intro H. unfold pair_weight. cbv zeta. apply tp_nonneg. apply nonneg_filter. exact H. Qed.

Lemma spec_weight_nonneg p st id : wf st -> 0 <= spec_weight p st id.
Proof.
  intro Hw. unfold spec_weight. induction (valid_pairs p st) as [|pr l IH]; simpl; [lia|].
  pose proof (pair_weight_nonneg (p_reward_band p) (pair_votes st pr) id (pair_votes_nonneg st pr Hw)). lia.
Qed.

Lemma total_weight_as_sum pm : total_weight pm = fold_right Z.add 0 (map (fun e => fst (snd e)) pm).
Proof. unfold total_weight. induction pm as [|e pm IH]; simpl; [reflexivity|]. rewrite IH. reflexivity. Qed.

Lemma spec_total_weight_nonneg p st : wf st -> 0 <= spec_total_weight p st.
Proof.
  intro Hw. unfold spec_total_weight. induction (eligible_ids st) as [|i l IH]; simpl; [lia|].
  pose proof (spec_weight_nonneg p st i Hw). lia.
Qed.

(* ---------------------------------------------------------------- the paid list of the model *)

Definition mk_paid (pot : list Z) (W : Z) (pm : perfmap) : list (nat * list Z) :=
  map (fun e => (fst e, map (fun amt => portion amt (fst (snd e)) W) pot)) pm.

Lemma nth_portions k pot w W : nth k (map (fun amt => portion amt w W) pot) 0 = portion (nth k pot 0) w W.
Proof. rewrite <- (portion_zero w W) at 1. apply (map_nth (fun amt => portion amt w W)). Qed.

Lemma colsum_mk_paid k pot W pm :
  colsum k (map snd (mk_paid pot W pm)) = fold_right Z.add 0 (map (fun w => portion (nth k pot 0) w W) (map (fun e => fst (snd e)) pm)).
Proof.
  unfold colsum, mk_paid. induction pm as [|e pm IH]; simpl; [reflexivity|].
  rewrite nth_portions, IH. reflexivity.
Qed.

Lemma mk_paid_keys pot W pm : map fst (mk_paid pot W pm) = keys pm.
Proof. unfold mk_paid, keys. rewrite map_map. reflexivity. Qed.

Lemma raw_of_mk_paid id pot W (w k : nat -> Z) ids :
  In id ids ->
  raw_of id (mk_paid pot W (map (fun id => (id, (w id, k id))) ids)) = map (fun amt => portion amt (w id) W) pot.
Proof.
  unfold mk_paid. induction ids as [|i ids IH]; simpl; intro H; [contradiction|].
  destruct (Nat.eqb i id) eqn:E.
  - apply Nat.eqb_eq in E. subst i. reflexivity.
  - apply IH. destruct H as [H|H]; [apply Nat.eqb_neq in E; contradiction | exact H].
Qed.

(* ---------------------------------------------------------------- no panic in the domain *)

Definition no_rates (st : state) : state :=
  mkState (validators st) (max_validators st) (bonded_tokens st) (power_reduction st) (whitelist st) (votes st) [].

Lemma update_panics_in_domain p st :
  wf st -> domain p (no_rates st) 0 = true -> update_panics p st = false.
Proof.
  intros Hw Hd. unfold update_panics.
  pose proof (threshold_ok_in_domain p (no_rates st) 0 Hd) as Hr.
  change (bonded_power (no_rates st)) with (bonded_power st) in Hr. rewrite Hr. rewrite andb_false_r. simpl.
  apply negb_false_iff.
  pose proof (tally_all_ok p (no_rates st) 0 Hw Hd) as Hok. rewrite forallb_forall in Hok.
  apply forallb_forall. intros pr Hv.
  apply (Hok (pr, wmedian true (pair_votes st pr))).
  apply in_map_iff. exists pr. split; [reflexivity | exact Hv].
Qed.

(* ---------------------------------------------------------------- period update *)

Lemma period_update_shape p st s :
  wf st -> ids_nodup st ->
  let W := spec_total_weight p st in
  let pm := tally_all p st in
  period_update p st s =
  if W =? 0 then (mkOS (exp_miss p st (os_miss s)) (os_rewards s) (os_balance s), [])
  else let pot := fst (gather (os_rewards s)) in
       let paid := mk_paid pot W pm in
       let total := coins_sum (map snd paid) in
       (mkOS (exp_miss p st (os_miss s)) (snd (gather (os_rewards s)))
             (if coins_le total (os_balance s) then coins_sub (os_balance s) total else os_balance s), paid).
Proof.
  intros Hw Hn. cbv zeta. unfold period_update.
  rewrite (incr_miss_spec p st _ Hn), (total_weight_spec p st Hn).
  destruct (spec_total_weight p st =? 0); [reflexivity|].
  destruct (gather (os_rewards s)) as [pot rs]. reflexivity.
Qed.

Lemma paid_total_le_pot p st rs k :
  wf st -> ids_nodup st -> rewards_ok rs -> spec_total_weight p st <> 0 ->
  colsum k (map snd (mk_paid (fst (gather rs)) (spec_total_weight p st) (tally_all p st))) <= nth k (fst (gather rs)) 0.
Proof.
  intros Hw Hn Hr HW. rewrite colsum_mk_paid.
  pose proof (spec_total_weight_nonneg p st Hw).
  apply portion_sum_le.
  - apply pot_nonneg. exact Hr.
  - lia.
  - intros w Hin. apply in_map_iff in Hin as [e [Ee He]]. subst w.
    rewrite tally_all_closed_form in He by (apply eligible_ids_nodup; exact Hn).
    apply in_map_iff in He as [id [Eid _]]. subst e. simpl. apply spec_weight_nonneg. exact Hw.
  - rewrite <- total_weight_as_sum, (total_weight_spec p st Hn). lia.
Qed.

Lemma period_update_inv p st s :
  wf st -> ids_nodup st -> inv s -> inv (fst (period_update p st s)).
Proof.
  intros Hw Hn [Hr [Hs Hm]]. rewrite (period_update_shape p st s Hw Hn). cbv zeta.
  destruct (spec_total_weight p st =? 0) eqn:EW; cbn [fst snd].
  - unfold inv. cbn [os_rewards os_balance os_miss]. split; [exact Hr|]. split; [exact Hs|]. unfold exp_miss. apply exp_miss_f_sorted. exact Hm.
  - apply Z.eqb_neq in EW.
    assert (Htot : forall k, nth k (coins_sum (map snd (mk_paid (fst (gather (os_rewards s))) (spec_total_weight p st) (tally_all p st)))) 0
                             <= nth k (fst (gather (os_rewards s))) 0).
    { intro k. rewrite nth_coins_sum. apply paid_total_le_pot; assumption. }
    assert (Hle : coins_le (coins_sum (map snd (mk_paid (fst (gather (os_rewards s))) (spec_total_weight p st) (tally_all p st)))) (os_balance s) = true).
    { apply coins_le_iff. intro k. specialize (Htot k). pose proof (pot_le_owed k _ Hr). specialize (Hs k). lia. }
    rewrite Hle. unfold inv. cbn [os_rewards os_balance os_miss]. split; [apply rewards_ok_gather; exact Hr|]. split.
    + intro k. rewrite nth_owed_gather, nth_coins_sub. specialize (Htot k). specialize (Hs k). lia.
    + unfold exp_miss. apply exp_miss_f_sorted. exact Hm.
Qed.

(* ---------------------------------------------------------------- EndBlocker *)

Lemma end_block12_inv fx q s st svs h s' e :
  wf st -> ids_nodup st -> inv s -> end_block12 fx q s st svs h = ROk s' e -> inv s'.
Proof.
  intros Hw Hn Hi. unfold end_block12.
  destruct (is_period_last h (p_vote_period (op_base q)) && update_panics (op_base q) st); [discriminate|].
  assert (Hi1 : inv (fst (if is_period_last h (p_vote_period (op_base q)) then period_update (op_base q) st s else (s, [])))).
  { destruct (is_period_last h (p_vote_period (op_base q))); [apply period_update_inv; assumption | exact Hi]. }
  destruct (if is_period_last h (p_vote_period (op_base q)) then period_update (op_base q) st s else (s, [])) as [s1 paid].
  simpl in Hi1. destruct Hi1 as [A [B C]].
  destruct (is_period_last h (op_slash_window q)).
  - destruct (negb fx && slash_panics q (os_miss s1) svs); [discriminate|].
    intro H. injection H as <- _. split; [exact A|]. split; [exact B | exact I].
  - intro H. injection H as <- _. split; [exact A|]. split; [exact B | exact C].
Qed.

Theorem end_block12_P q s e0 st svs h :
  wf st -> ids_nodup st -> inv s -> dom12 q st = true ->
  exists s' e, end_block12 true q s st svs h = ROk s' e /\ P_end q (obs_of s e0) st svs h (obs_of s' e).
Proof.
  intros Hw Hn Hi Hd. pose proof Hi as [Hr [Hs Hm]].
  unfold dom12 in Hd. apply andb_true_iff in Hd as [Hd _]. apply andb_true_iff in Hd as [Hd _].
  fold (no_rates st) in Hd.
  pose proof (update_panics_in_domain (op_base q) st Hw Hd) as Hnp.
  unfold end_block12, P_end. rewrite Hnp, andb_false_r. cbv zeta.
  set (p := op_base q) in *.
  set (upd := is_period_last h (p_vote_period p)).
  set (win := is_period_last h (op_slash_window q)).
  rewrite (period_update_shape p st s Hw Hn). cbv zeta.
  set (W := spec_total_weight p st).
  set (pot := fst (gather (os_rewards s))).
  set (paid := mk_paid pot W (tally_all p st)).
  set (total := coins_sum (map snd paid)).
  change (so_miss (obs_of s e0)) with (os_miss s).
  change (so_rewards (obs_of s e0)) with (os_rewards s).
  change (so_balance (obs_of s e0)) with (norm2 (os_balance s)).
  (* facts used in the paying case *)
  assert (Hpay : W <> 0 ->
     (forall k, nth k total 0 <= nth k pot 0) /\ coins_le total (os_balance s) = true).
  { intro HW. assert (Htot : forall k, nth k total 0 <= nth k pot 0).
    { intro k. unfold total. rewrite nth_coins_sum. apply paid_total_le_pot; assumption. }
    split; [exact Htot|]. apply coins_le_iff. intro k. specialize (Htot k).
    pose proof (pot_le_owed k _ Hr). specialize (Hs k). unfold pot in *. lia. }
  (* the state and the paid list after the (possible) period update *)
  set (res := if upd then
                (if W =? 0 then (mkOS (exp_miss p st (os_miss s)) (os_rewards s) (os_balance s), [])
                 else (mkOS (exp_miss p st (os_miss s)) (snd (gather (os_rewards s)))
                            (if coins_le total (os_balance s) then coins_sub (os_balance s) total else os_balance s), paid))
              else (s, [])).
  assert (Hmiss : os_miss (fst res) = if upd then exp_miss p st (os_miss s) else os_miss s).
  { unfold res. destruct upd; [destruct (W =? 0); reflexivity | reflexivity]. }
  assert (Hrew : os_rewards (fst res) = if upd && negb (W =? 0) then snd (gather (os_rewards s)) else os_rewards s).
  { unfold res. destruct upd; [destruct (W =? 0); reflexivity | reflexivity]. }
  assert (Hpaid : snd res = if upd && negb (W =? 0) then paid else []).
  { unfold res. destruct upd; [destruct (W =? 0); reflexivity | reflexivity]. }
  assert (Hbal : forall k, nth k (os_balance (fst res)) 0 = nth k (os_balance s) 0 - colsum k (map snd (snd res))).
  { intro k. unfold res. destruct upd; [|simpl; unfold colsum; simpl; lia].
    destruct (W =? 0) eqn:EW; [simpl; unfold colsum; simpl; lia|].
    apply Z.eqb_neq in EW. destruct (Hpay EW) as [_ Hle]. rewrite Hle. simpl.
    rewrite nth_coins_sub. unfold total. rewrite nth_coins_sum. reflexivity. }
  assert (Hinv : inv (fst res)).
  { pose proof (period_update_inv p st s Hw Hn Hi) as Hpi. rewrite (period_update_shape p st s Hw Hn) in Hpi. cbv zeta in Hpi.
    unfold res. destruct upd; [exact Hpi | exact Hi]. }
  fold total paid pot W res.
  destruct res as [s1 pd] eqn:Eres. simpl in Hmiss, Hrew, Hpaid, Hbal, Hinv.
  destruct Hinv as [Hr1 [Hs1 Hm1]].
  (* both window cases produce an ROk; treat the common clauses once *)
  assert (Hcommon :
    forall mc',
    (if upd && negb (W =? 0)
     then (forall id, In id (eligible_ids st) -> fair2 (norm2 pot) (spec_weight p st id) W (paid_of id (canon_paid pd))) /\
          (forall x, In x (canon_paid pd) -> In (fst x) (eligible_ids st)) /\
          coins_le (norm2 (coins_sum (map snd (canon_paid pd)))) (norm2 pot) = true
     else canon_paid pd = []) /\
    norm2 (norm2 (os_balance s1)) = norm2 (coins_sub (norm2 (norm2 (os_balance s))) (norm2 (coins_sum (map snd (canon_paid pd))))) /\
    solvent (obs_of (mkOS mc' (os_rewards s1) (os_balance s1)) (mkEff pd []))).
  { intro mc'. split; [|split].
    - rewrite Hpaid. destruct (upd && negb (W =? 0)) eqn:Epay; [|reflexivity].
      apply andb_true_iff in Epay as [_ EW]. apply negb_true_iff, Z.eqb_neq in EW.
      destruct (Hpay EW) as [Htot _].
      assert (HWpos : 0 < W) by (pose proof (spec_total_weight_nonneg p st Hw); unfold W in *; lia).
      split; [|split].
      + intros id Hid. unfold paid.
        rewrite paid_of_canon by (rewrite mk_paid_keys, tally_all_keys; apply eligible_ids_nodup; exact Hn).
        rewrite tally_all_closed_form by (apply eligible_ids_nodup; exact Hn).
        rewrite raw_of_mk_paid by exact Hid.
        unfold fair2. rewrite !nth_norm2. simpl Nat.ltb. cbv iota.
        rewrite !nth_portions.
        split; apply portion_fair; try lia; try (apply spec_weight_nonneg; exact Hw); apply pot_nonneg; exact Hr.
      + intros x Hx. assert (Hk : In (fst x) (map fst (canon_paid paid))) by (apply in_map; exact Hx).
        apply canon_paid_keys in Hk. unfold paid in Hk. rewrite mk_paid_keys, tally_all_keys in Hk. exact Hk.
      + apply coins_le_norm2. intros k Ek. rewrite nth_coins_sum.
        rewrite colsum_canon by exact Ek. specialize (Htot k). unfold total in Htot. rewrite nth_coins_sum in Htot. exact Htot.
    - apply norm2_ext; rewrite !nth_norm2; simpl Nat.ltb; cbv iota;
        rewrite nth_coins_sub, !nth_norm2; simpl Nat.ltb; cbv iota;
        rewrite nth_coins_sum, colsum_canon by lia; apply Hbal.
    - unfold solvent. cbn [obs_of so_rewards so_balance os_rewards os_balance].
      apply coins_le_norm2. intros k Hk. rewrite nth_norm2.
      assert (E : Nat.ltb k 2 = true) by (apply Nat.ltb_lt; exact Hk). rewrite E. apply Hs1. }
  destruct win.
  - simpl. eexists. eexists. split; [reflexivity|].
    destruct (Hcommon []) as [C1 [C2 C3]].
    split; [reflexivity|]. split; [reflexivity|]. split; [simpl; rewrite Hmiss; reflexivity|].
    split; [exact Hrew|]. split; [exact C1|]. split; [exact C2 | exact C3].
  - eexists. eexists. split; [reflexivity|].
    destruct (Hcommon (os_miss s1)) as [C1 [C2 C3]].
    split; [reflexivity|]. split; [simpl; exact Hmiss|]. split; [reflexivity|].
    split; [exact Hrew|]. split; [exact C1|]. split; [exact C2|]. destruct s1; exact C3.
Qed.

(* ---------------------------------------------------------------- the other steps *)

Lemma owed_app k rs r : nth k (owed (rs ++ [r])) 0 = nth k (owed rs) 0 + rw_periods r * nth k (rw_coins r) 0.
Proof. rewrite !nth_owed. induction rs as [|x rs IH]; simpl; [lia|]. rewrite IH. lia. Qed.

Lemma alloc_inv s coins n :
  1 <= n -> (forall k, 0 <= nth k coins 0) -> inv s ->
  inv (mkOS (os_miss s) (os_rewards s ++ [mkReward n (per_period coins n)]) (coins_add (os_balance s) coins)).
Proof.
  intros Hn Hc [Hr [Hs Hm]]. split; [|split; [|exact Hm]].
  - intros r Hin. apply in_app_or in Hin as [Hin|[<-|[]]]; [apply Hr; exact Hin|].
    simpl. split; [exact Hn|]. intro k. apply (alloc_covers k coins n Hn Hc).
  - intro k. simpl. rewrite owed_app, nth_coins_add. simpl.
    destruct (alloc_covers k coins n Hn Hc) as [_ H]. specialize (Hs k). lia.
Qed.

Lemma solvent_of_inv s e : inv s -> solvent (obs_of s e).
Proof.
  intros [_ [Hs _]]. unfold solvent. cbn [obs_of so_rewards so_balance os_rewards os_balance].
  apply coins_le_norm2. intros k Hk. rewrite nth_norm2.
  assert (E : Nat.ltb k 2 = true) by (apply Nat.ltb_lt; exact Hk). rewrite E. apply Hs.
Qed.

(** one step of the model: never panics inside the domain, satisfies the property of the step with
    respect to the observation before it, and preserves the invariant *)
Theorem step_P q s e0 o :
  inv s -> wf_op o ->
  match step true q s o with
  | RPanic => match o with OEnd st _ _ => dom12 q st = false | _ => False end
  | ROk s' e => P_step q (obs_of s e0) o (obs_of s' e) /\ inv s'
  end.
Proof.
  intros Hi Hw. destruct o as [st svs h | coins n |]; cbn [step P_step].
  - destruct Hw as [Hw Hn].
    destruct (dom12 q st) eqn:Ed.
    + destruct (end_block12_P q s e0 st svs h Hw Hn Hi Ed) as [s' [e [E HP]]]. rewrite E.
      split; [intros _; exact HP | eapply end_block12_inv; eauto].
    + destruct (end_block12 true q s st svs h) as [|s' e] eqn:E; [reflexivity|].
      split; [intro H; discriminate | eapply end_block12_inv; eauto].
  - destruct Hw as [Hn Hc]. pose proof (alloc_inv s coins n Hn Hc Hi) as Hi'.
    split; [|exact Hi'].
    split; [reflexivity|]. split; [reflexivity|]. split; [reflexivity|].
    split; [|split; [reflexivity | apply solvent_of_inv; exact Hi']].
    cbn [obs_of so_balance os_balance]. apply norm2_ext; repeat (rewrite ?nth_norm2, ?nth_coins_add); reflexivity.
  - split; [|exact Hi].
    split; [reflexivity|]. split; [reflexivity|]. split; [reflexivity|].
    split; [reflexivity|]. split; [reflexivity | apply solvent_of_inv; exact Hi].
Qed.

(* ---------------------------------------------------------------- histories *)

Definition panic_obs : sobs := mkSObs true [] [] [] [] [].

(** the observations the model produces along a history (it stops at a panic) *)
Fixpoint run_obs (fx : bool) (q : oparams) (s : ostate) (ops : list op) : list (op * sobs) :=
  match ops with
  | [] => []
  | o :: r =>
      match step fx q s o with
      | RPanic => [(o, panic_obs)]
      | ROk s' e => (o, obs_of s' e) :: run_obs fx q s' r
      end
  end.

Theorem history_P q : forall ops s e0,
  inv s -> Forall wf_op ops -> P_history q (obs_of s e0) (run_obs true q s ops).
Proof.
  induction ops as [|o ops IH]; intros s e0 Hi Hw; simpl; [exact I|].
  inversion Hw as [|? ? Ho Hr]; subst.
  pose proof (step_P q s e0 o Hi Ho) as Hs.
  destruct (step true q s o) as [|s' e]; simpl.
  - split; [|exact I]. destruct o as [st svs h | |]; simpl; try contradiction.
    intro Hd. rewrite Hd in Hs. discriminate.
  - destruct Hs as [HP Hi']. split; [exact HP | apply IH; assumption].
Qed.

Lemma inv_empty : inv (mkOS [] [] []).
Proof.
  split; [intros r []|]. split; [|exact I]. intro k. simpl. unfold owed. simpl. destruct k; simpl; lia.
Qed.

(* ---------------------------------------------------------------- histories with a persistent Votes store *)

Lemma wf_op_eff store o : wf_op o -> wf_op (eff_op store o).
Proof. destruct o as [st svs h| |]; simpl; auto. Qed.

(** the observations (and Votes store) the model produces along a history; an [OEnd] step carries only
    the votes submitted since the previous step *)
Fixpoint run_obs12 (fx : bool) (q : oparams) (s : hst12) (ops : list op) : list (op * sobs * list avote) :=
  match ops with
  | [] => []
  | o :: r =>
      match hstep12 fx q s o with
      | HPanic => [(o, panic_obs, [])]
      | HOk s' e => (o, obs_of (h12_os s') e, h12_store s') :: run_obs12 fx q s' r
      end
  end.

(** at a vote-period end the Votes store is emptied, whatever was tallied (quorum or not) *)
Theorem period_end_clears_store fx q s st svs h s' e :
  hstep12 fx q s (OEnd st svs h) = HOk s' e -> is_period_last h (p_vote_period (op_base q)) = true -> h12_store s' = [].
Proof.
  unfold hstep12. destruct (step fx q (h12_os s) (eff_op (h12_store s) (OEnd st svs h))); [discriminate|].
  intros H Hl. injection H as <- _. simpl. rewrite Hl. reflexivity.
Qed.

Theorem history12_P q : forall ops s e0,
  inv (h12_os s) -> Forall wf_op ops ->
  P_history12 q (obs_of (h12_os s) e0) (h12_store s) (run_obs12 true q s ops).
Proof.
  induction ops as [|o ops IH]; intros s e0 Hi Hw; [exact I|].
  inversion Hw as [|? ? Ho Hr]; subst. cbn [run_obs12]. unfold hstep12.
  pose proof (step_P q (h12_os s) e0 (eff_op (h12_store s) o) Hi (wf_op_eff _ _ Ho)) as Hs.
  destruct (step true q (h12_os s) (eff_op (h12_store s) o)) as [|s1 e].
  - cbn [P_history12]. split; [|exact I]. split; [|intro Hc; discriminate].
    destruct o as [st svs h| |]; simpl in *; try contradiction. intro Hd. rewrite Hd in Hs. discriminate.
  - destruct Hs as [HP Hi']. cbn [P_history12]. split.
    + split; [exact HP | intros _; reflexivity].
    + apply (IH (mkHst12 s1 (next_store q (h12_store s) o)) e Hi' Hr).
Qed.

Theorem history12_solvent q : forall ops s,
  inv (h12_os s) -> Forall wf_op ops ->
  Forall (fun x => so_panic (snd (fst x)) = false -> solvent (snd (fst x))) (run_obs12 true q s ops).
Proof.
  induction ops as [|o ops IH]; intros s Hi Hw; [constructor|].
  inversion Hw as [|? ? Ho Hr]; subst. cbn [run_obs12]. unfold hstep12.
  pose proof (step_P q (h12_os s) (mkEff [] []) (eff_op (h12_store s) o) Hi (wf_op_eff _ _ Ho)) as Hs.
  destruct (step true q (h12_os s) (eff_op (h12_store s) o)) as [|s1 e].
  - constructor; [simpl; discriminate | constructor].
  - destruct Hs as [_ Hi']. constructor; [intros _; apply solvent_of_inv; exact Hi'|].
    apply (IH (mkHst12 s1 (next_store q (h12_store s) o)) Hi' Hr).
Qed.

(* ---------------------------------------------------------------- histories with parameter edits *)

(** every step of the history comes with the parameters in force when it runs *)
Fixpoint run_obs12v (fx : bool) (s : hst12) (ops : list (oparams * op)) : list (oparams * op * sobs * list avote) :=
  match ops with
  | [] => []
  | (q, o) :: r =>
      match hstep12 fx q s o with
      | HPanic => [(q, o, panic_obs, [])]
      | HOk s' e => (q, o, obs_of (h12_os s') e, h12_store s') :: run_obs12v fx s' r
      end
  end.

Theorem history12v_P : forall ops s e0,
  inv (h12_os s) -> Forall (fun x => wf_op (snd x)) ops ->
  P_history12v (obs_of (h12_os s) e0) (h12_store s) (run_obs12v true s ops).
Proof.
  induction ops as [|[q o] ops IH]; intros s e0 Hi Hw; [exact I|].
  inversion Hw as [|? ? Ho Hr]; subst. simpl in Ho. cbn [run_obs12v]. unfold hstep12.
  pose proof (step_P q (h12_os s) e0 (eff_op (h12_store s) o) Hi (wf_op_eff _ _ Ho)) as Hs.
  destruct (step true q (h12_os s) (eff_op (h12_store s) o)) as [|s1 e].
  - cbn [P_history12v]. split; [|exact I]. split; [|intro Hc; discriminate].
    destruct o as [st svs h| |]; simpl in *; try contradiction. intro Hd. rewrite Hd in Hs. discriminate.
  - destruct Hs as [HP Hi']. cbn [P_history12v]. split.
    + split; [exact HP | intros _; reflexivity].
    + apply (IH (mkHst12 s1 (next_store q (h12_store s) o)) e Hi' Hr).
Qed.

Theorem history12v_solvent : forall ops s,
  inv (h12_os s) -> Forall (fun x => wf_op (snd x)) ops ->
  Forall (fun x => so_panic (snd (fst x)) = false -> solvent (snd (fst x))) (run_obs12v true s ops).
Proof.
  induction ops as [|[q o] ops IH]; intros s Hi Hw; [constructor|].
  inversion Hw as [|? ? Ho Hr]; subst. simpl in Ho. cbn [run_obs12v]. unfold hstep12.
  pose proof (step_P q (h12_os s) (mkEff [] []) (eff_op (h12_store s) o) Hi (wf_op_eff _ _ Ho)) as Hs.
  destruct (step true q (h12_os s) (eff_op (h12_store s) o)) as [|s1 e].
  - constructor; [simpl; discriminate | constructor].
  - destruct Hs as [_ Hi']. constructor; [intros _; apply solvent_of_inv; exact Hi'|].
    apply (IH (mkHst12 s1 (next_store q (h12_store s) o)) Hi' Hr).
Qed.
