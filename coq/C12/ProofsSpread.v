(** C12 — the reward spread uses the implemented standard deviation.  As long as no deviation from the
    median exceeds 10^27 (as a decimal) and there are at most 10^6 votes, nothing overflows and it is
    floor(sqrt(mean of the squared deviations of the positive-rate votes)) * 10^9 (raw), unweighted. *)
From Coq Require Import ZArith List Bool Arith Lia.
Import ListNotations.
Require Import Nib.Lib.Dec Nib.C10.Model Nib.C10.Spec Nib.C10.ProofsPanic.
Require Import Nib.C12.Model Nib.C12.Spec.
Local Open Scope Z_scope.
Local Arguments Z.mul : simpl never.
Local Arguments Z.add : simpl never.
Local Arguments Z.sub : simpl never.
Local Arguments Z.pow : simpl never.

Definition DEV_MAX : Z := 10 ^ 45.      (* raw, = 10^27 as a decimal *)
Definition SQ_MAX : Z := DEV_MAX * DEV_MAX / PREC + 1.
Definition N_MAX : Z := 10 ^ 6.

Lemma spread_consts : DEV_MAX <= DEC_LIMIT /\ SQ_MAX <= DEC_LIMIT /\ N_MAX * SQ_MAX <= DEC_LIMIT /\ 0 <= SQ_MAX.
Proof. repeat split; apply Z.leb_le; vm_compute; reflexivity. Qed.

(** sum of the (rounded) squared deviations and number of positive-rate votes *)
Definition sq_sum (m : Z) (vs : list pvote) : Z :=
  fold_right (fun v acc => if 0 <? pv_rate v then mul (pv_rate v - m) (pv_rate v - m) + acc else acc) 0 vs.
Definition npos (vs : list pvote) : Z :=
  fold_right (fun v acc => if 0 <? pv_rate v then 1 + acc else acc) 0 vs.

Lemma mul_square_le d : Z.abs d <= DEV_MAX -> 0 <= mul d d <= SQ_MAX.
Proof.
  intro H. split; [apply mul_square_nonneg|]. unfold mul. assert (0 <= d * d) by nia.
  rewrite chop_round_nonneg by assumption. pose proof (chop_round_pos_le (d * d) H0) as [_ U].
  pose proof PREC_pos. assert (d * d <= DEV_MAX * DEV_MAX) by nia.
  assert (d * d / PREC <= DEV_MAX * DEV_MAX / PREC) by (apply Z.div_le_mono; lia).
  unfold SQ_MAX. lia.
Qed.

Lemma chk_ok x : Z.abs x <= DEC_LIMIT -> chk x = Some x.
Proof. intro H. unfold chk. assert (E : in_range x = true) by (apply in_range_iff; exact H). rewrite E. reflexivity. Qed.

Lemma sd_fold_exact m : forall vs s n,
  0 <= s -> s + Z.of_nat (length vs) * SQ_MAX <= DEC_LIMIT ->
  (forall v, In v vs -> 0 < pv_rate v -> Z.abs (pv_rate v - m) <= DEV_MAX) ->
  fold_left (sd_step m) vs (Some (s, n)) = Some (s + sq_sum m vs, n + npos vs).
Proof.
  destruct spread_consts as [C1 [C2 [C3 C4]]].
  induction vs as [|v vs IH]; intros s n Hs Hb Hd.
  - simpl. f_equal. f_equal; lia.
  - cbn [fold_left sd_step sq_sum npos fold_right length] in *.
    assert (Hb' : Z.of_nat (S (length vs)) = Z.of_nat (length vs) + 1) by lia. rewrite Hb' in Hb.
    destruct (0 <? pv_rate v) eqn:E.
    + apply Z.ltb_lt in E.
      pose proof (Hd v (or_introl eq_refl) E) as Hv.
      pose proof (mul_square_le _ Hv) as [Q0 Q1].
      pose proof (Zle_0_nat (length vs)).
      rewrite (chk_ok (pv_rate v - m)) by lia.
      rewrite (chk_ok (mul (pv_rate v - m) (pv_rate v - m))) by lia.
      rewrite (chk_ok (s + mul (pv_rate v - m) (pv_rate v - m))) by nia.
      rewrite IH; [unfold sq_sum, npos; f_equal; f_equal; lia | lia | nia | intros w Hw; apply Hd; right; exact Hw].
    + rewrite IH; [unfold sq_sum, npos; reflexivity | lia | nia | intros w Hw; apply Hd; right; exact Hw].
Qed.

Theorem stddev_exact vs m :
  Z.of_nat (length vs) <= N_MAX ->
  (forall v, In v vs -> 0 < pv_rate v -> Z.abs (pv_rate v - m) <= DEV_MAX) ->
  stddev vs m = if npos vs =? 0 then 0 else Z.sqrt (Z.quot (sq_sum m vs) (npos vs)) * E9.
Proof.
  intros Hn Hd. destruct spread_consts as [C1 [C2 [C3 C4]]]. unfold stddev.
  rewrite (sd_fold_exact m vs 0 0); [| lia | nia | exact Hd].
  rewrite !Z.add_0_l. destruct (npos vs =? 0) eqn:E; [reflexivity|]. apply Z.eqb_neq in E.
  apply sqrt_dec_exact.
  assert (H0 : 0 <= sq_sum m vs).
  { clear. induction vs as [|v vs IH]; simpl; [lia|]. destruct (0 <? pv_rate v); [|exact IH].
    pose proof (mul_square_nonneg (pv_rate v - m)). lia. }
  assert (H1 : 0 <= npos vs) by (clear; induction vs as [|v vs IH]; simpl; [lia|]; destruct (0 <? pv_rate v); lia).
  rewrite Z.quot_div_nonneg by lia. apply Z.div_pos; lia.
Qed.
