(** C06 — exact backing: in histories without direct burns / donations and with tokens that never pay
    the module, every mapping is backed EXACTLY (margin 0) after every transaction. *)
From Coq Require Import List Bool Arith ZArith Lia.
Import ListNotations.
Require Import Nib.C06.Model Nib.C06.Spec Nib.C06.Proofs.
Local Open Scope Z_scope.
Local Opaque Module.

(** operations that neither burn ERC20 directly, nor hand anything to the module outside a conversion *)
Fixpoint gift_free (o : op) : bool :=
  match o with
  | Fund a _ _ => negb (Nat.eqb a Module)
  | Deploy _ b _ => negb (Nat.eqb (tb_sink b) Module)
  | Erc20Transfer _ _ to _ => negb (Nat.eqb to Module)
  | Erc20Burn _ _ _ => false
  | ConvertCoinToEvm _ _ _ to | SendToEvm _ _ _ to => negb (Nat.eqb to Module)
  | Framed _ o' => gift_free o'
  | Seq o1 o2 => gift_free o1 && gift_free o2
  | _ => true
  end.

Definition no_module_fee (b : tbeh) : Prop := tb_sink b <> Module \/ forall x, fee_of b x = 0.

Record Exact (s : st) : Prop := {
  ex_inv : Inv s;
  ex_slack : forall m, In m (reg s) -> slack s m = 0;
  ex_tok : forall t, ~ In t (map m_tok (reg s)) -> ebal s t Module = 0;
  ex_den : forall d, ~ In d (map m_den (reg s)) -> bank s Module d = 0;
  ex_fee : forall t b, tk s t = Some b -> no_module_fee b
}.

Lemma no_fee_gain b x to : no_module_fee b -> to <> Module -> module_gain b x to = 0.
Proof.
  intros [H|H] Ht; unfold module_gain, ind.
  - rewrite (proj2 (Nat.eqb_neq Module (tb_sink b))), (proj2 (Nat.eqb_neq Module to)) by congruence. lia.
  - rewrite H, (proj2 (Nat.eqb_neq Module to)) by congruence. destruct (Nat.eqb Module (tb_sink b)); lia.
Qed.

(** ** what a conversion leaves untouched: every other token, every other denom *)
Lemma coin_to_evm_untouched s m0 from x to s' : coin_to_evm_born_coin s m0 from x to = Some s' ->
  (forall t a, t <> m_tok m0 -> ebal s' t a = ebal s t a) /\ (forall d a, d <> m_den m0 -> bank s' a d = bank s a d).
Proof.
  intro H. unfold coin_to_evm_born_coin, bind in H.
  destruct (bank_send s from Module (m_den m0) x) as [s1|] eqn:E1; [|discriminate].
  apply bank_send_spec in E1 as [F1 [X1 [B1 [S1 [Eb1 Es1]]]]].
  apply erc_mint_spec in H as [F2 [X2 [Eb2 [Es2 [B2 S2]]]]].
  split.
  - intros t a Ht. rewrite Eb2, Eb1. rewrite (proj2 (Nat.eqb_neq _ _) Ht). unfold ind. lia.
  - intros d a Hd. rewrite B2, B1. rewrite (denom_eqb_neq _ _ Hd). unfold ind. lia.
Qed.

Lemma convert_born_erc20_untouched s m0 from x to s' : convert_born_erc20 s m0 from x to = Some s' ->
  (forall t a, t <> m_tok m0 -> ebal s' t a = ebal s t a) /\ (forall d a, d <> m_den m0 -> bank s' a d = bank s a d).
Proof.
  intro H. unfold convert_born_erc20, bind in H.
  destruct (bank_send s from Module (m_den m0) x) as [s1|] eqn:E1; [|discriminate].
  destruct (bank_burn s1 Module (m_den m0) x) as [s2|] eqn:E2; [|discriminate].
  destruct (measured_transfer s2 (m_tok m0) Module to x) as [[s3 got]|] eqn:E3; [|discriminate].
  simpl in H. inversion H; subst s3; clear H.
  apply bank_send_spec in E1 as [F1 [X1 [B1 [S1 [Eb1 Es1]]]]].
  apply bank_burn_spec in E2 as [F2 [X2 [B2 [S2 [Eb2 Es2]]]]].
  apply measured_transfer_spec in E3 as [b [Tk [E3 [G Gp]]]].
  apply erc_transfer_spec in E3 as [F3 [X3 [Eb3 [B3 [S3 Es3]]]]].
  split.
  - intros t a Ht. rewrite Eb3, Eb2, Eb1. rewrite (proj2 (Nat.eqb_neq _ _) Ht). unfold ind. lia.
  - intros d a Hd. rewrite B3, B2, B1. rewrite (denom_eqb_neq _ _ Hd). unfold ind. lia.
Qed.

Lemma send_to_evm_born_erc20_untouched s m0 from x to s' : send_to_evm_born_erc20 s m0 from x to = Some s' ->
  (forall t a, t <> m_tok m0 -> ebal s' t a = ebal s t a) /\ (forall d a, d <> m_den m0 -> bank s' a d = bank s a d).
Proof.
  intro H. unfold send_to_evm_born_erc20, bind in H.
  destruct (bank_send s from Module (m_den m0) x) as [s1|] eqn:E1; [|discriminate].
  destruct (measured_transfer s1 (m_tok m0) Module to x) as [[s2 got]|] eqn:E2; [|discriminate].
  simpl in H. rename H into E3.
  apply bank_send_spec in E1 as [F1 [X1 [B1 [S1 [Eb1 Es1]]]]].
  apply measured_transfer_spec in E2 as [b [Tk [E2 [G Gp]]]].
  apply erc_transfer_spec in E2 as [F2 [X2 [Eb2 [B2 [S2 Es2]]]]].
  apply bank_burn_spec in E3 as [F3 [X3 [B3 [S3 [Eb3 Es3]]]]].
  split.
  - intros t a Ht. rewrite Eb3, Eb2, Eb1. rewrite (proj2 (Nat.eqb_neq _ _) Ht). unfold ind. lia.
  - intros d a Hd. rewrite B3, B2, B1. rewrite (denom_eqb_neq _ _ Hd). unfold ind. lia.
Qed.

Lemma send_to_bank_untouched s m0 caller x to s' : send_to_bank s m0 caller x to = Some s' ->
  (forall t a, t <> m_tok m0 -> ebal s' t a = ebal s t a) /\ (forall d a, d <> m_den m0 -> bank s' a d = bank s a d).
Proof.
  intro H. unfold send_to_bank, bind in H.
  destruct (measured_transfer s (m_tok m0) caller Module x) as [[s1 g]|] eqn:E1; [|discriminate].
  apply measured_transfer_spec in E1 as [b [Tk [E1 [G Gp]]]].
  apply erc_transfer_spec in E1 as [F1 [X1 [Eb1 [B1 [S1 Es1]]]]].
  destruct (m_coin m0).
  - destruct (erc_burn s1 (m_tok m0) Module g) as [s2|] eqn:E2; [|discriminate].
    destruct (guard (negb (blocked to))); [|discriminate]. simpl in H.
    apply erc_burn_spec in E2 as [F2 [X2 [Eb2 [Es2 [B2 S2]]]]].
    apply bank_send_spec in H as [F3 [X3 [B3 [S3 [Eb3 Es3]]]]].
    split.
    + intros t a Ht. rewrite Eb3, Eb2, Eb1. rewrite (proj2 (Nat.eqb_neq _ _) Ht). unfold ind. lia.
    + intros d a Hd. rewrite B3, B2, B1. rewrite (denom_eqb_neq _ _ Hd). unfold ind. lia.
  - destruct (bank_mint s1 Module (m_den m0) g) as [s2|] eqn:E2; [|discriminate].
    destruct (guard (negb (blocked to))); [|discriminate]. simpl in H.
    apply bank_mint_spec in E2 as [F2 [X2 [B2 [S2 [Eb2 Es2]]]]].
    apply bank_send_spec in H as [F3 [X3 [B3 [S3 [Eb3 Es3]]]]].
    split.
    + intros t a Ht. rewrite Eb3, Eb2, Eb1. rewrite (proj2 (Nat.eqb_neq _ _) Ht). unfold ind. lia.
    + intros d a Hd. rewrite B3, B2, B1. rewrite (denom_eqb_neq _ _ Hd). unfold ind. lia.
Qed.

(** a registry-preserving exact step *)
Lemma exact_frame s s' : Exact s -> Inv s' -> frame_eq s s' ->
  (forall m, In m (reg s) -> slack s' m = slack s m) ->
  (forall t, ~ In t (map m_tok (reg s)) -> ebal s' t Module = ebal s t Module) ->
  (forall d, ~ In d (map m_den (reg s)) -> bank s' Module d = bank s Module d) ->
  Exact s'.
Proof.
  intros X I' [Fr [Fn Ft]] Hs Ht Hd. constructor; [exact I'| | | |]; rewrite ?Fr, ?Ft.
  - intros m Hm. rewrite (Hs m Hm). apply X. exact Hm.
  - intros t Hn. rewrite (Ht t Hn). apply X. exact Hn.
  - intros d Hn. rewrite (Hd d Hn). apply X. exact Hn.
  - apply X.
Qed.

Lemma not_in_neq_tok s t m : ~ In t (map m_tok (reg s)) -> In m (reg s) -> t <> m_tok m.
Proof. intros Hn Hm E. apply Hn. rewrite E. apply in_map. exact Hm. Qed.

Lemma not_in_neq_den s d m : ~ In d (map m_den (reg s)) -> In m (reg s) -> d <> m_den m.
Proof. intros Hn Hm E. apply Hn. rewrite E. apply in_map. exact Hm. Qed.

Lemma minter_no_fee : no_module_fee minter_beh.
Proof. right. intro x. unfold fee_of, minter_beh. simpl. lia. Qed.

Lemma pay_create_fee_exact s sender s0 : Exact s -> pay_create_fee s sender = Some s0 -> Exact s0.
Proof.
  intros X H. pose proof (ex_inv _ X) as I.
  destruct (pay_create_fee_good s sender s0 I H) as [G0 [K0 [Bm Eb]]].
  apply (exact_frame s s0 X (good_step_inv s s0 I G0) (proj1 G0) K0).
  - intros t _. rewrite Eb. reflexivity.
  - intros d _. apply Bm.
Qed.

Lemma create_coin_core_exact s d s' : Exact s -> create_coin_core s d = Some s' -> Exact s'.
Proof.
  intros X H. pose proof (ex_inv _ X) as I.
  pose proof (proj1 (create_from_coin_ok s d s' I H)) as I'.
  destruct (create_from_coin_ok s d s' I H) as [_ [Hk [t Hr]]].
  unfold create_coin_core, create_coin_gen, bind, guard in H.
  destruct (negb (is_some (find_den s d)) && meta s d) eqn:G1; [|discriminate].
  destruct (negb (is_some (find_tok s (next_tok s)))) eqn:G2; [|discriminate].
  apply andb_true_iff in G1 as [G1 _]. apply negb_true_iff in G1.
  destruct (find_den s d) eqn:Fd; [discriminate|]. apply find_den_none in Fd.
  inversion H; subst s'; clear H. simpl in *.
  constructor; simpl.
  + exact I'.
  + intros m Hm. apply in_app_or in Hm as [Hm|[Hm|[]]].
    * destruct (Hk m Hm) as [_ E]. rewrite E. apply X. exact Hm.
    * subst m. unfold slack. simpl. unfold updT. rewrite Nat.eqb_refl. rewrite (ex_den _ X d Fd). lia.
  + intros t0 Hn. rewrite map_app in Hn. simpl in Hn.
    destruct (Nat.eqb t0 (next_tok s)) eqn:E.
    * decode. exfalso. apply Hn. apply in_or_app. right. left. congruence.
    * apply X. intro Hin. apply Hn. apply in_or_app. left. exact Hin.
  + intros d0 Hn. rewrite map_app in Hn. apply X. intro Hin. apply Hn. apply in_or_app. left. exact Hin.
  + intros t0 b0. unfold updT. destruct (Nat.eqb t0 (next_tok s)).
    * intro E. inversion E; subst b0. exact minter_no_fee.
    * apply X.
Qed.

Lemma create_erc20_core_exact s t s' : Exact s -> create_erc20_core s t = Some s' -> Exact s'.
Proof.
  intros X H. pose proof (ex_inv _ X) as I.
  pose proof (proj1 (create_from_erc20_ok s t s' I H)) as I'.
  destruct (create_from_erc20_ok s t s' I H) as [_ [Hk Hr]].
  unfold create_erc20_core, bind, guard in H.
  destruct (negb (is_some (find_tok s t)) && is_some (tk s t) && negb (meta s (DErc t))
            && negb (is_some (find_den s (DErc t)))) eqn:G1; [|discriminate].
  apply andb_true_iff in G1 as [G1 G4]. apply andb_true_iff in G1 as [G1 _]. apply andb_true_iff in G1 as [G1 G2].
  apply negb_true_iff in G1, G4.
  destruct (find_tok s t) eqn:Ft; [discriminate|]. apply find_tok_none in Ft.
  destruct (find_den s (DErc t)) eqn:Fd; [discriminate|]. apply find_den_none in Fd.
  inversion H; subst s'; clear H. simpl in *.
  constructor; simpl.
  + exact I'.
  + intros m Hm. apply in_app_or in Hm as [Hm|[Hm|[]]].
    * apply (ex_slack _ X m Hm).
    * subst m. unfold slack. simpl. rewrite (inv_unmapped _ I t Fd), (ex_tok _ X t Ft). lia.
  + intros t0 Hn. rewrite map_app in Hn. apply X. intro Hin. apply Hn. apply in_or_app. left. exact Hin.
  + intros d0 Hn. rewrite map_app in Hn. apply X. intro Hin. apply Hn. apply in_or_app. left. exact Hin.
  + apply X.
Qed.

Lemma exec_exact s o s' : Exact s -> gift_free o = true -> exec s o = Some s' -> Exact s'.
Proof.
  intros X G H. pose proof (ex_inv _ X) as I.
  pose proof (proj1 (exec_ok s o s' I H)) as I'.
  destruct o; simpl in H, G.
  - (* Fund *)
    destruct (is_coin d) eqn:Hd; [|discriminate]. decode.
    apply bank_mint_spec in H as [F [X0 [B [S [Eb Es]]]]].
    apply (exact_frame s s' X I' F).
    + intros m Hm. unfold slack. rewrite B, S, Eb, Es. rewrite (proj2 (Nat.eqb_neq Module a)) by congruence.
      destruct (m_coin m) eqn:Hc.
      * unfold ind. split_ifs; lia.
      * rewrite (inv_erc_den _ I m Hm Hc). rewrite (erc_eqb_coin _ _ Hd). unfold ind. lia.
    + intros t _. rewrite Eb. reflexivity.
    + intros d0 _. rewrite B. rewrite (proj2 (Nat.eqb_neq Module a)) by congruence. unfold ind. split_ifs; lia.
  - (* SetMeta *)
    destruct (is_coin d); [|discriminate]. inversion H; subst s'.
    constructor; simpl; try apply X. exact I'.
  - (* Deploy *)
    unfold bind, guard in H. destruct (negb (Nat.eqb owner Module) && (0 <=? x)) eqn:G1; [|discriminate].
    inversion H; subst s'; clear H. decode.
    constructor; simpl.
    + exact I'.
    + intros m Hm. rewrite slack_new_token; [apply X; exact Hm | apply I; exact Hm].
    + intros t Hn. destruct (Nat.eqb t (next_tok s)) eqn:E.
      * rewrite (proj2 (Nat.eqb_neq Module owner)) by congruence. reflexivity.
      * apply X. exact Hn.
    + apply X.
    + intros t b0. unfold updT. destruct (Nat.eqb t (next_tok s)).
      * intro E. inversion E; subst b0. left. exact G.
      * apply X.
  - (* CreateFromCoin *)
    unfold bind in H. destruct (pay_create_fee s sender) as [s0|] eqn:Pf; [|discriminate].
    eapply create_coin_core_exact; [eapply pay_create_fee_exact; eauto | exact H].
  - (* CreateFromErc20 *)
    unfold bind in H. destruct (pay_create_fee s sender) as [s0|] eqn:Pf; [|discriminate].
    eapply create_erc20_core_exact; [eapply pay_create_fee_exact; eauto | exact H].
  - (* ConvertCoinToEvm *)
    unfold bind, guard in H. destruct (negb (Nat.eqb sender Module)) eqn:G1; [|discriminate]. decode.
    destruct (find_den s d) as [m0|] eqn:Fd; [|discriminate]. apply find_den_some in Fd as [Hm0 _].
    destruct (m_coin m0) eqn:Hc.
    + destruct (coin_to_evm_born_coin_good s m0 sender x to s' I Hm0 Hc G1 H) as [[F _] Hs].
      destruct (coin_to_evm_untouched _ _ _ _ _ _ H) as [Ut Ud].
      apply (exact_frame s s' X I' F Hs).
      * intros t Hn. apply Ut. eapply not_in_neq_tok; eauto.
      * intros d0 Hn. apply Ud. eapply not_in_neq_den; eauto.
    + destruct (convert_born_erc20_good s m0 sender x to s' I Hm0 Hc H) as [[F _] [b [Tk [Hx Hs]]]].
      destruct (convert_born_erc20_untouched _ _ _ _ _ _ H) as [Ut Ud].
      apply (exact_frame s s' X I' F).
      * intros m Hm. rewrite (Hs m Hm). rewrite (no_fee_gain b x to (ex_fee _ X _ _ Tk) G). unfold ind. split_ifs; lia.
      * intros t Hn. apply Ut. eapply not_in_neq_tok; eauto.
      * intros d0 Hn. apply Ud. eapply not_in_neq_den; eauto.
  - (* SendToBank *)
    unfold bind, guard in H. destruct (negb (Nat.eqb caller Module) && (0 <? x)) eqn:G1; [|discriminate]. decode.
    destruct (find_tok s t) as [m0|] eqn:Ft; [|discriminate]. apply find_tok_some in Ft as [Hm0 _].
    destruct (send_to_bank_good s m0 caller x to s' I Hm0 H0 H) as [[F _] Hs].
    destruct (send_to_bank_untouched _ _ _ _ _ _ H) as [Ut Ud].
    apply (exact_frame s s' X I' F Hs).
    + intros t0 Hn. apply Ut. eapply not_in_neq_tok; eauto.
    + intros d0 Hn. apply Ud. eapply not_in_neq_den; eauto.
  - (* SendToEvm *)
    unfold bind, guard in H. destruct (negb (Nat.eqb caller Module) && (0 <? x)) eqn:G1; [|discriminate]. decode.
    destruct (find_den s d) as [m0|] eqn:Fd; [|discriminate]. apply find_den_some in Fd as [Hm0 _].
    destruct (m_coin m0) eqn:Hc.
    + destruct (coin_to_evm_born_coin_good s m0 caller x to s' I Hm0 Hc H0 H) as [[F _] Hs].
      destruct (coin_to_evm_untouched _ _ _ _ _ _ H) as [Ut Ud].
      apply (exact_frame s s' X I' F Hs).
      * intros t Hn. apply Ut. eapply not_in_neq_tok; eauto.
      * intros d0 Hn. apply Ud. eapply not_in_neq_den; eauto.
    + destruct (send_to_evm_born_erc20_good s m0 caller x to s' I Hm0 Hc H) as [[F _] [b [Tk [Hx Hs]]]].
      destruct (send_to_evm_born_erc20_untouched _ _ _ _ _ _ H) as [Ut Ud].
      apply (exact_frame s s' X I' F).
      * intros m Hm. rewrite (Hs m Hm). rewrite (no_fee_gain b x to (ex_fee _ X _ _ Tk) G). unfold ind. split_ifs; lia.
      * intros t Hn. apply Ut. eapply not_in_neq_tok; eauto.
      * intros d0 Hn. apply Ud. eapply not_in_neq_den; eauto.
  - (* BankMsgSend *)
    unfold bind, guard in H.
    destruct (negb (Nat.eqb caller Module) && (0 <? x) && negb (blocked to)) eqn:G1; [|discriminate].
    unfold blocked in G1. decode.
    apply bank_send_spec in H as [F [X0 [B [S [Eb Es]]]]].
    assert (Bm : forall d0, bank s' Module d0 = bank s Module d0).
    { intro d0. rewrite B. rewrite (proj2 (Nat.eqb_neq Module to)), (proj2 (Nat.eqb_neq Module caller)) by congruence.
      unfold ind. split_ifs; lia. }
    apply (exact_frame s s' X I' F).
    + intros m Hm. unfold slack. rewrite Bm, S, Eb, Es. reflexivity.
    + intros t0 _. rewrite Eb. reflexivity.
    + intros d0 _. apply Bm.
  - (* Erc20Transfer *)
    unfold bind, guard in H. destruct (negb (Nat.eqb caller Module)) eqn:G1; [|discriminate]. decode.
    destruct (tk s t) as [b|] eqn:Tk; [|inversion H; subst; exact X].
    destruct (tb_heavy b); [discriminate|].
    apply erc_transfer_spec in H as [F [X0 [Eb [B [S Es]]]]].
    assert (Hf : 0 <= fee_of b x <= x) by (apply fee_of_bounds; lia).
    assert (Em : forall t0, ebal s' t0 Module = ebal s t0 Module).
    { intro t0. rewrite Eb. rewrite (proj2 (Nat.eqb_neq Module to)), (proj2 (Nat.eqb_neq Module caller)) by congruence.
      destruct (ex_fee _ X _ _ Tk) as [Hn|Hz].
      - rewrite (proj2 (Nat.eqb_neq Module (tb_sink b))) by congruence. unfold ind. split_ifs; lia.
      - rewrite Hz. unfold ind. split_ifs; lia. }
    apply (exact_frame s s' X I' F).
    + intros m Hm. unfold slack. rewrite Em, B, S, Es. reflexivity.
    + intros t0 _. apply Em.
    + intros d0 _. rewrite B. reflexivity.
  - discriminate.
  - (* TfCreate *)
    destruct (is_coin d); [|discriminate]. unfold bind, guard in H.
    destruct (negb (Nat.eqb creator Module) && negb (is_some (tfadmin s d))); [|discriminate].
    inversion H; subst s'. constructor; simpl; try apply X. exact I'.
  - (* TfMint *)
    destruct (is_coin d) eqn:Hd; [|discriminate]. unfold bind, guard in H.
    destruct (is_admin s d sender && (0 <? x) && negb (blocked to)) eqn:G1; [|discriminate].
    unfold blocked in G1. decode.
    apply bank_mint_spec in H as [F [X0 [B [S [Eb Es]]]]].
    assert (Bm : forall d0, bank s' Module d0 = bank s Module d0).
    { intro d0. rewrite B. rewrite (proj2 (Nat.eqb_neq Module to)) by congruence. unfold ind. split_ifs; lia. }
    apply (exact_frame s s' X I' F).
    + intros m Hm. unfold slack. rewrite Bm, S, Eb, Es. destruct (m_coin m) eqn:Hc; [reflexivity|].
      rewrite (inv_erc_den _ I m Hm Hc). rewrite (erc_eqb_coin _ _ Hd). unfold ind. lia.
    + intros t0 _. rewrite Eb. reflexivity.
    + intros d0 _. apply Bm.
  - (* TfBurn *)
    destruct (is_coin d) eqn:Hd; [|discriminate]. unfold bind, guard in H.
    destruct (is_admin s d sender && (0 <? x) && negb (blocked from)) eqn:G1; [|discriminate].
    unfold blocked in G1. decode.
    apply bank_burn_spec in H as [F [X0 [B [S [Eb Es]]]]].
    assert (Bm : forall d0, bank s' Module d0 = bank s Module d0).
    { intro d0. rewrite B. rewrite (proj2 (Nat.eqb_neq Module from)) by congruence. unfold ind. split_ifs; lia. }
    apply (exact_frame s s' X I' F).
    + intros m Hm. unfold slack. rewrite Bm, S, Eb, Es. destruct (m_coin m) eqn:Hc; [reflexivity|].
      rewrite (inv_erc_den _ I m Hm Hc). rewrite (erc_eqb_coin _ _ Hd). unfold ind. lia.
    + intros t0 _. rewrite Eb. reflexivity.
    + intros d0 _. apply Bm.
  - (* TfChangeAdmin *)
    unfold bind, guard in H. destruct (is_admin s d sender); [|discriminate]. inversion H; subst s'.
    constructor; simpl; try apply X. exact I'.
  - discriminate.
  - discriminate.
  - discriminate.
  - discriminate.
  - discriminate.
Qed.

Lemma step_exact s o : Exact s -> gift_free o = true -> Exact (fst (step s o)).
Proof.
  revert s. induction o; intros s X G;
    try (rewrite step_unframed by exact Logic.I;
         match goal with |- context [exec ?s0 ?o] => destruct (exec s0 o) as [s'|] eqn:E end;
         [exact (exec_exact _ _ _ X G E) | exact X]).
  - simpl. match goal with f : frame |- _ => destruct f end; simpl; try exact X; apply IHo; assumption.
  - simpl in G. apply andb_true_iff in G as [G1 G2]. simpl.
    destruct (snd (step s o1)); [|exact X].
    destruct (snd (step (fst (step s o1)) o2)); [|exact X]. simpl.
    apply IHo2; [apply IHo1; assumption | exact G2].
Qed.

Lemma init_exact : Exact init.
Proof.
  constructor; simpl; try (intros; contradiction); try (intros; reflexivity); try (intros; discriminate).
  exact init_inv.
Qed.

Lemma run_exact s ops : Exact s -> forallb gift_free ops = true -> Exact (run s ops).
Proof.
  revert s. induction ops as [|o r IH]; intros s X G; [exact X|].
  simpl in G. apply andb_true_iff in G as [G1 G2].
  unfold run. simpl. apply IH; [apply step_exact; assumption | exact G2].
Qed.

(** equality for standard behaviour without direct burns and donations *)
Lemma exact_backing ops : forallb gift_free ops = true ->
  forall m, In m (reg (run init ops)) ->
    (m_coin m = true -> esup (run init ops) (m_tok m) = bank (run init ops) Module (m_den m)) /\
    (m_coin m = false -> supply (run init ops) (m_den m) = ebal (run init ops) (m_tok m) Module).
Proof.
  intros G m Hm. pose proof (ex_slack _ (run_exact init ops init_exact G) m Hm) as H. unfold slack in H.
  split; intro Hc; rewrite Hc in H; lia.
Qed.

Definition std (sink : acct) : tbeh :=
  {| tb_fee := fun _ => 0; tb_sink := sink; tb_heavy := false; tb_false := false; tb_burn := false; tb_pos := false |}.

Definition ex_ops_exact : list op :=
  [ SetMeta (DCoin 0); Fund 3 (DCoin 0) 1000; Fund 3 DGas 100000000000; CreateFromCoin 3 (DCoin 0);
    ConvertCoinToEvm 3 (DCoin 0) 300 1; SendToBank 1 0 70 4;
    Deploy 1 (fee10 (tok_addr 1)) 1000; CreateFromErc20 3 1;
    SendToBank 1 1 100 3; ConvertCoinToEvm 3 (DErc 1) 40 2;
    Framed FInnerRevert (SendToEvm 5 (DCoin 0) 5 2) ]%nat.

Example exact_backing_nonvacuous :
  forallb gift_free ex_ops_exact = true /\
  view (run init ex_ops_exact) =
  [ {| mo_map := {| m_tok := 0; m_den := DCoin 0; m_coin := true |}; mo_esup := 230; mo_emod := 0; mo_bsup := 1000; mo_bmod := 230 |};
    {| mo_map := {| m_tok := 1; m_den := DErc 1; m_coin := false |}; mo_esup := 1000; mo_emod := 50; mo_bsup := 50; mo_bmod := 0 |} ]%nat.
Proof. split; vm_compute; reflexivity. Qed.

(** without the hypothesis equality fails: a direct burn leaves coin escrowed for ERC20 that no longer exists *)
Example exact_needs_gift_free :
  exists ops m, In m (reg (run init ops)) /\ m_coin m = true /\
    esup (run init ops) (m_tok m) < bank (run init ops) Module (m_den m).
Proof.
  exists [ SetMeta (DCoin 0); Fund 3 (DCoin 0) 1000; Fund 3 DGas 100000000000; CreateFromCoin 3 (DCoin 0);
           ConvertCoinToEvm 3 (DCoin 0) 300 1; Erc20Burn 1 0 20 ]%nat.
  eexists. split; [left; reflexivity|]. split; [reflexivity|]. vm_compute. reflexivity.
Qed.
