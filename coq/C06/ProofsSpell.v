(** C06 — denoms are STRINGS: spellings of one name (IBC voucher hash in lower / upper / mixed case,
    "UCOIN0", "erc20/0xabc…" in lower case) are different bank denoms.  The registry stays unique for every
    history over every spelling as long as createFunTokenFromCoin guards THE VALUE IT INSERTS; a tree that
    rewrites the denom between the guard and the insert does not. *)
From Coq Require Import List Bool Arith ZArith Lia.
Import ListNotations.
Require Import Nib.C06.Model Nib.C06.Spec Nib.C06.Proofs.
Local Open Scope Z_scope.

(** * the machine with the model's configuration is the model *)
Lemma exec_with_model cn s o : exec_with cn model_create_denoms s o = exec s o.
Proof. destruct o; reflexivity. Qed.

Lemma step_with_model cn s o : step_with cn model_create_denoms s o = step s o.
Proof.
  revert s. induction o; intro s; try reflexivity.
  - simpl. rewrite IHo. reflexivity.
  - simpl. rewrite IHo1. destruct (snd (step s o1)); [|reflexivity]. rewrite IHo2. reflexivity.
Qed.

Lemma views_with_model cn s ops : views_with cn model_create_denoms s ops = views s ops.
Proof. revert s. induction ops as [|o r IH]; intro s; simpl; [reflexivity|]. rewrite step_with_model, IH. reflexivity. Qed.

(** a configuration is CONSISTENT when the index guard looks at the value that is inserted
    (which value the metadata lookup uses does not matter for uniqueness or backing) *)
Definition consistent (c : create_denoms) : Prop := cd_guard c = cd_insert c.

Lemma pick_den_consistent cn c d : consistent c -> pick_den cn (cd_guard c) d = pick_den cn (cd_insert c) d.
Proof. unfold consistent. intro H. rewrite H. reflexivity. Qed.

Lemma exec_with_ok cn c s o s' : consistent c -> Inv s -> exec_with cn c s o = Some s' ->
  Inv s' /\ forall m, In m (reg s) -> In m (reg s') /\ slack s m <= slack s' m.
Proof.
  intros C I H. destruct o; try exact (exec_ok _ _ _ I H).
  simpl in H. unfold bind in H. destruct (pay_create_fee s sender) as [s0|] eqn:Pf; [|discriminate].
  destruct (pay_create_fee_good s sender s0 I Pf) as [G0 [K0 _]].
  destruct (good_step_ok s s0 I G0) as [I0 R0].
  unfold create_coin_core_with in H. rewrite (pick_den_consistent cn c d C) in H.
  destruct (create_from_coin_gen_ok s0 _ _ s' I0 H) as [I' [Hk _]]. split; [exact I'|].
  intros m Hm. destruct (R0 m Hm) as [A0 _]. destruct (Hk m A0) as [A B]. split; [exact A|].
  rewrite B, (K0 m Hm). lia.
Qed.

Lemma step_with_unframed cn c s o : unframed o ->
  step_with cn c s o = match exec_with cn c s o with Some s' => (s', true) | None => (s, false) end.
Proof. destruct o; simpl; intro H; try reflexivity; contradiction. Qed.

Lemma step_with_ok cn c s o : consistent c -> Inv s ->
  Inv (fst (step_with cn c s o)) /\
  forall m, In m (reg s) -> In m (reg (fst (step_with cn c s o))) /\ slack s m <= slack (fst (step_with cn c s o)) m.
Proof.
  intro C. revert s. induction o; intros s I;
    try (rewrite step_with_unframed by exact Logic.I;
         match goal with |- context [exec_with cn c s ?o] => destruct (exec_with cn c s o) as [s'|] eqn:E end;
         [exact (exec_with_ok _ _ _ _ _ C I E) | apply same_ok; exact I]).
  - simpl. match goal with f : frame |- _ => destruct f end; simpl; try (apply same_ok; exact I); apply IHo; exact I.
  - simpl. destruct (snd (step_with cn c s o1)); [|apply same_ok; exact I].
    destruct (IHo1 s I) as [I1 K1].
    destruct (snd (step_with cn c (fst (step_with cn c s o1)) o2)); [|apply same_ok; exact I]. simpl.
    destruct (IHo2 _ I1) as [I2 K2]. split; [exact I2|].
    intros m Hm. destruct (K1 m Hm) as [A1 B1]. destruct (K2 m A1) as [A2 B2]. split; [exact A2 | lia].
Qed.

Lemma views_with_P cn c s ops : consistent c -> Inv s -> P (views_with cn c s ops).
Proof.
  intro C. revert s. induction ops as [|o r IH]; intros s I; simpl; [constructor|].
  pose proof (proj1 (step_with_ok cn c s o C I)) as I'. constructor; [apply inv_P_obs; exact I' | apply IH; exact I'].
Qed.

(** for EVERY rewrite function and every consistent configuration: the property, over all histories and all spellings *)
Lemma consistent_create_safe cn c ops : consistent c -> P (views_with cn c init ops).
Proof. intro C. apply views_with_P; [exact C | exact init_inv]. Qed.

Lemma run_with_inv cn c s ops : consistent c -> Inv s -> Inv (run_with cn c s ops).
Proof.
  intro C. revert s. induction ops as [|o r IH]; intros s I; [exact I|].
  unfold run_with. simpl. apply IH. apply step_with_ok; assumption.
Qed.

Lemma consistent_create_unique cn c ops : consistent c ->
  NoDup (map m_tok (reg (run_with cn c init ops))) /\ NoDup (map m_den (reg (run_with cn c init ops))).
Proof. intro C. pose proof (run_with_inv cn c init ops C init_inv) as I. split; apply I. Qed.

(** * the inconsistent configuration: guard on the string as given, then "a voucher hash in any letter case means the
      voucher", metadata lookup and insert on the rewritten value *)
Definition rewrite_after_guard : create_denoms := {| cd_guard := VRaw; cd_meta := VRewritten; cd_insert := VRewritten |}.

(** a voucher is registered, then registered again with its hash in lower case: two mappings for ONE bank denom *)
Definition ex_respell : list op :=
  [ Fund 3 DGas 100000000000; SetMeta (DIbc 0);
    CreateFromCoin 3 (DIbc 0);
    CreateFromCoin 3 (DAlt (NIbc 0) 1) ]%nat.

Lemma rewrite_after_guard_refuted : ~ P (views_with canon_ibc_hash rewrite_after_guard init ex_respell).
Proof. intro H. apply Pb_complete in H. vm_compute in H. discriminate. Qed.

Lemma rewrite_after_guard_two_mappings :
  map m_den (reg (run_with canon_ibc_hash rewrite_after_guard init ex_respell)) = [DIbc 0; DIbc 0]%nat.
Proof. vm_compute. reflexivity. Qed.

(** the same history on the current tree: the lower-case string has no metadata, the second creation is refused;
    with metadata of its own it becomes a mapping of its own — for another bank denom *)
Example ex_respell_model : map snd (map (fun o => step (run init (firstn 3 ex_respell)) o) (skipn 3 ex_respell)) = [false]
  /\ map m_den (reg (run init ex_respell)) = [DIbc 0]%nat.
Proof. vm_compute. split; reflexivity. Qed.

Definition ex_spellings : list op :=
  [ Fund 3 DGas 100000000000; SetMeta (DIbc 0); Fund 3 (DIbc 0) 500; Fund 3 (DAlt (NIbc 0) 1) 70;
    CreateFromCoin 3 (DIbc 0);                      (* token 0 *)
    CreateFromCoin 3 (DIbc 0);                      (* refused: mapped *)
    CreateFromCoin 3 (DAlt (NIbc 0) 1);             (* refused: this string has no metadata *)
    SetMeta (DAlt (NIbc 0) 1);
    CreateFromCoin 3 (DAlt (NIbc 0) 1);             (* token 1: another string, another denom *)
    CreateFromCoin 3 (DAlt (NIbc 0) 1);             (* refused: mapped *)
    ConvertCoinToEvm 3 (DIbc 0) 100 1;
    ConvertCoinToEvm 3 (DAlt (NIbc 0) 1) 30 1;
    ConvertCoinToEvm 3 (DAlt (NIbc 0) 2) 30 1;      (* refused: no mapping under this spelling *)
    SetMeta (DAlt (NErc 0) 1);
    CreateFromCoin 3 (DAlt (NErc 0) 1) ]%nat.       (* "erc20/0x<lower-case address of token 0>": an ordinary coin, token 2 *)

Example spellings_nonvacuous :
  map (fun o => snd o) (fst (fold_left (fun (a : list (op * bool) * st) o => let r := step (snd a) o in (fst a ++ [(o, snd r)], fst r))
                             ex_spellings ([], init)))
  = [true; true; true; true; true; false; false; true; true; false; true; true; false; true; true]
  /\ view (run init ex_spellings) =
     [ {| mo_map := {| m_tok := 0; m_den := DIbc 0; m_coin := true |}; mo_esup := 100; mo_emod := 0; mo_bsup := 500; mo_bmod := 100 |};
       {| mo_map := {| m_tok := 1; m_den := DAlt (NIbc 0) 1; m_coin := true |}; mo_esup := 30; mo_emod := 0; mo_bsup := 70; mo_bmod := 30 |};
       {| mo_map := {| m_tok := 2; m_den := DAlt (NErc 0) 1; m_coin := true |}; mo_esup := 0; mo_emod := 0; mo_bsup := 0; mo_bmod := 0 |} ]%nat.
Proof. vm_compute. split; reflexivity. Qed.

(** rewriting BEFORE the guard is a consistent configuration, too (non-vacuity of [consistent] beyond the model's own) *)
Example consistent_nonvacuous :
  consistent {| cd_guard := VRewritten; cd_meta := VRewritten; cd_insert := VRewritten |} /\ consistent model_create_denoms /\
  ~ consistent rewrite_after_guard /\
  map m_den (reg (run_with canon_ibc_hash {| cd_guard := VRewritten; cd_meta := VRewritten; cd_insert := VRewritten |} init ex_respell)) = [DIbc 0]%nat.
Proof. repeat split; try reflexivity. intro H. discriminate. Qed.
