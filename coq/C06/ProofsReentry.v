(** C06 — bridge messages reached through the Wasm precompile (EVM contract -> Wasm.execute -> CosmWasm contract ->
    Stargate MsgConvertCoinToEvm / MsgCreateFunToken): refused inside a running EVM state transition, hence covered by
    "a rejected operation changes nothing".  A tree without the refusal breaks the backing. *)
From Coq Require Import List Bool Arith ZArith Lia.
Import ListNotations.
Require Import Nib.C06.Model Nib.C06.Spec Nib.C06.Proofs.
Local Open Scope Z_scope.

Definition guarded (g : reentry_guards) : Prop := convert_guarded g = true /\ create_guarded g = true.

Lemma exec_rg_guarded g s o : guarded g -> exec_rg g s o = exec s o.
Proof. intros [Hc Hk]. destruct o; simpl; rewrite ?Hc, ?Hk; reflexivity. Qed.

Lemma survives_revert_guarded g s o : guarded g -> survives_revert g s o = s.
Proof. intros [Hc Hk]. destruct o; simpl; rewrite ?Hc; reflexivity. Qed.

Lemma step_rg_guarded g s o : guarded g -> step_rg g s o = step s o.
Proof.
  intro G. revert s. induction o; intro s; try (simpl; rewrite ?(proj1 G), ?(proj2 G); reflexivity).
  - simpl. rewrite IHo, !(survives_revert_guarded g _ _ G).
    destruct f; try reflexivity. destruct (step s o) as [s' b]; destruct b; reflexivity.
  - simpl. rewrite IHo1. destruct (snd (step s o1)); [|reflexivity]. rewrite IHo2. reflexivity.
Qed.

Lemma views_rg_guarded g s ops : guarded g -> views_rg g s ops = views s ops.
Proof.
  intro G. revert s. induction ops as [|o r IH]; intro s; simpl; [reflexivity|].
  rewrite (step_rg_guarded g s o G), IH. reflexivity.
Qed.

Lemma model_guards_guarded : guarded model_reentry_guards.
Proof. split; reflexivity. Qed.

(** with the guards in place the property holds for every history, including every message a contract dispatches through
    the Wasm precompile in kept, reverted or swallowed frames, alone or followed by another bridge call in the same tx *)
Lemma guarded_reentry_safe g ops : guarded g -> P (views_rg g init ops).
Proof. intro G. rewrite (views_rg_guarded g init ops G). apply backing_invariant. Qed.

(** the nested messages themselves: refused, nothing changes, in whatever frame *)
Lemma wasm_dispatch_refused s w d x to t f :
  step s (Framed f (WasmConvert w d x to)) = (s, match f with FInnerRevert | FSwallow => true | _ => false end) /\
  step s (Framed f (WasmCreateCoin w d)) = (s, match f with FInnerRevert | FSwallow => true | _ => false end) /\
  step s (Framed f (WasmCreateErc20 w t)) = (s, match f with FInnerRevert | FSwallow => true | _ => false end).
Proof. destruct f; repeat split; reflexivity. Qed.

(** * without the refusal *)
Definition no_reentry_guards : reentry_guards := {| rg_ctx_marked := false; rg_convert_refused := false; rg_create_refused := false |}.

(** a coin-born mapping with 1000 escrowed; the contract holds 500 coins; its nested conversion of 100 sits in a frame
    that reverts: the 100 ERC20 stay, the escrow is back at 1000; sendToBank then pays them out of the honest escrow *)
Definition ex_reentry : list op :=
  [ Fund 3 DGas 100000000000; SetMeta (DCoin 0); Fund 3 (DCoin 0) 1000; Fund 7 (DCoin 0) 500;
    CreateFromCoin 3 (DCoin 0);
    ConvertCoinToEvm 3 (DCoin 0) 1000 3;
    Framed FInnerRevert (WasmConvert 7 (DCoin 0) 100 1);
    SendToBank 1 0 100 1 ]%nat.

Lemma unguarded_reentry_refuted : ~ P (views_rg no_reentry_guards init ex_reentry).
Proof. intro H. apply Pb_complete in H. vm_compute in H. discriminate. Qed.

Example unguarded_reentry_numbers :
  map (map (fun o => (mo_esup o, mo_bmod o))) (skipn 5 (views_rg no_reentry_guards init ex_reentry))
  = [[(1000, 1000)]; [(1100, 1000)]; [(1000, 900)]].
Proof. vm_compute. reflexivity. Qed.

(** the same history on the model: refused, then nothing to redeem *)
Example reentry_model_nonvacuous :
  map (map (fun o => (mo_esup o, mo_bmod o))) (skipn 5 (views init ex_reentry)) = [[(1000, 1000)]; [(1000, 1000)]; [(1000, 1000)]]
  /\ guarded model_reentry_guards /\ ~ guarded no_reentry_guards.
Proof. split; [vm_compute; reflexivity | split; [exact model_guards_guarded | intros [H _]; discriminate]]. Qed.
