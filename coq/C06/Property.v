(** C06 — exported statements only. *)
From Coq Require Import List Bool Arith ZArith.
Import ListNotations.
Require Import Nib.C06.Model Nib.C06.Spec Nib.C06.Proofs.

Theorem C06_checker_sound : forall tr, Pb tr = true -> P tr.
Proof. exact Pb_sound. Qed.
Print Assumptions C06_checker_sound.
