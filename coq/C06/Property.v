(** C06 — every FunToken unit is backed one-for-one on the other side.
    This file holds only the exported statements. *)
From Coq Require Import List Bool Arith ZArith.
Import ListNotations.
Require Import Nib.C06.Model Nib.C06.Spec Nib.C06.Proofs Nib.C06.ProofsExact Nib.C06.ProofsSpell Nib.C06.ProofsReentry.
Local Open Scope Z_scope.

(** After EVERY transaction of EVERY history (any sequence of funding, ERC20 deployments of any
    transfer behaviour, CreateFunToken from coin / from ERC20, ConvertCoinToEvm, precompile
    sendToBank / sendToEvm / bankMsgSend, ERC20 transfers and burns by users, each possibly wrapped in
    reverting / swallowing frames, any amounts, senders, recipients): every ERC20 and every denom
    is in at most one mapping, coin-born ERC20 totalSupply <= coin escrowed in the EVM module account,
    ERC20-born bank supply <= ERC20 balance of the EVM module account. *)
Theorem C06_backing_invariant : forall ops : list op, P (views init ops).
Proof. exact backing_invariant. Qed.
Print Assumptions C06_backing_invariant.

(** the same, spelled out on the final state of a history *)
Theorem C06_backing_invariant_state : forall (ops : list op) (m : mapping),
  In m (reg (run init ops)) ->
  (m_coin m = true -> esup (run init ops) (m_tok m) <= bank (run init ops) Module (m_den m)) /\
  (m_coin m = false -> supply (run init ops) (m_den m) <= ebal (run init ops) (m_tok m) Module).
Proof. exact backing_invariant_state. Qed.
Print Assumptions C06_backing_invariant_state.

(** Equality: in every history in which nobody burns ERC20 directly, nobody hands tokens or coins to the
    module outside a conversion (no transfer / conversion with the module as recipient, no funding of the
    module) and no deployed token pays its transfer fee to the module, every mapping is backed EXACTLY
    after every transaction.  Fee-on-transfer tokens are allowed: the bridge credits what it measured. *)
Theorem C06_exact_backing : forall ops : list op, forallb gift_free ops = true ->
  forall m, In m (reg (run init ops)) ->
    (m_coin m = true -> esup (run init ops) (m_tok m) = bank (run init ops) Module (m_den m)) /\
    (m_coin m = false -> supply (run init ops) (m_den m) = ebal (run init ops) (m_tok m) Module).
Proof. exact exact_backing. Qed.
Print Assumptions C06_exact_backing.

(** … and the hypothesis is needed: after a direct burn the escrow exceeds the ERC20 supply. *)
Theorem C06_exact_backing_needs_hypothesis :
  exists ops m, In m (reg (run init ops)) /\ m_coin m = true /\
    esup (run init ops) (m_tok m) < bank (run init ops) Module (m_den m).
Proof. exact exact_needs_gift_free. Qed.
Print Assumptions C06_exact_backing_needs_hypothesis.

(** Each ERC20 address and each bank denom belongs to at most one mapping … *)
Theorem C06_unique_mapping : forall ops : list op,
  NoDup (map m_tok (reg (run init ops))) /\ NoDup (map m_den (reg (run init ops))).
Proof. exact unique_mapping. Qed.
Print Assumptions C06_unique_mapping.

(** … because creation is rejected when either side is already mapped (in any state). *)
Theorem C06_duplicate_creation_rejected : forall (s : st),
  (forall a d, In d (map m_den (reg s)) -> exec s (CreateFromCoin a d) = None) /\
  (forall a t, In t (map m_tok (reg s)) \/ In (DErc t) (map m_den (reg s)) -> exec s (CreateFromErc20 a t) = None).
Proof. intro s. split; [exact (create_coin_rejected s) | exact (create_erc20_rejected s)]. Qed.
Print Assumptions C06_duplicate_creation_rejected.

(** One transaction from a reachable state: the state stays reachable, no mapping disappears or
    changes, and no mapping's margin (escrow minus what it backs) ever shrinks. *)
Theorem C06_margin_never_shrinks : forall (s : st) (o : op), reachable s ->
  reachable (fst (step s o)) /\
  forall m, In m (reg s) -> In m (reg (fst (step s o))) /\ slack s m <= slack (fst (step s o)) m.
Proof.
  intros s o R. split; [exact (reachable_step s o R) | exact (proj2 (step_ok s o (reachable_inv s R)))].
Qed.
Print Assumptions C06_margin_never_shrinks.

(** sendToBank, both births: the coins the recipient receives are exactly the MEASURED increase of the
    module's ERC20 balance (not the requested amount): that many ERC20 are burned and that much escrow
    released (coin-born), or that many coins minted (ERC20-born); every margin is unchanged. *)
Theorem C06_send_to_bank_credits_measured : forall s caller t x to s',
  reachable s -> exec s (SendToBank caller t x to) = Some s' ->
  exists m0, In m0 (reg s) /\ m_tok m0 = t /\
    let d := m_den m0 in
    let got := bank s' to d - bank s to d in
    0 < got <= x /\
    (m_coin m0 = true -> esup s t - esup s' t = got /\ bank s Module d - bank s' Module d = got) /\
    (m_coin m0 = false -> supply s' d - supply s d = got /\ ebal s' t Module - ebal s t Module = got) /\
    (forall m, In m (reg s) -> slack s' m = slack s m).
Proof. exact send_to_bank_credits_measured. Qed.
Print Assumptions C06_send_to_bank_credits_measured.

(** ConvertCoinToEvm / sendToEvm on a coin-born mapping: sender pays x, escrow +x, ERC20 supply +x,
    recipient's ERC20 balance +x; every margin unchanged. *)
Theorem C06_to_evm_coin_born_credits_amount : forall s o from d x to s',
  (o = ConvertCoinToEvm from d x to \/ o = SendToEvm from d x to) ->
  reachable s -> exec s o = Some s' ->
  forall m0, find_den s d = Some m0 -> m_coin m0 = true ->
    let t := m_tok m0 in
    0 <= x /\ ebal s' t to - ebal s t to = x /\ esup s' t - esup s t = x /\
    bank s' Module d - bank s Module d = x /\ bank s from d - bank s' from d = x /\
    (forall m, In m (reg s) -> slack s' m = slack s m).
Proof. exact to_evm_coin_born_credits_amount. Qed.
Print Assumptions C06_to_evm_coin_born_credits_amount.

(** ConvertCoinToEvm / sendToEvm on an ERC20-born mapping: the margin of that mapping grows exactly by
    what the module itself gets back from its own transfer (a fee paid to the module, or the module as
    recipient) — 0 for standard tokens — and no other margin moves. *)
Theorem C06_to_evm_erc20_born_margin : forall s o from d x to s',
  (o = ConvertCoinToEvm from d x to \/ o = SendToEvm from d x to) ->
  reachable s -> exec s o = Some s' ->
  forall m0, find_den s d = Some m0 -> m_coin m0 = false ->
    exists b, tk s (m_tok m0) = Some b /\ 0 <= x /\
      forall m, In m (reg s) -> slack s' m = slack s m + ind (Nat.eqb (m_tok m) (m_tok m0)) (module_gain b x to).
Proof. exact to_evm_erc20_born_margin. Qed.
Print Assumptions C06_to_evm_erc20_born_margin.

(** Other modules' transactions: no x/tokenfactory admin operation (create, mint_to, burn_from, change admin) and no
    bank send changes ANY balance of the EVM module account — the admin of a factory denom that has a FunToken mapping
    can burn from and mint to every account except the ones the bank blocks, and the module account is blocked. *)
Theorem C06_escrow_untouched_by_other_modules : forall s o s', exec s o = Some s' ->
  match o with
  | TfCreate _ _ | TfMint _ _ _ _ | TfBurn _ _ _ _ | TfChangeAdmin _ _ _ | BankMsgSend _ _ _ _ => True
  | _ => False
  end ->
  forall d, bank s' Module d = bank s Module d.
Proof. exact escrow_untouched_by_other_modules. Qed.
Print Assumptions C06_escrow_untouched_by_other_modules.

(** A rejected transaction, and an operation inside a reverted frame, change nothing (the model's
    reading of C04; the harness checks the implementation against it). *)
Theorem C06_rejected_or_reverted_changes_nothing : forall s o,
  (snd (step s o) = false -> fst (step s o) = s) /\
  fst (step s (Framed FInnerRevert o)) = s /\ fst (step s (Framed FRevertTop o)) = s /\ fst (step s (Framed FOog o)) = s.
Proof. intros s o. split; [exact (rejected_changes_nothing s o) | exact (reverted_frame_changes_nothing s o)]. Qed.
Print Assumptions C06_rejected_or_reverted_changes_nothing.

(** The boolean checker evaluated on implementation traces is sound for [P]. *)
Theorem C06_checker_sound : forall tr, Pb tr = true -> P tr.
Proof. exact Pb_sound. Qed.
Print Assumptions C06_checker_sound.

(** Denoms are STRINGS.  [C06_backing_invariant] above quantifies over every spelling ([DIbc], [DAlt]: the same IBC voucher
    hash in lower / upper / mixed case, "UCOIN0", a lower-case "erc20/0xabc…"): each is its own bank denom with its own
    metadata and at most one mapping.  More generally, for ANY function by which createFunTokenFromCoin might rewrite the
    denom of the message and ANY choice of which value (as given / rewritten) its index guard, its metadata lookup and its
    insert use: as long as the guard looks at the value that is inserted, the whole property holds for every history. *)
Theorem C06_guard_checks_what_is_inserted : forall (cn : denom -> denom) (c : create_denoms) (ops : list op),
  cd_guard c = cd_insert c ->
  P (views_with cn c init ops) /\
  NoDup (map m_tok (reg (run_with cn c init ops))) /\ NoDup (map m_den (reg (run_with cn c init ops))).
Proof. intros cn c ops C. split; [exact (consistent_create_safe cn c ops C) | exact (consistent_create_unique cn c ops C)]. Qed.
Print Assumptions C06_guard_checks_what_is_inserted.

(** the model's configuration (all three steps use the string as given — what Gen/C06Facts.v must report for the current
    tree) is the model, whatever the rewrite function *)
Theorem C06_model_config_is_model : forall cn s o ops,
  exec_with cn model_create_denoms s o = exec s o /\ step_with cn model_create_denoms s o = step s o /\
  views_with cn model_create_denoms s ops = views s ops.
Proof. intros. split; [apply exec_with_model | split; [apply step_with_model | apply views_with_model]]. Qed.
Print Assumptions C06_model_config_is_model.

(** … and the statement is FALSE for the variant that guards the string as given and then resolves a voucher hash of any
    letter case to the voucher before the metadata lookup and the insert: re-registering a mapped voucher with a lower-case
    hash yields two mappings for one bank denom. *)
Theorem C06_rewrite_after_guard_refuted :
  exists ops, ~ P (views_with canon_ibc_hash rewrite_after_guard init ops) /\
              map m_den (reg (run_with canon_ibc_hash rewrite_after_guard init ops)) = [DIbc 0; DIbc 0]%nat.
Proof. exists ex_respell. split; [exact rewrite_after_guard_refuted | exact rewrite_after_guard_two_mappings]. Qed.
Print Assumptions C06_rewrite_after_guard_refuted.

(** Bridge messages reached THROUGH THE WASM PRECOMPILE (an EVM contract calls Wasm.execute on a CosmWasm contract that
    re-dispatches MsgConvertCoinToEvm / MsgCreateFunToken in the middle of the EVM transaction) are operations of the
    histories [C06_backing_invariant] quantifies over ([WasmConvert], [WasmCreateCoin], [WasmCreateErc20]; a bank MsgSend
    dispatched that way is [BankMsgSend]).  They are refused, in whatever frame, and change nothing. *)
Theorem C06_wasm_dispatch_refused : forall s w d x to t f,
  step s (Framed f (WasmConvert w d x to)) = (s, match f with FInnerRevert | FSwallow => true | _ => false end) /\
  step s (Framed f (WasmCreateCoin w d)) = (s, match f with FInnerRevert | FSwallow => true | _ => false end) /\
  step s (Framed f (WasmCreateErc20 w t)) = (s, match f with FInnerRevert | FSwallow => true | _ => false end).
Proof. exact wasm_dispatch_refused. Qed.
Print Assumptions C06_wasm_dispatch_refused.

(** For every configuration of the re-entry guards in which the precompile context is marked and both handlers refuse on
    it (what Gen/C06Facts.v must report for the current tree), the machine is the model and the property holds for every
    history. *)
Theorem C06_guarded_reentry_safe : forall (g : reentry_guards) (ops : list op),
  rg_ctx_marked g && rg_convert_refused g = true -> rg_ctx_marked g && rg_create_refused g = true ->
  views_rg g init ops = views init ops /\ P (views_rg g init ops).
Proof.
  intros g ops H1 H2. assert (G : guarded g) by (split; assumption).
  split; [apply views_rg_guarded; exact G | apply guarded_reentry_safe; exact G].
Qed.
Print Assumptions C06_guarded_reentry_safe.

(** … and it is FALSE without them: the nested handler commits the running StateDB, the ERC20 minted by a nested conversion
    survives the revert of its frame while the escrow transfer does not (totalSupply 1100 > escrow 1000), and sendToBank
    then pays the unbacked tokens out of the honest escrow. *)
Theorem C06_unguarded_reentry_refuted : exists ops, ~ P (views_rg no_reentry_guards init ops).
Proof. exists ex_reentry. exact unguarded_reentry_refuted. Qed.
Print Assumptions C06_unguarded_reentry_refuted.
