(** C06 — the model's bridge operations ARE the step lists of [model_paths] (Paths.v), so that a
    step list re-extracted from the Go source can be compared with what the theorems are about. *)
From Coq Require Import List Bool Arith ZArith Lia.
Import ListNotations.
Require Import Nib.C06.Model Nib.C06.Paths.
Local Open Scope Z_scope.

Lemma send_to_bank_is_path s m caller x to :
  send_to_bank s m caller x to =
  run_path (if m_coin m then p_send_to_bank_coin model_paths else p_send_to_bank_erc20 model_paths)
           s (m_tok m) (m_den m) caller x to.
Proof.
  unfold send_to_bank. destruct (m_coin m); simpl; unfold run_path, run_steps, run_step, bind, acct_of, val_of;
    destruct (measured_transfer s (m_tok m) caller Module x) as [[s1 got]|]; simpl; try reflexivity.
  - destruct (erc_burn s1 (m_tok m) Module got) as [s2|]; simpl; [|reflexivity].
    destruct (guard (negb (blocked to))); simpl; [|reflexivity].
    destruct (bank_send s2 Module to (m_den m) got); reflexivity.
  - destruct (bank_mint s1 Module (m_den m) got) as [s2|]; simpl; [|reflexivity].
    destruct (guard (negb (blocked to))); simpl; [|reflexivity].
    destruct (bank_send s2 Module to (m_den m) got); reflexivity.
Qed.

Lemma coin_to_evm_is_path s m from x to :
  coin_to_evm_born_coin s m from x to = run_path (p_send_to_evm_coin model_paths) s (m_tok m) (m_den m) from x to /\
  coin_to_evm_born_coin s m from x to = run_path (p_convert_coin model_paths) s (m_tok m) (m_den m) from x to.
Proof.
  split; unfold coin_to_evm_born_coin, run_path, run_steps, run_step, bind, acct_of, val_of; simpl;
    (destruct (bank_send s from Module (m_den m) x) as [s1|]; simpl; [|reflexivity]);
    destruct (erc_mint s1 (m_tok m) to x); reflexivity.
Qed.

Lemma convert_born_erc20_is_path s m from x to :
  convert_born_erc20 s m from x to = run_path (p_convert_erc20 model_paths) s (m_tok m) (m_den m) from x to.
Proof.
  unfold convert_born_erc20, run_path, run_steps, run_step, bind, acct_of, val_of; simpl.
  destruct (bank_send s from Module (m_den m) x) as [s1|]; simpl; [|reflexivity].
  destruct (bank_burn s1 Module (m_den m) x) as [s2|]; simpl; [|reflexivity].
  destruct (measured_transfer s2 (m_tok m) Module to x) as [[s3 got]|]; reflexivity.
Qed.

Lemma send_to_evm_born_erc20_is_path s m from x to :
  send_to_evm_born_erc20 s m from x to = run_path (p_send_to_evm_erc20 model_paths) s (m_tok m) (m_den m) from x to.
Proof.
  unfold send_to_evm_born_erc20, run_path, run_steps, run_step, bind, acct_of, val_of; simpl.
  destruct (bank_send s from Module (m_den m) x) as [s1|]; simpl; [|reflexivity].
  destruct (measured_transfer s1 (m_tok m) Module to x) as [[s2 got]|]; simpl; [|reflexivity].
  destruct (bank_burn s2 Module (m_den m) x); reflexivity.
Qed.

Lemma bank_msg_send_is_path s caller to d x t : caller <> Module -> 0 < x ->
  exec s (BankMsgSend caller to d x) = run_path (p_bank_msg_send model_paths) s t d caller x to.
Proof.
  intros Hc Hx. simpl. unfold run_path, run_steps, run_step, bind, guard, acct_of, val_of; simpl.
  rewrite (proj2 (Nat.eqb_neq caller Module) Hc), (proj2 (Z.ltb_lt 0 x) Hx). simpl.
  destruct (negb (blocked to)); simpl; [|reflexivity].
  destruct (bank_send s caller to d x); reflexivity.
Qed.

(** when every error is propagated, running the flagged list is running the plain list *)
Lemma run_steps_e_checked t d caller to x p : forallb snd p = true ->
  forall sg, run_steps_e t d caller to x sg p = run_steps t d caller to x sg (map fst p).
Proof.
  induction p as [|[l c] r IH]; intros H sg; [reflexivity|].
  simpl in H. apply andb_true_iff in H as [Hc Hr]. simpl in Hc. subst c. simpl. unfold bind.
  destruct (run_step t d caller to x sg l) as [sg'|]; [apply IH; exact Hr | reflexivity].
Qed.

Lemma run_path_e_checked p s t d caller x to : forallb snd p = true ->
  run_path_e p s t d caller x to = run_path (map fst p) s t d caller x to.
Proof. intro H. unfold run_path_e, run_path. rewrite run_steps_e_checked by exact H. reflexivity. Qed.

(** the model's operations, re-expressed over an arbitrary table of step lists *)
Definition exec_conv_with (P : paths) (s : st) (o : op) : option st :=
  match o with
  | ConvertCoinToEvm sender d x to =>
      _ <- guard (negb (Nat.eqb sender Module)) ;;
      m <- find_den s d ;;
      run_path (if m_coin m then p_convert_coin P else p_convert_erc20 P) s (m_tok m) (m_den m) sender x to
  | SendToBank caller t x to =>
      _ <- guard (negb (Nat.eqb caller Module) && (0 <? x)) ;;
      m <- find_tok s t ;;
      run_path (if m_coin m then p_send_to_bank_coin P else p_send_to_bank_erc20 P) s (m_tok m) (m_den m) caller x to
  | SendToEvm caller d x to =>
      _ <- guard (negb (Nat.eqb caller Module) && (0 <? x)) ;;
      m <- find_den s d ;;
      run_path (if m_coin m then p_send_to_evm_coin P else p_send_to_evm_erc20 P) s (m_tok m) (m_den m) caller x to
  | BankMsgSend caller to d x =>
      _ <- guard (negb (Nat.eqb caller Module) && (0 <? x)) ;;
      run_path (p_bank_msg_send P) s 0%nat d caller x to
  | _ => exec s o
  end.

(** with the model's table this is exactly [exec] *)
Lemma exec_is_exec_conv_with_model_paths s o : exec s o = exec_conv_with model_paths s o.
Proof.
  destruct o; try reflexivity; simpl; unfold bind.
  - destruct (guard (negb (Nat.eqb sender Module))); [|reflexivity].
    destruct (find_den s d) as [m|]; [|reflexivity].
    destruct (m_coin m) eqn:E.
    + apply (proj2 (coin_to_evm_is_path s m sender x to)).
    + apply convert_born_erc20_is_path.
  - destruct (guard (negb (Nat.eqb caller Module) && (0 <? x))); [|reflexivity].
    destruct (find_tok s t) as [m|]; [|reflexivity]. apply send_to_bank_is_path.
  - destruct (guard (negb (Nat.eqb caller Module) && (0 <? x))); [|reflexivity].
    destruct (find_den s d) as [m|]; [|reflexivity].
    destruct (m_coin m) eqn:E.
    + apply (proj1 (coin_to_evm_is_path s m caller x to)).
    + apply send_to_evm_born_erc20_is_path.
  - unfold guard. destruct (negb (Nat.eqb caller Module)) eqn:G1; simpl; [|reflexivity].
    destruct (0 <? x) eqn:G2; simpl; [|reflexivity].
    unfold run_path, run_steps, run_step, bind, guard, acct_of, val_of; simpl.
    destruct (negb (blocked to)); simpl; [|reflexivity].
    destruct (bank_send s caller to d x); reflexivity.
Qed.
