(** C06 — the property over what is observable after every transaction, as Prop and as the
    boolean checker [Pb] that is evaluated on implementation traces. *)
From Coq Require Import List Bool Arith ZArith Lia.
Import ListNotations.
Require Import Nib.C06.Model.
Local Open Scope Z_scope.

(** what an observer reads for one mapping: the registry entry, ERC20 totalSupply, ERC20
    balanceOf(EVM module), bank supply of the denom, bank balance of the EVM module for the denom *)
Record mobs := { mo_map : mapping; mo_esup : Z; mo_emod : Z; mo_bsup : Z; mo_bmod : Z }.

(** one-for-one backing of one mapping *)
Definition backed (o : mobs) : Prop :=
  if m_coin (mo_map o) then mo_esup o <= mo_bmod o else mo_bsup o <= mo_emod o.

(** the unbacked margin: escrow minus what it must back (0 = exact backing) *)
Definition slack_o (o : mobs) : Z :=
  if m_coin (mo_map o) then mo_bmod o - mo_esup o else mo_emod o - mo_bsup o.

(** each ERC20 and each denom in at most one mapping *)
Definition unique (r : list mobs) : Prop :=
  NoDup (map (fun o => m_tok (mo_map o)) r) /\ NoDup (map (fun o => m_den (mo_map o)) r).

(** the property at one observation point (after one transaction) *)
Definition P_obs (r : list mobs) : Prop := unique r /\ Forall backed r.

(** … and along a history: at every observation point *)
Definition P (tr : list (list mobs)) : Prop := Forall P_obs tr.

(** the model's observation *)
Definition view_map (s : st) (m : mapping) : mobs :=
  {| mo_map := m; mo_esup := esup s (m_tok m); mo_emod := ebal s (m_tok m) Module;
     mo_bsup := supply s (m_den m); mo_bmod := bank s Module (m_den m) |}.
Definition view (s : st) : list mobs := map (view_map s) (reg s).

(** observations after every transaction of a history *)
Fixpoint views (s : st) (ops : list op) : list (list mobs) :=
  match ops with
  | [] => []
  | o :: r => let s' := fst (step s o) in view s' :: views s' r
  end.

(** … of the machine whose createFunTokenFromCoin rewrites the denom ([Model.step_with]) *)
Fixpoint views_with (cn : denom -> denom) (c : create_denoms) (s : st) (ops : list op) : list (list mobs) :=
  match ops with
  | [] => []
  | o :: r => let s' := fst (step_with cn c s o) in view s' :: views_with cn c s' r
  end.

(** … of the machine with re-entry guards [g] ([Model.step_rg]) *)
Fixpoint views_rg (g : reentry_guards) (s : st) (ops : list op) : list (list mobs) :=
  match ops with
  | [] => []
  | o :: r => let s' := fst (step_rg g s o) in view s' :: views_rg g s' r
  end.

(** * boolean checker *)
Fixpoint nodupb {A} (eqb : A -> A -> bool) (l : list A) : bool :=
  match l with
  | [] => true
  | x :: r => negb (existsb (eqb x) r) && nodupb eqb r
  end.

Definition backedb (o : mobs) : bool :=
  if m_coin (mo_map o) then mo_esup o <=? mo_bmod o else mo_bsup o <=? mo_emod o.

Definition P_obsb (r : list mobs) : bool :=
  nodupb Nat.eqb (map (fun o => m_tok (mo_map o)) r) &&
  nodupb denom_eqb (map (fun o => m_den (mo_map o)) r) &&
  forallb backedb r.

Definition Pb (tr : list (list mobs)) : bool := forallb P_obsb tr.

Lemma dname_eqb_eq a b : dname_eqb a b = true <-> a = b.
Proof.
  destruct a, b; simpl; split; intro H; try discriminate; try (apply Nat.eqb_eq in H; subst; reflexivity);
    inversion H; subst; apply Nat.eqb_refl.
Qed.

Lemma denom_eqb_eq a b : denom_eqb a b = true <-> a = b.
Proof.
  destruct a, b; simpl; split; intro H; try discriminate; try (apply Nat.eqb_eq in H; subst; reflexivity);
    try (inversion H; subst; apply Nat.eqb_refl).
  - apply andb_true_iff in H as [H1 H2]. apply dname_eqb_eq in H1. apply Nat.eqb_eq in H2. subst. reflexivity.
  - inversion H; subst. apply andb_true_iff. split; [apply dname_eqb_eq; reflexivity | apply Nat.eqb_refl].
Qed.

Lemma nodupb_sound {A} (eqb : A -> A -> bool) (l : list A) :
  (forall a b, eqb a b = true <-> a = b) -> nodupb eqb l = true -> NoDup l.
Proof.
  intros He. induction l as [|x r IH]; simpl; intro H; [constructor|].
  apply andb_true_iff in H as [H1 H2]. constructor; [|auto].
  intro Hin. apply negb_true_iff in H1.
  assert (existsb (eqb x) r = true); [|congruence].
  apply existsb_exists. exists x. split; [assumption|]. apply He. reflexivity.
Qed.

Lemma backedb_sound o : backedb o = true -> backed o.
Proof. unfold backedb, backed. destruct (m_coin (mo_map o)); intro H; apply Z.leb_le in H; exact H. Qed.

Lemma P_obsb_sound r : P_obsb r = true -> P_obs r.
Proof.
  unfold P_obsb, P_obs, unique. intro H.
  apply andb_true_iff in H as [H H3]. apply andb_true_iff in H as [H1 H2].
  split; [split|].
  - apply (nodupb_sound Nat.eqb); [intros; apply Nat.eqb_eq | exact H1].
  - apply (nodupb_sound denom_eqb); [apply denom_eqb_eq | exact H2].
  - apply Forall_forall. intros o Ho. rewrite forallb_forall in H3. apply backedb_sound. auto.
Qed.

Lemma Pb_sound tr : Pb tr = true -> P tr.
Proof.
  unfold Pb, P. intro H. apply Forall_forall. intros r Hr.
  rewrite forallb_forall in H. apply P_obsb_sound. auto.
Qed.

(** the checker is also complete: a trace it refuses does violate the property (used for the [_refuted] witnesses) *)
Lemma nodupb_complete {A} (eqb : A -> A -> bool) (l : list A) :
  (forall a b, eqb a b = true <-> a = b) -> NoDup l -> nodupb eqb l = true.
Proof.
  intros He. induction l as [|x r IH]; simpl; intro H; [reflexivity|].
  inversion H as [|? ? Hn Hr]; subst. apply andb_true_iff. split; [|auto].
  apply negb_true_iff. destruct (existsb (eqb x) r) eqn:E; [|reflexivity].
  apply existsb_exists in E as [y [Hy Exy]]. apply He in Exy. subst y. contradiction.
Qed.

Lemma Pb_complete tr : P tr -> Pb tr = true.
Proof.
  unfold P, Pb. intro H. apply forallb_forall. intros r Hr. rewrite Forall_forall in H.
  destruct (H r Hr) as [[U1 U2] B]. unfold P_obsb. rewrite !andb_true_iff. split; [split|].
  - apply nodupb_complete; [intros; apply Nat.eqb_eq | exact U1].
  - apply nodupb_complete; [apply denom_eqb_eq | exact U2].
  - apply forallb_forall. intros o Ho. rewrite Forall_forall in B. specialize (B o Ho).
    unfold backed in B. unfold backedb. destruct (m_coin (mo_map o)); apply Z.leb_le; exact B.
Qed.
