(** C06 — executable model of the FunToken bridge between the bank module and ERC20 contracts.

    Code modelled (x/evm): keeper/funtoken_from_coin.go (createFunTokenFromCoin),
    keeper/funtoken_from_erc20.go (createFunTokenFromERC20), keeper/msg_server.go
    (ConvertCoinToEvm, both births), keeper/erc20.go (Transfer = measured balance increase,
    Mint, Burn), precompile/funtoken.go (sendToBank, sendToEvm, bankMsgSend), the FunTokens
    indexed map (funtoken_state.go) and the bank ledger (balances, supply, blocked module account).

    No proofs in this file. *)
From Coq Require Import List Bool Arith ZArith.
Import ListNotations.
Local Open Scope Z_scope.

(** * Identifiers *)

(** Accounts are one 20-byte address space (hex and bech32 are two spellings of the same
    account).  [Module] is the EVM module account; [tok_addr t] is the address of ERC20 contract [t]. *)
Definition acct := nat.
Definition tok := nat.
Definition Module : acct := 0%nat.
Definition tok_addr (t : tok) : acct := (100 + t)%nat.

(** Bank denoms are STRINGS, compared byte for byte by the bank and by the FunTokens indexes.
    [DCoin n]: the n-th ordinary coin in the spelling the chain itself uses ("ucoin<n>", unibi,
    "tf/<creator>/<sub>"); [DErc t]: the derived denom "erc20/<EIP55 address of t>" that
    createFunTokenFromERC20 computes (injective in the address by construction); [DIbc h]: the IBC
    voucher "ibc/<HASH h>" with the hash in upper-case hex, as x/ibc-transfer mints it;
    [DAlt b sp]: the sp-th OTHER string that differs from the chain's spelling of the name [b] only
    by letter case (lower-/upper-/mixed-case hash of a voucher, "UCOIN0", "erc20/0xabc…" in lower
    case, "IBC/…").  All of these are different strings, hence different bank denoms: a coin, its
    metadata and a FunToken mapping registered under one spelling do not exist under another. *)
Inductive dname := NCoin (n : nat) | NErc (t : tok) | NIbc (h : nat).
Inductive denom := DCoin (n : nat) | DErc (t : tok) | DIbc (h : nat) | DAlt (b : dname) (sp : nat).

Definition dname_eqb (a b : dname) : bool :=
  match a, b with
  | NCoin x, NCoin y => Nat.eqb x y
  | NErc x, NErc y => Nat.eqb x y
  | NIbc x, NIbc y => Nat.eqb x y
  | _, _ => false
  end.

Definition denom_eqb (a b : denom) : bool :=
  match a, b with
  | DCoin x, DCoin y => Nat.eqb x y
  | DErc x, DErc y => Nat.eqb x y
  | DIbc x, DIbc y => Nat.eqb x y
  | DAlt b1 s1, DAlt b2 s2 => dname_eqb b1 b2 && Nat.eqb s1 s2
  | _, _ => false
  end.

(** the name a string spells, and the chain's own spelling of a name *)
Definition name_of (d : denom) : dname :=
  match d with DCoin n => NCoin n | DErc t => NErc t | DIbc h => NIbc h | DAlt b _ => b end.
Definition chain_spelling (b : dname) : denom :=
  match b with NCoin n => DCoin n | NErc t => DErc t | NIbc h => DIbc h end.

(** everything but the derived "erc20/<EIP55>" denom is an ordinary coin for the bank: other modules can
    mint it, register metadata for it, … (a lower-case "erc20/0xabc…" is such an ordinary coin, too) *)
Definition is_coin (d : denom) : bool := match d with DErc _ => false | _ => true end.

(** FunToken mapping (evm.FunToken): ERC20 address, bank denom, IsMadeFromCoin. *)
Record mapping := { m_tok : tok; m_den : denom; m_coin : bool }.

(** * ERC20 transfer behaviour (the parameter of the model)

    [transfer(to, x)] debits the sender [x], credits the recipient [x - fee] and the sink [fee],
    where [fee] is clamped into [0, x] (fee-on-transfer: the recipient receives at most [x]).
    [tb_heavy]: transfer needs more than the 200k gas the module grants (always fails there);
    [tb_false]: transfer moves the tokens but returns false (callers that check the flag treat it as failed); [tb_burn]: has ERC20Burnable.burn;
    [tb_pos]: requires a positive amount. *)
Record tbeh := {
  tb_fee : Z -> Z; tb_sink : acct; tb_heavy : bool; tb_false : bool; tb_burn : bool; tb_pos : bool }.

Definition fee_of (b : tbeh) (x : Z) : Z := Z.max 0 (Z.min x (tb_fee b x)).

(** ERC20MinterWithMetadataUpdates, deployed by the module for coin-born mappings. *)
Definition minter_beh : tbeh :=
  {| tb_fee := fun _ => 0; tb_sink := Module; tb_heavy := false; tb_false := false; tb_burn := true; tb_pos := false |}.

(** * State *)
Record st := {
  reg : list mapping;              (* FunTokens collection *)
  bank : acct -> denom -> Z;       (* bank balances *)
  supply : denom -> Z;             (* bank supply *)
  meta : denom -> bool;            (* bank denom metadata present *)
  tk : tok -> option tbeh;         (* deployed ERC20 contracts *)
  ebal : tok -> acct -> Z;         (* ERC20 balanceOf *)
  esup : tok -> Z;                 (* ERC20 totalSupply *)
  next_tok : tok;                  (* next contract id (CREATE addresses are fresh) *)
  tfadmin : denom -> option acct   (* x/tokenfactory: admin of a factory denom (None: not a factory denom) *)
}.

Definition init : st :=
  {| reg := []; bank := fun _ _ => 0; supply := fun _ => 0; meta := fun _ => false;
     tk := fun _ => None; ebal := fun _ _ => 0; esup := fun _ => 0; next_tok := 0%nat;
     tfadmin := fun _ => None |}.

Definition set_reg (s : st) (r : list mapping) : st :=
  {| reg := r; bank := bank s; supply := supply s; meta := meta s; tk := tk s; ebal := ebal s; esup := esup s; next_tok := next_tok s; tfadmin := tfadmin s |}.
Definition set_bank (s : st) (b : acct -> denom -> Z) : st :=
  {| reg := reg s; bank := b; supply := supply s; meta := meta s; tk := tk s; ebal := ebal s; esup := esup s; next_tok := next_tok s; tfadmin := tfadmin s |}.
Definition set_supply (s : st) (f : denom -> Z) : st :=
  {| reg := reg s; bank := bank s; supply := f; meta := meta s; tk := tk s; ebal := ebal s; esup := esup s; next_tok := next_tok s; tfadmin := tfadmin s |}.
Definition set_meta (s : st) (f : denom -> bool) : st :=
  {| reg := reg s; bank := bank s; supply := supply s; meta := f; tk := tk s; ebal := ebal s; esup := esup s; next_tok := next_tok s; tfadmin := tfadmin s |}.
Definition set_ebal (s : st) (f : tok -> acct -> Z) : st :=
  {| reg := reg s; bank := bank s; supply := supply s; meta := meta s; tk := tk s; ebal := f; esup := esup s; next_tok := next_tok s; tfadmin := tfadmin s |}.
Definition set_esup (s : st) (f : tok -> Z) : st :=
  {| reg := reg s; bank := bank s; supply := supply s; meta := meta s; tk := tk s; ebal := ebal s; esup := f; next_tok := next_tok s; tfadmin := tfadmin s |}.

Definition set_tfadmin (s : st) (f : denom -> option acct) : st :=
  {| reg := reg s; bank := bank s; supply := supply s; meta := meta s; tk := tk s; ebal := ebal s; esup := esup s;
     next_tok := next_tok s; tfadmin := f |}.

Definition updB (f : acct -> denom -> Z) (a : acct) (d : denom) (v : Z) : acct -> denom -> Z :=
  fun a' d' => if Nat.eqb a' a && denom_eqb d' d then v else f a' d'.
Definition updD {V} (f : denom -> V) (d : denom) (v : V) : denom -> V :=
  fun d' => if denom_eqb d' d then v else f d'.
Definition updE (f : tok -> acct -> Z) (t : tok) (a : acct) (v : Z) : tok -> acct -> Z :=
  fun t' a' => if Nat.eqb t' t && Nat.eqb a' a then v else f t' a'.
Definition updT {V} (f : tok -> V) (t : tok) (v : V) : tok -> V :=
  fun t' => if Nat.eqb t' t then v else f t'.

(** * Bank primitives (x/bank): send fails on insufficient funds; amounts are non-negative *)
Definition bank_send (s : st) (a b : acct) (d : denom) (x : Z) : option st :=
  if (x <? 0) || (bank s a d <? x) then None
  else let b1 := updB (bank s) a d (bank s a d - x) in
       Some (set_bank s (updB b1 b d (b1 b d + x))).

Definition bank_mint (s : st) (a : acct) (d : denom) (x : Z) : option st :=
  if x <? 0 then None
  else Some (set_supply (set_bank s (updB (bank s) a d (bank s a d + x))) (updD (supply s) d (supply s d + x))).

Definition bank_burn (s : st) (a : acct) (d : denom) (x : Z) : option st :=
  if (x <? 0) || (bank s a d <? x) then None
  else Some (set_supply (set_bank s (updB (bank s) a d (bank s a d - x))) (updD (supply s) d (supply s d - x))).

(** SendCoinsFromModuleToAccount / MsgSend refuse blocked recipients; the EVM module account is blocked. *)
Definition blocked (a : acct) : bool := Nat.eqb a Module.

(** * ERC20 primitives *)

(** the contract's [transfer] as the holder [from] calls it *)
Definition erc_transfer (s : st) (b : tbeh) (t : tok) (from to : acct) (x : Z) : option st :=
  if (x <? 0) || (ebal s t from <? x) || (tb_pos b && (x =? 0)) then None
  else let f := fee_of b x in
       let e1 := updE (ebal s) t from (ebal s t from - x) in
       let e2 := updE e1 t (tb_sink b) (e1 t (tb_sink b) + f) in
       let e3 := updE e2 t to (e2 t to + (x - f)) in
       Some (set_ebal s e3).

(** keeper.ERC20().Transfer: balanceOf(to) before and after, the call under the module's gas cap,
    success flag, and the MEASURED increase which must be positive (erc20.go:98-150). *)
Definition measured_transfer (s : st) (t : tok) (from to : acct) (x : Z) : option (st * Z) :=
  match tk s t with
  | None => None
  | Some b =>
      if tb_heavy b || tb_false b then None
      else match erc_transfer s b t from to x with
           | None => None
           | Some s' => let got := ebal s' t to - ebal s t to in
                        if got <=? 0 then None else Some (s', got)
           end
  end.

(** ERC20Minter.mint by the owner (the module) *)
Definition erc_mint (s : st) (t : tok) (to : acct) (x : Z) : option st :=
  if x <? 0 then None
  else Some (set_esup (set_ebal s (updE (ebal s) t to (ebal s t to + x))) (updT (esup s) t (esup s t + x))).

(** ERC20Burnable.burn by a holder *)
Definition erc_burn (s : st) (t : tok) (a : acct) (x : Z) : option st :=
  if (x <? 0) || (ebal s t a <? x) then None
  else Some (set_esup (set_ebal s (updE (ebal s) t a (ebal s t a - x))) (updT (esup s) t (esup s t - x))).

Definition new_token (s : st) (b : tbeh) (owner : acct) (x : Z) : st :=
  let t := next_tok s in
  {| reg := reg s; bank := bank s; supply := supply s; meta := meta s;
     tk := updT (tk s) t (Some b);
     ebal := fun t' a' => if Nat.eqb t' t then (if Nat.eqb a' owner then x else 0) else ebal s t' a';
     esup := updT (esup s) t x;
     next_tok := S t; tfadmin := tfadmin s |}.

(** * Registry *)
Definition find_den (s : st) (d : denom) : option mapping := find (fun m => denom_eqb (m_den m) d) (reg s).
Definition find_tok (s : st) (t : tok) : option mapping := find (fun m => Nat.eqb (m_tok m) t) (reg s).
Definition is_some {A} (o : option A) : bool := match o with Some _ => true | None => false end.

(** * Operations *)

(** how an EVM-side op is wrapped by the calling contract / transaction *)
Inductive frame :=
| FPlain              (* forwarded call; the tx succeeds iff the op does *)
| FRevertTop          (* op executed, then the whole tx reverts *)
| FInnerRevert        (* op executed in a sub-frame that reverts; the tx itself succeeds *)
| FSwallow            (* op executed; a failure is ignored by the caller, the tx succeeds *)
| FOnceThenReverted   (* op executed once for real, then once more inside a reverting sub-frame *)
| FBadArgs            (* argument validation fails (unparsable recipient, …) *)
| FOog.               (* the tx ran out of gas (outcome read from the trace) *)

Inductive op :=
| Fund (a : acct) (d : denom) (x : Z)          (* another module mints an ordinary coin to an account *)
| SetMeta (d : denom)                           (* bank metadata registered for an ordinary coin *)
| Deploy (owner : acct) (b : tbeh) (x : Z)      (* a user deploys an ERC20 with initial supply x *)
| CreateFromCoin (sender : acct) (d : denom)
| CreateFromErc20 (sender : acct) (t : tok)
| ConvertCoinToEvm (sender : acct) (d : denom) (x : Z) (to : acct)
| SendToBank (caller : acct) (t : tok) (x : Z) (to : acct)
| SendToEvm (caller : acct) (d : denom) (x : Z) (to : acct)
| BankMsgSend (caller to : acct) (d : denom) (x : Z)
| Erc20Transfer (caller : acct) (t : tok) (to : acct) (x : Z)
| Erc20Burn (caller : acct) (t : tok) (x : Z)
(* x/tokenfactory: the admin of a factory denom mints to / burns from ANY account the bank does not block *)
| TfCreate (creator : acct) (d : denom)
| TfMint (sender : acct) (d : denom) (x : Z) (to : acct)
| TfBurn (sender : acct) (d : denom) (x : Z) (from : acct)
| TfChangeAdmin (sender : acct) (d : denom) (new : acct)
(* bridge messages reached THROUGH THE WASM PRECOMPILE: an EVM contract calls Wasm.execute on a CosmWasm contract [w]
   (reflect.wasm) that re-dispatches the Stargate message with itself as signer, in the middle of the EVM transaction
   (a plain bank MsgSend dispatched that way is [BankMsgSend w …]) *)
| WasmConvert (w : acct) (d : denom) (x : Z) (to : acct)   (* MsgConvertCoinToEvm{sender: w} *)
| WasmCreateCoin (w : acct) (d : denom)                    (* MsgCreateFunToken{from_bank_denom, sender: w} *)
| WasmCreateErc20 (w : acct) (t : tok)                     (* MsgCreateFunToken{from_erc20, sender: w} *)
| Framed (f : frame) (o : op)
| Seq (o1 o2 : op).                              (* two operations in ONE transaction: both or nothing *)

Definition bind {A B} (o : option A) (f : A -> option B) : option B :=
  match o with Some a => f a | None => None end.
Notation "x <- e ;; k" := (bind e (fun x => k)) (at level 61, e at next level, right associativity).

Definition guard (b : bool) : option unit := if b then Some tt else None.

(** convertCoinToEvmBornCoin / sendToEvm (coin-born): escrow the coin, mint the ERC20 *)
Definition coin_to_evm_born_coin (s : st) (m : mapping) (from : acct) (x : Z) (to : acct) : option st :=
  s1 <- bank_send s from Module (m_den m) x ;;
  erc_mint s1 (m_tok m) to x.

(** convertCoinToEvmBornERC20: coin to module, burn it, release escrowed ERC20 (measured, must be > 0) *)
Definition convert_born_erc20 (s : st) (m : mapping) (from : acct) (x : Z) (to : acct) : option st :=
  s1 <- bank_send s from Module (m_den m) x ;;
  s2 <- bank_burn s1 Module (m_den m) x ;;
  r <- measured_transfer s2 (m_tok m) Module to x ;;
  Some (fst r).

(** precompile sendToEvm (ERC20-born): coin to module, release escrowed ERC20, then burn the coin *)
Definition send_to_evm_born_erc20 (s : st) (m : mapping) (from : acct) (x : Z) (to : acct) : option st :=
  s1 <- bank_send s from Module (m_den m) x ;;
  r <- measured_transfer s1 (m_tok m) Module to x ;;
  bank_burn (fst r) Module (m_den m) x.

(** precompile sendToBank: ERC20 to the module (measured), then burn+release (coin-born) or mint+send (ERC20-born) *)
Definition send_to_bank (s : st) (m : mapping) (caller : acct) (x : Z) (to : acct) : option st :=
  r <- measured_transfer s (m_tok m) caller Module x ;;
  let '(s1, got) := r in
  s2 <- (if m_coin m then erc_burn s1 (m_tok m) Module got else bank_mint s1 Module (m_den m) got) ;;
  _ <- guard (negb (blocked to)) ;;
  bank_send s2 Module to (m_den m) got.

(** the EVM gas coin (unibi) is an ordinary coin for the bridge; CreateFunToken charges and burns a fee in it
    (deductCreateFunTokenFee: SendCoinsFromAccountToModule then BurnCoins; evm params CreateFuntokenFee).
    Transaction gas fees are not modelled (they never touch the module's escrow or the supply). *)
Definition DGas : denom := DCoin 1000%nat.
Definition create_fee : Z := 10000000000.

Definition pay_create_fee (s : st) (sender : acct) : option st :=
  _ <- guard (negb (Nat.eqb sender Module)) ;;
  bank_burn s sender DGas create_fee.

(** createFunTokenFromCoin: denom index check, metadata, deploy the ERC20 at a fresh address, ERC20 index check, insert.
    Three steps consume a denom STRING: the index guard ([dg]), the metadata lookup ([dm]) and the insert ([di]). *)
Definition create_coin_gen (s : st) (dg dm di : denom) : option st :=
  _ <- guard (negb (is_some (find_den s dg)) && meta s dm) ;;
  let t := next_tok s in
  let s1 := new_token s minter_beh Module 0 in
  _ <- guard (negb (is_some (find_tok s t))) ;;
  Some (set_reg s1 (reg s1 ++ [{| m_tok := t; m_den := di; m_coin := true |}])).

(** the current tree hands the message's string, exactly as given, to all three *)
Definition create_coin_core (s : st) (d : denom) : option st := create_coin_gen s d d d.

(** Configuration switch (re-read from the source on every run, Gen/C06Facts.v [current_create_coin_denoms]):
    WHICH VALUE of the denom each of the three steps uses — the string of the message as given ([VRaw]) or a
    value the function computed from it first ([VRewritten]: canonicalised, trimmed, case-folded, …; [VOther]:
    not understood by the extractor, treated as rewritten). *)
Inductive dver := VRaw | VRewritten | VOther.
Record create_denoms := { cd_guard : dver; cd_meta : dver; cd_insert : dver }.
Definition model_create_denoms : create_denoms := {| cd_guard := VRaw; cd_meta := VRaw; cd_insert := VRaw |}.

Definition pick_den (cn : denom -> denom) (v : dver) (d : denom) : denom :=
  match v with VRaw => d | VRewritten | VOther => cn d end.

Definition create_coin_core_with (cn : denom -> denom) (c : create_denoms) (s : st) (d : denom) : option st :=
  create_coin_gen s (pick_den cn (cd_guard c) d) (pick_den cn (cd_meta c) d) (pick_den cn (cd_insert c) d).

(** rewrites a tree could apply: none; "a voucher hash in any letter case means the voucher" (the hash is hex, the bank
    stores it in upper case); full case-insensitivity *)
Definition canon_none (d : denom) : denom := d.
Definition canon_ibc_hash (d : denom) : denom := match d with DAlt (NIbc h) _ => DIbc h | _ => d end.
Definition canon_name (d : denom) : denom := chain_spelling (name_of d).

(** createFunTokenFromERC20: ERC20 index check, contract answers metadata, bank metadata + denom index check, insert *)
Definition create_erc20_core (s : st) (t : tok) : option st :=
  _ <- guard (negb (is_some (find_tok s t)) && is_some (tk s t)
              && negb (meta s (DErc t)) && negb (is_some (find_den s (DErc t)))) ;;
  let s1 := set_meta s (updD (meta s) (DErc t) true) in
  Some (set_reg s1 (reg s1 ++ [{| m_tok := t; m_den := DErc t; m_coin := false |}])).

Definition is_admin (s : st) (d : denom) (a : acct) : bool :=
  match tfadmin s d with Some b => Nat.eqb a b | None => false end.

(** one unframed operation; [None] = rejected (nothing changes: the tx / the precompile call is rolled back) *)
Definition exec (s : st) (o : op) : option st :=
  match o with
  | Fund a d x =>
      if is_coin d then bank_mint s a d x else None
  | SetMeta d =>
      if is_coin d then Some (set_meta s (updD (meta s) d true)) else None
  | Deploy owner b x =>
      _ <- guard (negb (Nat.eqb owner Module) && (0 <=? x)) ;;
      Some (new_token s b owner x)
  | CreateFromCoin sender d =>
      s0 <- pay_create_fee s sender ;;
      create_coin_core s0 d
  | CreateFromErc20 sender t =>
      s0 <- pay_create_fee s sender ;;
      create_erc20_core s0 t
  | ConvertCoinToEvm sender d x to =>
      _ <- guard (negb (Nat.eqb sender Module)) ;;
      m <- find_den s d ;;
      if m_coin m then coin_to_evm_born_coin s m sender x to
      else convert_born_erc20 s m sender x to
  | SendToBank caller t x to =>
      _ <- guard (negb (Nat.eqb caller Module) && (0 <? x)) ;;
      m <- find_tok s t ;;
      send_to_bank s m caller x to
  | SendToEvm caller d x to =>
      _ <- guard (negb (Nat.eqb caller Module) && (0 <? x)) ;;
      m <- find_den s d ;;
      if m_coin m then coin_to_evm_born_coin s m caller x to
      else send_to_evm_born_erc20 s m caller x to
  | BankMsgSend caller to d x =>
      _ <- guard (negb (Nat.eqb caller Module) && (0 <? x) && negb (blocked to)) ;;
      bank_send s caller to d x
  | Erc20Transfer caller t to x =>
      _ <- guard (negb (Nat.eqb caller Module)) ;;
      match tk s t with
      | None => Some s              (* a call to an address without code succeeds and does nothing *)
      | Some b =>
          if tb_heavy b then None
          else erc_transfer s b t caller to x   (* a false return value does not fail the user's own tx *)
      end
  | Erc20Burn caller t x =>
      _ <- guard (negb (Nat.eqb caller Module)) ;;
      match tk s t with
      | None => Some s
      | Some b => _ <- guard (tb_burn b) ;; erc_burn s t caller x
      end
  | TfCreate creator d =>
      if is_coin d then
          _ <- guard (negb (Nat.eqb creator Module) && negb (is_some (tfadmin s d))) ;;
          Some (set_tfadmin (set_meta s (updD (meta s) d true)) (updD (tfadmin s) d (Some creator)))
      else None
  | TfMint sender d x to =>
      if is_coin d then
          _ <- guard (is_admin s d sender && (0 <? x) && negb (blocked to)) ;;
          bank_mint s to d x
      else None
  | TfBurn sender d x from =>
      if is_coin d then
          _ <- guard (is_admin s d sender && (0 <? x) && negb (blocked from)) ;;
          bank_burn s from d x
      else None
  | TfChangeAdmin sender d new =>
      _ <- guard (is_admin s d sender) ;;
      Some (set_tfadmin s (updD (tfadmin s) d (Some new)))
  (* keeper/msg_server.go rejectWithinEvm: the message handlers of the EVM module run and COMMIT an EVM state transition of
     their own; arriving on a context that descends from a precompile call (statedb.IsPrecompileCtx) they are refused *)
  | WasmConvert _ _ _ _ => None
  | WasmCreateCoin _ _ => None
  | WasmCreateErc20 _ _ => None
  | Framed _ _ => None
  | Seq _ _ => None
  end.

(** one transaction: new state and whether the tx was accepted (code 0, no VM error) *)
Fixpoint step (s : st) (o : op) : st * bool :=
  match o with
  | Framed f o' =>
      let r := step s o' in
      match f with
      | FPlain | FOnceThenReverted => r
      | FRevertTop | FBadArgs | FOog => (s, false)
      | FInnerRevert => (s, true)
      | FSwallow => (fst r, true)
      end
  | Seq o1 o2 =>
      let r1 := step s o1 in
      if snd r1 then
        let r2 := step (fst r1) o2 in
        if snd r2 then (fst r2, true) else (s, false)
      else (s, false)
  | _ => match exec s o with Some s' => (s', true) | None => (s, false) end
  end.

Definition run (s : st) (ops : list op) : st := fold_left (fun s o => fst (step s o)) ops s.

(** the same machine for a tree whose createFunTokenFromCoin rewrites the denom with [cn] and uses the values [c] *)
Definition exec_with (cn : denom -> denom) (c : create_denoms) (s : st) (o : op) : option st :=
  match o with
  | CreateFromCoin sender d => s0 <- pay_create_fee s sender ;; create_coin_core_with cn c s0 d
  | _ => exec s o
  end.

Fixpoint step_with (cn : denom -> denom) (c : create_denoms) (s : st) (o : op) : st * bool :=
  match o with
  | Framed f o' =>
      let r := step_with cn c s o' in
      match f with
      | FPlain | FOnceThenReverted => r
      | FRevertTop | FBadArgs | FOog => (s, false)
      | FInnerRevert => (s, true)
      | FSwallow => (fst r, true)
      end
  | Seq o1 o2 =>
      let r1 := step_with cn c s o1 in
      if snd r1 then
        let r2 := step_with cn c (fst r1) o2 in
        if snd r2 then (fst r2, true) else (s, false)
      else (s, false)
  | _ => match exec_with cn c s o with Some s' => (s', true) | None => (s, false) end
  end.

Definition run_with (cn : denom -> denom) (c : create_denoms) (s : st) (ops : list op) : st :=
  fold_left (fun s o => fst (step_with cn c s o)) ops s.

(** * Observables of one mapping: ERC20 totalSupply, ERC20 balanceOf(module), bank supply, bank balance of the module *)
Definition obs_map (s : st) (m : mapping) : Z * Z * Z * Z :=
  (esup s (m_tok m), ebal s (m_tok m) Module, supply s (m_den m), bank s Module (m_den m)).

(** * Configuration switch: re-entry guards (re-read from the source on every run, Gen/C06Facts.v [current_reentry_guards])

    [rg_ctx_marked]: StateDB.CacheCtxForPrecompile marks the context it hands to precompiles and IsPrecompileCtx reads that
    mark; [rg_convert_refused] / [rg_create_refused]: ConvertCoinToEvm / CreateFunToken call the refusing guard before they
    touch anything.  A tree WITHOUT them lets the nested handler run on the StateDB of the transaction being delivered and
    commit it half-way: the EVM side of the nested conversion (the ERC20 mint) is then permanent even when the frame around
    it is reverted, while the bank side (the escrow transfer, journaled in the precompile's cache context) is rolled back. *)
Record reentry_guards := { rg_ctx_marked : bool; rg_convert_refused : bool; rg_create_refused : bool }.
Definition model_reentry_guards : reentry_guards :=
  {| rg_ctx_marked := true; rg_convert_refused := true; rg_create_refused := true |}.

Definition convert_guarded (g : reentry_guards) : bool := rg_ctx_marked g && rg_convert_refused g.
Definition create_guarded (g : reentry_guards) : bool := rg_ctx_marked g && rg_create_refused g.

Definition exec_rg (g : reentry_guards) (s : st) (o : op) : option st :=
  match o with
  | WasmConvert w d x to => if convert_guarded g then None else exec s (ConvertCoinToEvm w d x to)
  | WasmCreateCoin w d => if create_guarded g then None else exec s (CreateFromCoin w d)
  | WasmCreateErc20 w t => if create_guarded g then None else exec s (CreateFromErc20 w t)
  | _ => exec s o
  end.

(** what is left of an operation whose frame is reverted: nothing — unless an unguarded nested conversion committed the
    running StateDB: then the ERC20 it minted (coin-born mapping) stays *)
Definition survives_revert (g : reentry_guards) (s : st) (o : op) : st :=
  match o with
  | WasmConvert w d x to =>
      if convert_guarded g then s
      else match find_den s d, exec s (ConvertCoinToEvm w d x to) with
           | Some m, Some _ => if m_coin m then match erc_mint s (m_tok m) to x with Some s' => s' | None => s end else s
           | _, _ => s
           end
  | _ => s
  end.

Fixpoint step_rg (g : reentry_guards) (s : st) (o : op) : st * bool :=
  match o with
  | Framed f o' =>
      let r := step_rg g s o' in
      match f with
      | FPlain => r
      | FOnceThenReverted => if snd r then (survives_revert g (fst r) o', true) else r
      | FRevertTop => (survives_revert g s o', false)
      | FBadArgs | FOog => (s, false)
      | FInnerRevert => (survives_revert g s o', true)
      | FSwallow => (fst r, true)
      end
  | Seq o1 o2 =>
      let r1 := step_rg g s o1 in
      if snd r1 then
        let r2 := step_rg g (fst r1) o2 in
        if snd r2 then (fst r2, true) else (s, false)
      else (s, false)
  | _ => match exec_rg g s o with Some s' => (s', true) | None => (s, false) end
  end.
