(** C06 — proofs: the backing invariant is inductive over operation histories. *)
From Coq Require Import List Bool Arith ZArith Lia.
Import ListNotations.
Require Import Nib.C06.Model Nib.C06.Spec.
Local Open Scope Z_scope.

Local Opaque Module.

(** * The unbacked margin of a mapping (0 = backed exactly) *)
Definition slack (s : st) (m : mapping) : Z :=
  if m_coin m then bank s Module (m_den m) - esup s (m_tok m)
  else ebal s (m_tok m) Module - supply s (m_den m).

(** * The invariant *)
Record Inv (s : st) : Prop := {
  inv_nd_tok : NoDup (map m_tok (reg s));
  inv_nd_den : NoDup (map m_den (reg s));
  inv_slack : forall m, In m (reg s) -> 0 <= slack s m;
  inv_fresh : forall m, In m (reg s) -> (m_tok m < next_tok s)%nat;
  inv_tk : forall t b, tk s t = Some b -> (t < next_tok s)%nat;
  inv_erc_den : forall m, In m (reg s) -> m_coin m = false -> m_den m = DErc (m_tok m);
  inv_unmapped : forall t, ~ In (DErc t) (map m_den (reg s)) -> supply s (DErc t) = 0;
  inv_bank_nn : forall a d, 0 <= bank s a d;
  inv_ebal_nn : forall t a, 0 <= ebal s t a
}.

(** * Small facts *)
Definition ind (c : bool) (x : Z) : Z := if c then x else 0.

Lemma denom_eqb_refl d : denom_eqb d d = true.
Proof. apply denom_eqb_eq. reflexivity. Qed.

Lemma denom_eqb_neq a b : a <> b -> denom_eqb a b = false.
Proof. intro H. destruct (denom_eqb a b) eqn:E; [apply denom_eqb_eq in E; contradiction | reflexivity]. Qed.

Lemma denom_eqb_false a b : denom_eqb a b = false -> a <> b.
Proof. intros H E. subst. rewrite denom_eqb_refl in H. discriminate. Qed.

(** the derived "erc20/<EIP55>" denom is no ordinary coin *)
Lemma erc_eqb_coin t d : is_coin d = true -> denom_eqb (DErc t) d = false.
Proof. destruct d; simpl; intro H; try reflexivity; discriminate. Qed.

Lemma find_den_some s d m : find_den s d = Some m -> In m (reg s) /\ m_den m = d.
Proof.
  unfold find_den. intro H. apply find_some in H as [H1 H2]. split; [exact H1|]. apply denom_eqb_eq. exact H2.
Qed.

Lemma find_tok_some s t m : find_tok s t = Some m -> In m (reg s) /\ m_tok m = t.
Proof.
  unfold find_tok. intro H. apply find_some in H as [H1 H2]. split; [exact H1|]. apply Nat.eqb_eq. exact H2.
Qed.

Lemma find_den_none s d : find_den s d = None -> ~ In d (map m_den (reg s)).
Proof.
  unfold find_den. intros H Hin. apply in_map_iff in Hin as [m [E Hm]].
  pose proof (find_none _ _ H m Hm) as F. simpl in F. rewrite E, denom_eqb_refl in F. discriminate.
Qed.

Lemma find_tok_none s t : find_tok s t = None -> ~ In t (map m_tok (reg s)).
Proof.
  unfold find_tok. intros H Hin. apply in_map_iff in Hin as [m [E Hm]].
  pose proof (find_none _ _ H m Hm) as F. simpl in F. rewrite E, Nat.eqb_refl in F. discriminate.
Qed.

Lemma find_den_in s d : In d (map m_den (reg s)) -> exists m, find_den s d = Some m.
Proof.
  intro H. destruct (find_den s d) eqn:E; [eauto|]. apply find_den_none in E. contradiction.
Qed.

Lemma find_tok_in s t : In t (map m_tok (reg s)) -> exists m, find_tok s t = Some m.
Proof.
  intro H. destruct (find_tok s t) eqn:E; [eauto|]. apply find_tok_none in E. contradiction.
Qed.

Lemma nodup_map_inj {A B} (f : A -> B) (l : list A) x y :
  NoDup (map f l) -> In x l -> In y l -> f x = f y -> x = y.
Proof.
  induction l as [|a l IH]; simpl; intros Hn Hx Hy E; [contradiction|].
  inversion Hn as [|? ? Hnotin Hn']; subst.
  destruct Hx as [Hx|Hx], Hy as [Hy|Hy]; subst; auto.
  - exfalso. apply Hnotin. rewrite E. apply in_map. exact Hy.
  - exfalso. apply Hnotin. rewrite <- E. apply in_map. exact Hx.
Qed.

(** two registered mappings are the same one or share neither the ERC20 nor the denom *)
Lemma reg_cases s m m0 : Inv s -> In m (reg s) -> In m0 (reg s) ->
  m = m0 \/ (m_tok m <> m_tok m0 /\ m_den m <> m_den m0).
Proof.
  intros I Hm Hm0.
  destruct (Nat.eq_dec (m_tok m) (m_tok m0)) as [E|E].
  - left. eapply nodup_map_inj; [apply (inv_nd_tok _ I)| | |]; eauto.
  - destruct (denom_eqb (m_den m) (m_den m0)) eqn:D.
    + left. apply denom_eqb_eq in D. eapply nodup_map_inj; [apply (inv_nd_den _ I)| | |]; eauto.
    + right. split; [exact E|]. apply denom_eqb_false. exact D.
Qed.

(** * What the ledger primitives do (pointwise, additive) *)

(** everything except the numeric ledgers is untouched *)
Definition frame_eq (s s' : st) : Prop :=
  reg s' = reg s /\ next_tok s' = next_tok s /\ tk s' = tk s.

Lemma frame_eq_refl s : frame_eq s s.
Proof. repeat split. Qed.

Lemma frame_eq_trans a b c : frame_eq a b -> frame_eq b c -> frame_eq a c.
Proof. unfold frame_eq. intros [A1 [A2 A3]] [B1 [B2 B3]]. repeat split; congruence. Qed.

Lemma bank_send_spec s a b d x s' : bank_send s a b d x = Some s' ->
  frame_eq s s' /\ 0 <= x <= bank s a d /\
  (forall a' d', bank s' a' d' = bank s a' d' + ind (denom_eqb d' d) (ind (Nat.eqb a' b) x - ind (Nat.eqb a' a) x)) /\
  supply s' = supply s /\ ebal s' = ebal s /\ esup s' = esup s.
Proof.
  unfold bank_send. destruct (x <? 0) eqn:E1; simpl; [discriminate|].
  destruct (bank s a d <? x) eqn:E2; [discriminate|].
  intro H. inversion H; subst; clear H. simpl.
  apply Z.ltb_ge in E1. apply Z.ltb_ge in E2.
  split; [repeat split|]. split; [lia|]. split; [|auto].
  intros a' d'. unfold updB, ind.
  destruct (Nat.eqb a' b) eqn:Eb; destruct (Nat.eqb a' a) eqn:Ea; destruct (denom_eqb d' d) eqn:Ed; simpl;
    try apply Nat.eqb_eq in Eb; try apply Nat.eqb_eq in Ea; try apply denom_eqb_eq in Ed; subst;
    rewrite ?Nat.eqb_refl, ?denom_eqb_refl, ?Ea, ?Eb, ?Ed; simpl; try lia.
  all: try (rewrite Nat.eqb_sym in Eb; rewrite ?Eb; simpl; lia).
  all: try (rewrite Nat.eqb_sym in Ea; rewrite ?Ea; simpl; lia).
Qed.

(** case analysis on every boolean test in the goal, with the decoded (in)equalities in context *)
Ltac split_ifs :=
  repeat match goal with
         | |- context [if ?c then _ else _] => let E := fresh "E" in destruct c eqn:E
         end.
Ltac decode :=
  repeat match goal with
         | H : Nat.eqb _ _ = true |- _ => apply Nat.eqb_eq in H
         | H : Nat.eqb _ _ = false |- _ => apply Nat.eqb_neq in H
         | H : denom_eqb _ _ = true |- _ => apply denom_eqb_eq in H
         | H : denom_eqb _ _ = false |- _ => apply denom_eqb_false in H
         | H : andb _ _ = true |- _ => apply andb_true_iff in H; destruct H
         | H : andb _ _ = false |- _ => apply andb_false_iff in H; destruct H
         | H : orb _ _ = false |- _ => apply orb_false_iff in H; destruct H
         | H : negb _ = true |- _ => apply negb_true_iff in H
         | H : negb _ = false |- _ => apply negb_false_iff in H
         | H : (_ <? _) = true |- _ => apply Z.ltb_lt in H
         | H : (_ <? _) = false |- _ => apply Z.ltb_ge in H
         | H : (_ <=? _) = true |- _ => apply Z.leb_le in H
         | H : (_ <=? _) = false |- _ => apply Z.leb_gt in H
         | H : (_ =? _) = true |- _ => apply Z.eqb_eq in H
         | H : (_ =? _) = false |- _ => apply Z.eqb_neq in H
         end.
Ltac pointwise := unfold ind, updB, updD, updE, updT; simpl; split_ifs; decode; subst; try congruence; try lia; try tauto.

Lemma bank_mint_spec s a d x s' : bank_mint s a d x = Some s' ->
  frame_eq s s' /\ 0 <= x /\
  (forall a' d', bank s' a' d' = bank s a' d' + ind (denom_eqb d' d) (ind (Nat.eqb a' a) x)) /\
  (forall d', supply s' d' = supply s d' + ind (denom_eqb d' d) x) /\ ebal s' = ebal s /\ esup s' = esup s.
Proof.
  unfold bank_mint. destruct (x <? 0) eqn:E1; [discriminate|].
  intro H. inversion H; subst; clear H. simpl. decode.
  split; [repeat split|]. split; [lia|]. split; [|split; [|auto]].
  - intros a' d'. pointwise.
  - intros d'. pointwise.
Qed.

Lemma bank_burn_spec s a d x s' : bank_burn s a d x = Some s' ->
  frame_eq s s' /\ 0 <= x <= bank s a d /\
  (forall a' d', bank s' a' d' = bank s a' d' - ind (denom_eqb d' d) (ind (Nat.eqb a' a) x)) /\
  (forall d', supply s' d' = supply s d' - ind (denom_eqb d' d) x) /\ ebal s' = ebal s /\ esup s' = esup s.
Proof.
  unfold bank_burn. destruct (x <? 0) eqn:E1; simpl; [discriminate|].
  destruct (bank s a d <? x) eqn:E2; [discriminate|].
  intro H. inversion H; subst; clear H. simpl. decode.
  split; [repeat split|]. split; [lia|]. split; [|split; [|auto]].
  - intros a' d'. pointwise.
  - intros d'. pointwise.
Qed.

Lemma fee_of_bounds b x : 0 <= x -> 0 <= fee_of b x <= x.
Proof. unfold fee_of. lia. Qed.

Lemma erc_transfer_spec s b t from to x s' : erc_transfer s b t from to x = Some s' ->
  frame_eq s s' /\ 0 <= x <= ebal s t from /\
  (forall t' a', ebal s' t' a' = ebal s t' a' +
     ind (Nat.eqb t' t) (ind (Nat.eqb a' to) (x - fee_of b x) + ind (Nat.eqb a' (tb_sink b)) (fee_of b x) - ind (Nat.eqb a' from) x)) /\
  bank s' = bank s /\ supply s' = supply s /\ esup s' = esup s.
Proof.
  unfold erc_transfer. destruct (x <? 0) eqn:E1; simpl; [discriminate|].
  destruct (ebal s t from <? x) eqn:E2; simpl; [discriminate|].
  destruct (tb_pos b && (x =? 0)) eqn:E3; [discriminate|].
  intro H. inversion H; subst; clear H. simpl. clear E3. decode.
  split; [repeat split|]. split; [lia|]. split; [|auto].
  intros t' a'. pointwise.
Qed.

Lemma measured_transfer_spec s t from to x s' got : measured_transfer s t from to x = Some (s', got) ->
  exists b, tk s t = Some b /\ erc_transfer s b t from to x = Some s' /\
            got = ebal s' t to - ebal s t to /\ 0 < got.
Proof.
  unfold measured_transfer. destruct (tk s t) as [b|]; [|discriminate].
  destruct (tb_heavy b || tb_false b); [discriminate|].
  destruct (erc_transfer s b t from to x) as [s1|] eqn:E; [|discriminate].
  destruct (ebal s1 t to - ebal s t to <=? 0) eqn:G; [discriminate|].
  intro H. inversion H; subst; clear H. decode. exists b. auto.
Qed.

Lemma erc_mint_spec s t to x s' : erc_mint s t to x = Some s' ->
  frame_eq s s' /\ 0 <= x /\
  (forall t' a', ebal s' t' a' = ebal s t' a' + ind (Nat.eqb t' t) (ind (Nat.eqb a' to) x)) /\
  (forall t', esup s' t' = esup s t' + ind (Nat.eqb t' t) x) /\ bank s' = bank s /\ supply s' = supply s.
Proof.
  unfold erc_mint. destruct (x <? 0) eqn:E1; [discriminate|].
  intro H. inversion H; subst; clear H. simpl. decode.
  split; [repeat split|]. split; [lia|]. split; [|split; [|auto]].
  - intros t' a'. pointwise.
  - intros t'. pointwise.
Qed.

Lemma erc_burn_spec s t a x s' : erc_burn s t a x = Some s' ->
  frame_eq s s' /\ 0 <= x <= ebal s t a /\
  (forall t' a', ebal s' t' a' = ebal s t' a' - ind (Nat.eqb t' t) (ind (Nat.eqb a' a) x)) /\
  (forall t', esup s' t' = esup s t' - ind (Nat.eqb t' t) x) /\ bank s' = bank s /\ supply s' = supply s.
Proof.
  unfold erc_burn. destruct (x <? 0) eqn:E1; simpl; [discriminate|].
  destruct (ebal s t a <? x) eqn:E2; [discriminate|].
  intro H. inversion H; subst; clear H. simpl. decode.
  split; [repeat split|]. split; [lia|]. split; [|split; [|auto]].
  - intros t' a'. pointwise.
  - intros t'. pointwise.
Qed.

(** * Non-negativity of both ledgers is preserved by every primitive *)
Definition nn (s : st) : Prop := (forall a d, 0 <= bank s a d) /\ (forall t a, 0 <= ebal s t a).

Lemma bank_send_nn s a b d x s' : nn s -> bank_send s a b d x = Some s' -> nn s'.
Proof.
  intros [Nb Ne] H. apply bank_send_spec in H as [_ [Hx [Hb [_ [He _]]]]]. split.
  - intros a' d'. rewrite Hb. pose proof (Nb a' d'). pose proof (Nb a d). pointwise.
  - intros. rewrite He. apply Ne.
Qed.

Lemma bank_mint_nn s a d x s' : nn s -> bank_mint s a d x = Some s' -> nn s'.
Proof.
  intros [Nb Ne] H. apply bank_mint_spec in H as [_ [Hx [Hb [_ [He _]]]]]. split.
  - intros a' d'. rewrite Hb. pose proof (Nb a' d'). pointwise.
  - intros. rewrite He. apply Ne.
Qed.

Lemma bank_burn_nn s a d x s' : nn s -> bank_burn s a d x = Some s' -> nn s'.
Proof.
  intros [Nb Ne] H. apply bank_burn_spec in H as [_ [Hx [Hb [_ [He _]]]]]. split.
  - intros a' d'. rewrite Hb. pose proof (Nb a' d'). pose proof (Nb a d). pointwise.
  - intros. rewrite He. apply Ne.
Qed.

Lemma erc_transfer_nn s b t from to x s' : nn s -> erc_transfer s b t from to x = Some s' -> nn s'.
Proof.
  intros [Nb Ne] H. apply erc_transfer_spec in H as [_ [Hx [He [Hb _]]]]. split.
  - intros. rewrite Hb. apply Nb.
  - intros t' a'. rewrite He. pose proof (Ne t' a'). pose proof (Ne t from).
    assert (0 <= fee_of b x <= x) by (apply fee_of_bounds; lia).
    unfold ind. split_ifs; decode; subst; lia.
Qed.

Lemma erc_mint_nn s t to x s' : nn s -> erc_mint s t to x = Some s' -> nn s'.
Proof.
  intros [Nb Ne] H. apply erc_mint_spec in H as [_ [Hx [He [_ [Hb _]]]]]. split.
  - intros. rewrite Hb. apply Nb.
  - intros t' a'. rewrite He. pose proof (Ne t' a'). pointwise.
Qed.

Lemma erc_burn_nn s t a x s' : nn s -> erc_burn s t a x = Some s' -> nn s'.
Proof.
  intros [Nb Ne] H. apply erc_burn_spec in H as [_ [Hx [He [_ [Hb _]]]]]. split.
  - intros. rewrite Hb. apply Nb.
  - intros t' a'. rewrite He. pose proof (Ne t' a'). pose proof (Ne t a). pointwise.
Qed.

Lemma measured_transfer_nn s t from to x s' got : nn s -> measured_transfer s t from to x = Some (s', got) -> nn s'.
Proof.
  intros N H. apply measured_transfer_spec in H as [b [_ [H _]]]. eapply erc_transfer_nn; eauto.
Qed.

(** * One transition that keeps the registry: sufficient conditions for the invariant *)
Definition good_step (s s' : st) : Prop :=
  frame_eq s s' /\
  (forall m, In m (reg s) -> slack s m <= slack s' m) /\
  (forall t, ~ In (DErc t) (map m_den (reg s)) -> supply s' (DErc t) = supply s (DErc t)) /\
  nn s'.

Lemma good_step_inv s s' : Inv s -> good_step s s' -> Inv s'.
Proof.
  intros I [[Fr [Fn Ft]] [Hs [Hu [Nb Ne]]]].
  constructor; rewrite ?Fr, ?Fn, ?Ft; try apply I.
  - intros m Hm. pose proof (inv_slack _ I m Hm). pose proof (Hs m Hm). lia.
  - intros t Hn. rewrite (Hu t Hn). apply (inv_unmapped _ I t Hn).
  - exact Nb.
  - exact Ne.
Qed.

Lemma inv_nn s : Inv s -> nn s.
Proof. intro I. split; apply I. Qed.

(** mapped ERC20-born denoms are the derived ones; an unmapped derived denom differs from every mapped denom *)
Lemma unmapped_neq s t m : ~ In (DErc t) (map m_den (reg s)) -> In m (reg s) -> DErc t <> m_den m.
Proof. intros Hn Hm E. apply Hn. rewrite E. apply in_map. exact Hm. Qed.

Ltac slack_cases I m m0 Hm Hm0 :=
  destruct (reg_cases _ m m0 I Hm Hm0) as [?|[?Ht ?Hd]];
  [subst m; rewrite ?denom_eqb_refl, ?Nat.eqb_refl
  |rewrite ?(denom_eqb_neq _ _ Hd), ?(proj2 (Nat.eqb_neq _ _) Ht)].

(** ** coin-born, towards the EVM: escrow the coin, mint the ERC20 (MsgConvertCoinToEvm and sendToEvm) *)
Lemma coin_to_evm_born_coin_good s m0 from x to s' :
  Inv s -> In m0 (reg s) -> m_coin m0 = true -> from <> Module ->
  coin_to_evm_born_coin s m0 from x to = Some s' ->
  good_step s s' /\ forall m, In m (reg s) -> slack s' m = slack s m.
Proof.
  intros I Hm0 Hc Hf H. unfold coin_to_evm_born_coin, bind in H.
  destruct (bank_send s from Module (m_den m0) x) as [s1|] eqn:E1; [|discriminate].
  pose proof (bank_send_nn _ _ _ _ _ _ (inv_nn _ I) E1) as N1.
  pose proof (erc_mint_nn _ _ _ _ _ N1 H) as N2.
  apply bank_send_spec in E1 as [F1 [X1 [B1 [S1 [Eb1 Es1]]]]].
  apply erc_mint_spec in H as [F2 [X2 [Eb2 [Es2 [B2 S2]]]]].
  assert (Hsl : forall m, In m (reg s) -> slack s' m = slack s m).
  { intros m Hm. unfold slack. rewrite Eb2, Es2, B2, S2, B1, S1, Eb1, Es1.
    slack_cases I m m0 Hm Hm0.
    - rewrite Hc. unfold ind. simpl. destruct (Nat.eqb Module from) eqn:E; decode; [congruence|lia].
    - unfold ind. destruct (m_coin m); lia. }
  split; [|exact Hsl]. split; [eapply frame_eq_trans; eauto|]. split; [|split].
  - intros m Hm. rewrite (Hsl m Hm). lia.
  - intros t _. rewrite S2, S1. reflexivity.
  - exact N2.
Qed.

(** what the module itself receives back when it releases [x] escrowed tokens of behaviour [b] to [to] *)
Definition module_gain (b : tbeh) (x : Z) (to : acct) : Z :=
  ind (Nat.eqb Module (tb_sink b)) (fee_of b x) + ind (Nat.eqb Module to) (x - fee_of b x).

Lemma module_gain_nonneg b x to : 0 <= x -> 0 <= module_gain b x to.
Proof. intro H. pose proof (fee_of_bounds b x H). unfold module_gain, ind. split_ifs; lia. Qed.

(** ** ERC20-born, towards the EVM, message path: coin to the module, burn it, release escrowed ERC20 *)
Lemma convert_born_erc20_good s m0 from x to s' :
  Inv s -> In m0 (reg s) -> m_coin m0 = false ->
  convert_born_erc20 s m0 from x to = Some s' ->
  good_step s s' /\ exists b, tk s (m_tok m0) = Some b /\ 0 <= x /\
    forall m, In m (reg s) -> slack s' m = slack s m + ind (Nat.eqb (m_tok m) (m_tok m0)) (module_gain b x to).
Proof.
  intros I Hm0 Hc H. unfold convert_born_erc20, bind in H.
  destruct (bank_send s from Module (m_den m0) x) as [s1|] eqn:E1; [|discriminate].
  destruct (bank_burn s1 Module (m_den m0) x) as [s2|] eqn:E2; [|discriminate].
  destruct (measured_transfer s2 (m_tok m0) Module to x) as [[s3 got]|] eqn:E3; [|discriminate].
  simpl in H. inversion H; subst s3; clear H.
  pose proof (bank_send_nn _ _ _ _ _ _ (inv_nn _ I) E1) as N1.
  pose proof (bank_burn_nn _ _ _ _ _ N1 E2) as N2.
  pose proof (measured_transfer_nn _ _ _ _ _ _ _ N2 E3) as N3.
  apply bank_send_spec in E1 as [F1 [X1 [B1 [S1 [Eb1 Es1]]]]].
  apply bank_burn_spec in E2 as [F2 [X2 [B2 [S2 [Eb2 Es2]]]]].
  apply measured_transfer_spec in E3 as [b [Tk [E3 [G Gp]]]].
  apply erc_transfer_spec in E3 as [F3 [X3 [Eb3 [B3 [S3 Es3]]]]].
  assert (Tk0 : tk s (m_tok m0) = Some b).
  { destruct F1 as [_ [_ T1]], F2 as [_ [_ T2]]. rewrite <- T1, <- T2. exact Tk. }
  assert (Hx : 0 <= x) by lia.
  pose proof (fee_of_bounds b x Hx) as Hf.
  assert (Hsl : forall m, In m (reg s) -> slack s' m = slack s m + ind (Nat.eqb (m_tok m) (m_tok m0)) (module_gain b x to)).
  { intros m Hm. unfold slack, module_gain. rewrite Eb3, Es3, B3, S3, B2, S2, Eb2, Es2, B1, S1, Eb1, Es1.
    slack_cases I m m0 Hm Hm0.
    - rewrite Hc. rewrite ?Nat.eqb_refl. unfold ind. split_ifs; decode; subst; try congruence; lia.
    - unfold ind. destruct (m_coin m); lia. }
  split.
  - split; [eapply frame_eq_trans; [eapply frame_eq_trans|]; eauto|]. split; [|split].
    + intros m Hm. rewrite (Hsl m Hm). pose proof (module_gain_nonneg b x to Hx). unfold ind. split_ifs; lia.
    + intros t Hn. rewrite S3, S2, S1. pose proof (unmapped_neq _ _ _ Hn Hm0) as Hne.
      rewrite (denom_eqb_neq _ _ Hne). unfold ind. lia.
    + exact N3.
  - exists b. auto.
Qed.

(** ** ERC20-born, towards the EVM, precompile path: coin to the module, release escrowed ERC20, burn the coin *)
Lemma send_to_evm_born_erc20_good s m0 from x to s' :
  Inv s -> In m0 (reg s) -> m_coin m0 = false ->
  send_to_evm_born_erc20 s m0 from x to = Some s' ->
  good_step s s' /\ exists b, tk s (m_tok m0) = Some b /\ 0 <= x /\
    forall m, In m (reg s) -> slack s' m = slack s m + ind (Nat.eqb (m_tok m) (m_tok m0)) (module_gain b x to).
Proof.
  intros I Hm0 Hc H. unfold send_to_evm_born_erc20, bind in H.
  destruct (bank_send s from Module (m_den m0) x) as [s1|] eqn:E1; [|discriminate].
  destruct (measured_transfer s1 (m_tok m0) Module to x) as [[s2 got]|] eqn:E2; [|discriminate].
  simpl in H. rename H into E3.
  pose proof (bank_send_nn _ _ _ _ _ _ (inv_nn _ I) E1) as N1.
  pose proof (measured_transfer_nn _ _ _ _ _ _ _ N1 E2) as N2.
  pose proof (bank_burn_nn _ _ _ _ _ N2 E3) as N3.
  apply bank_send_spec in E1 as [F1 [X1 [B1 [S1 [Eb1 Es1]]]]].
  apply measured_transfer_spec in E2 as [b [Tk [E2 [G Gp]]]].
  apply erc_transfer_spec in E2 as [F2 [X2 [Eb2 [B2 [S2 Es2]]]]].
  apply bank_burn_spec in E3 as [F3 [X3 [B3 [S3 [Eb3 Es3]]]]].
  assert (Tk0 : tk s (m_tok m0) = Some b).
  { destruct F1 as [_ [_ T1]]. rewrite <- T1. exact Tk. }
  assert (Hx : 0 <= x) by lia.
  pose proof (fee_of_bounds b x Hx) as Hf.
  assert (Hsl : forall m, In m (reg s) -> slack s' m = slack s m + ind (Nat.eqb (m_tok m) (m_tok m0)) (module_gain b x to)).
  { intros m Hm. unfold slack, module_gain. rewrite Eb3, Es3, B3, S3, B2, S2, Eb2, Es2, B1, S1, Eb1, Es1.
    slack_cases I m m0 Hm Hm0.
    - rewrite Hc. rewrite ?Nat.eqb_refl. unfold ind. split_ifs; decode; subst; try congruence; lia.
    - unfold ind. destruct (m_coin m); lia. }
  split.
  - split; [eapply frame_eq_trans; [eapply frame_eq_trans|]; eauto|]. split; [|split].
    + intros m Hm. rewrite (Hsl m Hm). pose proof (module_gain_nonneg b x to Hx). unfold ind. split_ifs; lia.
    + intros t Hn. rewrite S3, S2, S1. pose proof (unmapped_neq _ _ _ Hn Hm0) as Hne.
      rewrite (denom_eqb_neq _ _ Hne). unfold ind. lia.
    + exact N3.
  - exists b. auto.
Qed.

(** ** towards the bank (precompile sendToBank), both births: the credited amount is the measured increase *)
Lemma send_to_bank_good s m0 caller x to s' :
  Inv s -> In m0 (reg s) -> caller <> Module ->
  send_to_bank s m0 caller x to = Some s' ->
  good_step s s' /\ forall m, In m (reg s) -> slack s' m = slack s m.
Proof.
  intros I Hm0 Hcl H. unfold send_to_bank, bind in H.
  destruct (measured_transfer s (m_tok m0) caller Module x) as [[s1 got]|] eqn:E1; [|discriminate].
  pose proof (measured_transfer_nn _ _ _ _ _ _ _ (inv_nn _ I) E1) as N1.
  apply measured_transfer_spec in E1 as [b [Tk [E1 [G Gp]]]].
  apply erc_transfer_spec in E1 as [F1 [X1 [Eb1 [B1 [S1 Es1]]]]].
  destruct (m_coin m0) eqn:Hc.
  - (* coin-born: burn what arrived, release the same amount of escrowed coin *)
    destruct (erc_burn s1 (m_tok m0) Module got) as [s2|] eqn:E2; [|discriminate].
    destruct (guard (negb (blocked to))) eqn:Gd; [|discriminate]. simpl in H.
    unfold guard, blocked in Gd. destruct (Nat.eqb to Module) eqn:Eto; [discriminate|]. clear Gd.
    pose proof (erc_burn_nn _ _ _ _ _ N1 E2) as N2.
    pose proof (bank_send_nn _ _ _ _ _ _ N2 H) as N3.
    apply erc_burn_spec in E2 as [F2 [X2 [Eb2 [Es2 [B2 S2]]]]].
    apply bank_send_spec in H as [F3 [X3 [B3 [S3 [Eb3 Es3]]]]].
    assert (Hsl : forall m, In m (reg s) -> slack s' m = slack s m).
    { intros m Hm. unfold slack. rewrite Eb3, Es3, B3, S3, B2, S2, Eb2, Es2, B1, S1, Es1.
      slack_cases I m m0 Hm Hm0.
      - rewrite Hc. rewrite ?Nat.eqb_refl. rewrite (Nat.eqb_sym Module to), Eto. unfold ind. lia.
      - unfold ind. rewrite Eb1. rewrite (proj2 (Nat.eqb_neq _ _) Ht). unfold ind. destruct (m_coin m); lia. }
    split; [|exact Hsl].
    split; [eapply frame_eq_trans; [eapply frame_eq_trans|]; eauto|]. split; [|split].
    + intros m Hm. rewrite (Hsl m Hm). lia.
    + intros t _. rewrite S3, S2, S1. reflexivity.
    + exact N3.
  - (* ERC20-born: mint exactly the measured increase, send it on *)
    destruct (bank_mint s1 Module (m_den m0) got) as [s2|] eqn:E2; [|discriminate].
    destruct (guard (negb (blocked to))) eqn:Gd; [|discriminate]. simpl in H.
    unfold guard, blocked in Gd. destruct (Nat.eqb to Module) eqn:Eto; [discriminate|]. clear Gd.
    pose proof (bank_mint_nn _ _ _ _ _ N1 E2) as N2.
    pose proof (bank_send_nn _ _ _ _ _ _ N2 H) as N3.
    apply bank_mint_spec in E2 as [F2 [X2 [B2 [S2 [Eb2 Es2]]]]].
    apply bank_send_spec in H as [F3 [X3 [B3 [S3 [Eb3 Es3]]]]].
    assert (Hsl : forall m, In m (reg s) -> slack s' m = slack s m).
    { intros m Hm. unfold slack. rewrite Eb3, Es3, B3, S3, B2, S2, Eb2, Es2, B1, Es1.
      slack_cases I m m0 Hm Hm0.
      - rewrite Hc. rewrite G. rewrite S1. unfold ind. lia.
      - rewrite Eb1, S1. rewrite (proj2 (Nat.eqb_neq _ _) Ht). rewrite (Nat.eqb_sym Module to), Eto. unfold ind. destruct (m_coin m); lia. }
    split; [|exact Hsl].
    split; [eapply frame_eq_trans; [eapply frame_eq_trans|]; eauto|]. split; [|split].
    + intros m Hm. rewrite (Hsl m Hm). lia.
    + intros t Hn. rewrite S3, S2, S1. pose proof (unmapped_neq _ _ _ Hn Hm0) as Hne.
      rewrite (denom_eqb_neq _ _ Hne). unfold ind. lia.
    + exact N3.
Qed.

(** * Registry-changing steps *)
Lemma nodup_snoc {A} (l : list A) (x : A) : NoDup l -> ~ In x l -> NoDup (l ++ [x]).
Proof.
  induction l as [|a l IH]; simpl; intros Hn Hx; [constructor; [intros []|constructor]|].
  inversion Hn; subst. constructor.
  - intro Hin. apply in_app_or in Hin as [Hin|[Hin|[]]]; [contradiction|]. subst. apply Hx. left. reflexivity.
  - apply IH; [assumption|]. intro. apply Hx. right. assumption.
Qed.

Lemma slack_new_token s b owner x m :
  (m_tok m < next_tok s)%nat -> slack (new_token s b owner x) m = slack s m.
Proof.
  intro H. unfold slack, new_token, updT. simpl.
  assert (E : Nat.eqb (m_tok m) (next_tok s) = false) by (apply Nat.eqb_neq; lia).
  rewrite E. reflexivity.
Qed.

Lemma new_token_inv s b owner x : Inv s -> 0 <= x -> Inv (new_token s b owner x).
Proof.
  intros I Hx. constructor; simpl; try apply I.
  - intros m Hm. rewrite slack_new_token; [apply I; exact Hm | apply I; exact Hm].
  - intros m Hm. pose proof (inv_fresh _ I m Hm). lia.
  - intros t b0. unfold updT. destruct (Nat.eqb t (next_tok s)) eqn:E; decode.
    + intros _. lia.
    + intro H. pose proof (inv_tk _ I t b0 H). lia.
  - intros t a. destruct (Nat.eqb t (next_tok s)); [destruct (Nat.eqb a owner); lia | apply I].
Qed.

Lemma create_from_coin_gen_ok s dm d s' : Inv s -> create_coin_gen s d dm d = Some s' ->
  Inv s' /\ (forall m, In m (reg s) -> In m (reg s') /\ slack s' m = slack s m) /\
  exists t, reg s' = reg s ++ [{| m_tok := t; m_den := d; m_coin := true |}].
Proof.
  intros I H. unfold create_coin_gen, bind, guard in H.
  destruct (negb (is_some (find_den s d)) && meta s dm) eqn:G1; [|discriminate].
  destruct (negb (is_some (find_tok s (next_tok s)))) eqn:G2; [|discriminate].
  inversion H; subst s'; clear H. simpl.
  apply andb_true_iff in G1 as [G1 _]. apply negb_true_iff in G1.
  destruct (find_den s d) eqn:Fd; [discriminate|]. apply find_den_none in Fd.
  assert (Hold : forall m, In m (reg s) ->
            slack (set_reg (new_token s minter_beh Module 0)
                     (reg s ++ [{| m_tok := next_tok s; m_den := d; m_coin := true |}])) m = slack s m).
  { intros m Hm. rewrite <- (slack_new_token s minter_beh Module 0 m); [reflexivity | apply I; exact Hm]. }
  pose proof (new_token_inv s minter_beh Module 0 I ltac:(lia)) as I1.
  split; [|split].
  - constructor; simpl.
    + rewrite map_app. simpl. apply nodup_snoc; [apply I|].
      intro Hin. apply in_map_iff in Hin as [m [E Hm]]. pose proof (inv_fresh _ I m Hm). lia.
    + rewrite map_app. simpl. apply nodup_snoc; [apply I | exact Fd].
    + intros m Hm. apply in_app_or in Hm as [Hm|[Hm|[]]].
      * rewrite (Hold m Hm). apply I. exact Hm.
      * subst m. unfold slack. simpl. unfold updT. rewrite Nat.eqb_refl.
        pose proof (inv_bank_nn _ I Module d). lia.
    + intros m Hm. apply in_app_or in Hm as [Hm|[Hm|[]]].
      * pose proof (inv_fresh _ I m Hm). lia.
      * subst m. simpl. lia.
    + apply (inv_tk _ I1).
    + intros m Hm Hc. apply in_app_or in Hm as [Hm|[Hm|[]]]; [apply I; assumption | subst m; discriminate].
    + intros t Hn. apply (inv_unmapped _ I). intro Hin. apply Hn. rewrite map_app. apply in_or_app. left. exact Hin.
    + apply I.
    + apply (inv_ebal_nn _ I1).
  - intros m Hm. split; [apply in_or_app; left; exact Hm | apply Hold; exact Hm].
  - exists (next_tok s). reflexivity.
Qed.

Lemma create_from_coin_ok s d s' : Inv s -> create_coin_core s d = Some s' ->
  Inv s' /\ (forall m, In m (reg s) -> In m (reg s') /\ slack s' m = slack s m) /\
  exists t, reg s' = reg s ++ [{| m_tok := t; m_den := d; m_coin := true |}].
Proof. unfold create_coin_core. apply create_from_coin_gen_ok. Qed.

Lemma create_from_erc20_ok s t s' : Inv s -> create_erc20_core s t = Some s' ->
  Inv s' /\ (forall m, In m (reg s) -> In m (reg s') /\ slack s' m = slack s m) /\
  reg s' = reg s ++ [{| m_tok := t; m_den := DErc t; m_coin := false |}].
Proof.
  intros I H. unfold create_erc20_core, bind, guard in H.
  destruct (negb (is_some (find_tok s t)) && is_some (tk s t) && negb (meta s (DErc t))
            && negb (is_some (find_den s (DErc t)))) eqn:G; [|discriminate].
  inversion H; subst s'; clear H. simpl.
  apply andb_true_iff in G as [G G4]. apply andb_true_iff in G as [G _]. apply andb_true_iff in G as [G1 G2].
  apply negb_true_iff in G1, G4.
  destruct (find_tok s t) eqn:Ft; [discriminate|]. apply find_tok_none in Ft.
  destruct (find_den s (DErc t)) eqn:Fd; [discriminate|]. apply find_den_none in Fd.
  destruct (tk s t) as [b|] eqn:Tk; [|discriminate].
  split; [|split].
  - constructor; simpl.
    + rewrite map_app. simpl. apply nodup_snoc; [apply I | exact Ft].
    + rewrite map_app. simpl. apply nodup_snoc; [apply I | exact Fd].
    + intros m Hm. apply in_app_or in Hm as [Hm|[Hm|[]]].
      * apply (inv_slack _ I m Hm).
      * subst m. unfold slack. simpl. rewrite (inv_unmapped _ I t Fd). pose proof (inv_ebal_nn _ I t Module). lia.
    + intros m Hm. apply in_app_or in Hm as [Hm|[Hm|[]]].
      * apply I. exact Hm.
      * subst m. simpl. apply (inv_tk _ I t b Tk).
    + apply I.
    + intros m Hm Hc. apply in_app_or in Hm as [Hm|[Hm|[]]]; [apply I; assumption | subst m; reflexivity].
    + intros t' Hn. apply (inv_unmapped _ I). intro Hin. apply Hn. rewrite map_app. apply in_or_app. left. exact Hin.
    + apply I.
    + apply I.
  - intros m Hm. split; [apply in_or_app; left; exact Hm | reflexivity].
  - reflexivity.
Qed.

(** the CreateFunToken fee: burned from the sender, no margin moves *)
Lemma pay_create_fee_good s sender s0 : Inv s -> pay_create_fee s sender = Some s0 ->
  good_step s s0 /\ (forall m, In m (reg s) -> slack s0 m = slack s m) /\
  (forall d, bank s0 Module d = bank s Module d) /\ ebal s0 = ebal s.
Proof.
  intros I H. unfold pay_create_fee, bind, guard in H.
  destruct (negb (Nat.eqb sender Module)) eqn:G; [|discriminate]. decode.
  pose proof (bank_burn_nn _ _ _ _ _ (inv_nn _ I) H) as N.
  apply bank_burn_spec in H as [F [X [B [S [Eb Es]]]]].
  assert (Bm : forall d, bank s0 Module d = bank s Module d).
  { intro d. rewrite B. rewrite (proj2 (Nat.eqb_neq Module sender)) by congruence. unfold ind. split_ifs; lia. }
  assert (Hsl : forall m, In m (reg s) -> slack s0 m = slack s m).
  { intros m Hm. unfold slack. rewrite Bm, S, Eb, Es. destruct (m_coin m) eqn:Hc; [reflexivity|].
    rewrite (inv_erc_den _ I m Hm Hc). unfold DGas. simpl. unfold ind. lia. }
  split; [|split; [exact Hsl|split; [exact Bm|exact Eb]]].
  split; [exact F|]. split; [|split; [|exact N]].
  - intros m Hm. rewrite (Hsl m Hm). lia.
  - intros t _. rewrite S. unfold DGas. simpl. unfold ind. lia.
Qed.

(** * Every operation preserves the invariant, keeps every mapping, and never lowers a margin *)
Lemma good_step_ok s s' : Inv s -> good_step s s' ->
  Inv s' /\ forall m, In m (reg s) -> In m (reg s') /\ slack s m <= slack s' m.
Proof.
  intros I G. split; [eapply good_step_inv; eauto|].
  destruct G as [[Fr _] [Hs _]]. intros m Hm. rewrite Fr. split; [exact Hm | apply Hs; exact Hm].
Qed.

Lemma same_ok s : Inv s -> Inv s /\ forall m, In m (reg s) -> In m (reg s) /\ slack s m <= slack s m.
Proof. intro I. split; [exact I|]. intros. split; [assumption|lia]. Qed.

Lemma exec_ok s o s' : Inv s -> exec s o = Some s' ->
  Inv s' /\ forall m, In m (reg s) -> In m (reg s') /\ slack s m <= slack s' m.
Proof.
  intros I H. destruct o; simpl in H.
  - (* Fund *)
    destruct (is_coin d) eqn:Hd; [|discriminate].
    apply good_step_ok; [exact I|].
    pose proof (bank_mint_nn _ _ _ _ _ (inv_nn _ I) H) as N.
    apply bank_mint_spec in H as [F [X [B [S [Eb Es]]]]].
    split; [exact F|]. split; [|split; [|exact N]].
    + intros m Hm. unfold slack. rewrite B, S, Eb, Es. destruct (m_coin m) eqn:Hc.
      * unfold ind. split_ifs; lia.
      * rewrite (inv_erc_den _ I m Hm Hc). rewrite (erc_eqb_coin _ _ Hd). unfold ind. lia.
    + intros t _. rewrite S. rewrite (erc_eqb_coin _ _ Hd). unfold ind. lia.
  - (* SetMeta *)
    destruct (is_coin d); [|discriminate]. inversion H; subst s'. 
    split; [constructor; simpl; apply I|]. intros m Hm. split; [exact Hm|]. unfold slack. simpl. lia.
  - (* Deploy *)
    unfold bind, guard in H. destruct (negb (Nat.eqb owner Module) && (0 <=? x)) eqn:G; [|discriminate].
    inversion H; subst s'; clear H. decode.
    split; [apply new_token_inv; assumption|].
    intros m Hm. split; [exact Hm|]. rewrite slack_new_token; [lia | apply I; exact Hm].
  - (* CreateFromCoin *)
    unfold bind in H. destruct (pay_create_fee s sender) as [s0|] eqn:Pf; [|discriminate].
    destruct (pay_create_fee_good s sender s0 I Pf) as [G0 [K0 _]].
    destruct (good_step_ok s s0 I G0) as [I0 R0].
    destruct (create_from_coin_ok s0 d s' I0 H) as [I' [Hk _]]. split; [exact I'|].
    intros m Hm. destruct (R0 m Hm) as [A0 _]. destruct (Hk m A0) as [A B]. split; [exact A|].
    rewrite B, (K0 m Hm). lia.
  - (* CreateFromErc20 *)
    unfold bind in H. destruct (pay_create_fee s sender) as [s0|] eqn:Pf; [|discriminate].
    destruct (pay_create_fee_good s sender s0 I Pf) as [G0 [K0 _]].
    destruct (good_step_ok s s0 I G0) as [I0 R0].
    destruct (create_from_erc20_ok s0 t s' I0 H) as [I' [Hk _]]. split; [exact I'|].
    intros m Hm. destruct (R0 m Hm) as [A0 _]. destruct (Hk m A0) as [A B]. split; [exact A|].
    rewrite B, (K0 m Hm). lia.
  - (* ConvertCoinToEvm *)
    unfold bind, guard in H. destruct (negb (Nat.eqb sender Module)) eqn:G; [|discriminate]. decode.
    destruct (find_den s d) as [m0|] eqn:Fd; [|discriminate]. apply find_den_some in Fd as [Hm0 _].
    apply good_step_ok; [exact I|]. destruct (m_coin m0) eqn:Hc.
    + eapply coin_to_evm_born_coin_good; eauto.
    + eapply convert_born_erc20_good; eauto.
  - (* SendToBank *)
    unfold bind, guard in H. destruct (negb (Nat.eqb caller Module) && (0 <? x)) eqn:G; [|discriminate]. decode.
    destruct (find_tok s t) as [m0|] eqn:Ft; [|discriminate]. apply find_tok_some in Ft as [Hm0 _].
    apply good_step_ok; [exact I|]. eapply send_to_bank_good; eauto.
  - (* SendToEvm *)
    unfold bind, guard in H. destruct (negb (Nat.eqb caller Module) && (0 <? x)) eqn:G; [|discriminate]. decode.
    destruct (find_den s d) as [m0|] eqn:Fd; [|discriminate]. apply find_den_some in Fd as [Hm0 _].
    apply good_step_ok; [exact I|]. destruct (m_coin m0) eqn:Hc.
    + eapply coin_to_evm_born_coin_good; eauto.
    + eapply send_to_evm_born_erc20_good; eauto.
  - (* BankMsgSend *)
    unfold bind, guard in H.
    destruct (negb (Nat.eqb caller Module) && (0 <? x) && negb (blocked to)) eqn:G; [|discriminate].
    unfold blocked in G. decode.
    apply good_step_ok; [exact I|].
    pose proof (bank_send_nn _ _ _ _ _ _ (inv_nn _ I) H) as N.
    apply bank_send_spec in H as [F [X [B [S [Eb Es]]]]].
    split; [exact F|]. split; [|split; [|exact N]].
    + intros m Hm. unfold slack. rewrite B, S, Eb, Es.
      rewrite (proj2 (Nat.eqb_neq Module to)), (proj2 (Nat.eqb_neq Module caller)) by congruence.
      unfold ind. split_ifs; lia.
    + intros t0 _. rewrite S. reflexivity.
  - (* Erc20Transfer *)
    unfold bind, guard in H. destruct (negb (Nat.eqb caller Module)) eqn:G; [|discriminate]. decode.
    destruct (tk s t) as [b|] eqn:Tk; [|inversion H; subst; apply same_ok; exact I].
    destruct (tb_heavy b); [discriminate|].
    apply good_step_ok; [exact I|].
    pose proof (erc_transfer_nn _ _ _ _ _ _ _ (inv_nn _ I) H) as N.
    apply erc_transfer_spec in H as [F [X [Eb [B [S Es]]]]].
    assert (Hf : 0 <= fee_of b x <= x) by (apply fee_of_bounds; lia).
    split; [exact F|]. split; [|split; [|exact N]].
    + intros m Hm. unfold slack. rewrite B, S, Eb, Es.
      rewrite (proj2 (Nat.eqb_neq Module caller)) by congruence.
      unfold ind. split_ifs; lia.
    + intros t0 _. rewrite S. reflexivity.
  - (* Erc20Burn *)
    unfold bind, guard in H. destruct (negb (Nat.eqb caller Module)) eqn:G; [|discriminate]. decode.
    destruct (tk s t) as [b|] eqn:Tk; [|inversion H; subst; apply same_ok; exact I].
    destruct (tb_burn b); [|discriminate]. simpl in H.
    apply good_step_ok; [exact I|].
    pose proof (erc_burn_nn _ _ _ _ _ (inv_nn _ I) H) as N.
    apply erc_burn_spec in H as [F [X [Eb [Es [B S]]]]].
    split; [exact F|]. split; [|split; [|exact N]].
    + intros m Hm. unfold slack. rewrite B, S, Eb, Es.
      rewrite (proj2 (Nat.eqb_neq Module caller)) by congruence.
      unfold ind. split_ifs; lia.
    + intros t0 _. rewrite S. reflexivity.
  - (* TfCreate *)
    destruct (is_coin d); [|discriminate]. unfold bind, guard in H.
    destruct (negb (Nat.eqb creator Module) && negb (is_some (tfadmin s d))); [|discriminate].
    inversion H; subst s'.
    split; [constructor; simpl; apply I|]. intros m Hm. split; [exact Hm|]. unfold slack. simpl. lia.
  - (* TfMint *)
    destruct (is_coin d) eqn:Hd; [|discriminate]. unfold bind, guard in H.
    destruct (is_admin s d sender && (0 <? x) && negb (blocked to)); [|discriminate].
    apply good_step_ok; [exact I|].
    pose proof (bank_mint_nn _ _ _ _ _ (inv_nn _ I) H) as N.
    apply bank_mint_spec in H as [F [X [B [S [Eb Es]]]]].
    split; [exact F|]. split; [|split; [|exact N]].
    + intros m Hm. unfold slack. rewrite B, S, Eb, Es. destruct (m_coin m) eqn:Hc.
      * unfold ind. split_ifs; lia.
      * rewrite (inv_erc_den _ I m Hm Hc). rewrite (erc_eqb_coin _ _ Hd). unfold ind. lia.
    + intros t _. rewrite S. rewrite (erc_eqb_coin _ _ Hd). unfold ind. lia.
  - (* TfBurn: the bank's blocked list is what keeps a denom admin out of the escrow *)
    destruct (is_coin d) eqn:Hd; [|discriminate]. unfold bind, guard in H.
    destruct (is_admin s d sender && (0 <? x) && negb (blocked from)) eqn:G; [|discriminate].
    unfold blocked in G. decode.
    apply good_step_ok; [exact I|].
    pose proof (bank_burn_nn _ _ _ _ _ (inv_nn _ I) H) as N.
    apply bank_burn_spec in H as [F [X [B [S [Eb Es]]]]].
    split; [exact F|]. split; [|split; [|exact N]].
    + intros m Hm. unfold slack. rewrite B, S, Eb, Es.
      rewrite (proj2 (Nat.eqb_neq Module from)) by congruence. destruct (m_coin m) eqn:Hc.
      * unfold ind. split_ifs; lia.
      * rewrite (inv_erc_den _ I m Hm Hc). rewrite (erc_eqb_coin _ _ Hd). unfold ind. lia.
    + intros t _. rewrite S. rewrite (erc_eqb_coin _ _ Hd). unfold ind. lia.
  - (* TfChangeAdmin *)
    unfold bind, guard in H. destruct (is_admin s d sender); [|discriminate]. inversion H; subst s'.
    split; [constructor; simpl; apply I|]. intros m Hm. split; [exact Hm|]. unfold slack. simpl. lia.
  - discriminate.
  - discriminate.
  - discriminate.
  - discriminate.
  - discriminate.
Qed.

(** other modules' transactions leave the escrow alone: no tokenfactory admin operation and no bank send changes any
    balance of the EVM module account (the account is on the bank's blocked list) *)
Lemma escrow_untouched_by_other_modules s o s' : exec s o = Some s' ->
  match o with
  | TfCreate _ _ | TfMint _ _ _ _ | TfBurn _ _ _ _ | TfChangeAdmin _ _ _ | BankMsgSend _ _ _ _ => True
  | _ => False
  end ->
  forall d, bank s' Module d = bank s Module d.
Proof.
  intros H Ho d0. destruct o; try contradiction; simpl in H; unfold bind, guard in H.
  - destruct (negb (Nat.eqb caller Module) && (0 <? x) && negb (blocked to)) eqn:G; [|discriminate].
    unfold blocked in G. decode.
    apply bank_send_spec in H as [_ [_ [B _]]]. rewrite B.
    rewrite (proj2 (Nat.eqb_neq Module to)), (proj2 (Nat.eqb_neq Module caller)) by congruence. unfold ind. split_ifs; lia.
  - destruct (is_coin d); [|discriminate].
    destruct (negb (Nat.eqb creator Module) && negb (is_some (tfadmin s d))); [|discriminate].
    inversion H; subst s'. reflexivity.
  - destruct (is_coin d); [|discriminate].
    destruct (is_admin s d sender && (0 <? x) && negb (blocked to)) eqn:G; [|discriminate].
    unfold blocked in G. decode.
    apply bank_mint_spec in H as [_ [_ [B _]]]. rewrite B.
    rewrite (proj2 (Nat.eqb_neq Module to)) by congruence. unfold ind. split_ifs; lia.
  - destruct (is_coin d); [|discriminate].
    destruct (is_admin s d sender && (0 <? x) && negb (blocked from)) eqn:G; [|discriminate].
    unfold blocked in G. decode.
    apply bank_burn_spec in H as [_ [_ [B _]]]. rewrite B.
    rewrite (proj2 (Nat.eqb_neq Module from)) by congruence. unfold ind. split_ifs; lia.
  - destruct (is_admin s d sender); [|discriminate]. inversion H; subst s'. reflexivity.
Qed.

(** * Transactions (framed operations) and histories *)
Definition unframed (o : op) : Prop := match o with Framed _ _ | Seq _ _ => False | _ => True end.

Lemma step_unframed s o : unframed o ->
  step s o = match exec s o with Some s' => (s', true) | None => (s, false) end.
Proof. destruct o; simpl; intro H; try reflexivity; contradiction. Qed.

Lemma step_ok s o : Inv s ->
  Inv (fst (step s o)) /\ forall m, In m (reg s) -> In m (reg (fst (step s o))) /\ slack s m <= slack (fst (step s o)) m.
Proof.
  revert s. induction o; intros s I;
    try (rewrite step_unframed by exact Logic.I;
         match goal with |- context [exec s ?o] => destruct (exec s o) as [s'|] eqn:E end;
         [exact (exec_ok _ _ _ I E) | apply same_ok; exact I]).
  - simpl. match goal with f : frame |- _ => destruct f end; simpl; try (apply same_ok; exact I); apply IHo; exact I.
  - simpl. destruct (snd (step s o1)); [|apply same_ok; exact I].
    destruct (IHo1 s I) as [I1 K1].
    destruct (snd (step (fst (step s o1)) o2)); [|apply same_ok; exact I]. simpl.
    destruct (IHo2 _ I1) as [I2 K2]. split; [exact I2|].
    intros m Hm. destruct (K1 m Hm) as [A1 B1]. destruct (K2 m A1) as [A2 B2]. split; [exact A2 | lia].
Qed.

Lemma init_inv : Inv init.
Proof.
  constructor; simpl; try (intros; contradiction); try (intros; lia); try constructor;
    try (intros; discriminate); try (intros; reflexivity).
Qed.

Lemma run_inv s ops : Inv s -> Inv (run s ops).
Proof.
  revert s. induction ops as [|o r IH]; intros s I; [exact I|].
  unfold run. simpl. apply IH. apply step_ok. exact I.
Qed.

(** * From the invariant to the observable property *)
Lemma backed_view s m : backed (view_map s m) <-> 0 <= slack s m.
Proof. unfold backed, slack, view_map. simpl. destruct (m_coin m); lia. Qed.

Lemma inv_P_obs s : Inv s -> P_obs (view s).
Proof.
  intro I. unfold P_obs, unique, view. rewrite !map_map. simpl. split; [split; apply I|].
  apply Forall_forall. intros o Ho. apply in_map_iff in Ho as [m [E Hm]]. subst o.
  apply backed_view. apply I. exact Hm.
Qed.

Lemma views_P s ops : Inv s -> P (views s ops).
Proof.
  revert s. induction ops as [|o r IH]; intros s I; simpl; [constructor|].
  pose proof (proj1 (step_ok s o I)) as I'. constructor; [apply inv_P_obs; exact I' | apply IH; exact I'].
Qed.

Lemma backing_invariant ops : P (views init ops).
Proof. apply views_P. exact init_inv. Qed.

Lemma backing_invariant_state ops :
  forall m, In m (reg (run init ops)) ->
    (m_coin m = true -> esup (run init ops) (m_tok m) <= bank (run init ops) Module (m_den m)) /\
    (m_coin m = false -> supply (run init ops) (m_den m) <= ebal (run init ops) (m_tok m) Module).
Proof.
  intros m Hm. pose proof (inv_slack _ (run_inv init ops init_inv) m Hm) as H. unfold slack in H.
  split; intro Hc; rewrite Hc in H; lia.
Qed.

(** * Uniqueness of mappings *)
Lemma unique_mapping ops :
  NoDup (map m_tok (reg (run init ops))) /\ NoDup (map m_den (reg (run init ops))).
Proof. pose proof (run_inv init ops init_inv) as I. split; apply I. Qed.

Lemma pay_create_fee_reg s sender s0 : pay_create_fee s sender = Some s0 -> reg s0 = reg s /\ tk s0 = tk s.
Proof.
  unfold pay_create_fee, bind, guard. destruct (negb (Nat.eqb sender Module)); [|discriminate].
  intro H. apply bank_burn_spec in H as [[F1 [F2 F3]] _]. auto.
Qed.

Lemma create_coin_rejected s sender d : In d (map m_den (reg s)) -> exec s (CreateFromCoin sender d) = None.
Proof.
  intro H. simpl. unfold bind. destruct (pay_create_fee s sender) as [s0|] eqn:Pf; [|reflexivity].
  destruct (pay_create_fee_reg _ _ _ Pf) as [R _].
  assert (H0 : In d (map m_den (reg s0))) by (rewrite R; exact H).
  destruct (find_den_in s0 d H0) as [m E]. unfold create_coin_core, create_coin_gen. rewrite E. reflexivity.
Qed.

Lemma create_erc20_rejected s sender t :
  In t (map m_tok (reg s)) \/ In (DErc t) (map m_den (reg s)) -> exec s (CreateFromErc20 sender t) = None.
Proof.
  intro H. simpl. unfold bind. destruct (pay_create_fee s sender) as [s0|] eqn:Pf; [|reflexivity].
  destruct (pay_create_fee_reg _ _ _ Pf) as [R _]. unfold create_erc20_core. rewrite <- R in H.
  destruct H as [H|H].
  - destruct (find_tok_in s0 t H) as [m E]. rewrite E. reflexivity.
  - destruct (find_den_in s0 _ H) as [m E]. rewrite E. simpl. rewrite !andb_false_r. reflexivity.
Qed.

(** a failed or reverted transaction changes nothing at all *)
Lemma rejected_changes_nothing s o : snd (step s o) = false -> fst (step s o) = s.
Proof.
  revert s. induction o; intro s;
    try (rewrite step_unframed by exact Logic.I;
         match goal with |- context [exec ?s0 ?o] => destruct (exec s0 o) end; simpl; [discriminate | reflexivity]).
  - simpl. match goal with f : frame |- _ => destruct f end; simpl; try reflexivity; try discriminate; apply IHo.
  - simpl. destruct (snd (step s o1)); [|reflexivity].
    destruct (snd (step (fst (step s o1)) o2)); [discriminate | reflexivity].
Qed.

Lemma reverted_frame_changes_nothing s o :
  fst (step s (Framed FInnerRevert o)) = s /\ fst (step s (Framed FRevertTop o)) = s /\ fst (step s (Framed FOog o)) = s.
Proof. simpl. auto. Qed.

(** * The amount credited on one side is the measured amount on the other *)
Lemma send_to_bank_amounts s m0 caller x to s' :
  Inv s -> In m0 (reg s) -> caller <> Module ->
  send_to_bank s m0 caller x to = Some s' ->
  let d := m_den m0 in let t := m_tok m0 in
  let got := bank s' to d - bank s to d in
  0 < got <= x /\
  (m_coin m0 = true -> esup s t - esup s' t = got /\ bank s Module d - bank s' Module d = got) /\
  (m_coin m0 = false -> supply s' d - supply s d = got /\ ebal s' t Module - ebal s t Module = got).
Proof.
  intros I Hm0 Hcl H. unfold send_to_bank, bind in H.
  destruct (measured_transfer s (m_tok m0) caller Module x) as [[s1 g]|] eqn:E1; [|discriminate].
  apply measured_transfer_spec in E1 as [b [Tk [E1 [G Gp]]]].
  apply erc_transfer_spec in E1 as [F1 [X1 [Eb1 [B1 [S1 Es1]]]]].
  assert (Hf : 0 <= fee_of b x <= x) by (apply fee_of_bounds; lia).
  assert (Hg : g <= x).
  { rewrite G, Eb1. rewrite Nat.eqb_refl. rewrite (proj2 (Nat.eqb_neq Module caller)) by congruence.
    unfold ind. split_ifs; lia. }
  destruct (m_coin m0) eqn:Hc.
  - destruct (erc_burn s1 (m_tok m0) Module g) as [s2|] eqn:E2; [|discriminate].
    destruct (guard (negb (blocked to))) eqn:Gd; [|discriminate]. simpl in H.
    unfold guard, blocked in Gd. destruct (Nat.eqb to Module) eqn:Eto; [discriminate|]. clear Gd.
    apply erc_burn_spec in E2 as [F2 [X2 [Eb2 [Es2 [B2 S2]]]]].
    apply bank_send_spec in H as [F3 [X3 [B3 [S3 [Eb3 Es3]]]]].
    simpl. rewrite !B3, Es3, Es2, B2, B1, Es1. rewrite denom_eqb_refl, !Nat.eqb_refl.
    rewrite Eto, (Nat.eqb_sym Module to), Eto. unfold ind.
    split; [lia|]. split; [intros _; lia | discriminate].
  - destruct (bank_mint s1 Module (m_den m0) g) as [s2|] eqn:E2; [|discriminate].
    destruct (guard (negb (blocked to))) eqn:Gd; [|discriminate]. simpl in H.
    unfold guard, blocked in Gd. destruct (Nat.eqb to Module) eqn:Eto; [discriminate|]. clear Gd.
    apply bank_mint_spec in E2 as [F2 [X2 [B2 [S2 [Eb2 Es2]]]]].
    apply bank_send_spec in H as [F3 [X3 [B3 [S3 [Eb3 Es3]]]]].
    simpl. rewrite !B3, S3, S2, Eb3, Eb2, !B2, B1, S1. rewrite denom_eqb_refl, !Nat.eqb_refl.
    rewrite Eto. unfold ind.
    split; [lia|]. split; [discriminate | intros _; lia].
Qed.

(** coin-born towards the EVM: recipient's ERC20 credit = ERC20 supply increase = escrow increase = amount *)
Lemma coin_to_evm_amounts s m0 from x to s' :
  from <> Module -> coin_to_evm_born_coin s m0 from x to = Some s' ->
  let d := m_den m0 in let t := m_tok m0 in
  0 <= x /\ ebal s' t to - ebal s t to = x /\ esup s' t - esup s t = x /\
  bank s' Module d - bank s Module d = x /\ bank s from d - bank s' from d = x.
Proof.
  intros Hf H. unfold coin_to_evm_born_coin, bind in H.
  destruct (bank_send s from Module (m_den m0) x) as [s1|] eqn:E1; [|discriminate].
  apply bank_send_spec in E1 as [F1 [X1 [B1 [S1 [Eb1 Es1]]]]].
  apply erc_mint_spec in H as [F2 [X2 [Eb2 [Es2 [B2 S2]]]]].
  simpl. rewrite Eb2, Es2, B2, !B1, Eb1, Es1. rewrite denom_eqb_refl, !Nat.eqb_refl.
  rewrite (proj2 (Nat.eqb_neq Module from)), (proj2 (Nat.eqb_neq from Module)) by congruence.
  unfold ind. lia.
Qed.

(** * Reachable states *)
Definition reachable (s : st) : Prop := exists ops, s = run init ops.

Lemma reachable_inv s : reachable s -> Inv s.
Proof. intros [ops E]. subst. apply run_inv. exact init_inv. Qed.

Lemma reachable_step s o : reachable s -> reachable (fst (step s o)).
Proof.
  intros [ops E]. exists (ops ++ [o]). subst. unfold run. rewrite fold_left_app. reflexivity.
Qed.

Lemma exec_send_to_bank s caller t x to s' : exec s (SendToBank caller t x to) = Some s' ->
  exists m0, find_tok s t = Some m0 /\ caller <> Module /\ 0 < x /\ send_to_bank s m0 caller x to = Some s'.
Proof.
  simpl. unfold bind, guard. destruct (negb (Nat.eqb caller Module) && (0 <? x)) eqn:G; [|discriminate]. decode.
  destruct (find_tok s t) as [m0|]; [|discriminate]. intro Hs. exists m0. auto.
Qed.

Lemma send_to_bank_credits_measured s caller t x to s' :
  reachable s -> exec s (SendToBank caller t x to) = Some s' ->
  exists m0, In m0 (reg s) /\ m_tok m0 = t /\
    let d := m_den m0 in
    let got := bank s' to d - bank s to d in
    0 < got <= x /\
    (m_coin m0 = true -> esup s t - esup s' t = got /\ bank s Module d - bank s' Module d = got) /\
    (m_coin m0 = false -> supply s' d - supply s d = got /\ ebal s' t Module - ebal s t Module = got) /\
    (forall m, In m (reg s) -> slack s' m = slack s m).
Proof.
  intros R H0. apply exec_send_to_bank in H0 as [m0 [Ft [Hc [Hx H]]]].
  apply find_tok_some in Ft as [Hm0 Et]. exists m0. split; [exact Hm0|]. split; [exact Et|].
  pose proof (send_to_bank_amounts s m0 caller x to s' (reachable_inv _ R) Hm0 Hc H) as A.
  pose proof (send_to_bank_good s m0 caller x to s' (reachable_inv _ R) Hm0 Hc H) as [_ G].
  simpl in A. rewrite Et in A. simpl. destruct A as [A1 [A2 A3]]. auto.
Qed.

Lemma to_evm_coin_born_credits_amount s o from d x to s' :
  (o = ConvertCoinToEvm from d x to \/ o = SendToEvm from d x to) ->
  reachable s -> exec s o = Some s' ->
  forall m0, find_den s d = Some m0 -> m_coin m0 = true ->
    let t := m_tok m0 in
    0 <= x /\ ebal s' t to - ebal s t to = x /\ esup s' t - esup s t = x /\
    bank s' Module d - bank s Module d = x /\ bank s from d - bank s' from d = x /\
    (forall m, In m (reg s) -> slack s' m = slack s m).
Proof.
  intros Ho R H m0 Fd Hc. pose proof (reachable_inv _ R) as I.
  destruct (find_den_some _ _ _ Fd) as [Hm0 Ed].
  assert (K : from <> Module /\ coin_to_evm_born_coin s m0 from x to = Some s').
  { destruct Ho; subst o; simpl in H; unfold bind, guard in H.
    - destruct (negb (Nat.eqb from Module)) eqn:G; [|discriminate]. decode. rewrite Fd, Hc in H. auto.
    - destruct (negb (Nat.eqb from Module) && (0 <? x)) eqn:G; [|discriminate]. decode. rewrite Fd, Hc in H. auto. }
  destruct K as [Hf K].
  pose proof (coin_to_evm_amounts s m0 from x to s' Hf K) as A. simpl in A. rewrite Ed in A.
  pose proof (coin_to_evm_born_coin_good s m0 from x to s' I Hm0 Hc Hf K) as [_ G].
  simpl. destruct A as [A1 [A2 [A3 [A4 A5]]]]. auto 10.
Qed.

Lemma to_evm_erc20_born_margin s o from d x to s' :
  (o = ConvertCoinToEvm from d x to \/ o = SendToEvm from d x to) ->
  reachable s -> exec s o = Some s' ->
  forall m0, find_den s d = Some m0 -> m_coin m0 = false ->
    exists b, tk s (m_tok m0) = Some b /\ 0 <= x /\
      forall m, In m (reg s) -> slack s' m = slack s m + ind (Nat.eqb (m_tok m) (m_tok m0)) (module_gain b x to).
Proof.
  intros Ho R H m0 Fd Hc. pose proof (reachable_inv _ R) as I.
  destruct (find_den_some _ _ _ Fd) as [Hm0 Ed].
  destruct Ho; subst o; simpl in H; unfold bind, guard in H.
  - destruct (negb (Nat.eqb from Module)) eqn:G; [|discriminate]. rewrite Fd, Hc in H.
    apply (convert_born_erc20_good s m0 from x to s' I Hm0 Hc H).
  - destruct (negb (Nat.eqb from Module) && (0 <? x)) eqn:G; [|discriminate]. rewrite Fd, Hc in H.
    apply (send_to_evm_born_erc20_good s m0 from x to s' I Hm0 Hc H).
Qed.

(** * Non-vacuity: a concrete history with both births, a fee-on-transfer token, both directions *)
Definition fee10 (sink : acct) : tbeh :=
  {| tb_fee := fun x => x * 10 / 100; tb_sink := sink; tb_heavy := false; tb_false := false; tb_burn := false; tb_pos := true |}.

Definition ex_ops : list op :=
  [ SetMeta (DCoin 0); Fund 3 (DCoin 0) 1000; Fund 3 DGas 100000000000;
    CreateFromCoin 3 (DCoin 0);                         (* token 0, coin-born *)
    ConvertCoinToEvm 3 (DCoin 0) 300 1;
    SendToBank 1 0 70 4;
    Framed FInnerRevert (SendToBank 1 0 50 4);
    Deploy 1 (fee10 (tok_addr 1)) 1000;                 (* token 1, fee on transfer *)
    CreateFromErc20 3 1;
    SendToBank 1 1 100 3;                               (* module measures +90, mints 90 *)
    ConvertCoinToEvm 3 (DErc 1) 40 2;                   (* burns 40, releases 40 (recipient gets 36) *)
    CreateFromCoin 3 (DCoin 0); CreateFromErc20 3 1; CreateFromErc20 3 0 ]%nat.

Example ex_ops_outcomes :
  map (fun o => snd o) (snd (fold_left (fun acc o => let r := step (fst acc) o in (fst r, snd acc ++ [(o, snd r)])) ex_ops (init, [])))
  = [true; true; true; true; true; true; true; true; true; true; true; false; false; false].
Proof. vm_compute. reflexivity. Qed.

Example ex_ops_view :
  view (run init ex_ops) =
  [ {| mo_map := {| m_tok := 0; m_den := DCoin 0; m_coin := true |}; mo_esup := 230; mo_emod := 0; mo_bsup := 1000; mo_bmod := 230 |};
    {| mo_map := {| m_tok := 1; m_den := DErc 1; m_coin := false |}; mo_esup := 1000; mo_emod := 50; mo_bsup := 50; mo_bmod := 0 |} ]%nat.
Proof. vm_compute. reflexivity. Qed.

Example backing_invariant_nonvacuous :
  exists ops, length (reg (run init ops)) = 2%nat /\ P (views init ops) /\
    exists o, In o (view (run init ops)) /\ m_coin (mo_map o) = false /\ 0 < mo_bsup o.
Proof.
  exists ex_ops. split; [vm_compute; reflexivity|]. split; [apply backing_invariant|].
  rewrite ex_ops_view. eexists. split; [right; left; reflexivity|]. simpl. split; [reflexivity|lia].
Qed.

Example send_to_bank_credits_measured_nonvacuous :
  exists s caller t x to s', reachable s /\ exec s (SendToBank caller t x to) = Some s' /\
    bank s' to (DErc t) - bank s to (DErc t) = 90 /\ x = 100.
Proof.
  exists (run init (firstn 9 ex_ops)), 1%nat, 1%nat, 100, 3%nat.
  eexists. split; [exists (firstn 9 ex_ops); reflexivity|]. split; [vm_compute; reflexivity|].
  vm_compute. split; reflexivity.
Qed.

(** Non-vacuity for the tokenfactory class: a factory denom with a coin-born mapping; its admin can burn a user's
    coins but not the escrow, cannot mint into the escrow, and neither can anybody send coins there *)
Definition tf0 : denom := DCoin 2030.
Definition ex_tf_ops : list op :=
  [ Fund 3 DGas 100000000000; TfCreate 3 tf0; TfMint 3 tf0 1000 3; TfMint 3 tf0 500 4;
    CreateFromCoin 3 tf0; ConvertCoinToEvm 3 tf0 600 1;
    TfBurn 3 tf0 250 Module;          (* refused: the module account is blocked *)
    TfBurn 3 tf0 250 4;               (* accepted: any other account *)
    TfMint 3 tf0 10 Module;           (* refused *)
    BankMsgSend 4 Module tf0 5;       (* refused *)
    TfChangeAdmin 3 tf0 4; TfBurn 3 tf0 1 4; TfBurn 4 tf0 1 3 ]%nat.

Example ex_tf_outcomes :
  map (fun o => snd o) (snd (fold_left (fun acc o => let r := step (fst acc) o in (fst r, snd acc ++ [(o, snd r)])) ex_tf_ops (init, [])))
  = [true; true; true; true; true; true; false; true; false; false; true; false; true].
Proof. vm_compute. reflexivity. Qed.

Example ex_tf_view :
  view (run init ex_tf_ops) =
  [ {| mo_map := {| m_tok := 0; m_den := tf0; m_coin := true |}; mo_esup := 600; mo_emod := 0; mo_bsup := 1249; mo_bmod := 600 |} ]%nat.
Proof. vm_compute. reflexivity. Qed.
