(** C06 — proofs (under construction) *)
From Coq Require Import List Bool Arith ZArith Lia.
Import ListNotations.
Require Import Nib.C06.Model Nib.C06.Spec.
