(** C06 — evaluation of implementation traces: correspondence (model vs observed after every
    transaction) and the property predicate [Pb] on the observed numbers themselves. *)
From Coq Require Import List Bool Arith ZArith.
Import ListNotations.
Require Import Nib.C06.Model Nib.C06.Spec.
Local Open Scope Z_scope.

(** what the harness observed after one transaction: accepted?, every mapping with its four
    numbers, and the ERC20 / bank balances of the fixed actor accounts for the token / denom
    the op touched *)
Record sobs := {
  so_ok : bool;
  so_reg : list mobs;
  so_tt : option tok;  so_ebal : list Z;     (* balanceOf over [actors_e t] *)
  so_td : option denom; so_bbal : list Z;    (* bank balance over [actors_b] *)
  (* the registry as the two real indexes answer: FunTokens.Indexes.BankDenom.ExactMatch under every spelling the
     driver asked for (the spelled denom of a CreateFunToken, the other spellings of its name, every registered denom),
     FunTokens.Indexes.ERC20Addr.ExactMatch for every known contract *)
  so_lkd : list (denom * list mapping);
  so_lkt : list (tok * list mapping)
}.

Definition case : Type := list (op * sobs).

(** the fixed actors: module, two EOAs, two Cosmos accounts, the forwarder contract, a cold address, the forwarder's
    CosmWasm (reflect) contract *)
Definition actors : list acct := [0; 1; 2; 3; 4; 5; 6; 7]%nat.
Definition actors_e (t : tok) : list acct := actors ++ [tok_addr t].

Definition mapping_eqb (a b : mapping) : bool :=
  Nat.eqb (m_tok a) (m_tok b) && denom_eqb (m_den a) (m_den b) && Bool.eqb (m_coin a) (m_coin b).

Definition mobs_eqb (a b : mobs) : bool :=
  mapping_eqb (mo_map a) (mo_map b) && (mo_esup a =? mo_esup b) && (mo_emod a =? mo_emod b)
  && (mo_bsup a =? mo_bsup b) && (mo_bmod a =? mo_bmod b).

Fixpoint zlist_eqb (a b : list Z) : bool :=
  match a, b with
  | [], [] => true
  | x :: a', y :: b' => (x =? y) && zlist_eqb a' b'
  | _, _ => false
  end.

(** balances of accounts that pay transaction gas in the same coin are reported as -1 = not compared *)
Fixpoint zlist_eqb_mask (a b : list Z) : bool :=
  match a, b with
  | [], [] => true
  | x :: a', y :: b' => ((y =? -1) || (x =? y)) && zlist_eqb_mask a' b'
  | _, _ => false
  end.

(** registries are compared as sets (the collection iterates in key order, the model keeps creation order) *)
Definition reg_agrees (s : st) (r : list mobs) : bool :=
  Nat.eqb (length r) (length (reg s)) &&
  forallb (fun o => existsb (mobs_eqb o) (view s)) r.

Definition touch_agrees (s : st) (ob : sobs) : bool :=
  match so_tt ob with
  | Some t => zlist_eqb (map (ebal s t) (actors_e t)) (so_ebal ob)
  | None => true
  end &&
  match so_td ob with
  | Some d => zlist_eqb_mask (map (fun a => bank s a d) (match so_tt ob with Some t => actors_e t | None => actors end)) (so_bbal ob)
  | None => true
  end.

Definition maps_agree (found expect : list mapping) : bool :=
  Nat.eqb (length found) (length expect) && forallb (fun m => existsb (mapping_eqb m) expect) found.

(** an index lookup under a given string finds exactly the mappings registered under THAT string *)
Definition lookups_agree (s : st) (ob : sobs) : bool :=
  forallb (fun q => maps_agree (snd q) (filter (fun m => denom_eqb (m_den m) (fst q)) (reg s))) (so_lkd ob) &&
  forallb (fun q => maps_agree (snd q) (filter (fun m => Nat.eqb (m_tok m) (fst q)) (reg s))) (so_lkt ob).

Definition step_agrees (s' : st) (ok : bool) (ob : sobs) : bool :=
  Bool.eqb ok (so_ok ob) && reg_agrees s' (so_reg ob) && touch_agrees s' ob && lookups_agree s' ob.

Fixpoint first_mismatch (s : st) (c : case) (i : nat) : option nat :=
  match c with
  | [] => None
  | (o, ob) :: r =>
      let '(s', ok) := step s o in
      if step_agrees s' ok ob then first_mismatch s' r (S i) else Some i
  end.

(** the driver's world: the two EOAs and the two Cosmos accounts start with 10^17 unibi for gas and fees
    (gas payments themselves are not modelled; the bank supply of unibi is reported relative to the rest of genesis) *)
Definition setup_fund : Z := 100000000000000000.
Definition setup : list op := [Fund 1 DGas setup_fund; Fund 2 DGas setup_fund; Fund 3 DGas setup_fund; Fund 4 DGas setup_fund]%nat.
Definition world : st := run init setup.

Definition mismatch (c : case) : bool :=
  match first_mismatch world c 0 with Some _ => true | None => false end.

Definition violates (c : case) : bool := negb (Pb (map (fun x => so_reg (snd x)) c)).
