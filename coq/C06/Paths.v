(** C06 — the bridge paths as ORDERED LISTS OF LEDGER OPERATIONS, the form in which the fact
    extractor (harness/gen/c06) re-reads them from the Go source on every run, an interpreter for
    such lists over the model's ledger primitives, and the lists the model's operations stand for.
    No proofs in this file. *)
From Coq Require Import List Bool Arith ZArith String.
Import ListNotations.
Require Import Nib.C06.Model.
Local Open Scope Z_scope.

(** who: the caller / sender of the conversion, the recipient named in it, the EVM module account *)
Inductive party := PCaller | PRecipient | PModule | PUnknown.
(** which amount: the amount REQUESTED in the call, or the MEASURED balance increase returned by the
    keeper's ERC20 Transfer helper *)
Inductive amt := ARequested | AMeasured | AUnknown.

Inductive lstep :=
| LErcTransfer (from to : party) (a : amt)   (* keeper.ERC20().Transfer: measured, must be > 0 *)
| LErcMint (to : party) (a : amt)            (* ERC20Minter.mint by the module *)
| LErcBurn (who : party) (a : amt)           (* ERC20Burnable.burn *)
| LBankToModule (from : party) (a : amt)     (* Bank.SendCoinsFromAccountToModule(from, evm) *)
| LBankFromModule (to : party) (a : amt)     (* Bank.SendCoinsFromModuleToAccount(evm, to): blocked recipients refused *)
| LBankMint (a : amt)                        (* Bank.MintCoins(evm) *)
| LBankBurn (a : amt)                        (* Bank.BurnCoins(evm) *)
| LBankMsgSend (from to : party) (a : amt).  (* bank MsgServer.Send(from, to) *)

Definition acct_of (p : party) (caller to : acct) : acct :=
  match p with PCaller => caller | PRecipient => to | PModule | PUnknown => Module end.
Definition val_of (a : amt) (x got : Z) : Z :=
  match a with ARequested => x | AMeasured => got | AUnknown => 0 end.

(** interpreter: state and the measured register; [None] = the path fails (everything rolled back) *)
Definition run_step (t : tok) (d : denom) (caller to : acct) (x : Z) (sg : st * Z) (l : lstep) : option (st * Z) :=
  let '(s, got) := sg in
  let A p := acct_of p caller to in
  let V a := val_of a x got in
  match l with
  | LErcTransfer f r a => measured_transfer s t (A f) (A r) (V a)
  | LErcMint r a => s' <- erc_mint s t (A r) (V a) ;; Some (s', got)
  | LErcBurn w a => s' <- erc_burn s t (A w) (V a) ;; Some (s', got)
  | LBankToModule f a => s' <- bank_send s (A f) Module d (V a) ;; Some (s', got)
  | LBankFromModule r a => _ <- guard (negb (blocked (A r))) ;; s' <- bank_send s Module (A r) d (V a) ;; Some (s', got)
  | LBankMint a => s' <- bank_mint s Module d (V a) ;; Some (s', got)
  | LBankBurn a => s' <- bank_burn s Module d (V a) ;; Some (s', got)
  | LBankMsgSend f r a => _ <- guard (negb (blocked (A r))) ;; s' <- bank_send s (A f) (A r) d (V a) ;; Some (s', got)
  end.

Fixpoint run_steps (t : tok) (d : denom) (caller to : acct) (x : Z) (sg : st * Z) (p : list lstep) : option (st * Z) :=
  match p with
  | [] => Some sg
  | l :: r => sg' <- run_step t d caller to x sg l ;; run_steps t d caller to x sg' r
  end.

Definition run_path (p : list lstep) (s : st) (t : tok) (d : denom) (caller : acct) (x : Z) (to : acct) : option st :=
  r <- run_steps t d caller to x (s, 0) p ;; Some (fst r).

(** the seven bridge paths *)
Record paths := {
  p_send_to_bank_coin : list lstep;   p_send_to_bank_erc20 : list lstep;
  p_send_to_evm_coin : list lstep;    p_send_to_evm_erc20 : list lstep;
  p_convert_coin : list lstep;        p_convert_erc20 : list lstep;
  p_bank_msg_send : list lstep }.

(** … as the model's operations perform them (ProofsPaths.v proves the model's functions ARE these lists) *)
Definition model_paths : paths := {|
  p_send_to_bank_coin  := [LErcTransfer PCaller PModule ARequested; LErcBurn PModule AMeasured; LBankFromModule PRecipient AMeasured];
  p_send_to_bank_erc20 := [LErcTransfer PCaller PModule ARequested; LBankMint AMeasured; LBankFromModule PRecipient AMeasured];
  p_send_to_evm_coin   := [LBankToModule PCaller ARequested; LErcMint PRecipient ARequested];
  p_send_to_evm_erc20  := [LBankToModule PCaller ARequested; LErcTransfer PModule PRecipient ARequested; LBankBurn ARequested];
  p_convert_coin       := [LBankToModule PCaller ARequested; LErcMint PRecipient ARequested];
  p_convert_erc20      := [LBankToModule PCaller ARequested; LBankBurn ARequested; LErcTransfer PModule PRecipient ARequested];
  p_bank_msg_send      := [LBankMsgSend PCaller PRecipient ARequested] |}.

(** the same table with, per step, whether the Go code checks the error of that ledger operation and hands it on
    to its caller at every level (false: the error is dropped, assigned to a shadowing variable, …) *)
Record paths_e := {
  pe_send_to_bank_coin : list (lstep * bool);   pe_send_to_bank_erc20 : list (lstep * bool);
  pe_send_to_evm_coin : list (lstep * bool);    pe_send_to_evm_erc20 : list (lstep * bool);
  pe_convert_coin : list (lstep * bool);        pe_convert_erc20 : list (lstep * bool);
  pe_bank_msg_send : list (lstep * bool) }.

Definition strip (P : paths_e) : paths := {|
  p_send_to_bank_coin := map fst (pe_send_to_bank_coin P);   p_send_to_bank_erc20 := map fst (pe_send_to_bank_erc20 P);
  p_send_to_evm_coin := map fst (pe_send_to_evm_coin P);     p_send_to_evm_erc20 := map fst (pe_send_to_evm_erc20 P);
  p_convert_coin := map fst (pe_convert_coin P);             p_convert_erc20 := map fst (pe_convert_erc20 P);
  p_bank_msg_send := map fst (pe_bank_msg_send P) |}.

Definition all_paths_e (P : paths_e) : list (list (lstep * bool)) :=
  [pe_send_to_bank_coin P; pe_send_to_bank_erc20 P; pe_send_to_evm_coin P; pe_send_to_evm_erc20 P;
   pe_convert_coin P; pe_convert_erc20 P; pe_bank_msg_send P].

Definition errors_propagated (P : paths_e) : bool := forallb (forallb snd) (all_paths_e P).

(** what a path DOES when an error is not propagated: the failed operation is skipped and the path goes on *)
Fixpoint run_steps_e (t : tok) (d : denom) (caller to : acct) (x : Z) (sg : st * Z) (p : list (lstep * bool)) : option (st * Z) :=
  match p with
  | [] => Some sg
  | (l, checked) :: r =>
      match run_step t d caller to x sg l with
      | Some sg' => run_steps_e t d caller to x sg' r
      | None => if checked then None else run_steps_e t d caller to x sg r
      end
  end.

Definition run_path_e (p : list (lstep * bool)) (s : st) (t : tok) (d : denom) (caller : acct) (x : Z) (to : acct) : option st :=
  r <- run_steps_e t d caller to x (s, 0) p ;; Some (fst r).

(** the keeper's ERC20 Transfer helper (erc20.go): what [measured_transfer] encodes *)
Inductive reject_test := RejLe0 | RejLt0 | RejNone | RejUnknown.
Record transfer_helper := {
  th_balance_before_call : bool;     (* balanceOf(recipient) read BEFORE the transfer call *)
  th_balance_after_call : bool;      (* … and again AFTER it *)
  th_checks_success : bool;          (* the bool returned by transfer() is unpacked and false is an error *)
  th_increase_after_minus_before : bool;
  th_reject : reject_test;           (* the measured increase is refused when … *)
  th_returns_increase : bool }.      (* the helper returns the measured increase *)
Definition model_transfer_helper : transfer_helper :=
  {| th_balance_before_call := true; th_balance_after_call := true; th_checks_success := true;
     th_increase_after_minus_before := true; th_reject := RejLe0; th_returns_increase := true |}.

(** CreateFunToken guards, in order *)
Inductive index := IdxErc20 | IdxDenom | IdxOther.
Inductive cguard :=
| GIndexReject (i : index)     (* reject when the index lookup finds a mapping *)
| GPointReject                 (* reject on a primary-key point lookup *)
| GMetaRequired | GMetaAbsent  (* bank metadata must exist / must not exist *)
| GContractAnswers             (* the ERC20 must answer name/symbol/decimals *)
| GDeploy | GSetMeta | GInsert.
Definition model_create_coin : list cguard := [GIndexReject IdxDenom; GMetaRequired; GDeploy; GIndexReject IdxErc20; GInsert].
Definition model_create_erc20 : list cguard := [GIndexReject IdxErc20; GContractAnswers; GMetaAbsent; GIndexReject IdxDenom; GSetMeta; GInsert].

(** what keeps other modules out of the escrow: the EVM module account is on the bank's blocked list (app wiring,
    [blocked Module = true] in the model) and x/tokenfactory's burn_from / mint_to refuse blocked accounts before
    moving coins (the guards of [TfBurn] / [TfMint]) *)
Record escrow_guards := { eg_evm_module_blocked : bool; eg_tf_burn_checks_blocked : bool; eg_tf_mint_checks_blocked : bool }.
Definition model_escrow_guards : escrow_guards :=
  {| eg_evm_module_blocked := blocked Module; eg_tf_burn_checks_blocked := true; eg_tf_mint_checks_blocked := true |}.

(** NibiruBankKeeper: per wrapped bank method, the accounts whose balance it aligns with the in-flight
    StateDB after the base operation (parameter positions after ctx: "addr#i" / "module#i"), and whether that
    is guarded by the gas-coin test *)
Definition bank_sync : Type := list (string * (list string * bool)).
Local Open Scope string_scope.
Definition model_bank_sync : bank_sync :=
  [ ("BurnCoins", (["module#0"], true));
    ("DelegateCoins", (["addr#0"], true));
    ("DelegateCoinsFromAccountToModule", (["addr#0"; "module#1"], true));
    ("InputOutputCoins", (["each#0"; "each#1"], true));
    ("MintCoins", (["module#0"], true));
    ("SendCoins", (["addr#0"; "addr#1"], true));
    ("SendCoinsFromAccountToModule", (["addr#0"; "module#1"], true));
    ("SendCoinsFromModuleToAccount", (["addr#1"; "module#0"], true));
    ("SendCoinsFromModuleToModule", (["module#0"; "module#1"], true));
    ("UndelegateCoins", (["addr#0"], true));
    ("UndelegateCoinsFromModuleToAccount", (["addr#1"; "module#0"], true)) ].
