(** C08 — refutation witnesses (the faithful model of the tree before each fix: violates the
    property) and non-vacuity examples, all by evaluation of the model. *)
From Coq Require Import List ZArith Bool String Lia.
Import ListNotations.
Require Import Nib.C08.Model Nib.C08.Spec Nib.C08.Proofs Nib.C08.ProofsTx Nib.C08.Ref.
Local Open Scope Z_scope.

Notation call F p k v g i := (evm_call Z sample_body sample_after_mint sample_transfer F p k v g i 0).

(** the reference facts satisfy every condition the theorems ask for *)
Example reference_facts_ok :
  guards_ok reference_facts = true /\ panic_ok reference_facts = true /\ table_ok reference_facts = true /\
  query_guards_ok reference_facts = true /\ f_direct_ro reference_facts = true.
Proof. vm_compute. repeat split; reflexivity. Qed.

Example sample_body_queries_readonly : query_bodies_readonly Z sample_body (fun _ _ st _ => BOk st 0).
Proof. intros m args st lim H. unfold sample_body. rewrite H. split; reflexivity. Qed.

(** before fix: 7d2b3b1 (1): calldata shorter than a selector panics in requiredGas *)
Lemma no_panic_refuted_short_calldata :
  exists p k v g inp, r_out (call (with_guards reference_facts no_len_guard) p k v g inp) = Panic.
Proof. exists PFunToken, KTop, 0, 1000000, empty_calldata. vm_compute. reflexivity. Qed.

(** before fix: 7d2b3b1 (2): bankMsgSend(to, "", 1) panics in sdk.NewCoin *)
Lemma no_panic_refuted_empty_denom :
  exists p k v g inp, input_wf inp = true /\
    r_out (call (with_guards reference_facts no_denom_guard) p k v g inp) = Panic.
Proof. exists PFunToken, KTop, 0, 1000000, (bankMsgSend_call [] 1). vm_compute. split; reflexivity. Qed.

(** before fix: e366d9b: a NUL character in the bank denom panics in the collections key encoder *)
Lemma no_panic_refuted_nul_denom :
  exists p k v g inp, input_wf inp = true /\
    r_out (call (with_guards reference_facts no_nul_guards) p k v g inp) = Panic.
Proof. exists PFunToken, (KCall false), 0, 1000000, (sendToEvm_call [97; 0; 98; 99] 1). vm_compute. split; reflexivity. Qed.

(** before fix: 170e86a: the Oracle precompile lets the gas meter's panic escape *)
Lemma no_panic_refuted_oracle_oog :
  exists g inp, input_wf inp = true /\
    r_out (evm_call Z greedy_body sample_after_mint sample_transfer (with_oracle_oog reference_facts false) POracle KTop 0 g inp 0) = Panic.
Proof. exists 2000, oracle_query_call. vm_compute. split; reflexivity. Qed.

(** before the supply-overflow fix: sendToBank whose mint lifts the bank supply to 2^256 panics in
    sdkmath.Int.Add under bank.MintCoins *)
Lemma no_panic_refuted_supply_overflow :
  exists inp, input_wf inp = true /\
    r_out (evm_call Z whale_body sample_after_mint sample_transfer (with_guards reference_facts no_supply_guard)
             PFunToken KTop 0 3000000 inp 0) = Panic.
Proof. exists (sendToBank_call (2 ^ 255)). vm_compute. split; reflexivity. Qed.

Example supply_overflow_fails_closed_when_guarded :
  r_out (evm_call Z whale_body sample_after_mint sample_transfer reference_facts PFunToken KTop 0 3000000
           (sendToBank_call (2 ^ 255)) 0) = Err.
Proof. vm_compute. reflexivity. Qed.

(** eth.NibiruAddrToEthAddr written as the slice-to-array conversion gethcommon.Address(addr): a VALID
    bech32 address whose payload is shorter than 20 bytes panics, here whoAmI from a STATICCALL *)
Lemma no_panic_refuted_partial_addr_conversion :
  exists k inp, input_wf inp = true /\
    r_out (call (with_addr_conv reference_facts false) PFunToken k 0 1000000 inp) = Panic.
Proof. exists KStatic, whoAmI_short_bech32_call. vm_compute. split; reflexivity. Qed.

Example short_bech32_fine_with_total_conversion :
  r_out (call reference_facts PFunToken KStatic 0 1000000 whoAmI_short_bech32_call) = Ok.
Proof. vm_compute. reflexivity. Qed.

(** after the fixes the same four calls fail closed *)
Example fixed_calls_fail_closed :
  r_out (call reference_facts PFunToken KTop 0 1000000 empty_calldata) = Err /\
  r_out (call reference_facts PFunToken KTop 0 1000000 (bankMsgSend_call [] 1)) = Err /\
  r_out (call reference_facts PFunToken (KCall false) 0 1000000 (sendToEvm_call [97; 0; 98; 99] 1)) = Err /\
  r_out (evm_call Z greedy_body sample_after_mint sample_transfer reference_facts POracle KTop 0 2000 oracle_query_call 0) = OutOfGas.
Proof. vm_compute. repeat split; reflexivity. Qed.

(** OPEN FINDING: the geth fork's EVM.Call hands readOnly = false to the precompile even below a
    STATICCALL frame: the nested clause of the property is violated by the faithful model *)
Lemma nested_static_refuted :
  f_call_inherits_static reference_facts = false /\
  exists p gas inp,
    let r := call reference_facts p (KCall true) 0 gas inp in
    ~ P_nested (KCall true) (selected (pc_of reference_facts p) inp) (r_out r) (r_st r = 0).
Proof.
  split; [reflexivity|].
  exists PFunToken, 1000000, (bankMsgSend_call unibi 5).
  intros r H. specialize (H eq_refl). destruct H as [H _]. subst r. vm_compute in H. discriminate.
Qed.

(** … and it holds as soon as the flag is handed down *)
Example nested_static_refused_when_inherited :
  r_out (call (with_call_inherits reference_facts true) PFunToken (KCall true) 0 1000000 (bankMsgSend_call unibi 5)) = Err.
Proof. vm_compute. reflexivity. Qed.

(** non-vacuity: concrete non-trivial runs that meet the hypotheses of the theorems *)
Example nonvacuous_success_mutates :
  let r := call reference_facts PFunToken KTop 0 1000000 (bankMsgSend_call unibi 5) in
  r_out r = Ok /\ r_st r = 1 /\ r_left r = 1000000 - (30 * 288 + 2000) - 1500.
Proof. vm_compute. repeat split; reflexivity. Qed.

Example nonvacuous_static_refused :
  let r := call reference_facts PFunToken KStatic 0 1000000 (bankMsgSend_call unibi 5) in
  r_out r = Err /\ r_st r = 0 /\ r_left r = 0.
Proof. vm_compute. repeat split; reflexivity. Qed.

Example nonvacuous_delegate_callcode_refused :
  r_out (call reference_facts PFunToken KDelegate 0 1000000 (bankMsgSend_call unibi 5)) = Err /\
  r_out (call reference_facts PFunToken KCallCode 7 1000000 (bankMsgSend_call unibi 5)) = Err.
Proof. vm_compute. split; reflexivity. Qed.

Example nonvacuous_query_with_value_refused :
  let r := call reference_facts PFunToken KTop 1000000000000 1000000 whoAmI_call in
  r_out r = Err /\ r_st r = 0.
Proof. vm_compute. split; reflexivity. Qed.

Example nonvacuous_query_ok :
  let r := call reference_facts PFunToken KStatic 0 5000 whoAmI_call in
  r_out r = Ok /\ r_st r = 0.
Proof. vm_compute. split; reflexivity. Qed.

(** the Oracle queries carry no value guard: attached value stays on the precompile account *)
Example nonvacuous_oracle_query_with_value :
  let r := call reference_facts POracle KTop 1000000000000 1000000 oracle_query_call in
  r_out r = Ok /\ r_st r = sample_transfer 0 1000000000000.
Proof. vm_compute. split; reflexivity. Qed.

Example nonvacuous_gas_below_required :
  let r := call reference_facts PFunToken KTop 0 (3 * 128 + 1000 - 1) whoAmI_call in
  r_out r = OutOfGas /\ r_left r = 0 /\ r_st r = 0.
Proof. vm_compute. repeat split; reflexivity. Qed.

Example nonvacuous_oog_in_body_reverts :
  let r := evm_call Z greedy_body sample_after_mint sample_transfer reference_facts PFunToken KTop 1000000000000 50000 (bankMsgSend_call unibi 5) 0 in
  r_out r = OutOfGas /\ r_left r = 0 /\ r_st r = 0.
Proof. vm_compute. repeat split; reflexivity. Qed.

(** gas charged = gas consumed: a body whose work costs 1500 whatever it is offered *)
Example sample_body_cost_deterministic :
  body_cost_deterministic Z sample_body sample_after_mint.
Proof.
  intros m args st lim lim' s1 s2 u1 u2 [B1|[x [y [z [B1 _]]]]] [B2|[x' [y' [z' [B2 _]]]]];
    unfold sample_body in *; destruct (can_mutate m); try discriminate;
    inversion B1; inversion B2; subst; reflexivity.
Qed.

Example nonvacuous_gas_charged :
  let r := call reference_facts PFunToken KTop 0 1000000 (bankMsgSend_call unibi 5) in
  r_out r = Ok /\ 1000000 - r_left r = (30 * 288 + 2000) + 1500.
Proof. vm_compute. split; reflexivity. Qed.

(** one gas unit below the cost: out of gas, nothing charged beyond the forwarded gas, state as before *)
Example nonvacuous_one_below_cost :
  let r := call reference_facts PFunToken KTop 0 ((30 * 288 + 2000) + 1500 - 1) (bankMsgSend_call unibi 5) in
  r_out r = OutOfGas /\ r_left r = 0 /\ r_st r = 0.
Proof. vm_compute. repeat split; reflexivity. Qed.

(** a local meter not capped by contract.Gas (seeded change: limit = contract.Gas + RequiredGas): inside
    the window cost - RequiredGas <= G < cost the call succeeds, keeps its write, and only RequiredGas is
    charged although the body consumed 1500 more: the gas clause is violated *)
Lemma gas_charged_refuted_without_capped_meter :
  exists gas,
    let r := call (with_local_meter reference_facts false) PFunToken KTop 0 gas (bankMsgSend_call unibi 5) in
    let r_ample := call (with_local_meter reference_facts false) PFunToken KTop 0 1000000 (bankMsgSend_call unibi 5) in
    r_out r_ample = Ok /\ r_st r = 1 /\
    ~ P_gas (r_out r) gas (r_left r) (Some (1000000 - r_left r_ample)).
Proof.
  exists ((30 * 288 + 2000) + 1000). intros r r_ample. split; [vm_compute; reflexivity|]. split; [vm_compute; reflexivity|].
  intro H. specialize (H _ eq_refl). subst r r_ample. vm_compute in H. destruct (H eq_refl) as [A _]. discriminate.
Qed.

(* ------------------------------------------------------------------ sequences of calls inside one transaction *)

Notation xcall F p k v g i x := (call_x Z Z partial_body partial_after_mint sample_touch sample_transfer_ev F p k v g i x).
Notation xrun F ops := (tx_run Z Z partial_body partial_after_mint sample_touch sample_transfer_ev F ops x0).

(** SavePrecompileCalledJournalChange that keeps the previous snapshot when the newest journal entry is one already *)
Definition coalesced_facts : facts := with_snap_each reference_facts false.

Definition a_query : op Z := OCall PWasm KStatic 0 2000000 wasm_query_call.
Definition a_send_to_bank : op Z := OCall PFunToken KTop 0 3000000 (sendToBank_call 5).

(** Seeded change "precompile snapshot coalesced": Wasm.query, then — with no EVM state change in between —
    Wasm.executeMulti whose second message is rejected.  The failed call has no journal entry of its own,
    RevertToSnapshot finds nothing to undo, the write of its first message stays. *)
Lemma failed_call_leaves_state_refuted_coalesced :
  exists pre p k gas inp,
    let x := xrun coalesced_facts pre in
    let r := xcall coalesced_facts p k 0 gas inp x in
    is_err (xr_out r) = true /\ x_ms (xr_x r) <> x_ms x.
Proof.
  exists [a_query], PWasm, KTop, 5000000, executeMulti_call. vm_compute. split; [reflexivity|discriminate].
Qed.

(** the same transaction on the tree as it is: the write is gone, the journal is as before the call *)
Example nonvacuous_failed_call_after_query_restored :
  let x := xrun reference_facts [a_query] in
  let r := xcall reference_facts PWasm KTop 0 5000000 executeMulti_call x in
  xr_out r = Err /\ xr_left r = 0 /\ st_of Z Z (xr_x r) = st_of Z Z x /\ x_j (xr_x r) = x_j x /\ x_cnt (xr_x r) = 2.
Proof. vm_compute. repeat split; reflexivity. Qed.

(** … after a state-changing call that also wrote the EVM side, and after an EVM state change *)
Example nonvacuous_failed_call_after_mutation_restored :
  let x := xrun reference_facts [a_query; a_send_to_bank; OEvm (fun e => e + 7); a_query] in
  let r := xcall reference_facts PWasm (KCall false) 0 5000000 executeMulti_call x in
  st_of Z Z x = (8, 1) /\ xr_out r = Err /\ st_of Z Z (xr_x r) = (8, 1) /\ x_j (xr_x r) = x_j x.
Proof. vm_compute. repeat split; reflexivity. Qed.

(** the coalescing variant goes wrong ONLY right behind a precompile snapshot: alone, behind an EVM state
    change and behind a call that left EVM journal entries the failed call is reverted *)
Example coalesced_variant_reverts_elsewhere :
  x_ms (xr_x (xcall coalesced_facts PWasm KTop 0 5000000 executeMulti_call x0)) = 0 /\
  (let x := xrun coalesced_facts [a_query; OEvm (fun e => e + 7)] in
   x_ms (xr_x (xcall coalesced_facts PWasm KTop 0 5000000 executeMulti_call x)) = x_ms x) /\
  (let x := xrun coalesced_facts [a_send_to_bank] in
   x_ms (xr_x (xcall coalesced_facts PWasm KTop 0 5000000 executeMulti_call x)) = x_ms x) /\
  (let x := xrun coalesced_facts [a_query] in
   x_ms (xr_x (xcall coalesced_facts PWasm KTop 1000000000000 5000000 executeMulti_call x)) = x_ms x).
Proof. vm_compute. repeat split; reflexivity. Qed.

(** one StateDB admits [f_max_calls] precompile calls: the eleventh fails closed *)
Example nonvacuous_call_budget :
  let ten := repeat a_query 10 in
  x_cnt (xrun reference_facts ten) = 10 /\
  xr_out (xcall reference_facts PWasm KStatic 0 2000000 wasm_query_call (xrun reference_facts (repeat a_query 9))) = Ok /\
  (let r := xcall reference_facts PWasm KStatic 0 2000000 wasm_query_call (xrun reference_facts ten) in
   xr_out r = Err /\ xr_left r = 0 /\ st_of Z Z (xr_x r) = (0, 0)).
Proof. vm_compute. repeat split; reflexivity. Qed.

(** … and the failed call is visible to the rest of that transaction: leaving it out changes what the
    transaction commits *)
Lemma failed_calls_visible_refuted_coalesced :
  exists ops,
    x_cnt x0 + Z.of_nat (List.length ops) <= f_max_calls coalesced_facts /\
    ~ P_tx (st_of Z Z (xrun coalesced_facts ops) =
            st_of Z Z (tx_run_drop Z Z partial_body partial_after_mint sample_touch sample_transfer_ev coalesced_facts ops x0)).
Proof.
  exists [a_query; OCall PWasm KTop 0 5000000 executeMulti_call; a_query]. split; [vm_compute; discriminate|].
  unfold P_tx. vm_compute. discriminate.
Qed.

Example nonvacuous_failed_calls_invisible :
  let ops := [a_query; OCall PWasm KTop 0 5000000 executeMulti_call; a_send_to_bank; OEvm (fun e => e + 7);
              OCall PWasm (KCall false) 0 5000000 executeMulti_call; a_query] in
  st_of Z Z (xrun reference_facts ops) = (8, 1) /\
  st_of Z Z (tx_run_drop Z Z partial_body partial_after_mint sample_touch sample_transfer_ev reference_facts ops x0) = (8, 1) /\
  x_cnt (xrun reference_facts ops) = 5 /\
  x_cnt (tx_run_drop Z Z partial_body partial_after_mint sample_touch sample_transfer_ev reference_facts ops x0) = 3.
Proof. vm_compute. repeat split; reflexivity. Qed.

Example partial_body_queries_readonly : query_bodies_readonly (Z * Z) partial_body partial_after_mint.
Proof.
  intros m args st lim H. unfold partial_body, partial_after_mint.
  destruct m; simpl in H; try discriminate; split; reflexivity.
Qed.

(* ------------------------------------------------------------------ answers of contracts the precompile calls *)

(** Seeded change "revert panic payload short slice": evm.NewRevertError reads revertReason[4:36] behind the
    Panic(uint256) selector without a length check; FunToken.balance on a FunToken whose registered ERC20 reverts
    balanceOf with the bare 4-byte selector panics — also from a STATICCALL *)
Lemma no_panic_refuted_unguarded_revert_decoder :
  exists k inp, input_wf inp = true /\
    r_out (evm_call Z hostile_token_body sample_after_mint sample_transfer (with_revert_decode reference_facts false)
             PFunToken k 0 1000000 inp 0) = Panic.
Proof. exists KStatic, balance_call. vm_compute. split; reflexivity. Qed.

(** with the total decoder the same call is an ordinary failed sub-call, charged and reverted *)
Example nonvacuous_hostile_token_fails_closed :
  let r := evm_call Z hostile_token_body sample_after_mint sample_transfer reference_facts PFunToken KStatic 0 1000000 balance_call 0 in
  r_out r = Err /\ r_left r = 0 /\ r_st r = 0.
Proof. vm_compute. repeat split; reflexivity. Qed.

(** the unguarded decoder panics exactly on Panic-prefixed revert data whose capacity is below 36 bytes *)
Example revert_decode_panics_window :
  let F := with_revert_decode reference_facts false in
  revert_decode_panics F NRevert [] 0 = false /\
  revert_decode_panics F NRevert [78; 72; 123] 32 = false /\
  revert_decode_panics F NRevert panic_selector 4 = true /\
  revert_decode_panics F NRevert panic_selector 32 = true /\
  revert_decode_panics F NRevert (panic_selector ++ repeat 0 28) 32 = true /\
  revert_decode_panics F NRevert (panic_selector ++ repeat 0 31) 35 = true /\
  revert_decode_panics F NRevert (panic_selector ++ repeat 0 31) 64 = false /\
  revert_decode_panics F NRevert panic_selector 96 = false /\
  revert_decode_panics F NRevert (panic_selector ++ repeat 0 32) 36 = false /\
  revert_decode_panics F NRevert [8; 195; 121; 160] 4 = false /\
  revert_decode_panics F NOutOfGas panic_selector 4 = false /\
  revert_decode_panics reference_facts NRevert panic_selector 4 = false.
Proof. vm_compute. repeat split; reflexivity. Qed.

(* ------------------------------------------------------------------ Oracle pair strings *)

(** Seeded change "pair regex unanchored": a per-side pattern without `$` lets "unibi:uusd\x00" through the pair
    validation; ExchangeRates.Get then panics in the collections string-key encoder *)
Lemma no_panic_refuted_unanchored_pair_validation :
  exists k inp, input_wf inp = true /\
    r_out (call (with_pair_validation reference_facts false) POracle k 0 1000000 inp) = Panic.
Proof. exists KStatic, oracle_query_nul_call. vm_compute. split; reflexivity. Qed.

Example nonvacuous_nul_pair_fails_closed :
  let r := call reference_facts POracle KStatic 0 1000000 oracle_query_nul_call in
  r_out r = Err /\ r_left r = 0 /\ r_st r = 0.
Proof. vm_compute. repeat split; reflexivity. Qed.

(** what the unanchored validation lets through, and what it still refuses *)
Example lax_pair_window :
  let u := unibi in let q := [117; 117; 115; 100] in
  lax_pair (u ++ [58] ++ q ++ [0]) = true /\ valid_pair (u ++ [58] ++ q ++ [0]) = false /\
  lax_pair ([117; 110; 0; 105] ++ [58] ++ q) = true /\
  lax_pair (u ++ [58] ++ q ++ [33; 255]) = true /\
  lax_pair ([0] ++ u ++ [58] ++ q) = false /\
  lax_pair ([117; 0] ++ [58] ++ q) = false /\
  lax_pair (u ++ q) = false /\
  lax_pair (u ++ [58] ++ q ++ [58; 0]) = false /\
  valid_pair (u ++ [58] ++ q) = true.
Proof. vm_compute. repeat split; reflexivity. Qed.
