(** C08 — executable model of a call to a Nibiru precompile (FunToken 0x800, Wasm 0x802, Oracle 0x801):
    go-ethereum's call wrapper (core/vm/evm.go Call/StaticCall/DelegateCall/CallCode +
    contracts.go runPrecompiledContract), x/evm/precompile/precompile.go (requiredGas,
    decomposeInput, OnRunStart, HandleOutOfGasPanic), the Run dispatchers and the guard /
    validator prefix of every method handler (funtoken.go, wasm.go, wasm_parse.go, oracle.go,
    errors.go).  Library calls that panic in Go are explicit [Panic] / [VPanic] outcomes.
    No proofs in this file. *)
From Coq Require Import List ZArith Bool String.
Import ListNotations.
Local Open Scope Z_scope.

(* ------------------------------------------------------------------ facts re-extracted from /repo *)

Inductive mid :=
| FT_sendToBank | FT_balance | FT_bankBalance | FT_whoAmI | FT_sendToEvm | FT_bankMsgSend | FT_getErc20Address
| W_execute | W_query | W_instantiate | W_executeMulti | W_queryRaw
| O_queryExchangeRate | O_chainLinkLatestRoundData
| M_other.

Inductive guard_kind := GReadonly | GQuery | GNone.

Record method_facts := {
  mf_id : mid;
  mf_name : string;
  mf_sel : Z;               (* 4-byte selector as a big-endian number (keccak of the ABI signature) *)
  mf_abi_view : bool;       (* stateMutability view/pure in the embedded ABI JSON *)
  mf_mutation : bool;       (* isMutation[name] (Go map semantics: missing = false) *)
  mf_in_switch : bool;      (* Run's switch has a case for it that calls its handler *)
  mf_guard : guard_kind;    (* assertNotReadonlyTx / assertContractQuery / none in the handler *)
  mf_guard_first : bool     (* the guard is the first effectful statement of the handler and returns on error *)
}.

Record pc_facts := {
  pf_methods : list method_facts;
  pf_start_first : bool;      (* Run: OnRunStart(evm, contract.Input, abi, contract.Gas) first, error returned *)
  pf_oog_deferred : bool;     (* Run: defer HandleOutOfGasPanic(&err)() before the switch *)
  pf_usegas : bool            (* Run: contract.UseGas(local meter consumed) after the switch, before the error return *)
}.

(** guards in front of the library calls that panic *)
Record panic_guards := {
  g_len : bool;          (* requiredGas: len(input) < 4 handled before input[:4] *)
  g_denom : bool;        (* bankMsgSend: sdk.ValidateDenom(denom) checked before sdk.NewCoin *)
  g_amount : bool;       (* bankMsgSend: amount sign checked before sdk.NewCoin *)
  g_evm_denom : bool;    (* sendToEvm: sdk.ValidateDenom(bankDenom) before the FunTokens index lookup *)
  g_erc20_nul : bool;    (* getErc20Address: NUL characters rejected before the FunTokens index lookup *)
  g_supply : bool        (* sendToBank: bank supply + amount checked against 256 bits before MintCoins *)
}.

Record facts := {
  f_funtoken : pc_facts;
  f_wasm : pc_facts;
  f_oracle : pc_facts;
  f_guards : panic_guards;
  f_local_meter : bool;           (* OnRunStart: cacheCtx gas meter = sdk.NewGasMeter(gasLimit) *)
  f_oog_only : bool;              (* HandleOutOfGasPanic converts sdk.ErrorOutOfGas only and re-panics the rest *)
  f_addr_conv_total : bool;       (* eth.NibiruAddrToEthAddr is total (gethcommon.BytesToAddress: pads / keeps the last 20 bytes) *)
  f_direct_ro : bool;             (* geth fork StaticCall / DelegateCall / CallCode run precompiles with readOnly = true *)
  f_call_inherits_static : bool;  (* geth fork EVM.Call hands the interpreter's read-only flag to precompiles *)
  f_snap_each_call : bool;        (* StateDB.SavePrecompileCalledJournalChange appends the multistore snapshot to the journal on EVERY call *)
  f_max_calls : Z;                (* maxMultistoreCacheCount: precompile calls one StateDB admits (the count is compared after the increment) *)
  f_revert_decode_total : bool;   (* evm.NewRevertError never slices / indexes the revert data of a called contract beyond its length *)
  f_pair_validation_total : bool  (* asset.TryNewPair / Pair.Validate judge the WHOLE string of each side (anchored): no string holding a NUL passes *)
}.

Definition f_len_guard (F : facts) := g_len (f_guards F).
Definition f_denom_guard (F : facts) := g_denom (f_guards F).
Definition f_amount_guard (F : facts) := g_amount (f_guards F).
Definition f_evm_denom_guard (F : facts) := g_evm_denom (f_guards F).
Definition f_erc20_nul_guard (F : facts) := g_erc20_nul (f_guards F).
Definition f_supply_guard (F : facts) := g_supply (f_guards F).

Inductive pcid := PFunToken | PWasm | POracle.

Definition pc_of (F : facts) (p : pcid) : pc_facts :=
  match p with PFunToken => f_funtoken F | PWasm => f_wasm F | POracle => f_oracle F end.

(* ------------------------------------------------------------------ call kinds (geth wrapper) *)

(** [KCall s]: CALL issued by a contract; [s] = some enclosing frame is a STATICCALL
    (interpreter.readOnly).  [KTop] = the transaction's own call (ApplyEvmMsg -> evm.Call). *)
Inductive kind := KTop | KCall (in_static : bool) | KStatic | KDelegate | KCallCode.

(** readOnly flag handed to PrecompiledContract.Run *)
Definition pc_readonly (F : facts) (k : kind) : bool :=
  match k with
  | KTop => false
  | KCall s => f_call_inherits_static F && s
  | KStatic | KDelegate | KCallCode => f_direct_ro F
  end.

(** is the call executed in a static context in the EVM sense *)
Definition ctx_static (k : kind) : bool :=
  match k with KStatic => true | KCall s => s | _ => false end.

(** value seen by the precompile (contract.Value()): nil for DELEGATECALL, 0 for STATICCALL *)
Definition pc_value (k : kind) (v : Z) : option Z :=
  match k with KTop | KCall _ | KCallCode => Some v | KStatic => Some 0 | KDelegate => None end.

(** does the wrapper move [value] to the precompile's account before running it *)
Definition transfers (k : kind) : bool :=
  match k with KTop | KCall _ => true | _ => false end.

(* ------------------------------------------------------------------ calldata and decoded arguments *)

(** Arguments as the geth ABI decoder returns them, abstracted to what the validators look at.
    Strings are byte lists; facts that need a checksum / JSON parser are attached as bits
    computed by the same library function the code calls (bech32 = sdk.AccAddressFromBech32
    succeeds, tf = tokenfactory DenomStr.Validate succeeds, json = json.Valid). *)
Inductive arg :=
| AAddr
| AUint (v : Z)
| AStr (s : list Z) (bech32 : bool) (blen : Z) (tf : bool)   (* blen = bytes of the bech32 payload (sdk accepts 1..255), 0 when not bech32 *)
| ABytes (json : bool)
| AFunds (l : list (list Z * Z))
| AMsgs (l : list (bool * bool * list (list Z * Z))).   (* (bech32 contractAddr, json msgArgs, funds) *)

Record input := {
  i_len : Z;                       (* len(calldata) *)
  i_head : list Z;                 (* calldata[: min(len,4)] *)
  i_unpack : option (list arg)     (* method.Inputs.Unpack(calldata[4:]) for the selected method *)
}.

Definition sel_of (h : list Z) : option Z :=
  match h with [a; b; c; d] => Some (((a * 256 + b) * 256 + c) * 256 + d) | _ => None end.

Definition find_method (P : pc_facts) (s : Z) : option method_facts :=
  find (fun mf => mf_sel mf =? s) (pf_methods P).

Definition selected (P : pc_facts) (inp : input) : option method_facts :=
  if i_len inp <? 4 then None
  else match sel_of (i_head inp) with None => None | Some s => find_method P s end.

(* ------------------------------------------------------------------ string validators *)

Definition is_lower (c : Z) := (97 <=? c) && (c <=? 122).
Definition is_upper (c : Z) := (65 <=? c) && (c <=? 90).
Definition is_digit (c : Z) := (48 <=? c) && (c <=? 57).
Definition is_alpha (c : Z) := is_lower c || is_upper c.
(** sdk.ValidateDenom: ^[a-zA-Z][a-zA-Z0-9/:._-]{2,127}$ *)
Definition denom_char (c : Z) := is_alpha c || is_digit c || (c =? 47) || (c =? 58) || (c =? 46) || (c =? 95) || (c =? 45).
Definition valid_denom (s : list Z) : bool :=
  match s with
  | [] => false
  | c :: r => is_alpha c && forallb denom_char r && (2 <=? Z.of_nat (List.length r)) && (Z.of_nat (List.length r) <=? 127)
  end.

Definition is_hex (c : Z) := is_digit c || ((97 <=? c) && (c <=? 102)) || ((65 <=? c) && (c <=? 70)).
(** gethcommon.IsHexAddress *)
Definition is_hex_address (s : list Z) : bool :=
  let body := match s with 48 :: x :: r => if (x =? 120) || (x =? 88) then r else s | _ => s end in
  (Z.of_nat (List.length body) =? 40) && forallb is_hex body.

(** parseToAddr / QueryEthAccountRequest.Validate: hex address or bech32 account address *)
Definition addr_ok (s : list Z) (bech32 : bool) : bool := is_hex_address s || bech32.

(** asset.TryNewPair: exactly one ':' separating two valid denoms *)
Fixpoint split_colon (s : list Z) (cur : list Z) : list (list Z) :=
  match s with
  | [] => [rev cur]
  | c :: r => if c =? 58 then rev cur :: split_colon r [] else split_colon r (c :: cur)
  end.
Definition valid_pair (s : list Z) : bool :=
  match split_colon s [] with
  | [a; b] => valid_denom a && valid_denom b
  | _ => false
  end.

(** A pair validation whose per-side pattern is not anchored at the end (`^[a-zA-Z][a-zA-Z0-9/._-]{1,127}` without `$`):
    a side passes as soon as it STARTS with a letter and one more denom character, whatever follows *)
Definition lax_side (s : list Z) : bool :=
  match s with c :: d :: _ => is_alpha c && denom_char d && negb (d =? 58) | _ => false end.
Definition lax_pair (s : list Z) : bool :=
  match split_colon s [] with [a; b] => lax_side a && lax_side b | _ => false end.

(* ------------------------------------------------------------------ library calls that can panic *)

Definition two256 : Z := 2 ^ 256.

(** sdkmath.NewIntFromBigInt panics when BitLen > 256 *)
Definition int_from_big_panics (v : Z) : bool := two256 <=? Z.abs v.
(** sdk.NewCoin panics on an invalid denom or a negative amount *)
Definition new_coin_panics (denom : list Z) (amt : Z) : bool := negb (valid_denom denom) || (amt <? 0).

(** eth.NibiruAddrToEthAddr on an account decoded from a bech32 string (the hex form is tried first):
    written as the Go slice-to-array conversion gethcommon.Address(addr) it panics for fewer than 20
    bytes; gethcommon.BytesToAddress never does *)
Definition addr_conv_panics (F : facts) (s : list Z) (bech32 : bool) (blen : Z) : bool :=
  negb (f_addr_conv_total F) && (negb (is_hex_address s) && bech32 && (blen <? 20)).

(** What a contract CALLED BY the precompile body answers (the registered ERC20 of a FunToken: balanceOf,
    transfer, … through keeper.ERC20() / CallContractWithInput).  Anyone can register a token contract, so its
    answer is as untrusted as the calldata: it reverts with arbitrary revert data, runs out of gas, fails
    otherwise, or returns data that does not decode ([NBadReturn]).  A well-formed return is no event of its
    own: the body goes on and answers through its other outcomes. *)
Inductive nested := NRevert | NOutOfGas | NFail | NBadReturn.

(** selector of Solidity's Panic(uint256) *)
Definition panic_selector : list Z := [78; 72; 123; 113].
Fixpoint has_prefix (pre l : list Z) : bool :=
  match pre, l with
  | [], _ => true
  | a :: pre', b :: l' => (a =? b) && has_prefix pre' l'
  | _ :: _, [] => false
  end.
(** evm.NewRevertError decoding the revert data: a decoder that recognises the Panic(uint256) selector and reads
    the 32-byte code behind it (revertReason[4:36]) without looking at the length panics with Go's slice-bounds
    error — when the CAPACITY of the slice is below 36 (Go slice semantics, as for input[:4] in requiredGas): the
    revert data of a call frame is a window of the reverting contract's memory (opRevert: Memory.GetPtr), its
    capacity reaches to the end of that memory; a shorter payload inside a larger memory is read past its end
    instead.  [cap] >= length of the data; 0 for empty data. *)
Definition revert_decode_panics (F : facts) (n : nested) (data : list Z) (cap : Z) : bool :=
  negb (f_revert_decode_total F) &&
  match n with NRevert => has_prefix panic_selector data && (cap <? 36) | _ => false end.

Inductive vres := VErr | VPanic | VPass.

(** collections.StringKeyEncoder.Encode panics on a NUL character *)
Definition has_nul (s : list Z) : bool := existsb (fun c => c =? 0) s.

Definition funds_panic (l : list (list Z * Z)) : bool := existsb (fun c => int_from_big_panics (snd c)) l.

(** Oracle queries: asset.TryNewPair(pair), then ExchangeRates.Get(ctx, pair) — a collections map keyed by the pair
    STRING: the key encoder panics on a NUL character.  The anchored validation lets no NUL through; an unanchored
    one lets "unibi:uusd\x00" reach the key encoder. *)
Definition oracle_pair (F : facts) (p : list Z) : vres :=
  if valid_pair p then VPass
  else if negb (f_pair_validation_total F) && lax_pair p then (if has_nul p then VPanic else VPass)
  else VErr.

(** guard/validator prefix of every handler after the context guard, up to the first keeper call *)
Definition validate (F : facts) (m : mid) (args : list arg) : vres :=
  match m, args with
  | FT_sendToBank, [AAddr; AUint _; AStr _ _ _ _] => VPass
  | FT_balance, [AAddr; AAddr] => VPass
  | FT_bankBalance, [AAddr; AStr d _ _ _] => if valid_denom d then VPass else VErr
  | FT_whoAmI, [AStr who b n _] =>
      (* Validate() then MustAccAddressFromBech32 on the bech32 branch: same predicate, no panic;
         then eth.NibiruAddrToEthAddr on the decoded account *)
      if negb (addr_ok who b) then VErr
      else if addr_conv_panics F who b n then VPanic else VPass
  | FT_sendToEvm, [AStr d _ _ _; AUint _; AStr _ _ _ _] =>
      if f_evm_denom_guard F && negb (valid_denom d) then VErr
      else if has_nul d then VPanic           (* FunTokens.Indexes.BankDenom.ExactMatch(ctx, bankDenom) *)
      else VPass
  | FT_bankMsgSend, [AStr to b n _; AStr d _ _ _; AUint a] =>
      if negb (addr_ok to b) then VErr
      else if addr_conv_panics F to b n then VPanic      (* parseToAddr, bech32 branch *)
      else if f_denom_guard F && negb (valid_denom d) then VErr
      else if f_amount_guard F && (a <? 0) then VErr
      else if int_from_big_panics a then VPanic
      else if new_coin_panics d a then VPanic
      else if a =? 0 then VErr            (* sdk.NewCoins drops the zero coin; MsgSend.ValidateBasic rejects *)
      else VPass
  | FT_getErc20Address, [AStr d _ _ tf] =>
      if f_erc20_nul_guard F && has_nul d then VErr
      else if valid_denom d || tf then (if has_nul d then VPanic else VPass)
      else VErr
  | W_execute, [AStr _ b _ _; ABytes j; AFunds l] =>
      if negb b then VErr else if negb j then VErr else if funds_panic l then VPanic else VPass
  | W_query, [AStr _ b _ _; ABytes j] => if negb b then VErr else if negb j then VErr else VPass
  | W_queryRaw, [AStr _ b _ _; ABytes _] => if b then VPass else VErr
  | W_instantiate, [AStr _ _ _ _; AUint _; ABytes _; AStr _ _ _ _; AFunds l] =>
      if funds_panic l then VPanic else VPass   (* MsgInstantiateContract.ValidateBasic is part of the body oracle *)
  | W_executeMulti, [AMsgs l] =>
      (* per message: bech32, json, then NewIntFromBigInt on every fund before Execute *)
      VPass
  | O_queryExchangeRate, [AStr p _ _ _] => oracle_pair F p
  | O_chainLinkLatestRoundData, [AStr p _ _ _] => oracle_pair F p
  | M_other, _ => VPass
  | _, _ => VErr                        (* assertNumArgs / ErrArgTypeValidation *)
  end.

(** methods whose body (keeper work after the validators) may write state *)
Definition can_mutate (m : mid) : bool :=
  match m with
  | FT_sendToBank | FT_sendToEvm | FT_bankMsgSend | W_execute | W_instantiate | W_executeMulti | M_other => true
  | _ => false
  end.

(** calls whose body touches no store at all (the local gas meter records exactly 0) *)
Definition stateless (m : mid) (args : list arg) : bool :=
  match m, args with
  | FT_whoAmI, _ => true
  | W_executeMulti, [AMsgs []] => true
  | _, _ => false
  end.

(* ------------------------------------------------------------------ gas *)

Inductive gres := GPanic | GGas (g : Z).

Definition tx_gas : Z := 21000.

(** precompile.requiredGas with Go slice semantics for input[:4]: reslicing a short slice panics
    only when its CAPACITY is below 4.  [cap4] = cap(input) >= 4: false for a transaction's own
    calldata shorter than 4 bytes; true for calldata a contract passes from its memory (the
    interpreter hands a window of the memory buffer), unless it is empty (nil slice).  Without
    the guard and with capacity, input[:4] reads bytes beyond the calldata: taken as an unknown
    selector. *)
Definition required_gas (F : facts) (P : pc_facts) (cap4 : bool) (inp : input) : gres :=
  if i_len inp <? 4 then (if f_len_guard F || cap4 then GGas tx_gas else GPanic)
  else match selected P inp with
       | None => GGas tx_gas
       | Some mf =>
           if mf_mutation mf then GGas (30 * (i_len inp - 4) + 2000)
           else GGas (3 * (i_len inp - 4) + 1000)
       end.

Definition cap4_of (k : kind) (inp : input) : bool :=
  match k with KTop => 4 <=? i_len inp | _ => negb (i_len inp =? 0) end.

(* ------------------------------------------------------------------ the precompile run *)

Inductive outcome := Ok | Err | OutOfGas | Panic.

Section Run.
  Variable St : Type.

  (** Body oracle = the keeper-level work behind the validators, run on the cache context with the
      local gas meter of limit [lim].  It returns the (possibly dirty) state and the gas the meter
      recorded; [BOog] = the meter panicked with sdk.ErrorOutOfGas. *)
  Inductive bres :=
  | BOk (st : St) (used : Z) | BErr (st : St) (used : Z) | BOog (st : St)
  | BMint (st : St) (supply amt : Z)
  | BNested (st : St) (used : Z) (n : nested) (data : list Z) (cap : Z).
  (** [BNested st used n data cap]: the body called a contract (the FunToken's ERC20) that did not answer with a
      well-formed return: CallContractWithInput turns that into an error of the body — after decoding the revert
      data with evm.NewRevertError when it reverted. *)
  (** [BMint st supply amt]: the body (sendToBank on an ERC20-born FunToken) is about to call
      bank.MintCoins for [amt] while the denom's supply is [supply]; sdkmath.Int.Add panics when the
      sum needs more than 256 bits.  The rest of the body is [after_mint]. *)
  Variable body : mid -> list arg -> St -> Z -> bres.
  Variable after_mint : mid -> list arg -> St -> Z -> bres.
  Variable transfer : St -> Z -> St.     (* core.Transfer(caller -> precompile account, value) *)

  Record result := { r_out : outcome; r_left : Z; r_st : St }.

  Definition value_nonzero (v : option Z) : bool := match v with Some x => negb (x =? 0) | None => false end.

  Definition oog (P : pc_facts) (g1 : Z) (st : St) : result :=
    if pf_oog_deferred P then {| r_out := OutOfGas; r_left := g1; r_st := st |}
    else {| r_out := Panic; r_left := g1; r_st := st |}.

  (** contract.UseGas(meter.GasConsumed()): deducts unless the contract has less gas left *)
  Definition charge (P : pc_facts) (g1 used : Z) : Z :=
    let u := Z.max 0 used in
    if pf_usegas P then (if g1 <? u then g1 else g1 - u) else g1.

  Definition run_handler (F : facts) (P : pc_facts) (mf : method_facts) (ro : bool) (value : option Z)
             (g1 : Z) (args : list arg) (st : St) : result :=
    let fail := {| r_out := Err; r_left := g1; r_st := st |} in
    let guard_fails :=
      match mf_guard mf with
      | GReadonly => ro
      | GQuery => value_nonzero value
      | GNone => false
      end in
    if guard_fails then fail
    else match validate F (mf_id mf) args with
         | VErr => fail
         | VPanic =>
             (* a Go runtime/library panic: HandleOutOfGasPanic re-panics everything but sdk.ErrorOutOfGas *)
             if pf_oog_deferred P && negb (f_oog_only F) then {| r_out := OutOfGas; r_left := g1; r_st := st |}
             else {| r_out := Panic; r_left := g1; r_st := st |}
         | VPass =>
             let lim := g1 in
             let finish (b : bres) : result :=
               match b with
               | BOk st' u => if f_local_meter F && (lim <? u) then oog P g1 st'
                              else {| r_out := Ok; r_left := charge P g1 u; r_st := st' |}
               | BErr st' u => if f_local_meter F && (lim <? u) then oog P g1 st'
                               else {| r_out := Err; r_left := charge P g1 u; r_st := st' |}
               | BOog st' => oog P g1 st'
               | BMint st' _ _ => {| r_out := Err; r_left := g1; r_st := st' |}   (* not a shape [after_mint] takes *)
               | BNested st' u n data cap =>
                   if revert_decode_panics F n data cap then
                     (if pf_oog_deferred P && negb (f_oog_only F) then {| r_out := OutOfGas; r_left := g1; r_st := st' |}
                      else {| r_out := Panic; r_left := g1; r_st := st' |})
                   else if f_local_meter F && (lim <? u) then oog P g1 st'
                   else {| r_out := Err; r_left := charge P g1 u; r_st := st' |}
               end in
             match body (mf_id mf) args st lim with
             | BMint st' supply amt =>
                 if two256 <=? supply + amt then
                   (if f_supply_guard F then {| r_out := Err; r_left := g1; r_st := st' |}
                    else if pf_oog_deferred P && negb (f_oog_only F) then {| r_out := OutOfGas; r_left := g1; r_st := st' |}
                    else {| r_out := Panic; r_left := g1; r_st := st' |})
                 else finish (after_mint (mf_id mf) args st' lim)
             | b => finish b
             end
         end.

  (** runPrecompiledContract: RequiredGas, UseGas, Run *)
  Definition run_pc (F : facts) (P : pc_facts) (cap4 ro : bool) (value : option Z) (gas : Z)
             (inp : input) (st : St) : result :=
    match required_gas F P cap4 inp with
    | GPanic => {| r_out := Panic; r_left := gas; r_st := st |}
    | GGas rq =>
        if gas <? rq then {| r_out := OutOfGas; r_left := gas; r_st := st |}
        else
          let g1 := gas - rq in
          let fail := {| r_out := Err; r_left := g1; r_st := st |} in
          (* OnRunStart: decomposeInput *)
          if i_len inp <? 4 then fail
          else match selected P inp with
               | None => fail
               | Some mf =>
                   match i_unpack inp with
                   | None => fail
                   | Some args =>
                       if negb (mf_in_switch mf) then fail
                       else run_handler F P mf ro value g1 args st
                   end
               end
    end.

  (** EVM.Call / StaticCall / DelegateCall / CallCode around a precompile: snapshot, value
      transfer (CALL only), run, and on any error: revert to the snapshot and consume all gas
      (a precompile never returns ErrExecutionReverted).  A panic unwinds through the EVM. *)
  Definition evm_call (F : facts) (p : pcid) (k : kind) (value gas : Z) (inp : input) (st : St) : result :=
    let P := pc_of F p in
    let st1 := if transfers k && negb (value =? 0) then transfer st value else st in
    let r := run_pc F P (cap4_of k inp) (pc_readonly F k) (pc_value k value) gas inp st1 in
    match r_out r with
    | Ok => r
    | Panic => r
    | Err | OutOfGas => {| r_out := r_out r; r_left := 0; r_st := st |}
    end.
End Run.

Arguments BOk {St}. Arguments BErr {St}. Arguments BOog {St}. Arguments BMint {St}. Arguments BNested {St}.
Arguments r_out {St}. Arguments r_left {St}. Arguments r_st {St}.

(* ------------------------------------------------------------------ variants of a facts record *)

Definition with_guards (F : facts) (g : panic_guards) : facts :=
  {| f_funtoken := f_funtoken F; f_wasm := f_wasm F; f_oracle := f_oracle F; f_guards := g;
     f_local_meter := f_local_meter F; f_oog_only := f_oog_only F; f_addr_conv_total := f_addr_conv_total F; f_direct_ro := f_direct_ro F;
     f_call_inherits_static := f_call_inherits_static F;
     f_snap_each_call := f_snap_each_call F; f_max_calls := f_max_calls F;
     f_revert_decode_total := f_revert_decode_total F;
     f_pair_validation_total := f_pair_validation_total F |}.

Definition all_guards : panic_guards :=
  {| g_len := true; g_denom := true; g_amount := true; g_evm_denom := true; g_erc20_nul := true; g_supply := true |}.
(** the pinned tree, before fix: 7d2b3b1 *)
Definition no_len_guard : panic_guards :=
  {| g_len := false; g_denom := true; g_amount := true; g_evm_denom := true; g_erc20_nul := true; g_supply := true |}.
Definition no_denom_guard : panic_guards :=
  {| g_len := true; g_denom := false; g_amount := false; g_evm_denom := true; g_erc20_nul := true; g_supply := true |}.
(** before the NUL-character fix *)
Definition no_nul_guards : panic_guards :=
  {| g_len := true; g_denom := true; g_amount := true; g_evm_denom := false; g_erc20_nul := false; g_supply := true |}.
(** before the supply-overflow fix *)
Definition no_supply_guard : panic_guards :=
  {| g_len := true; g_denom := true; g_amount := true; g_evm_denom := true; g_erc20_nul := true; g_supply := false |}.

Definition with_oracle_oog (F : facts) (b : bool) : facts :=
  {| f_funtoken := f_funtoken F; f_wasm := f_wasm F;
     f_oracle := {| pf_methods := pf_methods (f_oracle F); pf_start_first := pf_start_first (f_oracle F);
                    pf_oog_deferred := b; pf_usegas := pf_usegas (f_oracle F) |};
     f_guards := f_guards F;
     f_local_meter := f_local_meter F; f_oog_only := f_oog_only F; f_addr_conv_total := f_addr_conv_total F; f_direct_ro := f_direct_ro F;
     f_call_inherits_static := f_call_inherits_static F;
     f_snap_each_call := f_snap_each_call F; f_max_calls := f_max_calls F;
     f_revert_decode_total := f_revert_decode_total F;
     f_pair_validation_total := f_pair_validation_total F |}.

Definition with_call_inherits (F : facts) (b : bool) : facts :=
  {| f_funtoken := f_funtoken F; f_wasm := f_wasm F; f_oracle := f_oracle F; f_guards := f_guards F;
     f_local_meter := f_local_meter F; f_oog_only := f_oog_only F; f_addr_conv_total := f_addr_conv_total F; f_direct_ro := f_direct_ro F;
     f_call_inherits_static := b; f_snap_each_call := f_snap_each_call F; f_max_calls := f_max_calls F;
     f_revert_decode_total := f_revert_decode_total F;
     f_pair_validation_total := f_pair_validation_total F |}.

(** a local gas meter that is not capped by the gas left on the contract (seeded change
    "local gas meter oversized": limit = contract.Gas + requiredGas) *)
Definition with_local_meter (F : facts) (b : bool) : facts :=
  {| f_funtoken := f_funtoken F; f_wasm := f_wasm F; f_oracle := f_oracle F; f_guards := f_guards F;
     f_local_meter := b; f_oog_only := f_oog_only F; f_addr_conv_total := f_addr_conv_total F; f_direct_ro := f_direct_ro F;
     f_call_inherits_static := f_call_inherits_static F;
     f_snap_each_call := f_snap_each_call F; f_max_calls := f_max_calls F;
     f_revert_decode_total := f_revert_decode_total F;
     f_pair_validation_total := f_pair_validation_total F |}.

Definition with_addr_conv (F : facts) (b : bool) : facts :=
  {| f_funtoken := f_funtoken F; f_wasm := f_wasm F; f_oracle := f_oracle F; f_guards := f_guards F;
     f_local_meter := f_local_meter F; f_oog_only := f_oog_only F; f_addr_conv_total := b;
     f_direct_ro := f_direct_ro F; f_call_inherits_static := f_call_inherits_static F;
     f_snap_each_call := f_snap_each_call F; f_max_calls := f_max_calls F;
     f_revert_decode_total := f_revert_decode_total F;
     f_pair_validation_total := f_pair_validation_total F |}.

(** SavePrecompileCalledJournalChange that keeps the previous snapshot when the latest journal entry already
    is a precompile snapshot (seeded change "precompile snapshot coalesced") *)
Definition with_snap_each (F : facts) (b : bool) : facts :=
  {| f_funtoken := f_funtoken F; f_wasm := f_wasm F; f_oracle := f_oracle F; f_guards := f_guards F;
     f_local_meter := f_local_meter F; f_oog_only := f_oog_only F; f_addr_conv_total := f_addr_conv_total F;
     f_direct_ro := f_direct_ro F; f_call_inherits_static := f_call_inherits_static F;
     f_snap_each_call := b; f_max_calls := f_max_calls F; f_revert_decode_total := f_revert_decode_total F;
     f_pair_validation_total := f_pair_validation_total F |}.

(* ------------------------------------------------------------------ one transaction: SEQUENCES of calls on one StateDB *)

(** The calls of one transaction share one StateDB.  What makes "a failed call leaves nothing behind" true
    for the writes a precompile makes to the OTHER modules (bank, wasm, …: the cache multistore [Ms]) is the
    journal: OnRunStart -> CacheCtxForPrecompile copies the multistore, SavePrecompileCalledJournalChange
    appends the copy as a [PrecompileCalled] entry, and evm.Call's RevertToSnapshot(len(journal) at call
    entry) runs the entries' Revert from the newest down to that length; PrecompileCalled.Revert puts the
    copy back.  The EVM side [Ev] (state objects: balances, storage, logs; restored by the other journal
    entries) is C04's subject: here its entries are markers [JEvm] and a reverted call gets [Ev] back as it was.

    [x_cnt] = StateDB.multistoreCacheCount: incremented with every journaled snapshot, never decremented; a
    call that lifts it above [f_max_calls] fails in OnRunStart (after the entry was appended).
    decomposeInput comes before all of that: calldata that selects no method / does not decode journals nothing. *)
Section Tx.
  Variables Ev Ms : Type.
  Definition tst : Type := (Ev * Ms)%type.
  Variable body : mid -> list arg -> tst -> Z -> bres tst.
  Variable after_mint : mid -> list arg -> tst -> Z -> bres tst.
  (** the body appended EVM journal entries (ERC20 calls, logs of emitted ABCI events, …) *)
  Variable evm_touch : mid -> list arg -> tst -> bool.
  Variable transfer_ev : Ev -> Z -> Ev.

  Inductive jentry := JEvm | JPre (snap : Ms).

  Record txstate := { x_ev : Ev; x_ms : Ms; x_j : list jentry (* newest first *); x_cnt : Z }.

  Definition st_of (x : txstate) : tst := (x_ev x, x_ms x).
  Definition transfer_t (st : tst) (v : Z) : tst := (transfer_ev (fst st) v, snd st).

  Definition top_is_pre (j : list jentry) : bool := match j with JPre _ :: _ => true | _ => false end.

  (** journal.Revert: undo the [k] newest entries *)
  Fixpoint unwind (k : nat) (j : list jentry) (ms : Ms) : list jentry * Ms :=
    match k, j with
    | S k', JEvm :: r => unwind k' r ms
    | S k', JPre s :: r => unwind k' r s
    | _, _ => (j, ms)
    end.
  (** StateDB.RevertToSnapshot(revision taken when the journal had [n] entries) *)
  Definition revert_to (n : nat) (j : list jentry) (ms : Ms) : list jentry * Ms :=
    unwind (List.length j - n) j ms.

  (** the call gets past RequiredGas and decomposeInput, i.e. OnRunStart journals a snapshot *)
  Definition reaches_start (F : facts) (P : pc_facts) (cap4 : bool) (gas : Z) (inp : input) : bool :=
    match required_gas F P cap4 inp with
    | GPanic => false
    | GGas rq =>
        negb (gas <? rq) && negb (i_len inp <? 4) &&
        match selected P inp, i_unpack inp with Some _, Some _ => true | _, _ => false end
    end.

  Record xresult := { xr_out : outcome; xr_left : Z; xr_x : txstate }.

  Definition call_x (F : facts) (p : pcid) (k : kind) (value gas : Z) (inp : input) (x : txstate) : xresult :=
    let P := pc_of F p in
    let idx := List.length (x_j x) in                                  (* snapshot := evm.StateDB.Snapshot() *)
    let moved := transfers k && negb (value =? 0) in                    (* Transfer: balance changes are journaled *)
    let ev1 := if moved then transfer_ev (x_ev x) value else x_ev x in
    let j1 := if moved then JEvm :: x_j x else x_j x in
    let started := reaches_start F P (cap4_of k inp) gas inp in
    (* SavePrecompileCalledJournalChange *)
    let journaled := started && (f_snap_each_call F || negb (top_is_pre j1)) in
    let j2 := if journaled then JPre (x_ms x) :: j1 else j1 in
    let cnt2 := if journaled then x_cnt x + 1 else x_cnt x in
    let st1 := (ev1, x_ms x) in
    let r := if journaled && (f_max_calls F <? cnt2)
             then {| r_out := Err; r_left := 0; r_st := st1 |}
             else run_pc tst body after_mint F P (cap4_of k inp) (pc_readonly F k) (pc_value k value) gas inp st1 in
    let touched := match selected P inp, i_unpack inp with
                   | Some mf, Some args => started && evm_touch (mf_id mf) args st1
                   | _, _ => false
                   end in
    let j3 := if touched then JEvm :: j2 else j2 in
    match r_out r with
    | Ok | Panic =>
        {| xr_out := r_out r; xr_left := r_left r;
           xr_x := {| x_ev := fst (r_st r); x_ms := snd (r_st r); x_j := j3; x_cnt := cnt2 |} |}
    | Err | OutOfGas =>
        (* evm.StateDB.RevertToSnapshot(snapshot); all forwarded gas consumed *)
        let jm := revert_to idx j3 (snd (r_st r)) in
        {| xr_out := r_out r; xr_left := 0;
           xr_x := {| x_ev := x_ev x; x_ms := snd jm; x_j := fst jm; x_cnt := cnt2 |} |}
    end.

  (** what a transaction does between / around precompile calls *)
  Inductive op :=
  | OEvm (f : Ev -> Ev)                                        (* any journaled EVM state change: SSTORE, transfer, log, new account … *)
  | OCall (p : pcid) (k : kind) (value gas : Z) (inp : input).

  Definition step (F : facts) (x : txstate) (o : op) : txstate :=
    match o with
    | OEvm f => {| x_ev := f (x_ev x); x_ms := x_ms x; x_j := JEvm :: x_j x; x_cnt := x_cnt x |}
    | OCall p k v g i => xr_x (call_x F p k v g i x)
    end.

  Definition tx_run (F : facts) (ops : list op) (x : txstate) : txstate := fold_left (step F) ops x.

  (** the same transaction with its FAILED precompile calls left out *)
  Definition step_drop (F : facts) (x : txstate) (o : op) : txstate :=
    match o with
    | OEvm _ => step F x o
    | OCall p k v g i =>
        match xr_out (call_x F p k v g i x) with
        | Err | OutOfGas => x
        | _ => step F x o
        end
    end.
  Definition tx_run_drop (F : facts) (ops : list op) (x : txstate) : txstate := fold_left (step_drop F) ops x.
End Tx.

Arguments JEvm {Ms}. Arguments JPre {Ms}.
Arguments x_ev {Ev Ms}. Arguments x_ms {Ev Ms}. Arguments x_j {Ev Ms}. Arguments x_cnt {Ev Ms}.
Arguments xr_out {Ev Ms}. Arguments xr_left {Ev Ms}. Arguments xr_x {Ev Ms}.
Arguments OEvm {Ev}. Arguments OCall {Ev}.

(** evm.NewRevertError that reads revertReason[4:36] behind the Panic(uint256) selector without a length check
    (seeded change "revert panic payload short slice") *)
Definition with_revert_decode (F : facts) (b : bool) : facts :=
  {| f_funtoken := f_funtoken F; f_wasm := f_wasm F; f_oracle := f_oracle F; f_guards := f_guards F;
     f_local_meter := f_local_meter F; f_oog_only := f_oog_only F; f_addr_conv_total := f_addr_conv_total F;
     f_direct_ro := f_direct_ro F; f_call_inherits_static := f_call_inherits_static F;
     f_snap_each_call := f_snap_each_call F; f_max_calls := f_max_calls F; f_revert_decode_total := b; f_pair_validation_total := f_pair_validation_total F |}.

(** asset.Pair.Validate with a per-side pattern that is not anchored at the end (seeded change "pair regex unanchored") *)
Definition with_pair_validation (F : facts) (b : bool) : facts :=
  {| f_funtoken := f_funtoken F; f_wasm := f_wasm F; f_oracle := f_oracle F; f_guards := f_guards F;
     f_local_meter := f_local_meter F; f_oog_only := f_oog_only F; f_addr_conv_total := f_addr_conv_total F;
     f_direct_ro := f_direct_ro F; f_call_inherits_static := f_call_inherits_static F;
     f_snap_each_call := f_snap_each_call F; f_max_calls := f_max_calls F;
     f_revert_decode_total := f_revert_decode_total F; f_pair_validation_total := b |}.
