(** C08 — evaluation of implementation traces: correspondence (the model run on the observed
    call — after the observed earlier steps of the same transaction — with the keeper-level body
    replaced by what was observed) and the property predicate [Pb] on the observed call itself. *)
From Coq Require Import List ZArith Bool String.
Import ListNotations.
Require Import Nib.C08.Model Nib.C08.Spec.
Local Open Scope Z_scope.

Record call := {
  c_reached : bool;        (* the wrapper got as far as the precompile (no depth / balance / write-protection rejection) *)
  c_pc : pcid;
  c_kind : kind;
  c_value : Z;            (* wei attached to the call *)
  c_gas : Z;              (* gas forwarded to the precompile as seen at the geth wrapper *)
  c_inp : input;
  (* observed at the wrapper's return *)
  o_class : outcome;
  o_left : Z;             (* gas handed back *)
  o_state_eq : bool;      (* digest of bank+evm+wasm+oracle stores unchanged (after StateDB commit) *)
  o_core_eq : bool;       (* the same digest ignoring the unibi balances of caller and precompile account *)
  o_oog_panic : bool;     (* the recovered Go panic value was sdk.ErrorOutOfGas *)
  o_cost : option Z;      (* gas the same call consumes when given ample gas (forwarded - handed back), if it succeeds then *)
  o_mint_panic : bool;    (* the recovered Go panic was sdkmath's "integer overflow" under bank.MintCoins *)
  o_revert_panic : bool   (* the recovered Go panic was a slice-bounds runtime error while the FunToken's ERC20 was set to revert *)
}.

(** an earlier step of the same transaction (same StateDB): a journaled EVM state change (value transfer
    between accounts, SSTORE, log) or another precompile call with what was observed of it *)
Inductive pre := PEvm | PCall (c : call).

(** a case = the call under test and the steps of the transaction that preceded it *)
Record case := {
  c_pre : list pre;
  c_call : call;
  c_drop_eq : bool    (* observed: the same transaction without its failed earlier calls commits the same state and gives the call under test the same outcome *)
}.

(** body oracle read off the observation; both sides of the state = number of writes *)
Definition obs_body (c : call) : mid -> list arg -> Z * Z -> Z -> bres (Z * Z) :=
  fun _ _ st lim =>
    let st' := if o_state_eq c then st else (fst st, snd st + 1) in
    match o_class c with
    | Ok => BOk st' (lim - o_left c)
    | Err => BErr st' 0
    | OutOfGas => BOog st'
    | Panic => if o_oog_panic c then BOog st' else if o_mint_panic c then BMint st' two256 0
               else if o_revert_panic c then BNested st' 0 NRevert panic_selector 4 else BErr st' 0
    end.

Definition obs_after : mid -> list arg -> Z * Z -> Z -> bres (Z * Z) := fun _ _ st _ => BErr st 0.
(** state-changing methods leave EVM journal entries (ERC20 calls, logs of the emitted ABCI events) *)
Definition obs_touch : mid -> list arg -> Z * Z -> bool := fun m _ _ => can_mutate m.

Definition run_call (F : facts) (c : call) (x : txstate Z Z) : xresult Z Z :=
  call_x Z Z (obs_body c) obs_after obs_touch (fun ev _ => ev + 1) F (c_pc c) (c_kind c) (c_value c) (c_gas c) (c_inp c) x.

Definition run_pre (F : facts) (x : txstate Z Z) (s : pre) : txstate Z Z :=
  match s with
  | PEvm => {| x_ev := x_ev x + 1; x_ms := x_ms x; x_j := JEvm :: x_j x; x_cnt := x_cnt x |}   (* = step … (OEvm (fun ev => ev + 1)) *)
  | PCall c => if c_reached c then xr_x (run_call F c x) else x
  end.

Definition x_start : txstate Z Z := {| x_ev := 0; x_ms := 0; x_j := []; x_cnt := 0 |}.

(** the state the earlier steps leave, and the model's answer for the call under test *)
Definition state_before (F : facts) (c : case) : txstate Z Z := fold_left (run_pre F) (c_pre c) x_start.
Definition model_result (F : facts) (c : case) : xresult Z Z := run_call F (c_call c) (state_before F c).

(** gas the body must at least / exactly have used when the call succeeded *)
Definition body_gas_ok (F : facts) (c : call) : bool :=
  match o_class c, selected (pc_of F (c_pc c)) (c_inp c), required_gas F (pc_of F (c_pc c)) (cap4_of (c_kind c) (c_inp c)) (c_inp c), i_unpack (c_inp c) with
  | Ok, Some mf, GGas rq, Some args =>
      let g1 := c_gas c - rq in
      (* every store access costs at least ReadCostFlat = 1000 *)
      if stateless (mf_id mf) args then o_left c =? g1 else o_left c <=? g1 - 1000
  | _, _, _, _ => true
  end.

Definition mismatch (F : facts) (cs : case) : bool :=
  let c := c_call cs in
  let x := state_before F cs in
  let r := model_result F cs in
  let unchanged := (x_ev (xr_x r) =? x_ev x) && (x_ms (xr_x r) =? x_ms x) in
  c_reached c && negb (outcome_eqb (xr_out r) (o_class c)
        && (outcome_eqb (o_class c) Panic || (xr_left r =? o_left c))
        && (negb unchanged || o_state_eq c || outcome_eqb (o_class c) Panic)
        && body_gas_ok F c).

Definition case_method (F : facts) (c : call) : option method_facts := selected (pc_of F (c_pc c)) (c_inp c).

(** [Pb] on the call under test: "state as before" = as the earlier steps of the transaction left it *)
Definition violates (F : facts) (cs : case) : bool :=
  let c := c_call cs in
  c_reached c && negb (Pb (c_kind c) (c_value c) (c_gas c) (case_method F c) (o_class c) (o_left c) (o_state_eq c) (o_core_eq c)
        && Pb_nested (c_kind c) (case_method F c) (o_class c) (o_state_eq c)
        && Pb_gas (o_class c) (c_gas c) (o_left c) (o_cost c)
        && Pb_tx (c_drop_eq cs)).
