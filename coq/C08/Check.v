(** C08 — evaluation of implementation traces: correspondence (the model run on the observed
    call, with the keeper-level body replaced by what was observed) and the property predicate
    [Pb] on the observed call itself. *)
From Coq Require Import List ZArith Bool String.
Import ListNotations.
Require Import Nib.C08.Model Nib.C08.Spec.
Local Open Scope Z_scope.

Record case := {
  c_reached : bool;        (* the wrapper got as far as the precompile (no depth / balance / write-protection rejection) *)
  c_pc : pcid;
  c_kind : kind;
  c_value : Z;            (* wei attached to the call *)
  c_gas : Z;              (* gas forwarded to the precompile as seen at the geth wrapper *)
  c_inp : input;
  (* observed at the wrapper's return *)
  o_class : outcome;
  o_left : Z;             (* gas handed back *)
  o_state_eq : bool;      (* digest of bank+evm+wasm+oracle stores unchanged (after StateDB commit) *)
  o_core_eq : bool;       (* the same digest ignoring the unibi balances of caller and precompile account *)
  o_oog_panic : bool;     (* the recovered Go panic value was sdk.ErrorOutOfGas *)
  o_cost : option Z;      (* gas the same call consumes when given ample gas (forwarded - handed back), if it succeeds then *)
  o_mint_panic : bool     (* the recovered Go panic was sdkmath's "integer overflow" under bank.MintCoins *)
}.

(** body oracle read off the observation; state = number of writes *)
Definition obs_body (c : case) : mid -> list arg -> Z -> Z -> bres Z :=
  fun _ _ st lim =>
    let st' := if o_state_eq c then st else st + 1 in
    match o_class c with
    | Ok => BOk st' (lim - o_left c)
    | Err => BErr st' 0
    | OutOfGas => BOog st'
    | Panic => if o_oog_panic c then BOog st' else if o_mint_panic c then BMint st' two256 0 else BErr st' 0
    end.

Definition obs_after : mid -> list arg -> Z -> Z -> bres Z := fun _ _ st _ => BErr st 0.

Definition model_result (F : facts) (c : case) : result Z :=
  evm_call Z (obs_body c) obs_after (fun st _ => st + 1) F (c_pc c) (c_kind c) (c_value c) (c_gas c) (c_inp c) 0.

(** gas the body must at least / exactly have used when the call succeeded *)
Definition body_gas_ok (F : facts) (c : case) : bool :=
  match o_class c, selected (pc_of F (c_pc c)) (c_inp c), required_gas F (pc_of F (c_pc c)) (cap4_of (c_kind c) (c_inp c)) (c_inp c), i_unpack (c_inp c) with
  | Ok, Some mf, GGas rq, Some args =>
      let g1 := c_gas c - rq in
      (* every store access costs at least ReadCostFlat = 1000 *)
      if stateless (mf_id mf) args then o_left c =? g1 else o_left c <=? g1 - 1000
  | _, _, _, _ => true
  end.

Definition mismatch (F : facts) (c : case) : bool :=
  let r := model_result F c in
  c_reached c && negb (outcome_eqb (r_out r) (o_class c)
        && (outcome_eqb (o_class c) Panic || (r_left r =? o_left c))
        && (negb (r_st r =? 0) || o_state_eq c || outcome_eqb (o_class c) Panic)
        && body_gas_ok F c).

Definition case_method (F : facts) (c : case) : option method_facts := selected (pc_of F (c_pc c)) (c_inp c).

Definition violates (F : facts) (c : case) : bool :=
  c_reached c && negb (Pb (c_kind c) (c_value c) (c_gas c) (case_method F c) (o_class c) (o_left c) (o_state_eq c) (o_core_eq c)
        && Pb_nested (c_kind c) (case_method F c) (o_class c) (o_state_eq c)
        && Pb_gas (o_class c) (c_gas c) (o_left c) (o_cost c)).
