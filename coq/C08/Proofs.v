(** C08 — proofs about the model of a precompile call (Model.v) for every facts record [F],
    every body oracle, every calldata / decode result, call kind, value and gas. *)
From Coq Require Import List ZArith Bool String Lia.
Import ListNotations.
Require Import Nib.C08.Model Nib.C08.Spec.
Local Open Scope Z_scope.

(** destruct the scrutinee of the outermost [match] / [if] of the goal (or of a hypothesis) *)
Ltac dmatch :=
  match goal with
  | |- context [match ?x with _ => _ end] =>
      match x with
      | context [match _ with _ => _ end] => fail 1
      | _ => destruct x eqn:?
      end
  end.
Ltac dmatch_in H :=
  match type of H with
  | context [match ?x with _ => _ end] =>
      match x with
      | context [match _ with _ => _ end] => fail 1
      | _ => destruct x eqn:?
      end
  end.

(* ------------------------------------------------------------------ small facts *)

Lemma is_alpha_nonzero : forall c, is_alpha c = true -> (c =? 0) = false.
Proof. intros c H. unfold is_alpha, is_lower, is_upper in H. apply Z.eqb_neq. lia. Qed.

Lemma denom_char_nonzero : forall c, denom_char c = true -> (c =? 0) = false.
Proof.
  intros c H. unfold denom_char, is_alpha, is_lower, is_upper, is_digit in H. apply Z.eqb_neq. lia.
Qed.

Lemma forallb_denom_no_nul : forall r, forallb denom_char r = true -> existsb (fun c => c =? 0) r = false.
Proof.
  induction r as [|c r IH]; simpl; intro H; [reflexivity|].
  apply andb_prop in H. destruct H as [H1 H2]. rewrite (denom_char_nonzero _ H1), (IH H2). reflexivity.
Qed.

(** a denom accepted by sdk.ValidateDenom holds no NUL character *)
Lemma valid_denom_no_nul : forall s, valid_denom s = true -> has_nul s = false.
Proof.
  intros [|c r] H; simpl in H; [discriminate|].
  repeat (apply andb_prop in H; destruct H as [H ?]).
  unfold has_nul. simpl. rewrite (is_alpha_nonzero _ H). simpl. apply forallb_denom_no_nul. assumption.
Qed.

Lemma wf_uint_no_overflow : forall v, (0 <=? v) && (v <? two256) = true -> int_from_big_panics v = false.
Proof.
  intros v H. apply andb_prop in H. destruct H as [A B]. apply Z.leb_le in A. apply Z.ltb_lt in B.
  unfold int_from_big_panics. apply Z.leb_gt. rewrite Z.abs_eq by assumption. assumption.
Qed.

Lemma funds_wf_no_panic : forall l, forallb fund_wf l = true -> funds_panic l = false.
Proof.
  induction l as [|c l IH]; simpl; intro H; [reflexivity|].
  apply andb_prop in H. destruct H as [H1 H2]. unfold funds_panic in *. simpl.
  rewrite (wf_uint_no_overflow _ H1). simpl. apply IH. assumption.
Qed.

(* ------------------------------------------------------------------ validators never panic behind the guards *)

Definition guards_all (F : facts) : bool :=
  f_denom_guard F && f_amount_guard F && f_evm_denom_guard F && f_erc20_nul_guard F && f_addr_conv_total F &&
  f_pair_validation_total F.

Lemma wf_bits_no_overflow : forall v, (0 <=? v) = true -> (v <? two256) = true -> int_from_big_panics v = false.
Proof. intros v A B. apply wf_uint_no_overflow. rewrite A, B. reflexivity. Qed.

Lemma validate_no_panic : forall F m args,
  guards_all F = true -> forallb arg_wf args = true -> validate F m args <> VPanic.
Proof.
  intros F m args G W. unfold guards_all in G.
  apply andb_prop in G as [G G6].
  apply andb_prop in G as [G G5]. apply andb_prop in G as [G G4]. apply andb_prop in G as [G G3].
  apply andb_prop in G as [G1 G2].
  unfold validate, addr_conv_panics, oracle_pair. rewrite G1, G2, G3, G4, G5, G6. cbn [negb andb]. rewrite ?andb_true_l.
  destruct m; repeat dmatch; try discriminate; intro X; clear X; subst; simpl in W;
    repeat match goal with
           | H : _ && _ = true |- _ => apply andb_prop in H; destruct H
           end;
    repeat match goal with
           | H : context [true && _] |- _ => rewrite andb_true_l in H
           end;
    repeat match goal with
           | H : negb _ = false |- _ => apply negb_false_iff in H
           end;
    unfold new_coin_panics in *;
    repeat match goal with
           | H : valid_denom ?s = true, H2 : has_nul ?s = true |- _ =>
               rewrite (valid_denom_no_nul _ H) in H2; discriminate
           | A : (0 <=? ?v) = true, B : (?v <? two256) = true, H : int_from_big_panics ?v = true |- _ =>
               rewrite (wf_bits_no_overflow _ A B) in H; discriminate
           | H : forallb fund_wf ?l = true, H2 : funds_panic ?l = true |- _ =>
               rewrite (funds_wf_no_panic _ H) in H2; discriminate
           | H : valid_denom ?s = true, H2 : context [valid_denom ?s] |- _ => rewrite H in H2; simpl in H2
           | H : has_nul ?s = false, H2 : has_nul ?s = true |- _ => rewrite H in H2; discriminate
           | H : (?a <? 0) = false, H2 : (?a <? 0) = true |- _ => rewrite H in H2; discriminate
           end; try discriminate.
Qed.

(* ------------------------------------------------------------------ gas *)

Lemma selected_len : forall P inp mf, selected P inp = Some mf -> 4 <= i_len inp.
Proof.
  intros P inp mf H. unfold selected in H. destruct (i_len inp <? 4) eqn:E; [discriminate|].
  apply Z.ltb_ge in E. exact E.
Qed.

Lemma GGas_inj : forall a b, GGas a = GGas b -> a = b.
Proof. intros a b H. injection H. auto. Qed.

Lemma required_gas_nonneg : forall F P c4 inp rq, required_gas F P c4 inp = GGas rq -> 0 <= rq.
Proof.
  intros F P c4 inp rq H. unfold required_gas in H.
  destruct (i_len inp <? 4) eqn:E.
  - destruct (f_len_guard F || c4); [|discriminate]. apply GGas_inj in H. rewrite <- H. unfold tx_gas. lia.
  - apply Z.ltb_ge in E. destruct (selected P inp) as [mf|].
    + destruct (mf_mutation mf); apply GGas_inj in H; rewrite <- H; lia.
    + apply GGas_inj in H. rewrite <- H. unfold tx_gas. lia.
Qed.

Lemma guard_eqb_true : forall a b, guard_eqb a b = true -> a = b.
Proof. destruct a, b; simpl; intro H; try reflexivity; discriminate. Qed.

Lemma method_ok_parts : forall mf, method_ok mf = true ->
  mf_in_switch mf = true /\ mf_guard_first mf = true /\
  (can_mutate (mf_id mf) = true -> mf_guard mf = GReadonly) /\
  (mf_abi_view mf = true -> can_mutate (mf_id mf) = false) /\
  (mf_abi_view mf = false -> mf_guard mf = GReadonly).
Proof.
  intros mf H. unfold method_ok in H.
  apply andb_prop in H as [H H5]. apply andb_prop in H as [H H4]. apply andb_prop in H as [H H3].
  apply andb_prop in H as [H1 H2].
  repeat split; try assumption.
  - intro C. rewrite C in H3. simpl in H3. apply guard_eqb_true. assumption.
  - intro V. rewrite V in H4. simpl in H4. apply negb_true_iff. assumption.
  - intro V. rewrite V in H5. simpl in H5. apply guard_eqb_true. assumption.
Qed.

Section RunProofs.
  Variable St : Type.
  Variable body : mid -> list arg -> St -> Z -> bres St.
  Variable after_mint : mid -> list arg -> St -> Z -> bres St.
  Variable transfer : St -> Z -> St.

  Notation run_handler := (run_handler St body after_mint).
  Notation run_pc := (run_pc St body after_mint).
  Notation evm_call := (evm_call St body after_mint transfer).

  Lemma charge_bounds : forall P g1 u, 0 <= g1 -> 0 <= charge P g1 u <= g1.
  Proof.
    intros P g1 u H. unfold charge. destruct (pf_usegas P); [|lia].
    destruct (g1 <? Z.max 0 u) eqn:E; [lia|]. apply Z.ltb_ge in E. lia.
  Qed.

  Lemma oog_left : forall P g1 st, r_left (oog St P g1 st) = g1.
  Proof. intros. unfold oog. destruct (pf_oog_deferred P); reflexivity. Qed.

  Lemma run_handler_left : forall F P mf ro value g1 args st,
    0 <= g1 -> 0 <= r_left (run_handler F P mf ro value g1 args st) <= g1.
  Proof.
    intros F P mf ro value g1 args st H. unfold Model.run_handler.
    pose proof (charge_bounds P g1) as CB.
    repeat dmatch; simpl; rewrite ?oog_left; try lia; apply CB; assumption.
  Qed.

  Lemma run_pc_left : forall F P c4 ro value gas inp st,
    0 <= gas -> 0 <= r_left (run_pc F P c4 ro value gas inp st) <= gas.
  Proof.
    intros F P c4 ro value gas inp st H. unfold Model.run_pc.
    destruct (required_gas F P c4 inp) as [|rq] eqn:RG; simpl; [lia|].
    pose proof (required_gas_nonneg _ _ _ _ _ RG) as RQ.
    destruct (gas <? rq) eqn:E; simpl; [lia|]. apply Z.ltb_ge in E.
    assert (G1 : 0 <= gas - rq) by lia.
    repeat dmatch; simpl; try lia.
    pose proof (run_handler_left F P m ro value (gas - rq) l st G1). lia.
  Qed.

  (** C08_gas_bounded *)
  Lemma evm_call_gas_bounded : forall F p k value gas inp st,
    0 <= gas -> 0 <= r_left (evm_call F p k value gas inp st) <= gas.
  Proof.
    intros F p k value gas inp st H. unfold Model.evm_call.
    match goal with |- context [Model.run_pc St body after_mint ?a ?b ?c4 ?c ?d ?e ?f ?g] =>
      pose proof (run_pc_left a b c4 c d e f g H) as B; destruct (Model.run_pc St body after_mint a b c4 c d e f g) as [o l s] end.
    simpl in *. destruct o; simpl; lia.
  Qed.

  (** C08_error_leaves_no_state *)
  Lemma evm_call_error : forall F p k value gas inp st,
    is_err (r_out (evm_call F p k value gas inp st)) = true ->
    r_st (evm_call F p k value gas inp st) = st /\ r_left (evm_call F p k value gas inp st) = 0.
  Proof.
    intros F p k value gas inp st. unfold Model.evm_call.
    match goal with |- context [Model.run_pc St body after_mint ?a ?b ?c4 ?c ?d ?e ?f ?g] =>
      destruct (Model.run_pc St body after_mint a b c4 c d e f g) as [o l s] end.
    simpl. destruct o; simpl; intro H; try discriminate; split; reflexivity.
  Qed.

  (* ---------------------------------------------------------------- inversion of a successful run *)

  Definition guard_passes (mf : method_facts) (ro : bool) (value : option Z) : Prop :=
    match mf_guard mf with
    | GReadonly => ro = false
    | GQuery => value_nonzero value = false
    | GNone => True
    end.

  (** the body's final answer: directly, or through the mint step *)
  Definition body_ok (m : mid) (args : list arg) (st : St) (lim : Z) (st' : St) (u : Z) : Prop :=
    body m args st lim = BOk st' u \/
    exists st1 sup amt, body m args st lim = BMint st1 sup amt /\ after_mint m args st1 lim = BOk st' u.

  Lemma run_handler_ok : forall F P mf ro value g1 args st,
    r_out (run_handler F P mf ro value g1 args st) = Ok ->
    guard_passes mf ro value /\ validate F (mf_id mf) args = VPass /\
    exists st' u, body_ok (mf_id mf) args st g1 st' u /\ r_st (run_handler F P mf ro value g1 args st) = st'.
  Proof.
    intros F P mf ro value g1 args st. unfold Model.run_handler, guard_passes, oog, body_ok.
    repeat dmatch; simpl; intro H; try discriminate;
      (split; [auto|split; [reflexivity|]]); eauto 10.
  Qed.

  Lemma run_pc_ok : forall F P c4 ro value gas inp st,
    r_out (run_pc F P c4 ro value gas inp st) = Ok ->
    exists mf args rq,
      selected P inp = Some mf /\ i_unpack inp = Some args /\ mf_in_switch mf = true /\
      required_gas F P c4 inp = GGas rq /\
      guard_passes mf ro value /\ validate F (mf_id mf) args = VPass /\
      exists st' u, body_ok (mf_id mf) args st (gas - rq) st' u /\ r_st (run_pc F P c4 ro value gas inp st) = st'.
  Proof.
    intros F P c4 ro value gas inp st. unfold Model.run_pc.
    destruct (required_gas F P c4 inp) as [|rq] eqn:RG; simpl; [discriminate|].
    destruct (gas <? rq); simpl; [discriminate|].
    destruct (i_len inp <? 4); simpl; [discriminate|].
    destruct (selected P inp) as [mf|] eqn:S; simpl; [|discriminate].
    destruct (i_unpack inp) as [args|] eqn:U; simpl; [|discriminate].
    destruct (mf_in_switch mf) eqn:SW; simpl; [|discriminate].
    intro H. apply run_handler_ok in H. destruct H as [A [B C]].
    exists mf, args, rq. repeat split; auto.
  Qed.

  (* ---------------------------------------------------------------- gas charged = gas consumed *)

  Lemma charge_exact : forall P g1 u, pf_usegas P = true -> Z.max 0 u <= g1 -> charge P g1 u = g1 - Z.max 0 u.
  Proof.
    intros P g1 u U H. unfold charge. rewrite U. destruct (g1 <? Z.max 0 u) eqn:E; [|reflexivity].
    apply Z.ltb_lt in E. lia.
  Qed.

  Lemma run_handler_ok_gas : forall F P mf ro value g1 args st,
    f_local_meter F = true -> pf_usegas P = true -> 0 <= g1 ->
    r_out (run_handler F P mf ro value g1 args st) = Ok ->
    exists st' u, body_ok (mf_id mf) args st g1 st' u /\ Z.max 0 u <= g1 /\
                  r_left (run_handler F P mf ro value g1 args st) = g1 - Z.max 0 u.
  Proof.
    intros F P mf ro value g1 args st LM UG G. unfold Model.run_handler, oog, body_ok. rewrite LM. simpl.
    repeat dmatch; simpl; intro H; try discriminate;
      match goal with
      | E : (g1 <? ?u) = false |- context [charge P g1 ?u] =>
          apply Z.ltb_ge in E; eexists; exists u; (split; [eauto 10|]);
          assert (M : Z.max 0 u <= g1) by lia; split; [exact M|apply charge_exact; assumption]
      end.
  Qed.

  Lemma run_pc_ok_gas : forall F P c4 ro value gas inp st,
    f_local_meter F = true -> pf_usegas P = true ->
    r_out (run_pc F P c4 ro value gas inp st) = Ok ->
    exists mf args rq st' u,
      selected P inp = Some mf /\ i_unpack inp = Some args /\ required_gas F P c4 inp = GGas rq /\
      body_ok (mf_id mf) args st (gas - rq) st' u /\
      rq + Z.max 0 u <= gas /\ gas - r_left (run_pc F P c4 ro value gas inp st) = rq + Z.max 0 u.
  Proof.
    intros F P c4 ro value gas inp st LM UG. unfold Model.run_pc.
    destruct (required_gas F P c4 inp) as [|rq] eqn:RG; simpl; [discriminate|].
    destruct (gas <? rq) eqn:E; simpl; [discriminate|]. apply Z.ltb_ge in E.
    destruct (i_len inp <? 4); simpl; [discriminate|].
    destruct (selected P inp) as [mf|] eqn:S; simpl; [|discriminate].
    destruct (i_unpack inp) as [args|] eqn:U; simpl; [|discriminate].
    destruct (mf_in_switch mf) eqn:SW; simpl; [|discriminate].
    intro H. assert (G1 : 0 <= gas - rq) by lia.
    destruct (run_handler_ok_gas F P mf ro value (gas - rq) args st LM UG G1 H) as [st' [u [B [M L]]]].
    exists mf, args, rq, st', u. repeat split; auto; lia.
  Qed.

  (** where a Panic can come from *)
  Lemma run_handler_panic : forall F P mf ro value g1 args st,
    r_out (run_handler F P mf ro value g1 args st) = Panic ->
    validate F (mf_id mf) args = VPanic \/ pf_oog_deferred P = false \/ f_supply_guard F = false \/
    f_revert_decode_total F = false.
  Proof.
    intros F P mf ro value g1 args st. unfold Model.run_handler, oog.
    repeat dmatch; simpl; intro H; try discriminate; auto;
      match goal with
      | E : revert_decode_panics F _ _ _ = true |- _ =>
          unfold revert_decode_panics in E; apply andb_prop in E; destruct E as [E _];
          apply negb_true_iff in E; auto
      end.
  Qed.

  (** whatever a contract called by the body answers — revert with ANY revert data, out of gas, another
      failure, a return that does not decode — the precompile call is an error of the sub-call, never a panic,
      once the revert-data decoder is total *)
  Lemma run_handler_nested_answer : forall F P mf ro value g1 args st st' u n data cap,
    f_revert_decode_total F = true -> pf_oog_deferred P = true ->
    validate F (mf_id mf) args <> VPanic ->
    body (mf_id mf) args st g1 = BNested st' u n data cap ->
    is_err (r_out (run_handler F P mf ro value g1 args st)) = true.
  Proof.
    intros F P mf ro value g1 args st st' u n data cap T D V B. unfold Model.run_handler, oog, revert_decode_panics.
    rewrite T, D. simpl.
    destruct (mf_guard mf); [destruct ro| destruct (value_nonzero value) |]; try reflexivity;
      (destruct (validate F (mf_id mf) args); try reflexivity; [contradiction|];
       rewrite B; simpl; destruct (f_local_meter F && (g1 <? u)); reflexivity).
  Qed.

  Lemma run_pc_panic : forall F P c4 ro value gas inp st,
    r_out (run_pc F P c4 ro value gas inp st) = Panic ->
    f_len_guard F = false \/ pf_oog_deferred P = false \/ f_supply_guard F = false \/ f_revert_decode_total F = false \/
    exists mf args, selected P inp = Some mf /\ i_unpack inp = Some args /\ validate F (mf_id mf) args = VPanic.
  Proof.
    intros F P c4 ro value gas inp st. unfold Model.run_pc.
    destruct (required_gas F P c4 inp) as [|rq] eqn:RG; simpl.
    - intros _. left. unfold required_gas in RG. repeat dmatch_in RG; try discriminate.
      apply orb_false_iff in Heqb0. tauto.
    - destruct (gas <? rq); simpl; [discriminate|].
      destruct (i_len inp <? 4); simpl; [discriminate|].
      destruct (selected P inp) as [mf|] eqn:S; simpl; [|discriminate].
      destruct (i_unpack inp) as [args|] eqn:U; simpl; [|discriminate].
      destruct (mf_in_switch mf) eqn:SW; simpl; [|discriminate].
      intro H. apply run_handler_panic in H. destruct H as [H|[H|[H|H]]]; [|auto|auto|auto].
      right. right. right. right. exists mf, args. auto.
  Qed.

  Lemma evm_call_out : forall F p k value gas inp st,
    r_out (evm_call F p k value gas inp st) =
    r_out (run_pc F (pc_of F p) (cap4_of k inp) (pc_readonly F k) (pc_value k value) gas inp
             (if transfers k && negb (value =? 0) then transfer st value else st)).
  Proof.
    intros. unfold Model.evm_call.
    match goal with |- context [Model.run_pc St body after_mint ?a ?b ?c4 ?c ?d ?e ?f ?g] =>
      destruct (Model.run_pc St body after_mint a b c4 c d e f g) as [o l s] end.
    destruct o; reflexivity.
  Qed.

  Lemma pc_ok_of : forall F p, guards_ok F = true -> pc_ok (pc_of F p) = true.
  Proof.
    intros F p H. unfold guards_ok in H. apply andb_prop in H as [H H3]. apply andb_prop in H as [H1 H2].
    destruct p; assumption.
  Qed.

  Lemma oog_deferred_of : forall F p, panic_ok F = true -> pf_oog_deferred (pc_of F p) = true.
  Proof.
    intros F p H. unfold panic_ok in H. repeat (apply andb_prop in H as [H ?]). destruct p; assumption.
  Qed.

  (** C08_no_panic *)
  Lemma evm_call_no_panic : forall F p k value gas inp st,
    panic_ok F = true -> input_wf inp = true ->
    r_out (evm_call F p k value gas inp st) <> Panic.
  Proof.
    intros F p k value gas inp st PO W H. rewrite evm_call_out in H.
    apply run_pc_panic in H.
    pose proof (oog_deferred_of F p PO) as OD.
    unfold panic_ok in PO. repeat (apply andb_prop in PO as [PO ?]).
    destruct H as [H|[H|[H|[H|[mf [args [S [U V]]]]]]]];
      try (match goal with A : ?x = true, B : ?x = false |- _ => rewrite A in B; discriminate B end).
    unfold input_wf in W. rewrite U in W.
    apply (validate_no_panic F (mf_id mf) args); [|assumption|assumption].
    unfold guards_all. repeat (apply andb_true_intro; split); assumption.
  Qed.

  Lemma selected_in : forall P inp mf, selected P inp = Some mf -> In mf (pf_methods P).
  Proof.
    intros P inp mf H. unfold selected in H. repeat dmatch_in H; try discriminate.
    unfold find_method in H. apply find_some in H. tauto.
  Qed.

  Lemma method_ok_of : forall P inp mf, pc_ok P = true -> selected P inp = Some mf -> method_ok mf = true.
  Proof.
    intros P inp mf H S. unfold pc_ok in H. repeat (apply andb_prop in H as [H ?]).
    rewrite forallb_forall in H. apply H. eapply selected_in; eassumption.
  Qed.

  (** bodies of methods that are not state-changing are read-only keeper queries *)
  Definition keeps (b : bres St) (st : St) : Prop :=
    match b with BOk st' _ | BErr st' _ | BOog st' | BMint st' _ _ | BNested st' _ _ _ _ => st' = st end.
  Definition query_bodies_readonly : Prop :=
    forall m args st lim, can_mutate m = false ->
      keeps (body m args st lim) st /\ keeps (after_mint m args st lim) st.

  Lemma body_ok_readonly : forall m args st lim st' u,
    query_bodies_readonly -> can_mutate m = false -> body_ok m args st lim st' u -> st' = st.
  Proof.
    intros m args st lim st' u QB CM [B|[st1 [sup [amt [B A]]]]].
    - destruct (QB m args st lim CM) as [K _]. rewrite B in K. exact K.
    - destruct (QB m args st lim CM) as [K _]. rewrite B in K. simpl in K. subst st1.
      destruct (QB m args st lim CM) as [_ K2]. rewrite A in K2. exact K2.
  Qed.

  (** a successful run in read-only mode leaves the state as it was *)
  Lemma run_pc_readonly_state : forall F P c4 value gas inp st,
    pc_ok P = true -> query_bodies_readonly ->
    r_out (run_pc F P c4 true value gas inp st) = Ok ->
    r_st (run_pc F P c4 true value gas inp st) = st /\
    exists mf, selected P inp = Some mf /\ can_mutate (mf_id mf) = false.
  Proof.
    intros F P c4 value gas inp st PO QB H.
    apply run_pc_ok in H. destruct H as [mf [args [rq [S [U [SW [RG [GP [V [st' [u [B E]]]]]]]]]]]].
    pose proof (method_ok_parts _ (method_ok_of _ _ _ PO S)) as [_ [_ [MG [_ _]]]].
    destruct (can_mutate (mf_id mf)) eqn:CM.
    - exfalso. unfold guard_passes in GP. rewrite (MG eq_refl) in GP. discriminate.
    - pose proof (body_ok_readonly _ _ _ _ _ _ QB CM B). subst st'.
      split; [assumption|]. exists mf. auto.
  Qed.

  (** a successful run of a query method changes nothing (any mode) *)
  Lemma run_pc_query_state : forall F P c4 ro value gas inp st mf,
    pc_ok P = true -> query_bodies_readonly ->
    selected P inp = Some mf -> mf_abi_view mf = true ->
    r_out (run_pc F P c4 ro value gas inp st) = Ok ->
    r_st (run_pc F P c4 ro value gas inp st) = st.
  Proof.
    intros F P c4 ro value gas inp st mf PO QB S AV H.
    apply run_pc_ok in H. destruct H as [mf' [args [rq [S' [U [SW [RG [GP [V [st' [u [B E]]]]]]]]]]]].
    rewrite S in S'. inversion S'. subst mf'.
    pose proof (method_ok_parts _ (method_ok_of _ _ _ PO S)) as [_ [_ [_ [MV _]]]].
    pose proof (body_ok_readonly _ _ _ _ _ _ QB (MV AV) B). subst st'. assumption.
  Qed.

  Lemma evm_call_ok_st : forall F p k value gas inp st,
    r_out (evm_call F p k value gas inp st) = Ok ->
    r_st (evm_call F p k value gas inp st) =
    r_st (run_pc F (pc_of F p) (cap4_of k inp) (pc_readonly F k) (pc_value k value) gas inp
            (if transfers k && negb (value =? 0) then transfer st value else st)).
  Proof.
    intros F p k value gas inp st. unfold Model.evm_call.
    match goal with |- context [Model.run_pc St body after_mint ?a ?b ?c4 ?c ?d ?e ?f ?g] =>
      destruct (Model.run_pc St body after_mint a b c4 c d e f g) as [o l s] end.
    destruct o; simpl; intro H; try discriminate; reflexivity.
  Qed.

  Lemma evm_call_st_cases : forall F p k value gas inp st,
    r_out (evm_call F p k value gas inp st) <> Panic ->
    r_out (evm_call F p k value gas inp st) = Ok \/ r_st (evm_call F p k value gas inp st) = st.
  Proof.
    intros F p k value gas inp st. unfold Model.evm_call.
    match goal with |- context [Model.run_pc St body after_mint ?a ?b ?c4 ?c ?d ?e ?f ?g] =>
      destruct (Model.run_pc St body after_mint a b c4 c d e f g) as [o l s] end.
    destruct o; simpl; intro H; auto. congruence.
  Qed.

  (** C08_static_never_mutates: in a call the wrapper marks read-only, nothing changes and
      state-changing methods are refused *)
  Lemma evm_call_readonly : forall F p k value gas inp st,
    guards_ok F = true -> query_bodies_readonly ->
    pc_readonly F k = true -> (transfers k = true -> value = 0) ->
    r_out (evm_call F p k value gas inp st) <> Panic ->
    r_st (evm_call F p k value gas inp st) = st /\
    (is_nonview (selected (pc_of F p) inp) = true -> r_out (evm_call F p k value gas inp st) <> Ok).
  Proof.
    intros F p k value gas inp st GO QB RO TV NP.
    pose proof (pc_ok_of F p GO) as PO.
    assert (ST : (if transfers k && negb (value =? 0) then transfer st value else st) = st).
    { destruct (transfers k) eqn:T; simpl; [|reflexivity]. rewrite (TV eq_refl). reflexivity. }
    split.
    - destruct (evm_call_st_cases F p k value gas inp st NP) as [OK|E]; [|assumption].
      pose proof OK as OK2. rewrite evm_call_out, RO, ST in OK2.
      apply (run_pc_readonly_state F _ _ _ _ _ _ PO QB) in OK2. destruct OK2 as [E _].
      rewrite (evm_call_ok_st _ _ _ _ _ _ _ OK), RO, ST. assumption.
    - intros NV OK. rewrite evm_call_out, RO, ST in OK.
      apply run_pc_ok in OK. destruct OK as [mf [args [rq [S [_ [_ [_ [GP _]]]]]]]].
      rewrite S in NV. simpl in NV. apply negb_true_iff in NV.
      pose proof (method_ok_parts _ (method_ok_of _ _ _ PO S)) as [_ [_ [_ [_ MN]]]].
      unfold guard_passes in GP. rewrite (MN NV) in GP. discriminate.
  Qed.

  (** C08_query_never_mutates: a query method leaves the state as it was, up to the value the
      wrapper itself moved to the precompile account before running it *)
  Lemma evm_call_query : forall F p k value gas inp st mf,
    guards_ok F = true -> query_bodies_readonly ->
    selected (pc_of F p) inp = Some mf -> mf_abi_view mf = true ->
    r_out (evm_call F p k value gas inp st) <> Panic ->
    (r_st (evm_call F p k value gas inp st) = st \/
     (r_out (evm_call F p k value gas inp st) = Ok /\ transfers k = true /\ value <> 0 /\
      r_st (evm_call F p k value gas inp st) = transfer st value)) /\
    (value = 0 -> r_st (evm_call F p k value gas inp st) = st).
  Proof.
    intros F p k value gas inp st mf GO QB S AV NP.
    pose proof (pc_ok_of F p GO) as PO.
    destruct (evm_call_st_cases F p k value gas inp st NP) as [OK|E]; [|split; auto].
    pose proof OK as OK2. rewrite evm_call_out in OK2.
    pose proof (run_pc_query_state F _ _ _ _ _ _ _ _ PO QB S AV OK2) as E.
    rewrite (evm_call_ok_st _ _ _ _ _ _ _ OK), E.
    destruct (transfers k) eqn:T; simpl; [|split; auto].
    destruct (value =? 0) eqn:V; simpl; [split; auto|].
    apply Z.eqb_neq in V. split; [|intro; contradiction]. right. repeat split; auto.
  Qed.

  (** query methods guarded by assertContractQuery never see a transfer *)
  Lemma evm_call_guarded_query : forall F p k value gas inp st mf,
    guards_ok F = true -> query_bodies_readonly ->
    selected (pc_of F p) inp = Some mf -> mf_abi_view mf = true -> mf_guard mf = GQuery ->
    r_out (evm_call F p k value gas inp st) <> Panic ->
    r_st (evm_call F p k value gas inp st) = st.
  Proof.
    intros F p k value gas inp st mf GO QB S AV GQ NP.
    destruct (evm_call_query F p k value gas inp st mf GO QB S AV NP) as [[E|[OK [T [V E]]]] _]; [assumption|].
    exfalso. rewrite evm_call_out in OK. apply run_pc_ok in OK.
    destruct OK as [mf' [args [rq [S' [_ [_ [_ [GP _]]]]]]]]. rewrite S in S'. inversion S'. subst mf'.
    unfold guard_passes in GP. rewrite GQ in GP.
    destruct k; simpl in *; try discriminate; apply negb_false_iff in GP; apply Z.eqb_eq in GP; contradiction.
  Qed.

  Lemma evm_call_ok_left : forall F p k value gas inp st,
    r_out (evm_call F p k value gas inp st) = Ok ->
    r_left (evm_call F p k value gas inp st) =
    r_left (run_pc F (pc_of F p) (cap4_of k inp) (pc_readonly F k) (pc_value k value) gas inp
            (if transfers k && negb (value =? 0) then transfer st value else st)).
  Proof.
    intros F p k value gas inp st. unfold Model.evm_call.
    match goal with |- context [Model.run_pc St body after_mint ?a ?b ?c4 ?c ?d ?e ?f ?g] =>
      destruct (Model.run_pc St body after_mint a b c4 c d e f g) as [o l s] end.
    destruct o; simpl; intro H; try discriminate; reflexivity.
  Qed.

  Lemma usegas_of : forall F p, guards_ok F = true -> pf_usegas (pc_of F p) = true.
  Proof.
    intros F p H. pose proof (pc_ok_of F p H) as PO. unfold pc_ok in PO.
    repeat (apply andb_prop in PO as [PO ?]). assumption.
  Qed.

  Lemma local_meter_of : forall F, panic_ok F = true -> f_local_meter F = true.
  Proof. intros F H. unfold panic_ok in H. repeat (apply andb_prop in H as [H ?]). assumption. Qed.

  (** C08_gas_charged_is_consumed: a successful call is charged exactly RequiredGas plus what the
      local gas meter recorded for the body, and that never exceeds the gas forwarded *)
  Lemma evm_call_gas_charged : forall F p k value gas inp st,
    guards_ok F = true -> panic_ok F = true ->
    r_out (evm_call F p k value gas inp st) = Ok ->
    exists mf args rq st' u,
      selected (pc_of F p) inp = Some mf /\ i_unpack inp = Some args /\
      required_gas F (pc_of F p) (cap4_of k inp) inp = GGas rq /\
      body_ok (mf_id mf) args (if transfers k && negb (value =? 0) then transfer st value else st) (gas - rq) st' u /\
      gas - r_left (evm_call F p k value gas inp st) = rq + Z.max 0 u /\ rq + Z.max 0 u <= gas.
  Proof.
    intros F p k value gas inp st GO PO OK.
    rewrite (evm_call_ok_left _ _ _ _ _ _ _ OK). rewrite evm_call_out in OK.
    destruct (run_pc_ok_gas F _ _ _ _ _ _ _ (local_meter_of F PO) (usegas_of F p GO) OK)
      as [mf [args [rq [st' [u [S [U [RG [B [L E]]]]]]]]]].
    exists mf, args, rq, st', u. repeat split; auto.
  Qed.

  (** the body's gas consumption does not depend on how much gas it was offered *)
  Definition body_cost_deterministic : Prop :=
    forall m args st lim lim' s1 s2 u1 u2,
      body_ok m args st lim s1 u1 -> body_ok m args st lim' s2 u2 -> Z.max 0 u1 = Z.max 0 u2.

  (** the price of a successful call is independent of the gas forwarded: the cost measured with
      ample gas is what every successful run of the same call is charged, hence no run with less
      forwarded gas than that succeeds *)
  Lemma evm_call_cost_independent : forall F p k value gas gas' inp st,
    guards_ok F = true -> panic_ok F = true -> body_cost_deterministic ->
    r_out (evm_call F p k value gas' inp st) = Ok ->
    P_gas (r_out (evm_call F p k value gas inp st)) gas (r_left (evm_call F p k value gas inp st))
          (Some (gas' - r_left (evm_call F p k value gas' inp st))).
  Proof.
    intros F p k value gas gas' inp st GO PO BD OK' c E OK. inversion E. subst c. clear E.
    destruct (evm_call_gas_charged F p k value gas inp st GO PO OK)
      as [mf [args [rq [s1 [u1 [S [U [RG [B [L LE]]]]]]]]]].
    destruct (evm_call_gas_charged F p k value gas' inp st GO PO OK')
      as [mf' [args' [rq' [s2 [u2 [S' [U' [RG' [B' [L' LE']]]]]]]]]].
    rewrite S in S'. inversion S'. subst mf'. rewrite U in U'. inversion U'. subst args'.
    rewrite RG in RG'. apply GGas_inj in RG'. subst rq'.
    pose proof (BD _ _ _ _ _ _ _ _ _ B B') as EQ.
    split; lia.
  Qed.

  (** the property predicate of Spec.v holds of every model run *)
  Lemma model_satisfies_P : forall F p k value gas inp st,
    guards_ok F = true -> panic_ok F = true -> f_direct_ro F = true ->
    query_bodies_readonly -> input_wf inp = true -> 0 <= gas ->
    let r := evm_call F p k value gas inp st in
    P k value gas (selected (pc_of F p) inp) (r_out r) (r_left r)
      (r_st r = st) (r_st r = st \/ r_st r = transfer st value).
  Proof.
    intros F p k value gas inp st GO PO DR QB W G r. subst r.
    pose proof (evm_call_no_panic F p k value gas inp st PO W) as NP.
    unfold P. split; [assumption|]. split; [apply evm_call_gas_bounded; assumption|].
    split; [intro E; apply evm_call_error in E; tauto|].
    assert (RO : direct_ro k = true -> pc_readonly F k = true /\ (transfers k = true -> value = 0)).
    { destruct k; simpl; intro D; try discriminate; (split; [assumption|intro; discriminate]). }
    split; [intro D; destruct (RO D) as [R T]; apply (evm_call_readonly F p k value gas inp st GO QB R T NP)|].
    split; [intros D; destruct (RO D) as [R T]; apply (evm_call_readonly F p k value gas inp st GO QB R T NP)|].
    destruct (selected (pc_of F p) inp) as [mf|] eqn:S; simpl; [|split; intro; discriminate].
    split; intro AV.
    - destruct (evm_call_query F p k value gas inp st mf GO QB S AV NP) as [[E|[_ [_ [_ E]]]] _]; auto.
    - intro V. apply (evm_call_query F p k value gas inp st mf GO QB S AV NP). assumption.
  Qed.

  (** … and the nested clause too, on a tree whose EVM.Call hands the static flag down *)
  Lemma model_satisfies_P_nested : forall F p k gas inp st,
    guards_ok F = true -> panic_ok F = true -> f_call_inherits_static F = true ->
    query_bodies_readonly -> input_wf inp = true ->
    let r := evm_call F p k 0 gas inp st in
    P_nested k (selected (pc_of F p) inp) (r_out r) (r_st r = st).
  Proof.
    intros F p k gas inp st GO PO CI QB W r N. subst r.
    pose proof (evm_call_no_panic F p k 0 gas inp st PO W) as NP.
    assert (R : pc_readonly F k = true). { destruct k as [|[|]| | |]; simpl in *; try discriminate. rewrite CI. reflexivity. }
    apply (evm_call_readonly F p k 0 gas inp st GO QB R (fun _ => eq_refl) NP).
  Qed.
End RunProofs.
