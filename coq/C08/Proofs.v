(** C08 — proofs about the model of a precompile call (Model.v) for every facts record [F],
    every body oracle, every calldata / decode result, call kind, value and gas. *)
From Coq Require Import List ZArith Bool String Lia.
Import ListNotations.
Require Import Nib.C08.Model Nib.C08.Spec.
Local Open Scope Z_scope.

(** destruct the scrutinee of the outermost [match] / [if] of the goal (or of a hypothesis) *)
Ltac dmatch :=
  match goal with
  | |- context [match ?x with _ => _ end] =>
      match x with
      | context [match _ with _ => _ end] => fail 1
      | _ => destruct x eqn:?
      end
  end.
Ltac dmatch_in H :=
  match type of H with
  | context [match ?x with _ => _ end] =>
      match x with
      | context [match _ with _ => _ end] => fail 1
      | _ => destruct x eqn:?
      end
  end.

(* ------------------------------------------------------------------ small facts *)

Lemma is_alpha_nonzero : forall c, is_alpha c = true -> (c =? 0) = false.
Proof. intros c H. unfold is_alpha, is_lower, is_upper in H. apply Z.eqb_neq. lia. Qed.

Lemma denom_char_nonzero : forall c, denom_char c = true -> (c =? 0) = false.
Proof.
  intros c H. unfold denom_char, is_alpha, is_lower, is_upper, is_digit in H. apply Z.eqb_neq. lia.
Qed.

Lemma forallb_denom_no_nul : forall r, forallb denom_char r = true -> existsb (fun c => c =? 0) r = false.
Proof.
  induction r as [|c r IH]; simpl; intro H; [reflexivity|].
  apply andb_prop in H. destruct H as [H1 H2]. rewrite (denom_char_nonzero _ H1), (IH H2). reflexivity.
Qed.

(** a denom accepted by sdk.ValidateDenom holds no NUL character *)
Lemma valid_denom_no_nul : forall s, valid_denom s = true -> has_nul s = false.
Proof.
  intros [|c r] H; simpl in H; [discriminate|].
  repeat (apply andb_prop in H; destruct H as [H ?]).
  unfold has_nul. simpl. rewrite (is_alpha_nonzero _ H). simpl. apply forallb_denom_no_nul. assumption.
Qed.

Lemma wf_uint_no_overflow : forall v, (0 <=? v) && (v <? two256) = true -> int_from_big_panics v = false.
Proof.
  intros v H. apply andb_prop in H. destruct H as [A B]. apply Z.leb_le in A. apply Z.ltb_lt in B.
  unfold int_from_big_panics. apply Z.leb_gt. rewrite Z.abs_eq by assumption. assumption.
Qed.

Lemma funds_wf_no_panic : forall l, forallb fund_wf l = true -> funds_panic l = false.
Proof.
  induction l as [|c l IH]; simpl; intro H; [reflexivity|].
  apply andb_prop in H. destruct H as [H1 H2]. unfold funds_panic in *. simpl.
  rewrite (wf_uint_no_overflow _ H1). simpl. apply IH. assumption.
Qed.

(* ------------------------------------------------------------------ validators never panic behind the guards *)

Definition guards_all (F : facts) : bool :=
  f_denom_guard F && f_amount_guard F && f_evm_denom_guard F && f_erc20_nul_guard F.

Lemma wf_bits_no_overflow : forall v, (0 <=? v) = true -> (v <? two256) = true -> int_from_big_panics v = false.
Proof. intros v A B. apply wf_uint_no_overflow. rewrite A, B. reflexivity. Qed.

Lemma validate_no_panic : forall F m args,
  guards_all F = true -> forallb arg_wf args = true -> validate F m args <> VPanic.
Proof.
  intros F m args G W. unfold guards_all in G.
  apply andb_prop in G as [G G4]. apply andb_prop in G as [G G3]. apply andb_prop in G as [G1 G2].
  unfold validate. rewrite G1, G2, G3, G4. rewrite ?andb_true_l.
  destruct m; repeat dmatch; try discriminate; intro X; clear X; subst; simpl in W;
    repeat match goal with
           | H : _ && _ = true |- _ => apply andb_prop in H; destruct H
           end;
    repeat match goal with
           | H : context [true && _] |- _ => rewrite andb_true_l in H
           end;
    repeat match goal with
           | H : negb _ = false |- _ => apply negb_false_iff in H
           end;
    unfold new_coin_panics in *;
    repeat match goal with
           | H : valid_denom ?s = true, H2 : has_nul ?s = true |- _ =>
               rewrite (valid_denom_no_nul _ H) in H2; discriminate
           | A : (0 <=? ?v) = true, B : (?v <? two256) = true, H : int_from_big_panics ?v = true |- _ =>
               rewrite (wf_bits_no_overflow _ A B) in H; discriminate
           | H : forallb fund_wf ?l = true, H2 : funds_panic ?l = true |- _ =>
               rewrite (funds_wf_no_panic _ H) in H2; discriminate
           | H : valid_denom ?s = true, H2 : context [valid_denom ?s] |- _ => rewrite H in H2; simpl in H2
           | H : has_nul ?s = false, H2 : has_nul ?s = true |- _ => rewrite H in H2; discriminate
           | H : (?a <? 0) = false, H2 : (?a <? 0) = true |- _ => rewrite H in H2; discriminate
           end; try discriminate.
Qed.
