(** C08 — proofs. *)
From Coq Require Import List ZArith Bool String Lia.
Import ListNotations.
Require Import Nib.C08.Model Nib.C08.Spec.
Local Open Scope Z_scope.
