(** C08 — a hand-kept copy of the facts of the tree at fix: e366d9b, used for the refutation
    witnesses and the non-vacuity examples only (the obligations in Gen/C08Oblig.v are about the
    facts regenerated from /repo on every run, not about this copy).  No proofs here. *)
From Coq Require Import String List ZArith. Import ListNotations.
Require Import Nib.C08.Model.
Local Open Scope string_scope. Local Open Scope Z_scope.

Definition ref_funtoken : pc_facts := {|
  pf_methods := [
    {| mf_id := FT_balance; mf_name := "balance"; mf_sel := 2986589081; mf_abi_view := true; mf_mutation := false; mf_in_switch := true; mf_guard := GQuery; mf_guard_first := true |}; (* balance(address,address) -> balance *)
    {| mf_id := FT_bankBalance; mf_name := "bankBalance"; mf_sel := 2720803199; mf_abi_view := true; mf_mutation := false; mf_in_switch := true; mf_guard := GQuery; mf_guard_first := true |}; (* bankBalance(address,string) -> bankBalance *)
    {| mf_id := FT_bankMsgSend; mf_name := "bankMsgSend"; mf_sel := 278624872; mf_abi_view := false; mf_mutation := true; mf_in_switch := true; mf_guard := GReadonly; mf_guard_first := true |}; (* bankMsgSend(string,string,uint256) -> bankMsgSend *)
    {| mf_id := FT_getErc20Address; mf_name := "getErc20Address"; mf_sel := 2425361525; mf_abi_view := true; mf_mutation := false; mf_in_switch := true; mf_guard := GQuery; mf_guard_first := true |}; (* getErc20Address(string) -> getErc20Address *)
    {| mf_id := FT_sendToBank; mf_name := "sendToBank"; mf_sel := 3883550655; mf_abi_view := false; mf_mutation := true; mf_in_switch := true; mf_guard := GReadonly; mf_guard_first := true |}; (* sendToBank(address,uint256,string) -> sendToBank *)
    {| mf_id := FT_sendToEvm; mf_name := "sendToEvm"; mf_sel := 772831913; mf_abi_view := false; mf_mutation := true; mf_in_switch := true; mf_guard := GReadonly; mf_guard_first := true |}; (* sendToEvm(string,uint256,string) -> sendToEvm *)
    {| mf_id := FT_whoAmI; mf_name := "whoAmI"; mf_sel := 2099940174; mf_abi_view := true; mf_mutation := false; mf_in_switch := true; mf_guard := GQuery; mf_guard_first := true |} (* whoAmI(string) -> whoAmI *)
  ];
  pf_start_first := true;
  pf_oog_deferred := true;
  pf_usegas := true |}.
Definition ref_wasm : pc_facts := {|
  pf_methods := [
    {| mf_id := W_execute; mf_name := "execute"; mf_sel := 1644146404; mf_abi_view := false; mf_mutation := true; mf_in_switch := true; mf_guard := GReadonly; mf_guard_first := true |}; (* execute(string,bytes,(string,uint256)[]) -> execute *)
    {| mf_id := W_executeMulti; mf_name := "executeMulti"; mf_sel := 1305550251; mf_abi_view := false; mf_mutation := true; mf_in_switch := true; mf_guard := GReadonly; mf_guard_first := true |}; (* executeMulti((string,bytes,(string,uint256)[])[]) -> executeMulti *)
    {| mf_id := W_instantiate; mf_name := "instantiate"; mf_sel := 2266088750; mf_abi_view := false; mf_mutation := true; mf_in_switch := true; mf_guard := GReadonly; mf_guard_first := true |}; (* instantiate(string,uint64,bytes,string,(string,uint256)[]) -> instantiate *)
    {| mf_id := W_query; mf_name := "query"; mf_sel := 114826537; mf_abi_view := true; mf_mutation := false; mf_in_switch := true; mf_guard := GQuery; mf_guard_first := true |}; (* query(string,bytes) -> query *)
    {| mf_id := W_queryRaw; mf_name := "queryRaw"; mf_sel := 1349400016; mf_abi_view := true; mf_mutation := false; mf_in_switch := true; mf_guard := GQuery; mf_guard_first := true |} (* queryRaw(string,bytes) -> queryRaw *)
  ];
  pf_start_first := true;
  pf_oog_deferred := true;
  pf_usegas := true |}.
Definition ref_oracle : pc_facts := {|
  pf_methods := [
    {| mf_id := O_chainLinkLatestRoundData; mf_name := "chainLinkLatestRoundData"; mf_sel := 3974330605; mf_abi_view := true; mf_mutation := false; mf_in_switch := true; mf_guard := GNone; mf_guard_first := true |}; (* chainLinkLatestRoundData(string) -> chainLinkLatestRoundData *)
    {| mf_id := O_queryExchangeRate; mf_name := "queryExchangeRate"; mf_sel := 1808896047; mf_abi_view := true; mf_mutation := false; mf_in_switch := true; mf_guard := GNone; mf_guard_first := true |} (* queryExchangeRate(string) -> queryExchangeRate *)
  ];
  pf_start_first := true;
  pf_oog_deferred := true;
  pf_usegas := true |}.
Definition ref_guards : panic_guards := {|
  g_len := true;
  g_denom := true;
  g_amount := true;
  g_evm_denom := true;
  g_erc20_nul := true;
  g_supply := true |}.
Definition reference_facts : facts := {|
  f_funtoken := ref_funtoken;
  f_wasm := ref_wasm;
  f_oracle := ref_oracle;
  f_guards := ref_guards;
  f_local_meter := true;
  f_oog_only := true;
  f_addr_conv_total := true;
  f_direct_ro := true;
  f_call_inherits_static := false;
  f_snap_each_call := true;
  f_max_calls := 10;
  f_revert_decode_total := true;
  f_pair_validation_total := true |}.

(** sample world for witnesses: the state is a counter of writes; state-changing bodies write once *)
Definition sample_body : mid -> list arg -> Z -> Z -> bres Z :=
  fun m _ st _ => if can_mutate m then BOk (st + 1) 1500 else BOk st 1200.
Definition sample_transfer (st v : Z) : Z := st + 1000.
Definition sample_after_mint : mid -> list arg -> Z -> Z -> bres Z := fun _ _ st _ => BOk (st + 1) 2500.
(** sendToBank on an ERC20-born FunToken whose bank supply already is 2^255, minting 2^255 more *)
Definition whale_body : mid -> list arg -> Z -> Z -> bres Z :=
  fun m _ st _ => match m with FT_sendToBank => BMint st (2 ^ 255) (2 ^ 255) | _ => BOk st 1200 end.
(** a body that runs the local gas meter dry *)
Definition greedy_body : mid -> list arg -> Z -> Z -> bres Z := fun _ _ st _ => BOog st.

(** "0x00000000000000000000000000000000000A11cE" *)
Definition hex_addr : list Z :=
  [48; 120] ++ repeat 48 35 ++ [65; 49; 49; 99; 69].
Definition unibi : list Z := [117; 110; 105; 98; 105].

Definition sel_bytes (s : Z) : list Z := [s / 16777216; (s / 65536) mod 256; (s / 256) mod 256; s mod 256].

Definition call_of (sel : Z) (len : Z) (args : list arg) : input :=
  {| i_len := len; i_head := sel_bytes sel; i_unpack := Some args |}.

Definition empty_calldata : input := {| i_len := 0; i_head := []; i_unpack := None |}.
Definition bankMsgSend_call (denom : list Z) (amt : Z) : input :=
  call_of 278624872 292 [AStr hex_addr false 0 false; AStr denom false 0 false; AUint amt].
Definition sendToEvm_call (denom : list Z) (amt : Z) : input :=
  call_of 772831913 292 [AStr denom false 0 false; AUint amt; AStr hex_addr false 0 false].
Definition sendToBank_call (amt : Z) : input :=
  call_of 3883550655 228 [AAddr; AUint amt; AStr hex_addr false 0 false].
(** whoAmI("nibi1…") with a valid bech32 string whose payload has 3 bytes *)
Definition whoAmI_short_bech32_call : input :=
  call_of 2099940174 132 [AStr [110; 105; 98; 105; 49; 52; 48; 120; 55; 55; 114; 57; 54; 54; 113] true 3 false].
Definition whoAmI_call : input := call_of 2099940174 132 [AStr hex_addr false 0 false].
Definition oracle_query_call : input :=
  call_of 1808896047 100 [AStr (unibi ++ [58; 117; 117; 115; 100]) false 0 false].

(** Wasm.query(contract, {"count":{}}) and Wasm.executeMulti([increment, rejected]) *)
Definition wasm_query_call : input :=
  call_of 114826537 260 [AStr [110; 105; 98; 105; 49] true 32 false; ABytes true].
Definition executeMulti_call : input :=
  call_of 1305550251 676 [AMsgs [(true, true, []); (true, true, [])]].

(** sample world of a transaction: EVM side and other-module side are write counters.  State-changing
    bodies write the other-module side; executeMulti writes once and THEN fails (its second message is
    rejected); sendToBank writes both sides (ERC20 transfer, then bank mint + send). *)
Definition partial_body : mid -> list arg -> Z * Z -> Z -> bres (Z * Z) :=
  fun m _ st _ =>
    match m with
    | W_executeMulti => BErr (fst st, snd st + 1) 5000
    | FT_sendToBank => BOk (fst st + 1, snd st + 1) 9000
    | _ => if can_mutate m then BOk (fst st, snd st + 1) 1500 else BOk st 1200
    end.
Definition partial_after_mint : mid -> list arg -> Z * Z -> Z -> bres (Z * Z) := fun _ _ st _ => BOk st 0.
Definition sample_touch : mid -> list arg -> Z * Z -> bool :=
  fun m _ _ => match m with FT_sendToBank | FT_sendToEvm => true | _ => false end.
Definition sample_transfer_ev (ev v : Z) : Z := ev + 1000.
Definition x0 : txstate Z Z := {| x_ev := 0; x_ms := 0; x_j := []; x_cnt := 0 |}.

(** FunToken.balance(who, erc20) on a FunToken whose registered ERC20 reverts every balanceOf with the bare
    4-byte selector of Panic(uint256), out of a memory of one word *)
Definition balance_call : input := call_of 2986589081 68 [AAddr; AAddr].
Definition hostile_token_body : mid -> list arg -> Z -> Z -> bres Z :=
  fun m _ st _ => match m with
                  | FT_balance | FT_sendToBank | FT_sendToEvm => BNested st 5000 NRevert panic_selector 32
                  | _ => BOk st 1200
                  end.

(** Oracle.queryExchangeRate("unibi:uusd\x00") *)
Definition oracle_query_nul_call : input :=
  call_of 1808896047 100 [AStr (unibi ++ [58; 117; 117; 115; 100; 0]) false 0 false].
