(** C08 — the property as a [Prop] over one observed precompile call and as the boolean
    checker [Pb] evaluated on implementation traces; conditions on the generated facts. *)
From Coq Require Import List ZArith Bool String Lia.
Import ListNotations.
Require Import Nib.C08.Model.
Local Open Scope Z_scope.

(** call kinds for which geth itself marks the precompile call read-only *)
Definition direct_ro (k : kind) : bool :=
  match k with KStatic | KDelegate | KCallCode => true | _ => false end.
(** a CALL issued somewhere below a STATICCALL frame *)
Definition nested_static (k : kind) : bool := match k with KCall true => true | _ => false end.

Definition is_err (o : outcome) : bool := match o with Err | OutOfGas => true | _ => false end.
Definition outcome_eqb (a b : outcome) : bool :=
  match a, b with Ok, Ok | Err, Err | OutOfGas, OutOfGas | Panic, Panic => true | _, _ => false end.

(** "query method" / "state-changing method" are read off the embedded ABI (view vs not) *)
Definition is_view (m : option method_facts) : bool :=
  match m with Some mf => mf_abi_view mf | None => false end.
Definition is_nonview (m : option method_facts) : bool :=
  match m with Some mf => negb (mf_abi_view mf) | None => false end.

Section Property.
  Variables (k : kind) (value gas : Z) (m : option method_facts) (cls : outcome) (left : Z).

  (** [state_eq]: all module stores are as before the call.  [core_eq]: they are as before the
      call except, at most, that [value] moved from the caller to the precompile's account. *)
  Definition P (state_eq core_eq : Prop) : Prop :=
    cls <> Panic /\                                                   (* never crashes tx processing *)
    (0 <= left <= gas) /\                                             (* never consumes more than forwarded *)
    (is_err cls = true -> state_eq) /\                                (* a bad call leaves no state behind *)
    (direct_ro k = true -> state_eq) /\                               (* read-only call kinds never change state *)
    (direct_ro k = true -> is_nonview m = true -> cls <> Ok) /\       (* state-changing methods are refused there *)
    (is_view m = true -> core_eq) /\                                  (* query methods never change state *)
    (is_view m = true -> value = 0 -> state_eq).

  (** the same two clauses for a CALL below a STATICCALL frame *)
  Definition P_nested (state_eq : Prop) : Prop :=
    nested_static k = true -> state_eq /\ (is_nonview m = true -> cls <> Ok).

  Definition Pb (state_eq core_eq : bool) : bool :=
    negb (outcome_eqb cls Panic) &&
    ((0 <=? left) && (left <=? gas)) &&
    (negb (is_err cls) || state_eq) &&
    (negb (direct_ro k) || state_eq) &&
    (negb (direct_ro k && is_nonview m) || negb (outcome_eqb cls Ok)) &&
    (negb (is_view m) || core_eq) &&
    (negb (is_view m && (value =? 0)) || state_eq).

  Definition Pb_nested (state_eq : bool) : bool :=
    negb (nested_static k) || (state_eq && (negb (is_nonview m) || negb (outcome_eqb cls Ok))).
End Property.

(** "gas charged = gas consumed": [cost] is the gas the same call (same method, arguments, state,
    call kind, value) really consumes, measured by giving it ample gas.  A successful call is charged
    exactly that, so it cannot succeed with less forwarded. *)
Definition P_gas (cls : outcome) (gas left : Z) (cost : option Z) : Prop :=
  forall c, cost = Some c -> cls = Ok -> gas - left = c /\ c <= gas.

Definition Pb_gas (cls : outcome) (gas left : Z) (cost : option Z) : bool :=
  match cost with
  | Some c => negb (outcome_eqb cls Ok) || ((gas - left =? c) && (c <=? gas))
  | None => true
  end.

(** A failed call is invisible to the rest of its transaction.  [drop_eq]: the transaction — its later calls
    included — does to the state exactly what it does when its failed calls are left out. *)
Definition P_tx (drop_eq : Prop) : Prop := drop_eq.
Definition Pb_tx (drop_eq : bool) : bool := drop_eq.
Lemma Pb_tx_sound : forall b, Pb_tx b = true -> P_tx (b = true).
Proof. intros b H. exact H. Qed.

Lemma outcome_eqb_true : forall a b, outcome_eqb a b = true <-> a = b.
Proof. destruct a, b; simpl; split; intro H; try reflexivity; try discriminate. Qed.

Lemma Pb_sound : forall k value gas m cls left (se ce : bool),
  Pb k value gas m cls left se ce = true ->
  P k value gas m cls left (se = true) (ce = true).
Proof.
  intros k value gas m cls left se ce H. unfold Pb in H.
  repeat (apply andb_prop in H; destruct H as [H ?]).
  unfold P. repeat split.
  - intro E. subst cls. simpl in H. discriminate.
  - apply andb_prop in H5. destruct H5 as [A _]. apply Z.leb_le in A. exact A.
  - apply andb_prop in H5. destruct H5 as [_ A]. apply Z.leb_le in A. exact A.
  - intro E. rewrite E in H4. simpl in H4. exact H4.
  - intro E. rewrite E in H3. simpl in H3. exact H3.
  - intros E1 E2 E3. rewrite E1, E2 in H2. simpl in H2. subst cls. simpl in H2. discriminate.
  - intro E. rewrite E in H1. simpl in H1. exact H1.
  - intros E1 E2. rewrite E1 in H0. subst value. simpl in H0. exact H0.
Qed.

Lemma Pb_nested_sound : forall k m cls (se : bool),
  Pb_nested k m cls se = true -> P_nested k m cls (se = true).
Proof.
  intros k m cls se H E. unfold Pb_nested in H. rewrite E in H. simpl in H.
  apply andb_prop in H. destruct H as [A B]. split; [exact A|].
  intros E2 E3. rewrite E2 in B. subst cls. simpl in B. discriminate.
Qed.

Lemma Pb_gas_sound : forall cls gas left cost, Pb_gas cls gas left cost = true -> P_gas cls gas left cost.
Proof.
  intros cls gas left cost H c E O. subst cost cls. simpl in H.
  apply andb_prop in H as [A B]. apply Z.eqb_eq in A. apply Z.leb_le in B. split; assumption.
Qed.

(* ------------------------------------------------------------------ conditions on the generated facts *)

Definition guard_eqb (a b : guard_kind) : bool :=
  match a, b with GReadonly, GReadonly | GQuery, GQuery | GNone, GNone => true | _, _ => false end.

(** per method: dispatched; guard placed first; every method the ABI does not call view, and every
    method whose body can write, sits behind the read-only guard; ABI view methods have
    read-only bodies *)
Definition method_ok (mf : method_facts) : bool :=
  mf_in_switch mf && mf_guard_first mf &&
  (negb (can_mutate (mf_id mf)) || guard_eqb (mf_guard mf) GReadonly) &&
  (negb (mf_abi_view mf) || negb (can_mutate (mf_id mf))) &&
  (mf_abi_view mf || guard_eqb (mf_guard mf) GReadonly).

Fixpoint nodupb (l : list Z) : bool :=
  match l with [] => true | x :: r => negb (existsb (Z.eqb x) r) && nodupb r end.

Definition pc_ok (P : pc_facts) : bool :=
  forallb method_ok (pf_methods P) && pf_start_first P && pf_usegas P &&
  nodupb (map mf_sel (pf_methods P)).

Definition guards_ok (F : facts) : bool :=
  pc_ok (f_funtoken F) && pc_ok (f_wasm F) && pc_ok (f_oracle F).

(** the isMutation table (gas price class, extra EVM events) agrees with the ABI *)
Definition table_ok (F : facts) : bool :=
  forallb (fun P => forallb (fun mf => Bool.eqb (mf_mutation mf) (negb (mf_abi_view mf))) (pf_methods P))
          [f_funtoken F; f_wasm F; f_oracle F].

(** query methods of FunToken and Wasm refuse attached value *)
Definition query_guards_ok (F : facts) : bool :=
  forallb (fun P => forallb (fun mf => negb (mf_abi_view mf) || guard_eqb (mf_guard mf) GQuery) (pf_methods P))
          [f_funtoken F; f_wasm F].

(** every modelled panic source sits behind its guard *)
Definition panic_ok (F : facts) : bool :=
  f_len_guard F && f_denom_guard F && f_amount_guard F && f_evm_denom_guard F && f_erc20_nul_guard F && f_supply_guard F && f_addr_conv_total F && f_local_meter F &&
  pf_oog_deferred (f_funtoken F) && pf_oog_deferred (f_wasm F) && pf_oog_deferred (f_oracle F) && f_revert_decode_total F && f_pair_validation_total F.

(** the ABI decoder returns values within the range of their Solidity type *)
Definition fund_wf (c : list Z * Z) : bool := (0 <=? snd c) && (snd c <? two256).
Definition arg_wf (a : arg) : bool :=
  match a with
  | AUint v => (0 <=? v) && (v <? two256)
  | AFunds l => forallb fund_wf l
  | AMsgs l => forallb (fun x => forallb fund_wf (snd x)) l
  | _ => true
  end.
Definition input_wf (inp : input) : bool :=
  match i_unpack inp with Some args => forallb arg_wf args | None => true end.
