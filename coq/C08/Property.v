(** C08 — exported statements only. *)
From Coq Require Import List ZArith Bool String.
Import ListNotations.
Require Import Nib.C08.Model Nib.C08.Spec Nib.C08.Proofs.
Local Open Scope Z_scope.

Theorem C08_checker_sound : forall k value gas m cls left (se ce : bool),
  Pb k value gas m cls left se ce = true -> P k value gas m cls left (se = true) (ce = true).
Proof. exact Pb_sound. Qed.
Print Assumptions C08_checker_sound.
