(** C08 — Nibiru precompiles fail closed on any input and respect call context.
    This file holds only the exported statements.  [F] ranges over facts records (the one
    regenerated from /repo is instantiated in Gen/C08Oblig.v); [body] is the keeper-level work
    behind the validators (an arbitrary function: any outcome, any gas, any state it likes);
    [inp] is any calldata length / selector bytes / ABI decoder result. *)
From Coq Require Import List ZArith Bool String.
Import ListNotations.
Require Import Nib.C08.Model Nib.C08.Spec Nib.C08.Proofs Nib.C08.ProofsTx Nib.C08.Ref Nib.C08.Examples.
Local Open Scope Z_scope.

Section Statements.
  Variable St : Type.
  Variable body : mid -> list arg -> St -> Z -> bres St.
  Variable after_mint : mid -> list arg -> St -> Z -> bres St.
  Variable transfer : St -> Z -> St.
  Notation call := (evm_call St body after_mint transfer).

  (** The gas handed back never exceeds the gas forwarded (and is never negative): for all facts,
      bodies, inputs, call kinds and values. *)
  Theorem C08_gas_bounded : forall F p k value gas inp st,
    0 <= gas -> 0 <= r_left (call F p k value gas inp st) <= gas.
  Proof. exact (evm_call_gas_bounded St body after_mint transfer). Qed.

  (** A failed call (error or out of gas) leaves the state exactly as it was — including the value
      the wrapper had already moved — and consumes all forwarded gas, whatever the body wrote
      before failing. *)
  Theorem C08_error_leaves_no_state : forall F p k value gas inp st,
    is_err (r_out (call F p k value gas inp st)) = true ->
    r_st (call F p k value gas inp st) = st /\ r_left (call F p k value gas inp st) = 0.
  Proof. exact (evm_call_error St body after_mint transfer). Qed.

  (** In every call the geth wrapper marks read-only (STATICCALL, DELEGATECALL, CALLCODE, and a CALL
      below a static frame on a tree whose EVM.Call hands the flag down) the state is unchanged and
      every method the ABI does not declare view is refused. *)
  Theorem C08_static_never_mutates : forall F p k value gas inp st,
    guards_ok F = true -> query_bodies_readonly St body after_mint ->
    pc_readonly F k = true -> (transfers k = true -> value = 0) ->
    r_out (call F p k value gas inp st) <> Panic ->
    r_st (call F p k value gas inp st) = st /\
    (is_nonview (selected (pc_of F p) inp) = true -> r_out (call F p k value gas inp st) <> Ok).
  Proof. exact (evm_call_readonly St body after_mint transfer). Qed.

  (** A query (ABI view) method never changes state in any call kind; the only thing that can differ
      after a successful one is the value the CALL itself attached (Oracle queries do not refuse value). *)
  Theorem C08_query_never_mutates : forall F p k value gas inp st mf,
    guards_ok F = true -> query_bodies_readonly St body after_mint ->
    selected (pc_of F p) inp = Some mf -> mf_abi_view mf = true ->
    r_out (call F p k value gas inp st) <> Panic ->
    (r_st (call F p k value gas inp st) = st \/
     (r_out (call F p k value gas inp st) = Ok /\ transfers k = true /\ value <> 0 /\
      r_st (call F p k value gas inp st) = transfer st value)) /\
    (value = 0 -> r_st (call F p k value gas inp st) = st).
  Proof. exact (evm_call_query St body after_mint transfer). Qed.

  (** … and not even that for queries behind assertContractQuery (all FunToken and Wasm queries). *)
  Theorem C08_guarded_query_never_mutates : forall F p k value gas inp st mf,
    guards_ok F = true -> query_bodies_readonly St body after_mint ->
    selected (pc_of F p) inp = Some mf -> mf_abi_view mf = true -> mf_guard mf = GQuery ->
    r_out (call F p k value gas inp st) <> Panic ->
    r_st (call F p k value gas inp st) = st.
  Proof. exact (evm_call_guarded_query St body after_mint transfer). Qed.

  (** With every modelled panic source behind its guard (short-calldata slice, sdk.NewCoin,
      NewIntFromBigInt, collections string keys, the 256-bit overflow of the bank supply under
      MintCoins, the slice-to-array address conversion, the decoding of a called contract's revert data,
      the Oracle's exchange-rate map keyed by a pair string that passed an unanchored validation,
      the gas meter's out-of-gas panic) no input makes
      the call panic.  PARTIAL: panics inside the keeper-level bodies are outside the model. *)
  Theorem C08_no_panic_partial : forall F p k value gas inp st,
    panic_ok F = true -> input_wf inp = true ->
    r_out (call F p k value gas inp st) <> Panic.
  Proof. exact (evm_call_no_panic St body after_mint transfer). Qed.

  (** "Any input" includes what the contracts CALLED BY the precompile answer (anyone can register an ERC20 as
      a FunToken): whatever the called contract does — revert with any revert data, run out of gas, fail
      otherwise, return data that does not decode — a body that reports it ([BNested]) makes the precompile
      call an error of the sub-call (hence reverted and fully charged, C08_error_leaves_no_state), once the
      revert-data decoder is total ([f_revert_decode_total], part of [panic_ok]). *)
  Theorem C08_called_contract_answer_fails_closed : forall F P mf ro value g1 args st st' u n data cap,
    f_revert_decode_total F = true -> pf_oog_deferred P = true ->
    validate F (mf_id mf) args <> VPanic ->
    body (mf_id mf) args st g1 = BNested st' u n data cap ->
    is_err (r_out (run_handler St body after_mint F P mf ro value g1 args st)) = true.
  Proof. exact (run_handler_nested_answer St body after_mint). Qed.

  (** Gas charged = gas consumed: a successful call is charged exactly RequiredGas plus what the local
      gas meter recorded for the body, and that sum never exceeds the gas forwarded. *)
  Theorem C08_gas_charged_is_consumed : forall F p k value gas inp st,
    guards_ok F = true -> panic_ok F = true ->
    r_out (call F p k value gas inp st) = Ok ->
    exists mf args rq st' u,
      selected (pc_of F p) inp = Some mf /\ i_unpack inp = Some args /\
      required_gas F (pc_of F p) (cap4_of k inp) inp = GGas rq /\
      body_ok St body after_mint (mf_id mf) args
        (if transfers k && negb (value =? 0) then transfer st value else st) (gas - rq) st' u /\
      gas - r_left (call F p k value gas inp st) = rq + Z.max 0 u /\ rq + Z.max 0 u <= gas.
  Proof. exact (evm_call_gas_charged St body after_mint transfer). Qed.

  (** Hence the price of a call does not depend on the gas forwarded: whatever the same call is
      charged when it succeeds with gas' (e.g. ample gas) is what every successful run is charged,
      and no run with less forwarded gas than that succeeds (the clause [P_gas] checked on traces). *)
  Theorem C08_cost_independent_of_gas : forall F p k value gas gas' inp st,
    guards_ok F = true -> panic_ok F = true -> body_cost_deterministic St body after_mint ->
    r_out (call F p k value gas' inp st) = Ok ->
    P_gas (r_out (call F p k value gas inp st)) gas (r_left (call F p k value gas inp st))
          (Some (gas' - r_left (call F p k value gas' inp st))).
  Proof. exact (evm_call_cost_independent St body after_mint transfer). Qed.

  (** The whole property predicate — the one evaluated on implementation traces — holds of every
      model run. *)
  Theorem C08_model_satisfies_property : forall F p k value gas inp st,
    guards_ok F = true -> panic_ok F = true -> f_direct_ro F = true ->
    query_bodies_readonly St body after_mint -> input_wf inp = true -> 0 <= gas ->
    let r := call F p k value gas inp st in
    P k value gas (selected (pc_of F p) inp) (r_out r) (r_left r)
      (r_st r = st) (r_st r = st \/ r_st r = transfer st value).
  Proof. exact (model_satisfies_P St body after_mint transfer). Qed.

  (** The clause for a CALL below a STATICCALL frame needs the geth fork to hand the flag down. *)
  Theorem C08_nested_static_if_inherited : forall F p k gas inp st,
    guards_ok F = true -> panic_ok F = true -> f_call_inherits_static F = true ->
    query_bodies_readonly St body after_mint -> input_wf inp = true ->
    let r := call F p k 0 gas inp st in
    P_nested k (selected (pc_of F p) inp) (r_out r) (r_st r = st).
  Proof. exact (model_satisfies_P_nested St body after_mint transfer). Qed.
End Statements.
Print Assumptions C08_gas_bounded.
Print Assumptions C08_error_leaves_no_state.
Print Assumptions C08_static_never_mutates.
Print Assumptions C08_query_never_mutates.
Print Assumptions C08_guarded_query_never_mutates.
Print Assumptions C08_no_panic_partial.
Print Assumptions C08_called_contract_answer_fails_closed.
Print Assumptions C08_gas_charged_is_consumed.
Print Assumptions C08_cost_independent_of_gas.
Print Assumptions C08_model_satisfies_property.
Print Assumptions C08_nested_static_if_inherited.

(** OPEN FINDING (known_findings.json): on this tree EVM.Call passes readOnly = false, so a CALL below
    a STATICCALL frame reaches a state-changing method: the faithful model violates the nested clause. *)
Theorem C08_nested_static_refuted :
  f_call_inherits_static reference_facts = false /\
  exists p gas inp,
    let r := evm_call Z sample_body sample_after_mint sample_transfer reference_facts p (KCall true) 0 gas inp 0 in
    ~ P_nested (KCall true) (selected (pc_of reference_facts p) inp) (r_out r) (r_st r = 0).
Proof. exact nested_static_refuted. Qed.
Print Assumptions C08_nested_static_refuted.

(** The tree before fix: 7d2b3b1 panics on calldata shorter than a selector … *)
Theorem C08_no_panic_refuted_before_fix_short_calldata :
  exists p k v g inp,
    r_out (evm_call Z sample_body sample_after_mint sample_transfer (with_guards reference_facts no_len_guard) p k v g inp 0) = Panic.
Proof. exact no_panic_refuted_short_calldata. Qed.
Print Assumptions C08_no_panic_refuted_before_fix_short_calldata.

(** … and on bankMsgSend(to, "", 1). *)
Theorem C08_no_panic_refuted_before_fix_empty_denom :
  exists p k v g inp, input_wf inp = true /\
    r_out (evm_call Z sample_body sample_after_mint sample_transfer (with_guards reference_facts no_denom_guard) p k v g inp 0) = Panic.
Proof. exact no_panic_refuted_empty_denom. Qed.
Print Assumptions C08_no_panic_refuted_before_fix_empty_denom.

(** The tree before fix: e366d9b panics on a NUL character in sendToEvm's bank denom. *)
Theorem C08_no_panic_refuted_before_fix_nul_denom :
  exists p k v g inp, input_wf inp = true /\
    r_out (evm_call Z sample_body sample_after_mint sample_transfer (with_guards reference_facts no_nul_guards) p k v g inp 0) = Panic.
Proof. exact no_panic_refuted_nul_denom. Qed.
Print Assumptions C08_no_panic_refuted_before_fix_nul_denom.

(** The tree before fix: 170e86a lets the gas meter's panic escape the Oracle precompile. *)
Theorem C08_no_panic_refuted_before_fix_oracle_oog :
  exists g inp, input_wf inp = true /\
    r_out (evm_call Z greedy_body sample_after_mint sample_transfer (with_oracle_oog reference_facts false) POracle KTop 0 g inp 0) = Panic.
Proof. exact no_panic_refuted_oracle_oog. Qed.
Print Assumptions C08_no_panic_refuted_before_fix_oracle_oog.

(** The tree before the supply-overflow fix panics in bank.MintCoins when sendToBank lifts the bank
    supply of an ERC20-born FunToken to 2^256. *)
Theorem C08_no_panic_refuted_before_fix_supply_overflow :
  exists inp, input_wf inp = true /\
    r_out (evm_call Z whale_body sample_after_mint sample_transfer (with_guards reference_facts no_supply_guard)
             PFunToken KTop 0 3000000 inp 0) = Panic.
Proof. exact no_panic_refuted_supply_overflow. Qed.
Print Assumptions C08_no_panic_refuted_before_fix_supply_overflow.

(** A partial address conversion (eth.NibiruAddrToEthAddr as gethcommon.Address(addr)) panics on a valid
    bech32 address string with fewer than 20 payload bytes. *)
Theorem C08_no_panic_refuted_with_partial_address_conversion :
  exists k inp, input_wf inp = true /\
    r_out (evm_call Z sample_body sample_after_mint sample_transfer (with_addr_conv reference_facts false)
             PFunToken k 0 1000000 inp 0) = Panic.
Proof. exact no_panic_refuted_partial_addr_conversion. Qed.
Print Assumptions C08_no_panic_refuted_with_partial_address_conversion.

(** An evm.NewRevertError that reads the 32-byte code behind the Panic(uint256) selector without a length check
    panics on FunToken.balance when the registered ERC20 reverts with the bare selector. *)
Theorem C08_no_panic_refuted_with_unguarded_revert_decoder :
  exists k inp, input_wf inp = true /\
    r_out (evm_call Z hostile_token_body sample_after_mint sample_transfer (with_revert_decode reference_facts false)
             PFunToken k 0 1000000 inp 0) = Panic.
Proof. exact no_panic_refuted_unguarded_revert_decoder. Qed.
Print Assumptions C08_no_panic_refuted_with_unguarded_revert_decoder.

(** A pair validation whose per-side pattern is not anchored at the end lets Oracle.queryExchangeRate("unibi:uusd\x00")
    reach the collections string-key encoder of ExchangeRates.Get, which panics on the NUL character. *)
Theorem C08_no_panic_refuted_with_unanchored_pair_validation :
  exists k inp, input_wf inp = true /\
    r_out (evm_call Z sample_body sample_after_mint sample_transfer (with_pair_validation reference_facts false)
             POracle k 0 1000000 inp 0) = Panic.
Proof. exact no_panic_refuted_unanchored_pair_validation. Qed.
Print Assumptions C08_no_panic_refuted_with_unanchored_pair_validation.

(** The boolean checkers evaluated on implementation traces are sound for [P] / [P_nested]. *)
Theorem C08_checker_sound : forall k value gas m cls left (se ce : bool),
  Pb k value gas m cls left se ce = true -> P k value gas m cls left (se = true) (ce = true).
Proof. exact Pb_sound. Qed.
Print Assumptions C08_checker_sound.

(** A local gas meter that is not capped by the gas left on the contract (e.g. contract.Gas + RequiredGas)
    violates the gas clause: the faithful model lets the call succeed below its cost. *)
Theorem C08_gas_charged_refuted_without_capped_meter :
  exists gas,
    let r := evm_call Z sample_body sample_after_mint sample_transfer (with_local_meter reference_facts false)
               PFunToken KTop 0 gas (bankMsgSend_call unibi 5) 0 in
    let r_ample := evm_call Z sample_body sample_after_mint sample_transfer (with_local_meter reference_facts false)
               PFunToken KTop 0 1000000 (bankMsgSend_call unibi 5) 0 in
    r_out r_ample = Ok /\ r_st r = 1 /\
    ~ P_gas (r_out r) gas (r_left r) (Some (1000000 - r_left r_ample)).
Proof. exact gas_charged_refuted_without_capped_meter. Qed.
Print Assumptions C08_gas_charged_refuted_without_capped_meter.

Theorem C08_gas_checker_sound : forall cls gas left cost,
  Pb_gas cls gas left cost = true -> P_gas cls gas left cost.
Proof. exact Pb_gas_sound. Qed.
Print Assumptions C08_gas_checker_sound.

Theorem C08_nested_checker_sound : forall k m cls (se : bool),
  Pb_nested k m cls se = true -> P_nested k m cls (se = true).
Proof. exact Pb_nested_sound. Qed.
Print Assumptions C08_nested_checker_sound.

(* ------------------------------------------------------------------ SEQUENCES of calls inside one transaction *)

(** One transaction = one StateDB: any list [pre] of earlier precompile calls (any precompile, call kind,
    value, gas, calldata; succeeding, failing early, failing after partial writes) and journaled EVM state
    changes, run from any StateDB state [x0] (any journal, any call count), then one more call.  [Ev] is the
    EVM side of the state, [Ms] the stores of the other modules (bank, wasm, …) a precompile body writes
    through the cache multistore; [body] may write both and fail afterwards. *)
Section TxStatements.
  Variables Ev Ms : Type.
  Variable body : mid -> list arg -> tst Ev Ms -> Z -> bres (tst Ev Ms).
  Variable after_mint : mid -> list arg -> tst Ev Ms -> Z -> bres (tst Ev Ms).
  Variable evm_touch : mid -> list arg -> tst Ev Ms -> bool.
  Variable transfer_ev : Ev -> Z -> Ev.
  Notation xcall := (call_x Ev Ms body after_mint evm_touch transfer_ev).
  Notation xrun := (tx_run Ev Ms body after_mint evm_touch transfer_ev).

  (** A failed call leaves no state change behind wherever it stands in the transaction: with the multistore
      snapshot journaled by EVERY call ([f_snap_each_call]), both sides of the state and the journal itself are
      exactly as before the call and all forwarded gas is consumed — whatever the journal held (a precompile
      snapshot of the previous call on top, EVM entries, nothing) and whatever the body wrote before failing. *)
  Theorem C08_failed_call_leaves_no_state_in_tx : forall F pre x0 p k value gas inp,
    f_snap_each_call F = true ->
    let x := xrun F pre x0 in
    is_err (xr_out (xcall F p k value gas inp x)) = true ->
    st_of Ev Ms (xr_x (xcall F p k value gas inp x)) = st_of Ev Ms x /\
    x_j (xr_x (xcall F p k value gas inp x)) = x_j x /\
    xr_left (xcall F p k value gas inp x) = 0.
  Proof. exact (tx_failed_call_leaves_no_state Ev Ms body after_mint evm_touch transfer_ev). Qed.

  (** A call made after any history IS the single call of the theorems above on the state the history left
      (outcome, gas handed back, state), as long as the StateDB's budget of precompile calls is not used up:
      every theorem about one call holds of every call of a sequence. *)
  Theorem C08_call_in_tx_is_single_call : forall F pre x0 p k value gas inp,
    f_snap_each_call F = true ->
    let x := xrun F pre x0 in
    (reaches_start F (pc_of F p) (cap4_of k inp) gas inp = false \/ x_cnt x < f_max_calls F) ->
    let e := evm_call (tst Ev Ms) body after_mint (transfer_t Ev Ms transfer_ev) F p k value gas inp (st_of Ev Ms x) in
    xr_out (xcall F p k value gas inp x) = r_out e /\
    xr_left (xcall F p k value gas inp x) = r_left e /\
    st_of Ev Ms (xr_x (xcall F p k value gas inp x)) = r_st e.
  Proof. intros F pre x0 p k value gas inp SE x. exact (call_x_refines Ev Ms body after_mint evm_touch transfer_ev F p k value gas inp x SE). Qed.

  (** Beyond that budget the call fails closed like any other bad call. *)
  Theorem C08_call_budget_fails_closed : forall F pre x0 p k value gas inp,
    f_snap_each_call F = true ->
    let x := xrun F pre x0 in
    reaches_start F (pc_of F p) (cap4_of k inp) gas inp = true -> f_max_calls F <= x_cnt x ->
    xr_out (xcall F p k value gas inp x) = Err /\
    st_of Ev Ms (xr_x (xcall F p k value gas inp x)) = st_of Ev Ms x /\
    xr_left (xcall F p k value gas inp x) = 0.
  Proof. intros F pre x0 p k value gas inp SE x. exact (call_x_over_limit Ev Ms body after_mint evm_touch transfer_ev F p k value gas inp x SE). Qed.

  (** The whole property predicate — the one [Pb] evaluates on the last call of an implementation trace —
      holds of a call made after any history, budget used up or not. *)
  Theorem C08_tx_call_satisfies_property : forall F pre x0 p k value gas inp,
    guards_ok F = true -> panic_ok F = true -> f_direct_ro F = true -> f_snap_each_call F = true ->
    query_bodies_readonly (tst Ev Ms) body after_mint -> input_wf inp = true -> 0 <= gas ->
    let x := xrun F pre x0 in
    let r := xcall F p k value gas inp x in
    P k value gas (selected (pc_of F p) inp) (xr_out r) (xr_left r)
      (st_of Ev Ms (xr_x r) = st_of Ev Ms x)
      (st_of Ev Ms (xr_x r) = st_of Ev Ms x \/ st_of Ev Ms (xr_x r) = transfer_t Ev Ms transfer_ev (st_of Ev Ms x) value).
  Proof.
    intros F pre x0 p k value gas inp GO PO DR SE QB W G x.
    exact (call_x_satisfies_P Ev Ms body after_mint evm_touch transfer_ev F p k value gas inp x GO PO DR SE QB W G).
  Qed.

  Theorem C08_tx_nested_static_if_inherited : forall F pre x0 p k gas inp,
    guards_ok F = true -> panic_ok F = true -> f_call_inherits_static F = true -> f_snap_each_call F = true ->
    query_bodies_readonly (tst Ev Ms) body after_mint -> input_wf inp = true ->
    let x := xrun F pre x0 in
    let r := xcall F p k 0 gas inp x in
    P_nested k (selected (pc_of F p) inp) (xr_out r) (st_of Ev Ms (xr_x r) = st_of Ev Ms x).
  Proof.
    intros F pre x0 p k gas inp GO PO CI SE QB W x.
    exact (call_x_satisfies_P_nested Ev Ms body after_mint evm_touch transfer_ev F p k gas inp x GO PO CI SE QB W).
  Qed.

  (** A failed call is invisible to the REST of its transaction as well: leaving the failed calls out of a
      transaction changes nothing of what the transaction — its later calls included — does to the state
      (clause [P_tx], observed on implementation traces as [c_drop_eq]).  Within the StateDB's budget of
      precompile calls, which failed calls use up too. *)
  Theorem C08_failed_calls_invisible_in_tx : forall F ops x0,
    f_snap_each_call F = true ->
    x_cnt x0 + Z.of_nat (List.length ops) <= f_max_calls F ->
    P_tx (st_of Ev Ms (xrun F ops x0) =
          st_of Ev Ms (tx_run_drop Ev Ms body after_mint evm_touch transfer_ev F ops x0)).
  Proof.
    intros F ops x0 SE B.
    exact (tx_failed_calls_invisible Ev Ms body after_mint evm_touch transfer_ev F ops x0 x0 SE eq_refl B B).
  Qed.
End TxStatements.
Print Assumptions C08_failed_calls_invisible_in_tx.
Print Assumptions C08_failed_call_leaves_no_state_in_tx.
Print Assumptions C08_call_in_tx_is_single_call.
Print Assumptions C08_call_budget_fails_closed.
Print Assumptions C08_tx_call_satisfies_property.
Print Assumptions C08_tx_nested_static_if_inherited.

(** Seeded change "precompile snapshot coalesced" (SavePrecompileCalledJournalChange keeps the previous
    snapshot when the newest journal entry already is one): the faithful model of that variant violates
    "a bad call leaves no state change behind" — a successful query, then directly a state-changing call
    that fails after its first write. *)
Theorem C08_failed_call_leaves_state_refuted_with_coalesced_snapshots :
  exists pre p k gas inp,
    let F := with_snap_each reference_facts false in
    let x := tx_run Z Z partial_body partial_after_mint sample_touch sample_transfer_ev F pre x0 in
    let r := call_x Z Z partial_body partial_after_mint sample_touch sample_transfer_ev F p k 0 gas inp x in
    is_err (xr_out r) = true /\ x_ms (xr_x r) <> x_ms x.
Proof. exact failed_call_leaves_state_refuted_coalesced. Qed.
Print Assumptions C08_failed_call_leaves_state_refuted_with_coalesced_snapshots.

(** … and the rest of that transaction sees it: query, failing call, query commits another state than query, query. *)
Theorem C08_failed_calls_visible_refuted_with_coalesced_snapshots :
  exists ops,
    let F := with_snap_each reference_facts false in
    x_cnt x0 + Z.of_nat (List.length ops) <= f_max_calls F /\
    ~ P_tx (st_of Z Z (tx_run Z Z partial_body partial_after_mint sample_touch sample_transfer_ev F ops x0) =
            st_of Z Z (tx_run_drop Z Z partial_body partial_after_mint sample_touch sample_transfer_ev F ops x0)).
Proof. exact failed_calls_visible_refuted_coalesced. Qed.
Print Assumptions C08_failed_calls_visible_refuted_with_coalesced_snapshots.

Theorem C08_tx_checker_sound : forall b, Pb_tx b = true -> P_tx (b = true).
Proof. exact Pb_tx_sound. Qed.
Print Assumptions C08_tx_checker_sound.
