(** C08 — proofs about SEQUENCES of precompile calls inside one transaction (Model.v, Section Tx):
    the journal of the shared StateDB, the multistore snapshot every call appends to it, and the
    wrapper's RevertToSnapshot.  For every facts record, body oracle, journal and history. *)
From Coq Require Import List ZArith Bool String Lia.
Import ListNotations.
Require Import Nib.C08.Model Nib.C08.Spec Nib.C08.Proofs.
Local Open Scope Z_scope.

Section TxProofs.
  Variables Ev Ms : Type.
  Variable body : mid -> list arg -> tst Ev Ms -> Z -> bres (tst Ev Ms).
  Variable after_mint : mid -> list arg -> tst Ev Ms -> Z -> bres (tst Ev Ms).
  Variable evm_touch : mid -> list arg -> tst Ev Ms -> bool.
  Variable transfer_ev : Ev -> Z -> Ev.

  Notation call_x := (call_x Ev Ms body after_mint evm_touch transfer_ev).
  Notation run_pc := (run_pc (tst Ev Ms) body after_mint).
  Notation transfer_t := (transfer_t Ev Ms transfer_ev).
  Notation evm_call := (evm_call (tst Ev Ms) body after_mint transfer_t).
  Notation tx_run := (tx_run Ev Ms body after_mint evm_touch transfer_ev).
  Notation st_of := (st_of Ev Ms).

  (** what reverting a stack of entries puts back: the snapshot of the OLDEST precompile entry among them *)
  Definition restore (pre : list (jentry Ms)) (ms : Ms) : Ms :=
    fold_left (fun m e => match e with JPre s => s | JEvm => m end) pre ms.

  Lemma unwind_app : forall pre j0 ms,
    unwind Ms (List.length pre) (pre ++ j0) ms = (j0, restore pre ms).
  Proof.
    induction pre as [|e pre IH]; intros j0 ms; simpl.
    - destruct j0; reflexivity.
    - destruct e; apply IH.
  Qed.

  Lemma revert_to_app : forall pre j0 ms,
    revert_to Ms (List.length j0) (pre ++ j0) ms = (j0, restore pre ms).
  Proof.
    intros. unfold revert_to. rewrite app_length.
    replace (List.length pre + List.length j0 - List.length j0)%nat with (List.length pre) by lia.
    apply unwind_app.
  Qed.

  (** a call that does not get as far as OnRunStart's journaling leaves the state it was given *)
  Lemma run_pc_not_started : forall F P c4 ro value gas inp st,
    reaches_start F P c4 gas inp = false -> r_st (run_pc F P c4 ro value gas inp st) = st.
  Proof.
    intros F P c4 ro value gas inp st. unfold reaches_start, Model.run_pc.
    destruct (required_gas F P c4 inp) as [|rq]; simpl; [reflexivity|].
    destruct (gas <? rq); simpl; [reflexivity|].
    destruct (i_len inp <? 4); simpl; [reflexivity|].
    destruct (selected P inp); simpl; [|reflexivity].
    destruct (i_unpack inp); simpl; [discriminate|reflexivity].
  Qed.

  (** the journal a call leaves before the wrapper looks at the outcome: its own entries on top of the old ones *)
  Definition own_entries (moved started touched : bool) (ms : Ms) : list (jentry Ms) :=
    (if touched then [JEvm] else []) ++ (if started then [JPre ms] else []) ++ (if moved then [JEvm] else []).

  Lemma restore_own : forall moved started touched ms ms',
    (started = false -> ms' = ms) -> restore (own_entries moved started touched ms) ms' = ms.
  Proof.
    intros moved started touched ms ms' H. unfold own_entries, restore.
    destruct touched, started, moved; simpl; auto.
  Qed.

  (** C08_failed_call_leaves_no_state_in_tx: with a snapshot journaled by every call, a failed call gives
      back both sides of the state AND the journal exactly as they were, whatever the journal held, whatever
      the body wrote before failing *)
  Lemma call_x_error : forall F p k value gas inp x,
    f_snap_each_call F = true ->
    is_err (xr_out (call_x F p k value gas inp x)) = true ->
    x_ev (xr_x (call_x F p k value gas inp x)) = x_ev x /\
    x_ms (xr_x (call_x F p k value gas inp x)) = x_ms x /\
    x_j (xr_x (call_x F p k value gas inp x)) = x_j x /\
    xr_left (call_x F p k value gas inp x) = 0.
  Proof.
    intros F p k value gas inp x SE. unfold Model.call_x. rewrite SE. cbn [orb]. rewrite andb_true_r.
    set (moved := transfers k && negb (value =? 0)).
    set (started := reaches_start F (pc_of F p) (cap4_of k inp) gas inp).
    set (st1 := ((if moved then transfer_ev (x_ev x) value else x_ev x), x_ms x)).
    set (touched := match selected (pc_of F p) inp, i_unpack inp with
                    | Some mf, Some args => started && evm_touch (mf_id mf) args st1
                    | _, _ => false end).
    set (r := if started && (f_max_calls F <? (if started then x_cnt x + 1 else x_cnt x))
              then {| r_out := Err; r_left := 0; r_st := st1 |}
              else run_pc F (pc_of F p) (cap4_of k inp) (pc_readonly F k) (pc_value k value) gas inp st1).
    assert (NS : started = false -> snd (r_st r) = x_ms x).
    { intro S0. subst r. rewrite S0. simpl. fold started in S0.
      unfold started in S0. rewrite (run_pc_not_started _ _ _ _ _ _ _ _ S0). reflexivity. }
    assert (J : (if touched then JEvm :: (if started then JPre (x_ms x) :: (if moved then JEvm :: x_j x else x_j x) else (if moved then JEvm :: x_j x else x_j x))
                 else (if started then JPre (x_ms x) :: (if moved then JEvm :: x_j x else x_j x) else (if moved then JEvm :: x_j x else x_j x)))
                = own_entries moved started touched (x_ms x) ++ x_j x).
    { unfold own_entries. destruct touched, started, moved; reflexivity. }
    rewrite J.
    destruct (r_out r) eqn:O; simpl; intro E; try discriminate;
      rewrite revert_to_app; simpl; rewrite (restore_own _ _ _ _ _ NS); repeat split; reflexivity.
  Qed.

  (** the same run, seen as the single call of Proofs.v: as long as the StateDB's call budget is not used
      up, a call made after ANY history is exactly [evm_call] on the state the history left — so every
      theorem about one call holds of every call of a sequence *)
  Lemma call_x_refines : forall F p k value gas inp x,
    f_snap_each_call F = true ->
    (reaches_start F (pc_of F p) (cap4_of k inp) gas inp = false \/ x_cnt x < f_max_calls F) ->
    xr_out (call_x F p k value gas inp x) = r_out (evm_call F p k value gas inp (st_of x)) /\
    xr_left (call_x F p k value gas inp x) = r_left (evm_call F p k value gas inp (st_of x)) /\
    st_of (xr_x (call_x F p k value gas inp x)) = r_st (evm_call F p k value gas inp (st_of x)).
  Proof.
    intros F p k value gas inp x SE LIM.
    pose proof (call_x_error F p k value gas inp x SE) as CE.
    revert CE. unfold Model.call_x, Model.evm_call, Model.st_of. rewrite SE. cbn [orb]. rewrite andb_true_r.
    set (moved := transfers k && negb (value =? 0)).
    set (started := reaches_start F (pc_of F p) (cap4_of k inp) gas inp).
    assert (OV : started && (f_max_calls F <? (if started then x_cnt x + 1 else x_cnt x)) = false).
    { destruct LIM as [L|L]; [change (started = false) in L; rewrite L; reflexivity|].
      destruct started; [|reflexivity]. simpl. apply Z.ltb_ge. lia. }
    rewrite OV.
    assert (ST : (if moved then Model.transfer_t Ev Ms transfer_ev (x_ev x, x_ms x) value else (x_ev x, x_ms x))
                 = ((if moved then transfer_ev (x_ev x) value else x_ev x), x_ms x)).
    { destruct moved; reflexivity. }
    rewrite ST.
    match goal with |- context [r_out ?r] => destruct r as [o l s] end.
    simpl. destruct o; simpl; intro CE.
    - destruct s; auto.
    - destruct (CE eq_refl) as [_ [B [_ _]]]. simpl in B. rewrite B. auto.
    - destruct (CE eq_refl) as [_ [B [_ _]]]. simpl in B. rewrite B. auto.
    - destruct s; auto.
  Qed.

  (** the call budget of one StateDB: a call beyond it fails closed like any other bad call *)
  Lemma call_x_over_limit : forall F p k value gas inp x,
    f_snap_each_call F = true ->
    reaches_start F (pc_of F p) (cap4_of k inp) gas inp = true -> f_max_calls F <= x_cnt x ->
    xr_out (call_x F p k value gas inp x) = Err /\
    st_of (xr_x (call_x F p k value gas inp x)) = st_of x /\
    xr_left (call_x F p k value gas inp x) = 0.
  Proof.
    intros F p k value gas inp x SE S L.
    assert (O : xr_out (call_x F p k value gas inp x) = Err).
    { unfold Model.call_x. rewrite SE, S. cbn [orb andb].
      assert (OV : (f_max_calls F <? x_cnt x + 1) = true) by (apply Z.ltb_lt; lia).
      rewrite OV. reflexivity. }
    split; [assumption|].
    destruct (call_x_error F p k value gas inp x SE) as [A [B [_ C]]]; [rewrite O; reflexivity|].
    unfold Model.st_of. rewrite A, B. auto.
  Qed.

  (** the whole property predicate for a call made after any history *)
  Lemma call_x_satisfies_P : forall F p k value gas inp x,
    guards_ok F = true -> panic_ok F = true -> f_direct_ro F = true -> f_snap_each_call F = true ->
    query_bodies_readonly (tst Ev Ms) body after_mint -> input_wf inp = true -> 0 <= gas ->
    P k value gas (selected (pc_of F p) inp)
      (xr_out (call_x F p k value gas inp x)) (xr_left (call_x F p k value gas inp x))
      (st_of (xr_x (call_x F p k value gas inp x)) = st_of x)
      (st_of (xr_x (call_x F p k value gas inp x)) = st_of x \/
       st_of (xr_x (call_x F p k value gas inp x)) = transfer_t (st_of x) value).
  Proof.
    intros F p k value gas inp x GO PO DR SE QB W G.
    destruct (reaches_start F (pc_of F p) (cap4_of k inp) gas inp) eqn:S.
    2:{ destruct (call_x_refines F p k value gas inp x SE (or_introl S)) as [A [B C]]. rewrite A, B, C.
        exact (model_satisfies_P (tst Ev Ms) body after_mint transfer_t F p k value gas inp (st_of x) GO PO DR QB W G). }
    destruct (Z_lt_le_dec (x_cnt x) (f_max_calls F)) as [L|L].
    - destruct (call_x_refines F p k value gas inp x SE (or_intror L)) as [A [B C]]. rewrite A, B, C.
      exact (model_satisfies_P (tst Ev Ms) body after_mint transfer_t F p k value gas inp (st_of x) GO PO DR QB W G).
    - destruct (call_x_over_limit F p k value gas inp x SE S L) as [A [B C]]. rewrite A, B, C.
      unfold P. repeat split; auto; try discriminate; lia.
  Qed.

  Lemma call_x_satisfies_P_nested : forall F p k gas inp x,
    guards_ok F = true -> panic_ok F = true -> f_call_inherits_static F = true -> f_snap_each_call F = true ->
    query_bodies_readonly (tst Ev Ms) body after_mint -> input_wf inp = true ->
    P_nested k (selected (pc_of F p) inp) (xr_out (call_x F p k 0 gas inp x))
      (st_of (xr_x (call_x F p k 0 gas inp x)) = st_of x).
  Proof.
    intros F p k gas inp x GO PO CI SE QB W.
    destruct (reaches_start F (pc_of F p) (cap4_of k inp) gas inp) eqn:S.
    2:{ destruct (call_x_refines F p k 0 gas inp x SE (or_introl S)) as [A [_ C]]. rewrite A, C.
        exact (model_satisfies_P_nested (tst Ev Ms) body after_mint transfer_t F p k gas inp (st_of x) GO PO CI QB W). }
    destruct (Z_lt_le_dec (x_cnt x) (f_max_calls F)) as [L|L].
    - destruct (call_x_refines F p k 0 gas inp x SE (or_intror L)) as [A [_ C]]. rewrite A, C.
      exact (model_satisfies_P_nested (tst Ev Ms) body after_mint transfer_t F p k gas inp (st_of x) GO PO CI QB W).
    - destruct (call_x_over_limit F p k 0 gas inp x SE S L) as [A [B _]]. rewrite A, B.
      intros _. split; [reflexivity|discriminate].
  Qed.

  (** … in particular after any sequence of earlier calls and EVM state changes of the same transaction *)
  Lemma tx_failed_call_leaves_no_state : forall F pre x0 p k value gas inp,
    f_snap_each_call F = true ->
    let x := tx_run F pre x0 in
    is_err (xr_out (call_x F p k value gas inp x)) = true ->
    st_of (xr_x (call_x F p k value gas inp x)) = st_of x /\
    x_j (xr_x (call_x F p k value gas inp x)) = x_j x /\
    xr_left (call_x F p k value gas inp x) = 0.
  Proof.
    intros F pre x0 p k value gas inp SE x E.
    destruct (call_x_error F p k value gas inp x SE E) as [A [B [C D]]].
    unfold Model.st_of. rewrite A, B. auto.
  Qed.

  (* ---------------------------------------------------------------- a failed call is invisible to the rest of the transaction *)

  Notation tx_run_drop := (tx_run_drop Ev Ms body after_mint evm_touch transfer_ev).
  Notation step := (step Ev Ms body after_mint evm_touch transfer_ev).
  Notation step_drop := (step_drop Ev Ms body after_mint evm_touch transfer_ev).

  Lemma call_x_cnt : forall F p k value gas inp x,
    x_cnt x <= x_cnt (xr_x (call_x F p k value gas inp x)) <= x_cnt x + 1.
  Proof.
    intros. unfold Model.call_x.
    match goal with |- context [r_out ?r] => destruct (r_out r) end; simpl;
      match goal with |- context [if ?b then _ else _] => destruct b end; lia.
  Qed.

  Lemma step_cnt : forall F x o, x_cnt x <= x_cnt (step F x o) <= x_cnt x + 1.
  Proof. intros F x [f|p k v g i]; simpl; [lia|apply call_x_cnt]. Qed.

  (** what a call answers and leaves depends on the two sides of the state only — not on the journal, not on
      how many calls were made (below the budget) *)
  Lemma call_x_same_state : forall F p k value gas inp x y,
    f_snap_each_call F = true -> st_of x = st_of y ->
    x_cnt x < f_max_calls F -> x_cnt y < f_max_calls F ->
    xr_out (call_x F p k value gas inp x) = xr_out (call_x F p k value gas inp y) /\
    st_of (xr_x (call_x F p k value gas inp x)) = st_of (xr_x (call_x F p k value gas inp y)).
  Proof.
    intros F p k value gas inp x y SE E LX LY.
    destruct (call_x_refines F p k value gas inp x SE (or_intror LX)) as [A [_ C]].
    destruct (call_x_refines F p k value gas inp y SE (or_intror LY)) as [A' [_ C']].
    rewrite A, A', C, C', E. auto.
  Qed.

  (** C08_failed_calls_invisible_in_tx: leaving the failed calls out of a transaction changes nothing of what
      the transaction does to the state (within the StateDB's budget of calls, which failed calls use up too) *)
  Lemma tx_failed_calls_invisible : forall F ops x y,
    f_snap_each_call F = true -> st_of x = st_of y ->
    x_cnt x + Z.of_nat (List.length ops) <= f_max_calls F ->
    x_cnt y + Z.of_nat (List.length ops) <= f_max_calls F ->
    st_of (tx_run F ops x) = st_of (tx_run_drop F ops y).
  Proof.
    intros F ops. induction ops as [|o ops IH]; intros x y SE E BX BY; [exact E|].
    unfold Model.tx_run, Model.tx_run_drop. simpl fold_left.
    change (st_of (tx_run F ops (step F x o)) = st_of (tx_run_drop F ops (step_drop F y o))).
    simpl List.length in BX, BY. rewrite Nat2Z.inj_succ in BX, BY.
    pose proof (step_cnt F x o) as CX.
    assert (CY : x_cnt (step_drop F y o) <= x_cnt y + 1).
    { destruct o as [f|p k v g i]; simpl; [lia|].
      pose proof (call_x_cnt F p k v g i y). destruct (xr_out (call_x F p k v g i y)); simpl; lia. }
    apply IH; [assumption| |lia|lia].
    destruct o as [f|p k v g i].
    - simpl. unfold Model.st_of in *. simpl. inversion E. reflexivity.
    - assert (LX : x_cnt x < f_max_calls F) by lia. assert (LY : x_cnt y < f_max_calls F) by lia.
      destruct (call_x_same_state F p k v g i x y SE E LX LY) as [O S].
      simpl. destruct (xr_out (call_x F p k v g i y)) eqn:OY; simpl; try exact S.
      + destruct (call_x_error F p k v g i x SE) as [A [B _]]; [rewrite O; reflexivity|].
        unfold Model.st_of. rewrite A, B. exact E.
      + destruct (call_x_error F p k v g i x SE) as [A [B _]]; [rewrite O; reflexivity|].
        unfold Model.st_of. rewrite A, B. exact E.
  Qed.
End TxProofs.
