(** C15 — vocabulary and expectations for the facts re-extracted from /repo by harness/gen/c15
    (Gen/C15Facts.v): per Msg handler the ordered events of its body (guards, gates, writes; locals
    inlined, same-package calls followed), the reject conditions of DenomStr.ToStruct, the format of
    TFDenom.Denom() and the store keys of the admin lookups.  The expected lists below are the
    structural reading of Model.v's [step]; the generated terms live in Gen/C15Facts.v. *)
From Coq Require Import String List Bool.
Import ListNotations.
Local Open Scope string_scope.

(** events that carry no authority / state information: propagated errors, the nil-message test *)
Definition keep (e : string) : bool :=
  negb (String.prefix "err:" e) && negb (String.eqb e "guard:txMsg==nil").

Fixpoint mem_s (a : string) (l : list string) : bool :=
  match l with [] => false | x :: r => String.eqb a x || mem_s a r end.

(** repeated identical writes (InsertDenom repeats two of unsafeInsertDenom's) count once *)
Fixpoint dedup (seen l : list string) : list string :=
  match l with
  | [] => []
  | x :: r => if mem_s x seen then dedup seen r else x :: dedup (x :: seen) r
  end.

Definition digest (evs : list string) : list string := dedup [] (filter keep evs).

Fixpoint list_eqb (a b : list string) : bool :=
  match a, b with
  | [], [] => true
  | x :: a', y :: b' => String.eqb x y && list_eqb a' b'
  | _, _ => false
  end.

Fixpoint lookup_h (h : string) (l : list (string * list string)) : option (list string) :=
  match l with [] => None | (k, v) :: r => if String.eqb h k then Some v else lookup_h h r end.

Definition T : string := "types.TFDenom{Creator:txMsg.Sender,Subdenom:txMsg.Subdenom}".

(** what Model.v's [step] does, handler by handler:
    Create      — the denom is built from msg.Sender; duplicate test (bank metadata) before any write;
                  registry + metadata + admin := creator under the key denom.Denom().String()
    ChangeAdmin — sender = admin on record for the RAW msg denom, then an UNCONDITIONAL write of the
                  named successor under that same raw key
    Mint / Burn — sender = GetAdmin(raw coin denom) before any write; blocked-address test on the
                  mint-to (after MintCoins, hence the tx rollback in the model) / burn-from (before any write)
    SetMeta     — sender = GetAdmin(metadata base) before the write
    BurnNative  — no authority test at all (the open known finding), signer's coins to the module, burnt
    SudoSetDenomMetadata — the sudo gate (C16) before the write *)
Definition model_events : list (string * list string) := [
  ("CreateDenom",
   ["guard:k.Store.HasDenom(ctx," ++ T ++ ")";
    "write:k.Store.Denoms.Insert(" ++ T ++ ".Denom().String()," ++ T ++ ")";
    "write:k.Store.creator.Insert";
    "write:k.Store.bankKeeper.SetDenomMetaData";
    "write:k.Store.denomAdmins.Insert(" ++ T ++ ".Denom().String(),tftypes.DenomAuthorityMetadata{Admin:" ++ T ++ ".Creator})"]);
  ("ChangeAdmin",
   ["guard:txMsg.Sender!=k.Store.GetDenomAuthorityMetadata(ctx,txMsg.Denom).Admin";
    "write:k.Store.denomAdmins.Insert(txMsg.Denom,k.Store.GetDenomAuthorityMetadata(ctx,txMsg.Denom).with(Admin=txMsg.NewAdmin))"]);
  ("Mint",
   ["guard:txMsg.Sender!=k.Store.GetAdmin(ctx,txMsg.Coin.Denom)";
    "write:k.bankKeeper.MintCoins";
    "guard:k.bankKeeper.BlockedAddr(sdk.AccAddressFromBech32(txMsg.MintTo))";
    "write:k.bankKeeper.SendCoinsFromModuleToAccount"]);
  ("Burn",
   ["guard:txMsg.Sender!=k.Store.GetAdmin(ctx,txMsg.Coin.Denom)";
    "guard:k.bankKeeper.BlockedAddr(sdk.AccAddressFromBech32(txMsg.BurnFrom))";
    "write:k.bankKeeper.SendCoinsFromAccountToModule";
    "write:k.bankKeeper.BurnCoins"]);
  ("SetDenomMetadata",
   ["guard:txMsg.Sender!=k.Store.GetAdmin(ctx,txMsg.Metadata.Base)";
    "write:k.bankKeeper.SetDenomMetaData"]);
  ("BurnNative",
   ["write:k.bankKeeper.SendCoinsFromAccountToModule"; "write:k.bankKeeper.BurnCoins"]);
  ("SudoSetDenomMetadata",
   ["gate:k.sudoKeeper.CheckPermissions(sdk.AccAddressFromBech32(txMsg.Sender),ctx)";
    "write:k.bankKeeper.SetDenomMetaData"])
].

(** Model.v [parse_denom]: exactly three sections, first "tf", others non-empty *)
Definition model_reject_conditions : list string :=
  let parts := "strings.Split(string(denomStr),""/"")" in
  ["len(" ++ parts ++ ")!=3"; parts ++ "[0]!=""tf"""; "len(" ++ parts ++ "[1])<1"; "len(" ++ parts ++ "[2])<1"].

(** Model.v [tf_denom] *)
Definition model_denom_format : string := "DenomStr(fmt.Sprintf(""tf/%s/%s"",tfd.Creator,tfd.Subdenom))".

Record facts := {
  f_events : list (string * list string);
  f_get_admin_key : string;
  f_get_authority_key : string;
  f_has_denom_key : string;
  f_get_admin_body : list string;
  f_get_authority_body : list string;
  f_mutable_fields : list string;
  f_mutable_vars : list string;
  f_reject_conditions : list string;
  f_denom_format : string
}.

Definition handler_ok (f : facts) (h : string * list string) : bool :=
  match lookup_h (fst h) (f_events f) with
  | Some evs => list_eqb (digest evs) (snd h)
  | None => false
  end.

(** genesis import: every genesis denom gets EXACTLY the admin its genesis entry states (Model.v:
    [Reimport] is the identity; Check.v [genesis_ok]) — written per entry, under the entry's own denom
    string, with no condition in front of it *)
Definition genesis_admin_write : string :=
  "write:k.Store.denomAdmins.Insert(tftypes.DenomStr(genDenom.Denom).MustToStruct().Denom().String(),tftypes.DenomAuthorityMetadata{Admin:genDenom.AuthorityMetadata.Admin})".

Definition init_genesis_ok (f : facts) : bool :=
  match lookup_h "InitGenesis" (f_events f) with
  | Some evs =>
      mem_s "foreach:genState.GetFactoryDenoms()" evs && mem_s genesis_admin_write evs &&
      forallb (fun e => negb (String.prefix "guard:" e) && negb (String.prefix "accept-if:" e) &&
                        negb (String.prefix "cond-write:k.Store.denomAdmins" e)) evs &&
      (* no other write to the admin records *)
      forallb (fun e => negb (String.prefix "write:k.Store.denomAdmins" e) || String.eqb e genesis_admin_write) evs
  | None => false
  end.

Definition facts_ok (f : facts) : bool :=
  forallb (handler_ok f) model_events && init_genesis_ok f &&
  (* the admin record is looked up under the raw denom string the caller passes *)
  String.eqb (f_get_admin_key f) "denom" && String.eqb (f_get_authority_key f) "denom" &&
  (* existence = bank metadata of denom.Denom().String() *)
  String.eqb (f_has_denom_key f) "denom.Denom().String()" &&
  (* the admin lookups are one store read and a return: no cache in front of the store … *)
  list_eqb (f_get_admin_body f)
    ["read:api.denomAdmins.Get(ctx,denom)"; "return:api.denomAdmins.Get(ctx,denom).Admin,nil"] &&
  list_eqb (f_get_authority_body f)
    ["read:api.denomAdmins.Get(ctx,denom)"; "return:api.denomAdmins.Get(ctx,denom),nil"] &&
  (* … and the keeper holds no mutable state outside the store (which alone is rolled back with a
     rejected tx — the model's all-or-nothing [deliver_tx] covers the WHOLE state only then) *)
  match f_mutable_fields f, f_mutable_vars f with [], [] => true | _, _ => false end &&
  list_eqb (f_reject_conditions f) model_reject_conditions &&
  String.eqb (f_denom_format f) model_denom_format.

(** ---------------------------------------------------------------- contract message handler (app/wasmext)
    [wasm_dispatch_events] (Gen/C15Facts.v, harness/gen/c15/wasm.go) is what the handler does to ONE dispatched
    message before it routes it.  Model.v's [wasm_admits] with [wasm_signer = true] says: every signer of the
    dispatched message ITSELF — a token-factory message or a wrapper such as authz MsgExec alike — is compared
    with the contract, unconditionally.  That is read off the events as: a "signers-are-contract" event occurs,
    and everything in front of it can only refuse (ValidateBasic, guards, guard calls, local bindings) — no loop
    over something else, no conditional that skips, no early success, no routing. *)
Definition only_refuses (e : string) : bool :=
  String.eqb e "validate-basic" || String.prefix "guard:" e || String.prefix "guard-call:" e || String.prefix "let:" e.

Fixpoint wasm_signer_checked (evs : list string) : bool :=
  match evs with
  | [] => false
  | e :: r => if String.eqb e "signers-are-contract" then true
              else if only_refuses e then wasm_signer_checked r else false
  end.

(** … and the handler hands the message to the router at all *)
Definition wasm_routes (evs : list string) : bool := mem_s "route" evs.
