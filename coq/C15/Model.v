(** C15 — executable model of the token-factory message server over a small bank ledger.

    Code modelled (nibiru /repo):
      x/tokenfactory/keeper/msg_server.go  CreateDenom, ChangeAdmin, Mint (+mint), Burn (+burn),
                                           SetDenomMetadata, BurnNative
      x/tokenfactory/keeper/store.go       InsertDenom (HasDenom = bank metadata exists), GetAdmin,
                                           GetDenomAuthorityMetadata
      x/tokenfactory/types/state.go        DenomStr.ToStruct / Validate: strings.Split(denom, "/") must give
                                           exactly ["tf", creator (non-empty), subdenom (non-empty)]
      x/tokenfactory/types/tx_msgs.go      ValidateBasic of every message
      bank keeper: MintCoins / BurnCoins / SendCoinsFromModuleToAccount / SendCoinsFromAccountToModule,
      BlockedAddr; baseapp: a failing message leaves no write behind (so `mint`, which calls MintCoins
      before it looks at the target, leaves nothing when the target is blocked).

    Addresses and denoms are strings, compared as strings exactly where the code compares strings
    (admin checks).  The harness rewrites every bech32 address into a short token ("@3"; "@U3" for
    the all-upper-case spelling of the same address, which bech32 accepts and which decodes to the
    same account) — an injective renaming, so string equality is preserved.
    External predicates enter as flags computed by the implementation's own libraries:
      dv        sdk.ValidateDenom(denom) = nil  (the SDK coin-denom regex)
      na_valid  NewAdmin parses as bech32
      md_valid  bank Metadata.Validate() = nil
      target    "" (default) | an address that parses, given as the account it decodes to | unparsable
    MESSAGE CARRIERS (second half of the file): a token-factory message reaches its handler either as
    a message of the transaction, or nested in an authz MsgExec (any depth; x/authz DispatchActions:
    the grantee's own messages are accepted implicitly, anybody else's need a grant), or dispatched
    by a CosmWasm contract (app/wasmext handleSdkMessage: ValidateBasic, every signer of the
    dispatched message must be the contract — WHATEVER the message type, wrappers included — then
    the message router), or any combination.  Trees and dispatcher: Nib.C17.MsgTree.
    No proofs in this file. *)
From Coq Require Import List Bool Arith ZArith String Ascii.
Import ListNotations.
Require Import Nib.C17.MsgTree.
Local Open Scope string_scope.
Local Open Scope Z_scope.

(** strings.Split(s, "/") *)
Fixpoint split_slash (s : string) : list string :=
  match s with
  | EmptyString => [EmptyString]
  | String c r =>
      if Ascii.eqb c "/"%char then EmptyString :: split_slash r
      else match split_slash r with
           | [] => [String c EmptyString]
           | p :: ps => String c p :: ps
           end
  end.

Definition nonempty (s : string) : bool := match s with EmptyString => false | _ => true end.

(** DenomStr.ToStruct: Some (creator, subdenom) when the string has the tf/{creator}/{subdenom} shape *)
Definition parse_denom (d : string) : option (string * string) :=
  match split_slash d with
  | [p0; p1; p2] => if String.eqb p0 "tf" && nonempty p1 && nonempty p2 then Some (p1, p2) else None
  | _ => None
  end.

Definition validate_denom (d : string) : bool := match parse_denom d with Some _ => true | None => false end.

(** TFDenom.Denom() *)
Definition tf_denom (creator sub : string) : string := "tf/" ++ creator ++ "/" ++ sub.

Inductive target := TDefault | TAcct (a : string) | TInvalid.

Inductive op :=
| Create (sender sub : string)
| Mint (sender denom : string) (dv : bool) (amt : Z) (to : target)
| Burn (sender denom : string) (dv : bool) (amt : Z) (from : target)
| ChangeAdmin (sender denom new_admin : string) (na_valid : bool)
| SetMeta (sender base : string) (md_valid : bool)
| BurnNative (sender denom : string) (dv : bool) (amt : Z)
(** not a message: the module's genesis is exported and imported again (ExportGenesis, then InitGenesis
    into an emptied module store) — a chain upgrade / fork / restart from an exported state *)
| Reimport.

Record st := {
  admins : string -> option string;    (* denomAdmins: denom -> DenomAuthorityMetadata.Admin *)
  meta : string -> bool;               (* bank denom metadata exists (the HasDenom test) *)
  bal : string -> string -> Z;         (* account -> denom -> balance *)
  supply : string -> Z                 (* bank supply per denom *)
}.

Definition upd {V} (f : string -> V) (k : string) (v : V) : string -> V :=
  fun x => if String.eqb x k then v else f x.

Definition upd2 (f : string -> string -> Z) (a d : string) (v : Z) : string -> string -> Z :=
  fun x y => if String.eqb x a && String.eqb y d then v else f x y.

Fixpoint mem_str (a : string) (l : list string) : bool :=
  match l with [] => false | x :: r => String.eqb a x || mem_str a r end.

Definition target_ok (t : target) : bool := match t with TInvalid => false | _ => true end.
Definition resolve (t : target) (sender : string) : string :=
  match t with TAcct a => a | _ => sender end.

(** validateCoin: coin.IsValid() (denom regex, amount not negative) and not zero *)
Definition coin_ok (dv : bool) (amt : Z) : bool := dv && (0 <? amt).

(** one message through DeliverTx; None = rejected, nothing written *)
Definition step (blocked : list string) (s : st) (o : op) : option st :=
  match o with
  | Create sender sub =>
      let d := tf_denom sender sub in
      if validate_denom d && negb (meta s d)
      then Some {| admins := upd (admins s) d (Some sender); meta := upd (meta s) d true;
                   bal := bal s; supply := supply s |}
      else None
  | Mint sender d dv amt to =>
      if coin_ok dv amt && validate_denom d && target_ok to then
        match admins s d with
        | Some a =>
            if String.eqb sender a then
              let dst := resolve to sender in
              if mem_str dst blocked then None
              else Some {| admins := admins s; meta := meta s;
                           bal := upd2 (bal s) dst d (bal s dst d + amt);
                           supply := upd (supply s) d (supply s d + amt) |}
            else None
        | None => None
        end
      else None
  | Burn sender d dv amt from =>
      if coin_ok dv amt && validate_denom d && target_ok from then
        match admins s d with
        | Some a =>
            if String.eqb sender a then
              let src := resolve from sender in
              if mem_str src blocked then None
              else if amt <=? bal s src d
              then Some {| admins := admins s; meta := meta s;
                           bal := upd2 (bal s) src d (bal s src d - amt);
                           supply := upd (supply s) d (supply s d - amt) |}
              else None
            else None
        | None => None
        end
      else None
  | ChangeAdmin sender d new_admin na_valid =>
      if na_valid && validate_denom d then
        match admins s d with
        | Some a =>
            if String.eqb sender a
            then Some {| admins := upd (admins s) d (Some new_admin); meta := meta s; bal := bal s; supply := supply s |}
            else None
        | None => None
        end
      else None
  | SetMeta sender base md_valid =>
      if md_valid then
        match admins s base with
        | Some a =>
            if String.eqb sender a
            then Some {| admins := admins s; meta := upd (meta s) base true; bal := bal s; supply := supply s |}
            else None
        | None => None
        end
      else None
  | BurnNative sender d dv amt =>
      if coin_ok dv amt && (amt <=? bal s sender d)
      then Some {| admins := admins s; meta := meta s;
                   bal := upd2 (bal s) sender d (bal s sender d - amt);
                   supply := upd (supply s) d (supply s d - amt) |}
      else None
  | Reimport =>
      (* export ∘ import is the identity on denoms, admins (incl. renounced ones and admins that have
         no account yet); balances and supply live in the bank module and are carried by its genesis *)
      Some s
  end.

Definition deliver (blocked : list string) (s : st) (o : op) : st * bool :=
  match step blocked s o with Some s' => (s', true) | None => (s, false) end.

Fixpoint run (blocked : list string) (s : st) (h : list op) : st * list bool :=
  match h with
  | [] => (s, [])
  | o :: r =>
      let '(s1, ok) := deliver blocked s o in
      let '(s2, oks) := run blocked s1 r in (s2, ok :: oks)
  end.

(** baseapp.runMsgs: the messages of a tx run in order on a branch of the state … *)
Fixpoint run_msgs (blocked : list string) (s : st) (tx : list op) : option st :=
  match tx with
  | [] => Some s
  | o :: r => match step blocked s o with Some s' => run_msgs blocked s' r | None => None end
  end.

(** … that is written back only when every message succeeded (a tx without messages is refused) *)
Definition deliver_tx (blocked : list string) (s : st) (tx : list op) : st * bool :=
  match tx with
  | [] => (s, false)
  | _ => match run_msgs blocked s tx with Some s' => (s', true) | None => (s, false) end
  end.

Fixpoint run_txs (blocked : list string) (s : st) (h : list (list op)) : st * list bool :=
  match h with
  | [] => (s, [])
  | tx :: r =>
      let '(s1, ok) := deliver_tx blocked s tx in
      let '(s2, oks) := run_txs blocked s1 r in (s2, ok :: oks)
  end.

Definition sender_of (o : op) : string :=
  match o with
  | Create s _ | Mint s _ _ _ _ | Burn s _ _ _ _ | ChangeAdmin s _ _ _ | SetMeta s _ _ | BurnNative s _ _ _ => s
  | Reimport => EmptyString
  end.

(* ================================================================== message carriers *)

(** leaf message kinds, as authz grants (by message type url) tell them apart *)
Definition K_CREATE := 0%nat.
Definition K_MINT := 1%nat.
Definition K_BURN := 2%nat.
Definition K_ADMIN := 3%nat.
Definition K_META := 4%nat.
Definition K_BURNNATIVE := 5%nat.
Definition K_REIMPORT := 6%nat.
Definition K_GRANT := 7%nat.
Definition K_REVOKE := 8%nat.

Definition op_kind (o : op) : nat :=
  match o with
  | Create _ _ => K_CREATE | Mint _ _ _ _ _ => K_MINT | Burn _ _ _ _ _ => K_BURN
  | ChangeAdmin _ _ _ _ => K_ADMIN | SetMeta _ _ _ => K_META | BurnNative _ _ _ _ => K_BURNNATIVE
  | Reimport => K_REIMPORT
  end.

(** Accounts are small naturals (the harness numbers them; "@i" is the bech32 string of account i,
    "@Ui" its upper-case spelling).  A token-factory leaf carries the account its Sender string
    decodes to (what GetSigners() returns — computed by the implementation's own code). *)
Inductive leaf :=
| LOp (sgn : addr) (o : op)
| LGrant (granter grantee : addr) (k : mkind)     (* authz.MsgGrant, GenericAuthorization for type k, no expiry *)
| LRevoke (granter grantee : addr) (k : mkind).   (* authz.MsgRevoke *)

Definition leaf_signer (l : leaf) : addr :=
  match l with LOp a _ => a | LGrant a _ _ => a | LRevoke a _ _ => a end.
Definition leaf_kind (l : leaf) : nat :=
  match l with LOp _ o => op_kind o | LGrant _ _ _ => K_GRANT | LRevoke _ _ _ => K_REVOKE end.
(** ValidateBasic beyond what [step] itself refuses: MsgGrant / MsgRevoke need granter <> grantee *)
Definition leaf_basic (l : leaf) : bool :=
  match l with LOp _ _ => true | LGrant a b _ | LRevoke a b _ => negb (Nat.eqb a b) end.

Definition msg := tree leaf.
Definition tsigner : msg -> addr := signer leaf leaf_signer.
Definition tkind : msg -> mkind := kind_of leaf leaf_kind.
Definition tbasic : msg -> bool := basic leaf leaf_basic.

(** authz grants: (granter, grantee, message type) *)
Definition gst := list (addr * addr * mkind).

Definition grant_eqb (x y : addr * addr * mkind) : bool :=
  match x, y with (a, b, k), (a', b', k') => Nat.eqb a a' && Nat.eqb b b' && mkind_eqb k k' end.

Definition granted_g (G : gst) (granter grantee : addr) (k : mkind) : bool :=
  existsb (grant_eqb (granter, grantee, k)) G.

Definition grant_add (G : gst) (g : addr * addr * mkind) : gst :=
  if existsb (grant_eqb g) G then G else g :: G.
Definition grant_del (G : gst) (g : addr * addr * mkind) : gst :=
  filter (fun x => negb (grant_eqb g x)) G.

(** token-factory ledger + authz grants *)
Record wst := { tf : st; gr : gst }.

Definition wgranted (s : wst) : addr -> addr -> mkind -> bool := granted_g (gr s).

(** the handler of a leaf: the token-factory msg server, authz Grant (SaveGrant) / Revoke (DeleteGrant
    fails when there is no such grant) *)
Definition leaf_run (blocked : list string) (s : wst) (l : leaf) : option wst :=
  match l with
  | LOp _ o => match step blocked (tf s) o with Some t' => Some {| tf := t'; gr := gr s |} | None => None end
  | LGrant a b k => if Nat.eqb a b then None else Some {| tf := tf s; gr := grant_add (gr s) (a, b, k) |}
  | LRevoke a b k =>
      if negb (Nat.eqb a b) && granted_g (gr s) a b k
      then Some {| tf := tf s; gr := grant_del (gr s) (a, b, k) |} else None
  end.

(** what the code is, per generated facts (Gen/C15Facts.v [wasm_dispatch_events], read by
    Sites.v [wasm_signer_checked]): does handleSdkMessage compare every signer of the dispatched
    message ITSELF with the contract, unconditionally, before it routes the message *)
Record wcfg := { wasm_signer : bool }.

(** chain state / deployment rather than code *)
Record world := {
  w_reflects : addr -> addr -> bool;   (* contract -> sender -> does the contract dispatch the given messages *)
  w_gov : addr;
  w_ica_acct : addr -> bool;
  w_ica_allow : mkind -> bool
}.

Definition wasm_admits (c : wcfg) (ctr : addr) (t : msg) : bool :=
  negb (wasm_signer c) || Nat.eqb (tsigner t) ctr.

Definition trun (c : wcfg) (w : world) (blocked : list string) : msg -> wst -> option wst :=
  MsgTree.run leaf leaf_signer leaf_kind wst leaf_basic (leaf_run blocked) wgranted (w_reflects w) (wasm_admits c)
      (w_gov w) (w_ica_acct w) (w_ica_allow w).

Definition trun_all (c : wcfg) (w : world) (blocked : list string) (ms : list msg) (s : wst) : option wst :=
  seq_opt (trun c w blocked) (fun _ _ => true) ms s.

(** one DeliverTx: the ante handler runs ValidateBasic of every message (MsgExec validates what it
    carries) and verifies the signatures of the signers of the TOP-LEVEL messages (every tx of the
    harness is signed by them); then baseapp.runMsgs on a branch, all or nothing *)
Definition deliver_ttx (c : wcfg) (w : world) (blocked : list string) (s : wst) (tx : list msg) : wst * bool :=
  match tx with
  | [] => (s, false)
  | _ => if forallb tbasic tx
         then match trun_all c w blocked tx s with Some s' => (s', true) | None => (s, false) end
         else (s, false)
  end.

(** the token-factory messages a tx executes, in order (grants / revocations dropped) *)
Definition leaf_ops (l : leaf) : list op := match l with LOp _ o => [o] | _ => [] end.
Definition flat_ops (tx : list msg) : list op :=
  flat_map (fun t => flat_map leaf_ops (exec_leaves leaf t)) tx.

(** THE AUTHORITY WALK — the specification of who may stand behind a nested message, over the grant
    set alone: the same dispatcher with token-factory handlers that never fail, every contract willing
    to dispatch for everybody, and the admission test the property demands at a contract dispatch
    (the dispatched message's signer IS the contract).  [walk t G = Some G'] iff every delegation edge
    of [t] is vouched for — Exec g -> child: the child's signer is g or has granted g that message
    type (grant set as it stands when the child starts); Wasm _ ctr -> child: the child's signer is ctr. *)
Definition g_leaf_run (G : gst) (l : leaf) : option gst :=
  match l with
  | LOp _ _ => Some G
  | LGrant a b k => Some (grant_add G (a, b, k))
  | LRevoke a b k => Some (grant_del G (a, b, k))
  end.

Definition walk (w : world) : msg -> gst -> option gst :=
  MsgTree.run leaf leaf_signer leaf_kind gst (fun _ => true) g_leaf_run granted_g (fun _ _ => true)
      (fun ctr t => Nat.eqb (tsigner t) ctr) (w_gov w) (w_ica_acct w) (w_ica_allow w).

Definition walk_all (w : world) (ms : list msg) (G : gst) : option gst :=
  seq_opt (walk w) (fun _ _ => true) ms G.

(** the world of the harness: one reflect contract (account 8) owned by account 0, gov module account 6,
    no interchain accounts *)
Definition harness_world : world :=
  {| w_reflects := fun ctr snd => Nat.eqb ctr 8 && Nat.eqb snd 0; w_gov := 6%nat;
     w_ica_acct := fun _ => false; w_ica_allow := fun _ => false |}.

Definition cfg_checked : wcfg := {| wasm_signer := true |}.
(** a handler that does not compare the signers of (some) dispatched messages with the contract *)
Definition cfg_unchecked : wcfg := {| wasm_signer := false |}.

(** the account a sender string names: "@i" / "@Ui" (single digit) *)
Definition digit_of (c : ascii) : option addr :=
  let n := nat_of_ascii c in if (48 <=? n)%nat && (n <=? 57)%nat then Some (n - 48)%nat else None.
Definition acct_of (s : string) : option addr :=
  match s with
  | String "@" (String c EmptyString) => digit_of c
  | String "@" (String "U" (String c EmptyString)) => digit_of c
  | _ => None
  end.

(** every token-factory leaf carries the account its sender string names *)
Definition leaf_wf (l : leaf) : bool :=
  match l with
  | LOp _ Reimport => true
  | LOp a o => match acct_of (sender_of o) with Some b => Nat.eqb a b | None => false end
  | _ => true
  end.
Definition msg_wf (t : msg) : bool := forallb leaf_wf (leaves leaf t).
