(** C15 — executable model of the token-factory message server over a small bank ledger.

    Code modelled (nibiru /repo):
      x/tokenfactory/keeper/msg_server.go  CreateDenom, ChangeAdmin, Mint (+mint), Burn (+burn),
                                           SetDenomMetadata, BurnNative
      x/tokenfactory/keeper/store.go       InsertDenom (HasDenom = bank metadata exists), GetAdmin,
                                           GetDenomAuthorityMetadata
      x/tokenfactory/types/state.go        DenomStr.ToStruct / Validate: strings.Split(denom, "/") must give
                                           exactly ["tf", creator (non-empty), subdenom (non-empty)]
      x/tokenfactory/types/tx_msgs.go      ValidateBasic of every message
      bank keeper: MintCoins / BurnCoins / SendCoinsFromModuleToAccount / SendCoinsFromAccountToModule,
      BlockedAddr; baseapp: a failing message leaves no write behind (so `mint`, which calls MintCoins
      before it looks at the target, leaves nothing when the target is blocked).

    Addresses and denoms are strings, compared as strings exactly where the code compares strings
    (admin checks).  The harness rewrites every bech32 address into a short token ("@3"; "@U3" for
    the all-upper-case spelling of the same address, which bech32 accepts and which decodes to the
    same account) — an injective renaming, so string equality is preserved.
    External predicates enter as flags computed by the implementation's own libraries:
      dv        sdk.ValidateDenom(denom) = nil  (the SDK coin-denom regex)
      na_valid  NewAdmin parses as bech32
      md_valid  bank Metadata.Validate() = nil
      target    "" (default) | an address that parses, given as the account it decodes to | unparsable
    No proofs in this file. *)
From Coq Require Import List Bool Arith ZArith String Ascii.
Import ListNotations.
Local Open Scope string_scope.
Local Open Scope Z_scope.

(** strings.Split(s, "/") *)
Fixpoint split_slash (s : string) : list string :=
  match s with
  | EmptyString => [EmptyString]
  | String c r =>
      if Ascii.eqb c "/"%char then EmptyString :: split_slash r
      else match split_slash r with
           | [] => [String c EmptyString]
           | p :: ps => String c p :: ps
           end
  end.

Definition nonempty (s : string) : bool := match s with EmptyString => false | _ => true end.

(** DenomStr.ToStruct: Some (creator, subdenom) when the string has the tf/{creator}/{subdenom} shape *)
Definition parse_denom (d : string) : option (string * string) :=
  match split_slash d with
  | [p0; p1; p2] => if String.eqb p0 "tf" && nonempty p1 && nonempty p2 then Some (p1, p2) else None
  | _ => None
  end.

Definition validate_denom (d : string) : bool := match parse_denom d with Some _ => true | None => false end.

(** TFDenom.Denom() *)
Definition tf_denom (creator sub : string) : string := "tf/" ++ creator ++ "/" ++ sub.

Inductive target := TDefault | TAcct (a : string) | TInvalid.

Inductive op :=
| Create (sender sub : string)
| Mint (sender denom : string) (dv : bool) (amt : Z) (to : target)
| Burn (sender denom : string) (dv : bool) (amt : Z) (from : target)
| ChangeAdmin (sender denom new_admin : string) (na_valid : bool)
| SetMeta (sender base : string) (md_valid : bool)
| BurnNative (sender denom : string) (dv : bool) (amt : Z)
(** not a message: the module's genesis is exported and imported again (ExportGenesis, then InitGenesis
    into an emptied module store) — a chain upgrade / fork / restart from an exported state *)
| Reimport.

Record st := {
  admins : string -> option string;    (* denomAdmins: denom -> DenomAuthorityMetadata.Admin *)
  meta : string -> bool;               (* bank denom metadata exists (the HasDenom test) *)
  bal : string -> string -> Z;         (* account -> denom -> balance *)
  supply : string -> Z                 (* bank supply per denom *)
}.

Definition upd {V} (f : string -> V) (k : string) (v : V) : string -> V :=
  fun x => if String.eqb x k then v else f x.

Definition upd2 (f : string -> string -> Z) (a d : string) (v : Z) : string -> string -> Z :=
  fun x y => if String.eqb x a && String.eqb y d then v else f x y.

Fixpoint mem_str (a : string) (l : list string) : bool :=
  match l with [] => false | x :: r => String.eqb a x || mem_str a r end.

Definition target_ok (t : target) : bool := match t with TInvalid => false | _ => true end.
Definition resolve (t : target) (sender : string) : string :=
  match t with TAcct a => a | _ => sender end.

(** validateCoin: coin.IsValid() (denom regex, amount not negative) and not zero *)
Definition coin_ok (dv : bool) (amt : Z) : bool := dv && (0 <? amt).

(** one message through DeliverTx; None = rejected, nothing written *)
Definition step (blocked : list string) (s : st) (o : op) : option st :=
  match o with
  | Create sender sub =>
      let d := tf_denom sender sub in
      if validate_denom d && negb (meta s d)
      then Some {| admins := upd (admins s) d (Some sender); meta := upd (meta s) d true;
                   bal := bal s; supply := supply s |}
      else None
  | Mint sender d dv amt to =>
      if coin_ok dv amt && validate_denom d && target_ok to then
        match admins s d with
        | Some a =>
            if String.eqb sender a then
              let dst := resolve to sender in
              if mem_str dst blocked then None
              else Some {| admins := admins s; meta := meta s;
                           bal := upd2 (bal s) dst d (bal s dst d + amt);
                           supply := upd (supply s) d (supply s d + amt) |}
            else None
        | None => None
        end
      else None
  | Burn sender d dv amt from =>
      if coin_ok dv amt && validate_denom d && target_ok from then
        match admins s d with
        | Some a =>
            if String.eqb sender a then
              let src := resolve from sender in
              if mem_str src blocked then None
              else if amt <=? bal s src d
              then Some {| admins := admins s; meta := meta s;
                           bal := upd2 (bal s) src d (bal s src d - amt);
                           supply := upd (supply s) d (supply s d - amt) |}
              else None
            else None
        | None => None
        end
      else None
  | ChangeAdmin sender d new_admin na_valid =>
      if na_valid && validate_denom d then
        match admins s d with
        | Some a =>
            if String.eqb sender a
            then Some {| admins := upd (admins s) d (Some new_admin); meta := meta s; bal := bal s; supply := supply s |}
            else None
        | None => None
        end
      else None
  | SetMeta sender base md_valid =>
      if md_valid then
        match admins s base with
        | Some a =>
            if String.eqb sender a
            then Some {| admins := admins s; meta := upd (meta s) base true; bal := bal s; supply := supply s |}
            else None
        | None => None
        end
      else None
  | BurnNative sender d dv amt =>
      if coin_ok dv amt && (amt <=? bal s sender d)
      then Some {| admins := admins s; meta := meta s;
                   bal := upd2 (bal s) sender d (bal s sender d - amt);
                   supply := upd (supply s) d (supply s d - amt) |}
      else None
  | Reimport =>
      (* export ∘ import is the identity on denoms, admins (incl. renounced ones and admins that have
         no account yet); balances and supply live in the bank module and are carried by its genesis *)
      Some s
  end.

Definition deliver (blocked : list string) (s : st) (o : op) : st * bool :=
  match step blocked s o with Some s' => (s', true) | None => (s, false) end.

Fixpoint run (blocked : list string) (s : st) (h : list op) : st * list bool :=
  match h with
  | [] => (s, [])
  | o :: r =>
      let '(s1, ok) := deliver blocked s o in
      let '(s2, oks) := run blocked s1 r in (s2, ok :: oks)
  end.

(** baseapp.runMsgs: the messages of a tx run in order on a branch of the state … *)
Fixpoint run_msgs (blocked : list string) (s : st) (tx : list op) : option st :=
  match tx with
  | [] => Some s
  | o :: r => match step blocked s o with Some s' => run_msgs blocked s' r | None => None end
  end.

(** … that is written back only when every message succeeded (a tx without messages is refused) *)
Definition deliver_tx (blocked : list string) (s : st) (tx : list op) : st * bool :=
  match tx with
  | [] => (s, false)
  | _ => match run_msgs blocked s tx with Some s' => (s', true) | None => (s, false) end
  end.

Fixpoint run_txs (blocked : list string) (s : st) (h : list (list op)) : st * list bool :=
  match h with
  | [] => (s, [])
  | tx :: r =>
      let '(s1, ok) := deliver_tx blocked s tx in
      let '(s2, oks) := run_txs blocked s1 r in (s2, ok :: oks)
  end.

Definition sender_of (o : op) : string :=
  match o with
  | Create s _ | Mint s _ _ _ _ | Burn s _ _ _ _ | ChangeAdmin s _ _ _ | SetMeta s _ _ | BurnNative s _ _ _ => s
  | Reimport => EmptyString
  end.
