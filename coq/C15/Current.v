(** C15 — the configuration of the contract message handler as the generated facts describe the
    current tree (used by the correspondence check and by Gen/C15Oblig.v). *)
From Coq Require Import String List Bool.
Require Import Nib.C15.Model Nib.C15.Sites Nib.Gen.C15Facts.

Definition current_wcfg : wcfg := {| wasm_signer := wasm_signer_checked wasm_dispatch_events |}.
