(** C15 — proofs about MESSAGE CARRIERS: token-factory messages nested in authz MsgExec wrappers,
    dispatched by a CosmWasm contract, or both, to any depth (trees of Nib.C17.MsgTree).

    "Signed by that denom's current admin" becomes an authorisation relation over message trees:
    [reaches t s l sl] — running tree [t] from state [s] arrives at leaf [l] in state [sl] along a
    path on which EVERY delegation edge is vouched for:
      Exec g  -> child : the child's signer is g itself, or has granted g that message type
                         (grant on record in the state in which the child starts);
      Wasm _ ctr -> child : the child's signer is the dispatching contract ctr;
      Ica _ acct -> child : the child's signer is the (registered) interchain account.
    The theorems say: whatever a tree changes (a supply, an admin, a balance) was changed by a leaf that
    is reached in this sense, under the per-message law of Proofs.v in the state that leaf ran in —
    for every tree, provided the contract message handler compares the signers of EVERY dispatched
    message with the contract ([wasm_signer c = true], an obligation over the generated facts); and
    they are refuted by a concrete tree for a handler that does not. *)
From Coq Require Import List Bool Arith ZArith String Lia.
Import ListNotations.
Require Import Nib.C17.MsgTree Nib.C17.MsgTreeFacts Nib.C15.Model Nib.C15.Spec Nib.C15.Proofs.
Local Open Scope Z_scope.

(* ------------------------------------------------------------------ the loop *)

(** if an observable differs after the loop, one admitted element changed it *)
Lemma seq_opt_change {A St X : Type} (f : A -> St -> option St) (ok : St -> A -> bool) (obs : St -> X)
      (Xdec : forall x y : X, {x = y} + {x <> y}) :
  forall l s s', seq_opt f ok l s = Some s' -> obs s' <> obs s ->
  exists pre a post s1 s2, l = (pre ++ a :: post)%list /\ seq_opt f ok pre s = Some s1 /\ ok s1 a = true /\
                           f a s1 = Some s2 /\ obs s2 <> obs s1.
Proof.
  induction l as [|x r IH]; intros s s' H Hne; simpl in H.
  - inversion H; subst. congruence.
  - destruct (ok s x) eqn:Hok; [|discriminate]. destruct (f x s) as [sx|] eqn:Hf; [|discriminate].
    destruct (Xdec (obs sx) (obs s)) as [E|E].
    + rewrite <- E in Hne. destruct (IH sx s' H Hne) as (pre & a & post & s1 & s2 & Hl & Hp & Ho & Ha & Hd).
      exists (x :: pre), a, post, s1, s2. subst r. simpl. rewrite Hok, Hf. auto.
    + exists [], x, r, s, sx. simpl. auto.
Qed.

(** an admission test that does not look at the state held for every element *)
Lemma seq_opt_all_ok {A St : Type} (f : A -> St -> option St) (p : A -> bool) :
  forall l s s', seq_opt f (fun _ a => p a) l s = Some s' -> forallb p l = true.
Proof.
  induction l as [|x r IH]; intros s s' H; simpl in *; auto.
  destruct (p x); [|discriminate]. destruct (f x s) as [sx|]; [|discriminate]. simpl. eauto.
Qed.

(** two loops in step: each element admitted and run on the left is admitted and run on the right *)
Lemma seq_opt_sim {A S1 S2 : Type} (f1 : A -> S1 -> option S1) (f2 : A -> S2 -> option S2)
      (ok1 : S1 -> A -> bool) (ok2 : S2 -> A -> bool) (Rel : S1 -> S2 -> Prop) (l : list A) :
  Forall (fun a => forall s1 s1' s2, Rel s1 s2 -> ok1 s1 a = true -> f1 a s1 = Some s1' ->
                   ok2 s2 a = true /\ exists s2', f2 a s2 = Some s2' /\ Rel s1' s2') l ->
  forall s1 s1' s2, Rel s1 s2 -> seq_opt f1 ok1 l s1 = Some s1' ->
  exists s2', seq_opt f2 ok2 l s2 = Some s2' /\ Rel s1' s2'.
Proof.
  induction 1 as [|a r Ha _ IH]; intros s1 s1' s2 HR Hrun; simpl in *.
  - inversion Hrun; subst. eauto.
  - destruct (ok1 s1 a) eqn:Hok; [|discriminate]. destruct (f1 a s1) as [sx|] eqn:Hf; [|discriminate].
    destruct (Ha _ _ _ HR Hok Hf) as (Hok2 & sx2 & Hf2 & HR'). rewrite Hok2, Hf2. eapply IH; eauto.
Qed.

Section Carriers.
  Variables (c : wcfg) (w : world) (blocked : list string).

  Notation R := (trun c w blocked).
  Definition ok_exec (g : addr) : wst -> msg -> bool :=
    fun s t => authz_ok leaf leaf_signer leaf_kind wst wgranted s g t.
  Definition ok_wasm (ctr : addr) : wst -> msg -> bool := fun _ t => tbasic t && wasm_admits c ctr t.
  Definition ok_ica (acct : addr) : wst -> msg -> bool :=
    fun _ t => w_ica_allow w (tkind t) && Nat.eqb (tsigner t) acct.

  Lemma trun_leaf l s : R (Leaf l) s = leaf_run blocked s l.
  Proof. reflexivity. Qed.
  Lemma trun_exec g cs s : R (Exec g cs) s = seq_opt R (ok_exec g) cs s.
  Proof. reflexivity. Qed.
  Lemma trun_wasm snd ctr cs s :
    R (Wasm snd ctr cs) s =
    if w_reflects w ctr snd && negb (Nat.eqb (List.length cs) 0) then seq_opt R (ok_wasm ctr) cs s else None.
  Proof. reflexivity. Qed.
  Lemma trun_gov p cs s :
    R (Gov p cs) s = if forallb (fun t => tbasic t && Nat.eqb (tsigner t) (w_gov w)) cs then Some s else None.
  Proof. reflexivity. Qed.
  Lemma trun_ica r acct cs s :
    R (Ica r acct cs) s =
    if w_ica_acct w acct
    then match seq_opt R (ok_ica acct) cs s with Some s' => Some s' | None => Some s end
    else Some s.
  Proof. reflexivity. Qed.

  (** THE AUTHORISATION RELATION *)
  Inductive reaches : msg -> wst -> leaf -> wst -> Prop :=
  | R_leaf l s : reaches (Leaf l) s l s
  | R_exec g pre t post s s1 l sl :
      seq_opt R (ok_exec g) pre s = Some s1 ->
      (tsigner t = g \/ wgranted s1 (tsigner t) g (tkind t) = true) ->
      reaches t s1 l sl -> reaches (Exec g (pre ++ t :: post)) s l sl
  | R_wasm snd ctr pre t post s s1 l sl :
      w_reflects w ctr snd = true ->
      seq_opt R (ok_wasm ctr) pre s = Some s1 ->
      tsigner t = ctr ->
      reaches t s1 l sl -> reaches (Wasm snd ctr (pre ++ t :: post)) s l sl
  | R_ica r acct pre t post s s1 l sl :
      w_ica_acct w acct = true ->
      seq_opt R (ok_ica acct) pre s = Some s1 ->
      tsigner t = acct ->
      reaches t s1 l sl -> reaches (Ica r acct (pre ++ t :: post)) s l sl.

  Hypothesis Hchecked : wasm_signer c = true.

  Lemma ok_exec_vouched g s t : ok_exec g s t = true -> tsigner t = g \/ wgranted s (tsigner t) g (tkind t) = true.
  Proof.
    unfold ok_exec, authz_ok. intro H. apply orb_true_iff in H as [H|H]; [left | right; exact H].
    apply Nat.eqb_eq in H. exact H.
  Qed.

  Lemma ok_wasm_vouched ctr s t : ok_wasm ctr s t = true -> tsigner t = ctr.
  Proof.
    unfold ok_wasm, wasm_admits. rewrite Hchecked. simpl. intro H. apply andb_true_iff in H as [_ H].
    apply Nat.eqb_eq in H. exact H.
  Qed.

  Lemma ok_ica_vouched acct s t : ok_ica acct s t = true -> tsigner t = acct.
  Proof. unfold ok_ica. intro H. apply andb_true_iff in H as [_ H]. apply Nat.eqb_eq in H. exact H. Qed.

  (** whatever a tree changes was changed by a leaf that is reached along vouched edges *)
  Lemma tree_change_reached {X : Type} (obs : st -> X) (Xdec : forall x y : X, {x = y} + {x <> y}) :
    forall t s s', R t s = Some s' -> obs (tf s') <> obs (tf s) ->
    exists l sl sl', reaches t s l sl /\ leaf_run blocked sl l = Some sl' /\ obs (tf sl') <> obs (tf sl).
  Proof.
    intro t. pattern t. apply (tree_ind' leaf); clear t.
    - intros l s s' H Hne. rewrite trun_leaf in H. exists l, s, s'. split; [constructor | auto].
    - intros g cs IH s s' H Hne. rewrite trun_exec in H.
      destruct (seq_opt_change R (ok_exec g) (fun x => obs (tf x)) Xdec _ _ _ H Hne)
        as (pre & a & post & s1 & s2 & Hl & Hp & Ho & Ha & Hd).
      subst cs. rewrite Forall_forall in IH.
      destruct (IH a (in_elt a pre post) s1 s2 Ha Hd) as (l & sl & sl' & Hr & Hrun & Hobs).
      exists l, sl, sl'. split; auto. eapply R_exec; eauto. apply ok_exec_vouched; exact Ho.
    - intros snd ctr cs IH s s' H Hne. rewrite trun_wasm in H.
      destruct (w_reflects w ctr snd) eqn:Hrf; [|discriminate].
      destruct (negb (Nat.eqb (List.length cs) 0)); [|discriminate]. simpl in H.
      destruct (seq_opt_change R (ok_wasm ctr) (fun x => obs (tf x)) Xdec _ _ _ H Hne)
        as (pre & a & post & s1 & s2 & Hl & Hp & Ho & Ha & Hd).
      subst cs. rewrite Forall_forall in IH.
      destruct (IH a (in_elt a pre post) s1 s2 Ha Hd) as (l & sl & sl' & Hr & Hrun & Hobs).
      exists l, sl, sl'. split; auto. eapply R_wasm; eauto. eapply ok_wasm_vouched; exact Ho.
    - intros p cs _ s s' H Hne. rewrite trun_gov in H.
      match type of H with (if ?b then _ else _) = _ => destruct b; [|discriminate] end. inversion H; subst. congruence.
    - intros r acct cs IH s s' H Hne. rewrite trun_ica in H.
      destruct (w_ica_acct w acct) eqn:Hacc; [|inversion H; subst; congruence].
      destruct (seq_opt R (ok_ica acct) cs s) as [sx|] eqn:Hs; inversion H; subst; [|congruence].
      destruct (seq_opt_change R (ok_ica acct) (fun x => obs (tf x)) Xdec _ _ _ Hs Hne)
        as (pre & a & post & s1 & s2 & Hl & Hp & Ho & Ha & Hd).
      subst cs. rewrite Forall_forall in IH.
      destruct (IH a (in_elt a pre post) s1 s2 Ha Hd) as (l & sl & sl' & Hr & Hrun & Hobs).
      exists l, sl, sl'. split; auto. eapply R_ica; eauto. eapply ok_ica_vouched; exact Ho.
  Qed.

  (** only token-factory leaves touch the ledger *)
  Lemma leaf_run_tf s l s' :
    leaf_run blocked s l = Some s' ->
    (exists a o, l = LOp a o /\ step blocked (tf s) o = Some (tf s') /\ gr s' = gr s) \/ tf s' = tf s.
  Proof.
    destruct l as [a o|a b k|a b k]; simpl; intro H.
    - left. destruct (step blocked (tf s) o) as [t'|] eqn:E; [|discriminate]. inversion H; subst. simpl. eauto.
    - right. destruct (Nat.eqb a b); [discriminate|]. inversion H; subst. reflexivity.
    - right. destruct (negb (Nat.eqb a b) && granted_g (gr s) a b k); [|discriminate]. inversion H; subst. reflexivity.
  Qed.

  (** SUPPLY through carriers: a supply that differs after a tree was moved by a REACHED Mint / Burn of
      that denom signed by the admin on record in the state it ran in, by exactly the amount (or by a
      native burn of the signer's own coins — the open finding of Proofs.v) *)
  Lemma tree_supply_step t s s' d :
    R t s = Some s' -> supply (tf s') d <> supply (tf s) d ->
    exists a o sl t', reaches t s (LOp a o) sl /\ step blocked (tf sl) o = Some t' /\
                      (supply_mover (tf sl) t' o d \/ own_native_burn (tf sl) t' o d).
  Proof.
    intros H Hne.
    destruct (tree_change_reached (fun x => supply x d) Z.eq_dec t s s' H Hne) as (l & sl & sl' & Hr & Hrun & Hobs).
    destruct (leaf_run_tf _ _ _ Hrun) as [(a & o & -> & Hst & _)|E]; [|rewrite E in Hobs; congruence].
    exists a, o, sl, (tf sl'). split; auto. split; auto. eapply supply_step; eauto.
  Qed.

  (** the registry invariant along trees *)
  Lemma leaf_run_inv s l s' : leaf_run blocked s l = Some s' -> inv (tf s) -> inv (tf s').
  Proof.
    intros H Hi. destruct (leaf_run_tf _ _ _ H) as [(a & o & _ & Hst & _)|E]; [eapply inv_step; eauto | rewrite E; exact Hi].
  Qed.

  Lemma trun_inv : forall t s s', R t s = Some s' -> inv (tf s) -> inv (tf s').
  Proof.
    intro t. pattern t. apply (tree_ind' leaf); clear t.
    - intros l s s' H. rewrite trun_leaf in H. eapply leaf_run_inv; eauto.
    - intros g cs IH s s' H Hi. rewrite trun_exec in H.
      eapply (seq_opt_inv R (ok_exec g) (fun x => inv (tf x))); [|exact Hi|exact H].
      eapply Forall_impl; [|exact IH]. intros a Ha x x' Hx _ Hrun. eapply Ha; eauto.
    - intros snd ctr cs IH s s' H Hi. rewrite trun_wasm in H.
      destruct (w_reflects w ctr snd && negb (Nat.eqb (List.length cs) 0)); [|discriminate].
      eapply (seq_opt_inv R (ok_wasm ctr) (fun x => inv (tf x))); [|exact Hi|exact H].
      eapply Forall_impl; [|exact IH]. intros a Ha x x' Hx _ Hrun. eapply Ha; eauto.
    - intros p cs _ s s' H Hi. rewrite trun_gov in H. match type of H with (if ?b then _ else _) = _ => destruct b; [|discriminate] end. inversion H; subst; auto.
    - intros r acct cs IH s s' H Hi. rewrite trun_ica in H.
      destruct (w_ica_acct w acct); [|inversion H; subst; auto].
      destruct (seq_opt R (ok_ica acct) cs s) as [sx|] eqn:Hs; inversion H; subst; auto.
      eapply (seq_opt_inv R (ok_ica acct) (fun x => inv (tf x))); [|exact Hi|exact Hs].
      eapply Forall_impl; [|exact IH]. intros a Ha x x' Hx _ Hrun. eapply Ha; eauto.
  Qed.

  Lemma prefix_inv (ok : wst -> msg -> bool) pre s s1 : seq_opt R ok pre s = Some s1 -> inv (tf s) -> inv (tf s1).
  Proof.
    intros H Hi. eapply (seq_opt_inv_weak R ok (fun x => inv (tf x))); [|exact Hi|exact H].
    intros a _ x x' Hx _ Hrun. eapply trun_inv; eauto.
  Qed.

  Lemma reaches_inv t s l sl : reaches t s l sl -> inv (tf s) -> inv (tf sl).
  Proof.
    induction 1; intro Hi; auto; apply IHreaches; eapply prefix_inv; eauto.
  Qed.

  Definition opt_string_dec (x y : option string) : {x = y} + {x <> y}.
  Proof. decide equality. apply string_dec. Defined.

  (** CONTROL through carriers *)
  Lemma tree_admin_step t s s' d :
    inv (tf s) -> R t s = Some s' -> admins (tf s') d <> admins (tf s) d ->
    exists a o sl t', reaches t s (LOp a o) sl /\ step blocked (tf sl) o = Some t' /\
      ((exists sender new nv, o = ChangeAdmin sender d new nv /\ admins (tf sl) d = Some sender /\ admins t' d = Some new) \/
       (exists sender sub, o = Create sender sub /\ d = tf_denom sender sub /\ admins (tf sl) d = None /\
          admins t' d = Some sender /\ parse_denom d = Some (sender, sub))).
  Proof.
    intros Hi H Hne.
    destruct (tree_change_reached (fun x => admins x d) opt_string_dec t s s' H Hne) as (l & sl & sl' & Hr & Hrun & Hobs).
    destruct (leaf_run_tf _ _ _ Hrun) as [(a & o & -> & Hst & _)|E]; [|rewrite E in Hobs; congruence].
    exists a, o, sl, (tf sl'). split; auto. split; auto.
    eapply admin_step; eauto. eapply reaches_inv; eauto.
  Qed.

  (** BALANCES through carriers *)
  Lemma tree_balance_step t s s' acct d :
    R t s = Some s' -> bal (tf s') acct d <> bal (tf s) acct d ->
    exists a o sl t', reaches t s (LOp a o) sl /\ step blocked (tf sl) o = Some t' /\
      ((exists sender dv amt to, o = Mint sender d dv amt to /\ admins (tf sl) d = Some sender /\ acct = resolve to sender /\
          bal t' acct d = bal (tf sl) acct d + amt /\ 0 < amt /\ mem_str acct blocked = false) \/
       (exists sender dv amt from, o = Burn sender d dv amt from /\ admins (tf sl) d = Some sender /\ acct = resolve from sender /\
          bal t' acct d = bal (tf sl) acct d - amt /\ 0 < amt /\ amt <= bal (tf sl) acct d /\ mem_str acct blocked = false) \/
       (exists dv amt, o = BurnNative acct d dv amt /\ bal t' acct d = bal (tf sl) acct d - amt /\ 0 < amt /\ amt <= bal (tf sl) acct d)).
  Proof.
    intros H Hne.
    destruct (tree_change_reached (fun x => bal x acct d) Z.eq_dec t s s' H Hne) as (l & sl & sl' & Hr & Hrun & Hobs).
    destruct (leaf_run_tf _ _ _ Hrun) as [(a & o & -> & Hst & _)|E]; [|rewrite E in Hobs; congruence].
    exists a, o, sl, (tf sl'). split; auto. split; auto. eapply balance_step; eauto.
  Qed.

  (** a contract dispatches only its own messages — whatever their type, MsgExec wrappers included *)
  Lemma contract_dispatches_only_its_own snd ctr cs s s' :
    R (Wasm snd ctr cs) s = Some s' -> Forall (fun t => tsigner t = ctr) cs.
  Proof.
    rewrite trun_wasm. destruct (w_reflects w ctr snd && negb (Nat.eqb (List.length cs) 0)); [|discriminate].
    intro H. apply (seq_opt_all_ok R (fun t => tbasic t && wasm_admits c ctr t)) in H.
    rewrite forallb_forall in H. apply Forall_forall. intros t Hin. eapply (ok_wasm_vouched ctr s). apply H. exact Hin.
  Qed.

  (** in particular a contract cannot dispatch a MsgExec that names somebody else as grantee *)
  Lemma contract_cannot_exec_for_others snd ctr g inner pre post s :
    g <> ctr -> R (Wasm snd ctr (pre ++ Exec g inner :: post)) s = None.
  Proof.
    intro Hne. destruct (R (Wasm snd ctr (pre ++ Exec g inner :: post)) s) as [s'|] eqn:E; auto.
    apply contract_dispatches_only_its_own in E. rewrite Forall_forall in E.
    specialize (E (Exec g inner) (in_elt _ pre post)). simpl in E. contradiction.
  Qed.

  (** below a MsgExec: the grantee's own message, or a grant on record when the message starts *)
  Lemma exec_child_vouched g t s s' :
    R (Exec g [t]) s = Some s' -> tsigner t = g \/ wgranted s (tsigner t) g (tkind t) = true.
  Proof.
    rewrite trun_exec. simpl. destruct (ok_exec g s t) eqn:E; [|discriminate]. intros _. apply ok_exec_vouched. exact E.
  Qed.

  (* ---------------------------------------------------------------- transactions *)

  Lemma ttx_supply_step tx s s' d :
    trun_all c w blocked tx s = Some s' -> supply (tf s') d <> supply (tf s) d ->
    exists pre t post s1 a o sl t', tx = (pre ++ t :: post)%list /\ trun_all c w blocked pre s = Some s1 /\
      reaches t s1 (LOp a o) sl /\ step blocked (tf sl) o = Some t' /\
      (supply_mover (tf sl) t' o d \/ own_native_burn (tf sl) t' o d).
  Proof.
    unfold trun_all. intros H Hne.
    destruct (seq_opt_change R (fun _ _ => true) (fun x => supply (tf x) d) Z.eq_dec _ _ _ H Hne)
      as (pre & t & post & s1 & s2 & Hl & Hp & _ & Ht & Hd).
    destruct (tree_supply_step t s1 s2 d Ht Hd) as (a & o & sl & t' & Hr & Hst & Hm).
    exists pre, t, post, s1, a, o, sl, t'. auto.
  Qed.

  Lemma ttx_admin_step tx s s' d :
    inv (tf s) -> trun_all c w blocked tx s = Some s' -> admins (tf s') d <> admins (tf s) d ->
    exists pre t post s1 a o sl t', tx = (pre ++ t :: post)%list /\ trun_all c w blocked pre s = Some s1 /\
      reaches t s1 (LOp a o) sl /\ step blocked (tf sl) o = Some t' /\
      ((exists sender new nv, o = ChangeAdmin sender d new nv /\ admins (tf sl) d = Some sender /\ admins t' d = Some new) \/
       (exists sender sub, o = Create sender sub /\ d = tf_denom sender sub /\ admins (tf sl) d = None /\
          admins t' d = Some sender /\ parse_denom d = Some (sender, sub))).
  Proof.
    unfold trun_all. intros Hi H Hne.
    destruct (seq_opt_change R (fun _ _ => true) (fun x => admins (tf x) d) opt_string_dec _ _ _ H Hne)
      as (pre & t & post & s1 & s2 & Hl & Hp & _ & Ht & Hd).
    assert (Hi1 : inv (tf s1)) by (eapply prefix_inv; eauto).
    destruct (tree_admin_step t s1 s2 d Hi1 Ht Hd) as (a & o & sl & t' & Hr & Hst & Hm).
    exists pre, t, post, s1, a, o, sl, t'. auto.
  Qed.

  Lemma deliver_ttx_rejected s tx : snd (deliver_ttx c w blocked s tx) = false -> fst (deliver_ttx c w blocked s tx) = s.
  Proof.
    unfold deliver_ttx. destruct tx as [|t r]; [reflexivity|].
    destruct (forallb tbasic (t :: r)); [|reflexivity].
    destruct (trun_all c w blocked (t :: r) s); [cbn [fst snd]; intro; discriminate | reflexivity].
  Qed.

  (* ---------------------------------------------------------------- the authority walk *)

  Hypothesis Hnoica : forall a, w_ica_acct w a = false.

  Notation W := (walk w).
  Definition basic_any : msg -> bool := basic leaf (fun _ => true).

  Lemma basic_weaken : forall t, tbasic t = true -> basic_any t = true.
  Proof.
    intro t. pattern t. apply (tree_ind' leaf); clear t; unfold tbasic, basic_any; simpl; auto.
    - intros g cs IH H. apply andb_true_iff in H as [H1 H2]. rewrite H1. simpl.
      rewrite forallb_forall in *. rewrite Forall_forall in IH. intros x Hx. apply IH; auto.
    - intros p cs IH H. rewrite forallb_forall in *. rewrite Forall_forall in IH. intros x Hx. apply IH; auto.
  Qed.

  Lemma leaf_walk s l s' : leaf_run blocked s l = Some s' -> g_leaf_run (gr s) l = Some (gr s').
  Proof.
    destruct l as [a o|a b k|a b k]; simpl; intro H.
    - destruct (step blocked (tf s) o); [|discriminate]. inversion H; subst. reflexivity.
    - destruct (Nat.eqb a b); [discriminate|]. inversion H; subst. reflexivity.
    - destruct (negb (Nat.eqb a b) && granted_g (gr s) a b k); [|discriminate]. inversion H; subst. reflexivity.
  Qed.

  (** every tree the model accepts passes the authority walk (which the checker [Pbt] evaluates on
      implementation traces), with the same grants afterwards *)
  Lemma accepted_tree_passes_walk : forall t s s', R t s = Some s' -> W t (gr s) = Some (gr s').
  Proof.
    intro t. pattern t. apply (tree_ind' leaf); clear t.
    - intros l s s' H. rewrite trun_leaf in H. apply leaf_walk in H. exact H.
    - intros g cs IH s s' H. rewrite trun_exec in H. change (W (Exec g cs) (gr s)) with
        (seq_opt W (fun G t => authz_ok leaf leaf_signer leaf_kind gst granted_g G g t) cs (gr s)).
      destruct (seq_opt_sim R W (ok_exec g) (fun G t => authz_ok leaf leaf_signer leaf_kind gst granted_g G g t)
                  (fun x G => G = gr x) cs) with (s1 := s) (s1' := s') (s2 := gr s) as (G' & HG & ->); auto.
      eapply Forall_impl; [|exact IH]. intros a Ha x x' G -> Hok Hrun. split; [exact Hok|].
      exists (gr x'). split; auto.
    - intros snd ctr cs IH s s' H. rewrite trun_wasm in H.
      destruct (w_reflects w ctr snd); [|discriminate]. simpl in H.
      change (W (Wasm snd ctr cs) (gr s)) with
        (if true && negb (Nat.eqb (List.length cs) 0)
         then seq_opt W (fun _ t => basic_any t && Nat.eqb (tsigner t) ctr) cs (gr s) else None).
      destruct (negb (Nat.eqb (List.length cs) 0)); [|discriminate]. simpl.
      destruct (seq_opt_sim R W (ok_wasm ctr) (fun _ t => basic_any t && Nat.eqb (tsigner t) ctr)
                  (fun x G => G = gr x) cs) with (s1 := s) (s1' := s') (s2 := gr s) as (G' & HG & ->); auto.
      eapply Forall_impl; [|exact IH]. intros a Ha x x' G -> Hok Hrun. split.
      + pose proof (ok_wasm_vouched ctr x a Hok) as Hs. unfold ok_wasm in Hok. apply andb_true_iff in Hok as [Hb _].
        rewrite (basic_weaken a Hb). simpl. apply Nat.eqb_eq. exact Hs.
      + exists (gr x'). split; auto.
    - intros p cs _ s s' H. rewrite trun_gov in H.
      change (W (Gov p cs) (gr s)) with
        (if forallb (fun t => basic_any t && Nat.eqb (tsigner t) (w_gov w)) cs then Some (gr s) else None).
      destruct (forallb (fun t => tbasic t && Nat.eqb (tsigner t) (w_gov w)) cs) eqn:E; [|discriminate].
      inversion H; subst.
      assert (E2 : forallb (fun t => basic_any t && Nat.eqb (tsigner t) (w_gov w)) cs = true).
      { rewrite forallb_forall in *. intros x Hx. specialize (E x Hx). apply andb_true_iff in E as [E1 E2].
        rewrite (basic_weaken x E1), E2. reflexivity. }
      rewrite E2. reflexivity.
    - intros r acct cs _ s s' H. rewrite trun_ica in H. rewrite Hnoica in H. inversion H; subst.
      change (W (Ica r acct cs) (gr s')) with
        (if w_ica_acct w acct
         then match seq_opt W (fun _ t => w_ica_allow w (tkind t) && Nat.eqb (tsigner t) acct) cs (gr s') with
              | Some G' => Some G' | None => Some (gr s') end
         else Some (gr s')).
      rewrite Hnoica. reflexivity.
  Qed.

  Lemma accepted_tx_passes_walk tx s s' : trun_all c w blocked tx s = Some s' -> walk_all w tx (gr s) = Some (gr s').
  Proof.
    unfold trun_all, walk_all. intro H.
    destruct (seq_opt_sim R W (fun _ _ => true) (fun _ _ => true) (fun x G => G = gr x) tx) with (s1 := s) (s1' := s') (s2 := gr s)
      as (G' & HG & ->); auto.
    apply Forall_forall. intros a _ x x' G -> _ Hrun. split; auto. exists (gr x'). split; auto.
    apply accepted_tree_passes_walk. exact Hrun.
  Qed.
End Carriers.

(* ------------------------------------------------------------------ a handler that does not check: refuted *)

Definition witness_state : wst :=
  {| tf := fst (run [] empty_state [Create "@1" "gold"; Mint "@1" "tf/@1/gold" true 100 (TAcct "@3")]); gr := [] |}.

(** the contract (account 8, called by its owner 0) dispatches a MsgExec that names the admin (account 1)
    as grantee and carries the admin's MsgMint — to the contract itself *)
Definition witness_tree : msg :=
  Wasm 0%nat 8%nat [Exec 1%nat [Leaf (LOp 1%nat (Mint "@1" "tf/@1/gold" true 1000000 (TAcct "@8")))]].

Lemma unchecked_handler_refuted :
  exists s', trun cfg_unchecked harness_world [] witness_tree witness_state = Some s' /\
             supply (tf s') "tf/@1/gold" <> supply (tf witness_state) "tf/@1/gold" /\
             admins (tf witness_state) "tf/@1/gold" = Some "@1"%string /\
             (forall l sl, ~ reaches cfg_unchecked harness_world [] witness_tree witness_state l sl) /\
             walk harness_world witness_tree (gr witness_state) = None.
Proof.
  destruct (trun cfg_unchecked harness_world [] witness_tree witness_state) as [s'|] eqn:E; [|vm_compute in E; discriminate].
  exists s'. split; auto.
  assert (H1 : supply (tf s') "tf/@1/gold" = 1000100) by (vm_compute in E; inversion E; subst; reflexivity).
  assert (H0 : supply (tf witness_state) "tf/@1/gold" = 100) by (vm_compute; reflexivity).
  split; [rewrite H1, H0; discriminate|]. split; [vm_compute; reflexivity|]. split; [|vm_compute; reflexivity].
  intros l sl Hr. unfold witness_tree in Hr. inversion Hr; subst.
  match goal with Hl : (?pre ++ ?t :: ?post)%list = [_] |- _ =>
    destruct pre as [|x pre]; simpl in Hl; inversion Hl; subst;
    [| match goal with Hn : (pre ++ _ :: _)%list = [] |- _ => symmetry in Hn; apply app_cons_not_nil in Hn; contradiction end]
  end.
  match goal with Hs : tsigner (Exec _ _) = _ |- _ => simpl in Hs; discriminate end.
Qed.

(** … while the handler that checks refuses that very tree, and accepts the contract's own messages *)
Example checked_handler_refuses_witness :
  trun cfg_checked harness_world [] witness_tree witness_state = None.
Proof. vm_compute. reflexivity. Qed.

Definition own_history : list msg :=
  [ Wasm 0%nat 8%nat [Leaf (LOp 8%nat (Create "@8" "gold"))];
    Wasm 0%nat 8%nat [Exec 8%nat [Leaf (LOp 8%nat (Mint "@8" "tf/@8/gold" true 50 (TAcct "@1")))]];
    Wasm 0%nat 8%nat [Leaf (LGrant 8%nat 2%nat (MKLeaf K_MINT))];
    Exec 2%nat [Leaf (LOp 8%nat (Mint "@8" "tf/@8/gold" true 7 TDefault))] ].

Example carriers_nonvacuous :
  match trun_all cfg_checked harness_world [] own_history {| tf := empty_state; gr := [] |} with
  | Some s => supply (tf s) "tf/@8/gold" = 57 /\ admins (tf s) "tf/@8/gold" = Some "@8"%string /\
              walk_all harness_world own_history [] = Some (gr s)
  | None => False
  end.
Proof. vm_compute. auto. Qed.

Example reaches_nonvacuous :
  reaches cfg_checked harness_world []
    (Wasm 0%nat 8%nat [Exec 8%nat [Leaf (LOp 8%nat (Create "@8" "gold"))]]) {| tf := empty_state; gr := [] |}
    (LOp 8%nat (Create "@8" "gold")) {| tf := empty_state; gr := [] |}.
Proof.
  apply (R_wasm cfg_checked harness_world [] 0%nat 8%nat [] _ [] _ {| tf := empty_state; gr := [] |}); try reflexivity.
  apply (R_exec cfg_checked harness_world [] 8%nat [] _ [] _ {| tf := empty_state; gr := [] |}); try reflexivity.
  - left. reflexivity.
  - constructor.
Qed.
