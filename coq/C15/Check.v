(** C15 — evaluation of implementation traces: correspondence (model vs observed snapshots after
    every DeliverTx) and the property predicate [Pb] on the observed trace itself. *)
From Coq Require Import List Bool Arith ZArith String.
Import ListNotations.
Require Import Nib.C17.MsgTree Nib.C15.Model Nib.C15.Spec.
Local Open Scope Z_scope.

(** Snapshots arrive in compact form: the tracked keys once per case, then value lists aligned
    with them (supply per denom, balance per (account, denom) key, admin per denom). *)
Definition raw : Type := list Z * list Z * list (option string).
Definition keys : Type := list string * list (string * string).

Definition mk_snap (k : keys) (r : raw) : snap :=
  {| sn_supply := combine (fst k) (fst (fst r));
     sn_bal := map (fun e : string * string * Z => (fst (fst e), snd (fst e), snd e)) (combine (snd k) (snd (fst r)));
     sn_admin := combine (fst k) (snd r) |}.

Definition raw_wf (k : keys) (r : raw) : bool :=
  (List.length (fst (fst r)) =? List.length (fst k))%nat && (List.length (snd (fst r)) =? List.length (snd k))%nat &&
  (List.length (snd r) =? List.length (fst k))%nat.

(** blocked accounts (BankKeeper.BlockedAddr), keys, initial snapshot and grants, then per tx (message trees,
    accepted?, snapshot after, authz grants after) *)
(** [gen]: the admins the genesis section of the case states (denom, admin; "" = renounced) — the
    import must install exactly these *)
Definition case : Type :=
  list string * list (string * option string) * keys * raw * gst * list (list msg * bool * raw * gst).

Definition trace_of (k : keys) (t : list (list msg * bool * raw * gst)) : list (list msg * bool * snap * gst) :=
  map (fun e => let '(tx, ok, r, G) := e in (tx, ok, mk_snap k r, G)) t.

Definition case_wf (c : case) : bool :=
  let '(_, _, k, r0, _, t) := c in
  raw_wf k r0 && forallb (fun e => let '(tx, _, r, _) := e in raw_wf k r && forallb msg_wf tx) t.

Definition init_state (s0 : snap) : st :=
  {| admins := fun d => match lookup d (sn_admin s0) with Some a => a | None => None end;
     meta := fun d => match lookup d (sn_admin s0) with Some (Some _) => true | _ => false end;
     bal := fun a d => match lookup2 a d (sn_bal s0) with Some v => v | None => 0 end;
     supply := fun d => match lookup d (sn_supply s0) with Some v => v | None => 0 end |}.

(** the model's snapshot over the keys the implementation snapshot lists *)
Definition snap_of (s : st) (keys : snap) : snap :=
  {| sn_supply := map (fun e : string * Z => (fst e, supply s (fst e))) (sn_supply keys);
     sn_bal := map (fun e : string * string * Z => (fst (fst e), snd (fst e), bal s (fst (fst e)) (snd (fst e)))) (sn_bal keys);
     sn_admin := map (fun e : string * option string => (fst e, admins s (fst e))) (sn_admin keys) |}.

Fixpoint trace_mismatch (c : wcfg) (blocked : list string) (s : wst) (t : list (list msg * bool * snap * gst)) : bool :=
  match t with
  | [] => false
  | (tx, ok, cur, G) :: r =>
      let '(s', mok) := deliver_ttx c harness_world blocked s tx in
      negb (Bool.eqb mok ok) || negb (snap_eqb (snap_of (tf s') cur) cur) || negb (gst_same (gr s') G) ||
      trace_mismatch c blocked s' r
  end.

(** genesis import installs the stated admin of every genesis denom *)
Definition genesis_ok (gen : list (string * option string)) (s0 : snap) : bool :=
  forallb (fun e : string * option string =>
             match lookup (fst e) (sn_admin s0) with Some a => opt_str_eqb a (snd e) | None => false end) gen.

(** [c]: what the generated facts say about the contract message handler (Current.v) *)
Definition mismatch (c : wcfg) (cs : case) : bool :=
  let '(blocked, gen, k, r0, G0, t) := cs in
  negb (case_wf cs) || negb (genesis_ok gen (mk_snap k r0)) ||
  trace_mismatch c blocked {| tf := init_state (mk_snap k r0); gr := G0 |} (trace_of k t).

(** the property as the implementation realises it (MsgBurnNative may burn the signer's own coins
    of any denom) … *)
Definition violates (cs : case) : bool :=
  let '(bl, gen, k, r0, G0, t) := cs in
  negb (genesis_ok gen (mk_snap k r0) && Pbt false bl harness_world (mk_snap k r0) G0 (trace_of k t)).
(** … and to the letter (a tf supply moves only by its admin's Mint / Burn) *)
Definition violates_strict (cs : case) : bool :=
  let '(bl, gen, k, r0, G0, t) := cs in
  negb (genesis_ok gen (mk_snap k r0) && Pbt true bl harness_world (mk_snap k r0) G0 (trace_of k t)).
