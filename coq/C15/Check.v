(** C15 — evaluation of implementation traces: correspondence (model vs observed snapshots after
    every DeliverTx) and the property predicate [Pb] on the observed trace itself. *)
From Coq Require Import List Bool Arith ZArith String.
Import ListNotations.
Require Import Nib.C15.Model Nib.C15.Spec.
Open Scope Z_scope.

(** blocked accounts (BankKeeper.BlockedAddr), initial snapshot, then (op, accepted?, snapshot after) *)
Definition case : Type := list string * snap * list (op * bool * snap).

Definition init_state (s0 : snap) : st :=
  {| admins := fun d => match lookup d (sn_admin s0) with Some a => a | None => None end;
     meta := fun d => match lookup d (sn_admin s0) with Some (Some _) => true | _ => false end;
     bal := fun a d => match lookup2 a d (sn_bal s0) with Some v => v | None => 0 end;
     supply := fun d => match lookup d (sn_supply s0) with Some v => v | None => 0 end |}.

(** the model's snapshot over the keys the implementation snapshot lists *)
Definition snap_of (s : st) (keys : snap) : snap :=
  {| sn_supply := map (fun e : string * Z => (fst e, supply s (fst e))) (sn_supply keys);
     sn_bal := map (fun e : string * string * Z => (fst (fst e), snd (fst e), bal s (fst (fst e)) (snd (fst e)))) (sn_bal keys);
     sn_admin := map (fun e : string * option string => (fst e, admins s (fst e))) (sn_admin keys) |}.

Fixpoint trace_mismatch (blocked : list string) (s : st) (t : list (op * bool * snap)) : bool :=
  match t with
  | [] => false
  | (o, ok, cur) :: r =>
      let '(s', mok) := deliver blocked s o in
      negb (Bool.eqb mok ok) || negb (snap_eqb (snap_of s' cur) cur) || trace_mismatch blocked s' r
  end.

Definition mismatch (c : case) : bool :=
  let '(blocked, s0, t) := c in trace_mismatch blocked (init_state s0) t.

(** the property as the implementation realises it (MsgBurnNative may burn the signer's own coins
    of any denom) … *)
Definition violates (c : case) : bool := let '(_, s0, t) := c in negb (Pb false s0 t).
(** … and to the letter (a tf supply moves only by its admin's Mint / Burn) *)
Definition violates_strict (c : case) : bool := let '(_, s0, t) := c in negb (Pb true s0 t).
