(** C15 — the property over an observed history (snapshots of supply / balances / admins around
    every delivered message), as a Prop [P] and as the boolean checker [Pb]. *)
From Coq Require Import List Bool Arith ZArith String Lia.
Import ListNotations.
Require Import Nib.C17.MsgTree Nib.C15.Model.
Local Open Scope Z_scope.

(** a snapshot of the quantities the property talks about, for the tracked denoms and accounts *)
Record snap := {
  sn_supply : list (string * Z);            (* denom, bank supply *)
  sn_bal : list (string * string * Z);      (* account, denom, balance *)
  sn_admin : list (string * option string)  (* denom, admin ("" = renounced) or none *)
}.

Fixpoint lookup {V} (k : string) (l : list (string * V)) : option V :=
  match l with [] => None | (x, v) :: r => if String.eqb k x then Some v else lookup k r end.

Fixpoint lookup2 (a d : string) (l : list (string * string * Z)) : option Z :=
  match l with
  | [] => None
  | (x, y, v) :: r => if String.eqb a x && String.eqb d y then Some v else lookup2 a d r
  end.

(** sum of the balance changes of denom [d] over the tracked accounts *)
Fixpoint delta_bal (d : string) (prev cur : list (string * string * Z)) : Z :=
  match cur with
  | [] => 0
  | (a, y, v) :: r =>
      (if String.eqb d y then match lookup2 a y prev with Some v0 => v - v0 | None => v end else 0)
      + delta_bal d prev r
  end.

(** [strict] = the statement as written (only admin-signed Mint / Burn move a tf supply);
    [strict = false] additionally lets MsgBurnNative burn the signer's own coins of any denom,
    which is what the implementation does (see Property.v, C15_…_refuted). *)
Definition supply_change_ok (strict : bool) (prev : snap) (o : op) (d : string) (v v' : Z) : Prop :=
  match o with
  | Mint sender d0 _ amt _ =>
      d0 = d /\ lookup d (sn_admin prev) = Some (Some sender) /\ v' = v + amt /\ 0 < amt /\ validate_denom d = true
  | Burn sender d0 _ amt _ =>
      d0 = d /\ lookup d (sn_admin prev) = Some (Some sender) /\ v' = v - amt /\ 0 < amt /\ validate_denom d = true
  | BurnNative sender d0 _ amt =>
      d0 = d /\ v' = v - amt /\ 0 < amt /\ (strict = true -> validate_denom d = false)
  | _ => False
  end.

Definition admin_change_ok (o : op) (d : string) (a a' : option string) : Prop :=
  match o with
  | ChangeAdmin sender d0 new _ => d0 = d /\ a = Some sender /\ a' = Some new
  | Create sender sub => d = tf_denom sender sub /\ a = None /\ a' = Some sender /\ parse_denom d = Some (sender, sub)
  | _ => False
  end.

(** what may happen to one account's balance of one denom; blocked accounts (module accounts other
    than gov) are never a mint target or a burn source *)
Definition bal_change_ok (blocked : list string) (o : op) (acct d : string) (b b' : Z) : Prop :=
  match o with
  | Mint sender d0 _ amt to => d0 = d /\ acct = resolve to sender /\ b' = b + amt /\ mem_str acct blocked = false
  | Burn sender d0 _ amt from => d0 = d /\ acct = resolve from sender /\ b' = b - amt /\ 0 <= b' /\ mem_str acct blocked = false
  | BurnNative sender d0 _ amt => d0 = d /\ acct = sender /\ b' = b - amt /\ 0 <= b'
  | _ => False
  end.

(** the denom a message is about *)
Definition op_denom (o : op) : string :=
  match o with
  | Create sender sub => tf_denom sender sub
  | Mint _ d _ _ _ | Burn _ d _ _ _ | ChangeAdmin _ d _ _ | SetMeta _ d _ | BurnNative _ d _ _ => d
  | Reimport => EmptyString
  end.

(** an accepted admin-only message was signed by the admin on record before it, and an accepted
    hand-over leaves exactly the named successor on record *)
Definition authority_ok (prev cur : snap) (o : op) : Prop :=
  match o with
  | Mint sender d _ _ _ | Burn sender d _ _ _ | SetMeta sender d _ => lookup d (sn_admin prev) = Some (Some sender)
  | ChangeAdmin sender d new _ =>
      lookup d (sn_admin prev) = Some (Some sender) /\ lookup d (sn_admin cur) = Some (Some new)
  | _ => True
  end.

Definition step_P (strict : bool) (blocked : list string) (prev : snap) (o : op) (ok : bool) (cur : snap) : Prop :=
  (* a rejected message changes nothing *)
  (ok = false -> cur = prev) /\
  (* the property holds ACROSS a genesis export / import round trip: it moves no supply, no balance
     and no admin (renounced stays renounced, an admin without an account stays the admin) *)
  (o = Reimport -> cur = prev) /\
  (* accepted admin-only messages come from the admin on record; a hand-over installs the successor *)
  (ok = true -> authority_ok prev cur o) /\
  (* supply of any tracked denom moves only by an admin-signed mint / burn, by the stated amount *)
  (forall d v', In (d, v') (sn_supply cur) ->
     exists v, lookup d (sn_supply prev) = Some v /\ (v' <> v -> ok = true /\ supply_change_ok strict prev o d v v')) /\
  (* control: the creator is the first admin, later only the admin names a successor *)
  (forall d a', In (d, a') (sn_admin cur) ->
     exists a, lookup d (sn_admin prev) = Some a /\ (a' <> a -> ok = true /\ admin_change_ok o d a a')) /\
  (* a denom is created once, by the account it embeds *)
  (forall sender sub, o = Create sender sub -> ok = true ->
     lookup (tf_denom sender sub) (sn_admin prev) = Some None /\
     lookup (tf_denom sender sub) (sn_admin cur) = Some (Some sender) /\
     parse_denom (tf_denom sender sub) = Some (sender, sub)) /\
  (* balances move only as the target of that mint / burn; coins that are not tf denoms are never
     minted and leave only the signer's own balance *)
  (forall acct d b', In (acct, d, b') (sn_bal cur) ->
     exists b, lookup2 acct d (sn_bal prev) = Some b /\
       (b' <> b -> ok = true /\ bal_change_ok blocked o acct d b b' /\
                   (validate_denom d = false -> acct = sender_of o /\ b' < b))) /\
  (* nothing is created or destroyed on the side: balance changes add up to the supply change *)
  (forall d v', In (d, v') (sn_supply cur) ->
     forall v, lookup d (sn_supply prev) = Some v -> delta_bal d (sn_bal prev) (sn_bal cur) = v' - v).

(** Transactions of several messages.  [first_admin_op d tx]: the first message of the tx that needs
    (or establishes) authority over denom [d]. *)
Definition needs_authority (o : op) : bool :=
  match o with BurnNative _ _ _ _ | Reimport => false | _ => true end.

Fixpoint first_admin_op (d : string) (tx : list op) : option op :=
  match tx with
  | [] => None
  | o :: r => if needs_authority o && String.eqb (op_denom o) d then Some o else first_admin_op d r
  end.

Definition moves_supply_of (strict : bool) (d : string) (o : op) : bool :=
  match o with
  | Mint _ d0 _ _ _ | Burn _ d0 _ _ _ => String.eqb d0 d
  | BurnNative _ d0 _ _ => String.eqb d0 d && (negb strict || negb (validate_denom d))
  | _ => false
  end.

Definition moves_admin_of (d : string) (o : op) : bool :=
  match o with
  | ChangeAdmin _ d0 _ _ => String.eqb d0 d
  | Create sender sub => String.eqb (tf_denom sender sub) d
  | _ => false
  end.

(** what an ACCEPTED tx of several messages may do, judged against the snapshot before it: a supply
    moves only if the tx carries a mint / burn of that denom, an admin only if it carries a hand-over /
    creation of that denom, and for every tracked denom the FIRST message that needs authority over
    it is signed by the admin on record before the tx (creation: no admin on record). *)
Definition multi_ok_b (strict : bool) (prev : snap) (tx : list op) (cur : snap) : bool :=
  forallb (fun e : string * Z => let '(d, v') := e in
             match lookup d (sn_supply prev) with
             | Some v => (v' =? v) || existsb (moves_supply_of strict d) tx
             | None => false
             end) (sn_supply cur) &&
  forallb (fun e : string * option string => let '(d, a') := e in
             match lookup d (sn_admin prev) with
             | Some a =>
                 (match a, a' with
                  | None, None => true
                  | Some x, Some y => String.eqb x y
                  | _, _ => false
                  end || existsb (moves_admin_of d) tx) &&
                 match first_admin_op d tx with
                 | Some (Create _ _) => match a with None => true | Some _ => false end
                 | Some o => match a with Some x => String.eqb x (sender_of o) | None => false end
                 | None => true
                 end
             | None => false
             end) (sn_admin cur).

(** one delivered tx *)
Definition tx_P (strict : bool) (blocked : list string) (prev : snap) (tx : list op) (ok : bool) (cur : snap) : Prop :=
  (ok = false -> cur = prev) /\
  (forall o, tx = [o] -> step_P strict blocked prev o ok cur) /\
  (ok = true -> multi_ok_b strict prev tx cur = true).

Fixpoint P (strict : bool) (blocked : list string) (prev : snap) (t : list (list op * bool * snap)) : Prop :=
  match t with
  | [] => True
  | (tx, ok, cur) :: r => tx_P strict blocked prev tx ok cur /\ P strict blocked cur r
  end.

(* ------------------------------------------------------------------ boolean checker *)

Definition opt_str_eqb (a b : option string) : bool :=
  match a, b with
  | None, None => true
  | Some x, Some y => String.eqb x y
  | _, _ => false
  end.

Definition prod_str_eqb (a b : string * string) : bool := String.eqb (fst a) (fst b) && String.eqb (snd a) (snd b).

Definition opt_pair_eqb (a b : option (string * string)) : bool :=
  match a, b with
  | None, None => true
  | Some x, Some y => prod_str_eqb x y
  | _, _ => false
  end.

Fixpoint supply_list_eqb (a b : list (string * Z)) : bool :=
  match a, b with
  | [], [] => true
  | (x, v) :: a', (y, w) :: b' => String.eqb x y && (v =? w) && supply_list_eqb a' b'
  | _, _ => false
  end.

Fixpoint bal_list_eqb (a b : list (string * string * Z)) : bool :=
  match a, b with
  | [], [] => true
  | (x1, x2, v) :: a', (y1, y2, w) :: b' => String.eqb x1 y1 && String.eqb x2 y2 && (v =? w) && bal_list_eqb a' b'
  | _, _ => false
  end.

Fixpoint admin_list_eqb (a b : list (string * option string)) : bool :=
  match a, b with
  | [], [] => true
  | (x, v) :: a', (y, w) :: b' => String.eqb x y && opt_str_eqb v w && admin_list_eqb a' b'
  | _, _ => false
  end.

Definition snap_eqb (a b : snap) : bool :=
  supply_list_eqb (sn_supply a) (sn_supply b) && bal_list_eqb (sn_bal a) (sn_bal b) &&
  admin_list_eqb (sn_admin a) (sn_admin b).

Definition supply_change_ok_b (strict : bool) (prev : snap) (o : op) (d : string) (v v' : Z) : bool :=
  match o with
  | Mint sender d0 _ amt _ =>
      String.eqb d0 d && opt_str_eqb (match lookup d (sn_admin prev) with Some a => a | None => None end) (Some sender) &&
      (v' =? v + amt) && (0 <? amt) && validate_denom d
  | Burn sender d0 _ amt _ =>
      String.eqb d0 d && opt_str_eqb (match lookup d (sn_admin prev) with Some a => a | None => None end) (Some sender) &&
      (v' =? v - amt) && (0 <? amt) && validate_denom d
  | BurnNative sender d0 _ amt =>
      String.eqb d0 d && (v' =? v - amt) && (0 <? amt) && (negb strict || negb (validate_denom d))
  | _ => false
  end.

Definition admin_change_ok_b (o : op) (d : string) (a a' : option string) : bool :=
  match o with
  | ChangeAdmin sender d0 new _ => String.eqb d0 d && opt_str_eqb a (Some sender) && opt_str_eqb a' (Some new)
  | Create sender sub =>
      String.eqb d (tf_denom sender sub) && opt_str_eqb a None && opt_str_eqb a' (Some sender) &&
      opt_pair_eqb (parse_denom d) (Some (sender, sub))
  | _ => false
  end.

Definition bal_change_ok_b (blocked : list string) (o : op) (acct d : string) (b b' : Z) : bool :=
  match o with
  | Mint sender d0 _ amt to => String.eqb d0 d && String.eqb acct (resolve to sender) && (b' =? b + amt) && negb (mem_str acct blocked)
  | Burn sender d0 _ amt from => String.eqb d0 d && String.eqb acct (resolve from sender) && (b' =? b - amt) && (0 <=? b') && negb (mem_str acct blocked)
  | BurnNative sender d0 _ amt => String.eqb d0 d && String.eqb acct sender && (b' =? b - amt) && (0 <=? b')
  | _ => false
  end.

Definition admin_is (sn : snap) (d a : string) : bool :=
  match lookup d (sn_admin sn) with Some (Some x) => String.eqb x a | _ => false end.

Definition authority_ok_b (prev cur : snap) (o : op) : bool :=
  match o with
  | Mint sender d _ _ _ | Burn sender d _ _ _ | SetMeta sender d _ => admin_is prev d sender
  | ChangeAdmin sender d new _ => admin_is prev d sender && admin_is cur d new
  | _ => true
  end.

Definition step_Pb (strict : bool) (blocked : list string) (prev : snap) (o : op) (ok : bool) (cur : snap) : bool :=
  (ok || snap_eqb cur prev) &&
  (match o with Reimport => snap_eqb cur prev | _ => true end) &&
  (negb ok || authority_ok_b prev cur o) &&
  forallb (fun e : string * Z => let '(d, v') := e in
             match lookup d (sn_supply prev) with
             | Some v => (v' =? v) || (ok && supply_change_ok_b strict prev o d v v')
             | None => false
             end) (sn_supply cur) &&
  forallb (fun e : string * option string => let '(d, a') := e in
             match lookup d (sn_admin prev) with
             | Some a => opt_str_eqb a' a || (ok && admin_change_ok_b o d a a')
             | None => false
             end) (sn_admin cur) &&
  (match o with
   | Create sender sub =>
       negb ok ||
       (match lookup (tf_denom sender sub) (sn_admin prev) with Some None => true | _ => false end &&
        match lookup (tf_denom sender sub) (sn_admin cur) with Some (Some a) => String.eqb a sender | _ => false end &&
        opt_pair_eqb (parse_denom (tf_denom sender sub)) (Some (sender, sub)))
   | _ => true
   end) &&
  forallb (fun e : string * string * Z => let '(acct, d, b') := e in
             match lookup2 acct d (sn_bal prev) with
             | Some b => (b' =? b) ||
                         (ok && bal_change_ok_b blocked o acct d b b' &&
                          (validate_denom d || (String.eqb acct (sender_of o) && (b' <? b))))
             | None => false
             end) (sn_bal cur) &&
  forallb (fun e : string * Z => let '(d, v') := e in
             match lookup d (sn_supply prev) with
             | Some v => delta_bal d (sn_bal prev) (sn_bal cur) =? v' - v
             | None => false
             end) (sn_supply cur).

Definition tx_Pb (strict : bool) (blocked : list string) (prev : snap) (tx : list op) (ok : bool) (cur : snap) : bool :=
  (ok || snap_eqb cur prev) &&
  (match tx with [o] => step_Pb strict blocked prev o ok cur | _ => true end) &&
  (negb ok || multi_ok_b strict prev tx cur).

Fixpoint Pb (strict : bool) (blocked : list string) (prev : snap) (t : list (list op * bool * snap)) : bool :=
  match t with
  | [] => true
  | (tx, ok, cur) :: r => tx_Pb strict blocked prev tx ok cur && Pb strict blocked cur r
  end.

(* ------------------------------------------------------------------ soundness *)

Lemma opt_str_eqb_eq a b : opt_str_eqb a b = true -> a = b.
Proof.
  destruct a, b; simpl; try discriminate; auto. intro H. apply String.eqb_eq in H. subst. auto.
Qed.

Lemma opt_str_eqb_refl a : opt_str_eqb a a = true.
Proof. destruct a; simpl; auto. apply String.eqb_refl. Qed.

Lemma opt_pair_eqb_eq a b : opt_pair_eqb a b = true -> a = b.
Proof.
  destruct a as [[a1 a2]|], b as [[b1 b2]|]; simpl; try discriminate; auto.
  unfold prod_str_eqb; simpl. rewrite andb_true_iff, !String.eqb_eq. intros [-> ->]. auto.
Qed.

Lemma supply_list_eqb_eq a : forall b, supply_list_eqb a b = true -> a = b.
Proof.
  induction a as [|[x v] a IH]; intros [|[y w] b] H; simpl in H; try discriminate; auto.
  rewrite !andb_true_iff, String.eqb_eq, Z.eqb_eq in H. destruct H as [[-> ->] H]. f_equal. auto.
Qed.

Lemma bal_list_eqb_eq a : forall b, bal_list_eqb a b = true -> a = b.
Proof.
  induction a as [|[[x1 x2] v] a IH]; intros [|[[y1 y2] w] b] H; simpl in H; try discriminate; auto.
  rewrite !andb_true_iff, !String.eqb_eq, Z.eqb_eq in H. destruct H as [[[-> ->] ->] H]. f_equal. auto.
Qed.

Lemma admin_list_eqb_eq a : forall b, admin_list_eqb a b = true -> a = b.
Proof.
  induction a as [|[x v] a IH]; intros [|[y w] b] H; simpl in H; try discriminate; auto.
  rewrite !andb_true_iff, String.eqb_eq in H. destruct H as [[-> Hv] H].
  apply opt_str_eqb_eq in Hv. subst. f_equal. auto.
Qed.

Lemma snap_eqb_eq a b : snap_eqb a b = true -> a = b.
Proof.
  unfold snap_eqb. rewrite !andb_true_iff. intros [[H1 H2] H3].
  apply supply_list_eqb_eq in H1. apply bal_list_eqb_eq in H2. apply admin_list_eqb_eq in H3.
  destruct a, b; simpl in *; subst; auto.
Qed.

Lemma supply_change_ok_b_sound strict prev o d v v' :
  supply_change_ok_b strict prev o d v v' = true -> supply_change_ok strict prev o d v v'.
Proof.
  destruct o; simpl; try discriminate.
  - rewrite !andb_true_iff, String.eqb_eq, Z.eqb_eq, Z.ltb_lt. intros [[[[H1 H2] H3] H4] H5].
    apply opt_str_eqb_eq in H2. repeat split; auto.
    destruct (lookup d (sn_admin prev)) as [a|]; try discriminate. subst; auto.
  - rewrite !andb_true_iff, String.eqb_eq, Z.eqb_eq, Z.ltb_lt. intros [[[[H1 H2] H3] H4] H5].
    apply opt_str_eqb_eq in H2. repeat split; auto.
    destruct (lookup d (sn_admin prev)) as [a|]; try discriminate. subst; auto.
  - rewrite !andb_true_iff, String.eqb_eq, Z.eqb_eq, Z.ltb_lt. intros [[[H1 H2] H3] H4].
    repeat split; auto. intro Hs. subst strict. simpl in H4. apply negb_true_iff in H4. exact H4.
Qed.

Lemma admin_change_ok_b_sound o d a a' : admin_change_ok_b o d a a' = true -> admin_change_ok o d a a'.
Proof.
  destruct o; simpl; try discriminate.
  - rewrite !andb_true_iff, String.eqb_eq. intros [[[H1 H2] H3] H4].
    apply opt_str_eqb_eq in H2, H3. apply opt_pair_eqb_eq in H4. auto.
  - rewrite !andb_true_iff, String.eqb_eq. intros [[H1 H2] H3].
    apply opt_str_eqb_eq in H2, H3. auto.
Qed.

Lemma bal_change_ok_b_sound blocked o acct d b b' : bal_change_ok_b blocked o acct d b b' = true -> bal_change_ok blocked o acct d b b'.
Proof.
  destruct o; simpl; try discriminate.
  - rewrite !andb_true_iff, !String.eqb_eq, Z.eqb_eq, negb_true_iff. intros [[[H1 H2] H3] H4]. auto.
  - rewrite !andb_true_iff, !String.eqb_eq, Z.eqb_eq, Z.leb_le, negb_true_iff. intros [[[[H1 H2] H3] H4] H5]. auto.
  - rewrite !andb_true_iff, !String.eqb_eq, Z.eqb_eq, Z.leb_le. intros [[[H1 H2] H3] H4]. auto.
Qed.

Lemma admin_is_sound sn d a : admin_is sn d a = true -> lookup d (sn_admin sn) = Some (Some a).
Proof.
  unfold admin_is. destruct (lookup d (sn_admin sn)) as [[x|]|]; try discriminate.
  intro H. apply String.eqb_eq in H. subst. reflexivity.
Qed.

Lemma authority_ok_b_sound prev cur o : authority_ok_b prev cur o = true -> authority_ok prev cur o.
Proof.
  destruct o; simpl; auto; try apply admin_is_sound.
  rewrite andb_true_iff. intros [H1 H2]. split; apply admin_is_sound; auto.
Qed.

Lemma step_Pb_sound strict blocked prev o ok cur : step_Pb strict blocked prev o ok cur = true -> step_P strict blocked prev o ok cur.
Proof.
  unfold step_Pb, step_P. rewrite !andb_true_iff. intros [[[[[[[H1 Hri] Hau] H2] H3] H4] H5] H6].
  rewrite forallb_forall in H2, H3, H5, H6.
  split; [|split; [|split; [|split; [|split; [|split; [|split]]]]]].
  - intro Hk. subst ok. simpl in H1. apply snap_eqb_eq. exact H1.
  - intro Ho. subst o. apply snap_eqb_eq. exact Hri.
  - intro Hk. subst ok. simpl in Hau. apply authority_ok_b_sound. exact Hau.
  - intros d v' Hin. specialize (H2 _ Hin). simpl in H2.
    destruct (lookup d (sn_supply prev)) as [v|]; try discriminate. exists v. split; auto.
    intro Hne. apply orb_true_iff in H2 as [H2|H2].
    + apply Z.eqb_eq in H2. contradiction.
    + apply andb_true_iff in H2 as [Hok H2]. split; auto. apply supply_change_ok_b_sound. exact H2.
  - intros d a' Hin. specialize (H3 _ Hin). simpl in H3.
    destruct (lookup d (sn_admin prev)) as [a|]; try discriminate. exists a. split; auto.
    intro Hne. apply orb_true_iff in H3 as [H3|H3].
    + apply opt_str_eqb_eq in H3. contradiction.
    + apply andb_true_iff in H3 as [Hok H3]. split; auto. apply admin_change_ok_b_sound. exact H3.
  - intros sender sub Ho Hok. subst o ok. simpl in H4.
    rewrite !andb_true_iff in H4. destruct H4 as [[Ha Hb] Hc].
    destruct (lookup (tf_denom sender sub) (sn_admin prev)) as [[x|]|]; try discriminate.
    destruct (lookup (tf_denom sender sub) (sn_admin cur)) as [[y|]|]; try discriminate.
    apply String.eqb_eq in Hb. subst y. apply opt_pair_eqb_eq in Hc. auto.
  - intros acct d b' Hin. specialize (H5 _ Hin). simpl in H5.
    destruct (lookup2 acct d (sn_bal prev)) as [b|]; try discriminate. exists b. split; auto.
    intro Hne. apply orb_true_iff in H5 as [H5|H5].
    + apply Z.eqb_eq in H5. contradiction.
    + rewrite !andb_true_iff in H5. destruct H5 as [[Hok Hb] Hn]. split; auto. split.
      * apply bal_change_ok_b_sound. exact Hb.
      * intro Hv. rewrite Hv in Hn. simpl in Hn. rewrite andb_true_iff, String.eqb_eq, Z.ltb_lt in Hn. exact Hn.
  - intros d v' Hin v Hl. specialize (H6 _ Hin). simpl in H6. rewrite Hl in H6. apply Z.eqb_eq in H6. exact H6.
Qed.

Lemma tx_Pb_sound strict blocked prev tx ok cur : tx_Pb strict blocked prev tx ok cur = true -> tx_P strict blocked prev tx ok cur.
Proof.
  unfold tx_Pb, tx_P. rewrite !andb_true_iff. intros [[H1 H2] H3]. split; [|split].
  - intro Hk. subst ok. simpl in H1. apply snap_eqb_eq. exact H1.
  - intros o Ho. subst tx. apply step_Pb_sound. exact H2.
  - intro Hk. subst ok. exact H3.
Qed.

Lemma Pb_sound strict blocked : forall t prev, Pb strict blocked prev t = true -> P strict blocked prev t.
Proof.
  induction t as [|[[tx ok] cur] r IH]; intros prev H; simpl in *; auto.
  apply andb_true_iff in H as [H1 H2]. split; [apply tx_Pb_sound; exact H1 | apply IH; exact H2].
Qed.

(* ================================================================== message carriers *)

(** Transactions whose messages are TREES (authz MsgExec, contract dispatch).  The token-factory
    clauses above are evaluated on the token-factory messages the tx executes, in order
    ([flat_ops]); on top of them the AUTHORITY clause: an accepted tx has no delegation edge that
    nobody vouches for — [walk_all] from the grants on record before the tx succeeds, i.e. below
    every MsgExec each message is the grantee's own or its signer has granted the grantee that
    message type, and every message a contract dispatches is the contract's own; and the account
    that stands behind a token-factory message (its signer, what the carriers compare) IS the account
    its sender string names (what the admin test compares) — [msg_wf].  A rejected tx leaves the grants
    as they were. *)
Definition gst_incl (A B : gst) : bool := forallb (fun x => existsb (grant_eqb x) B) A.
Definition gst_same (A B : gst) : bool := gst_incl A B && gst_incl B A.

Definition ttx_P (strict : bool) (blocked : list string) (w : world) (prev : snap) (G : gst)
           (tx : list msg) (ok : bool) (cur : snap) (G' : gst) : Prop :=
  tx_P strict blocked prev (flat_ops tx) ok cur /\
  (ok = false -> gst_same G' G = true) /\
  (ok = true -> exists G1, walk_all w tx G = Some G1) /\
  (ok = true -> forallb msg_wf tx = true).

Fixpoint Pt (strict : bool) (blocked : list string) (w : world) (prev : snap) (G : gst)
         (t : list (list msg * bool * snap * gst)) : Prop :=
  match t with
  | [] => True
  | (tx, ok, cur, G') :: r => ttx_P strict blocked w prev G tx ok cur G' /\ Pt strict blocked w cur G' r
  end.

Definition ttx_Pb (strict : bool) (blocked : list string) (w : world) (prev : snap) (G : gst)
           (tx : list msg) (ok : bool) (cur : snap) (G' : gst) : bool :=
  tx_Pb strict blocked prev (flat_ops tx) ok cur &&
  (ok || gst_same G' G) &&
  (negb ok || match walk_all w tx G with Some _ => true | None => false end) &&
  (negb ok || forallb msg_wf tx).

Fixpoint Pbt (strict : bool) (blocked : list string) (w : world) (prev : snap) (G : gst)
         (t : list (list msg * bool * snap * gst)) : bool :=
  match t with
  | [] => true
  | (tx, ok, cur, G') :: r => ttx_Pb strict blocked w prev G tx ok cur G' && Pbt strict blocked w cur G' r
  end.

Lemma ttx_Pb_sound strict blocked w prev G tx ok cur G' :
  ttx_Pb strict blocked w prev G tx ok cur G' = true -> ttx_P strict blocked w prev G tx ok cur G'.
Proof.
  unfold ttx_Pb, ttx_P. rewrite !andb_true_iff. intros [[[H1 H2] H3] H4]. split; [|split; [|split]].
  - apply tx_Pb_sound. exact H1.
  - intro Hk. subst ok. exact H2.
  - intro Hk. subst ok. simpl in H3. destruct (walk_all w tx G) as [G1|]; [eauto | discriminate].
  - intro Hk. subst ok. exact H4.
Qed.

Lemma Pbt_sound strict blocked w : forall t prev G, Pbt strict blocked w prev G t = true -> Pt strict blocked w prev G t.
Proof.
  induction t as [|[[[tx ok] cur] G'] r IH]; intros prev G H; simpl in *; auto.
  apply andb_true_iff in H as [H1 H2]. split; [apply ttx_Pb_sound; exact H1 | apply IH; exact H2].
Qed.
