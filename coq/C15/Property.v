From Coq Require Import List Bool Arith ZArith String.
Import ListNotations.
Require Import Nib.C15.Model Nib.C15.Spec Nib.C15.Proofs.

Theorem C15_checker_sound : forall strict t prev, Pb strict prev t = true -> P strict prev t.
Proof. exact Pb_sound. Qed.
Print Assumptions C15_checker_sound.
