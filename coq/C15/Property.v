(** C15 — only a token-factory denom's current admin can change its supply or control.
    This file holds only the exported statements (each closed by [exact]). *)
From Coq Require Import List Bool Arith ZArith String.
Import ListNotations.
Require Import Nib.C15.Model Nib.C15.Spec Nib.C15.Proofs.
Local Open Scope Z_scope.

(** THE STATEMENT TO THE LETTER — "the supply of a tf denom changes only through mint and burn
    messages signed by that denom's current admin" — IS FALSE of the faithful model: MsgBurnNative
    takes any denom, so a holder who is not the admin lowers the supply of a tf denom (witness:
    Create @0 gold; Mint 60 to @3 by @0; BurnNative 25 by @3 — replayed on the implementation by
    the harness opener, replay/C15-known-burnnative.json). *)
Theorem C15_supply_changes_only_by_admin_mint_burn_refuted :
  exists blocked s o s' d,
    step blocked s o = Some s' /\ validate_denom d = true /\ supply s' d <> supply s d /\
    admins s d <> Some (sender_of o) /\ ~ supply_mover s s' o d.
Proof. exact strict_statement_refuted. Qed.
Print Assumptions C15_supply_changes_only_by_admin_mint_burn_refuted.

(** PARTIAL (what is missing: the MsgBurnNative disjunct must be allowed).  For every state, message
    and denom: if the supply moved, the message was a Mint / Burn of that denom signed by its current
    admin, moving it by exactly the stated positive amount — or a MsgBurnNative by which the signer
    destroyed exactly that amount of its OWN balance. *)
Theorem C15_supply_changes_only_by_admin_mint_burn_partial :
  forall blocked s o s' d, step blocked s o = Some s' -> supply s' d <> supply s d ->
  supply_mover s s' o d \/ own_native_burn s s' o d.
Proof. exact supply_step. Qed.
Print Assumptions C15_supply_changes_only_by_admin_mint_burn_partial.

(** … and to the letter for every message other than MsgBurnNative. *)
Theorem C15_supply_changes_only_by_admin_mint_burn_except_native :
  forall blocked s o s' d, step blocked s o = Some s' ->
  (forall sd dn dv amt, o <> BurnNative sd dn dv amt) ->
  supply s' d <> supply s d -> supply_mover s s' o d.
Proof. exact supply_step_strict. Qed.
Print Assumptions C15_supply_changes_only_by_admin_mint_burn_except_native.

(** Control: the admin of a denom changes only by a MsgChangeAdmin signed by the current admin
    (to the successor it names) or by the creation of the denom (the embedded creator becomes the
    first admin). *)
Theorem C15_admin_handover_only_by_admin :
  forall blocked s o s' d, inv s -> step blocked s o = Some s' -> admins s' d <> admins s d ->
  (exists sender new nv, o = ChangeAdmin sender d new nv /\ admins s d = Some sender /\ admins s' d = Some new) \/
  (exists sender sub, o = Create sender sub /\ d = tf_denom sender sub /\ admins s d = None /\
     admins s' d = Some sender /\ parse_denom d = Some (sender, sub)).
Proof. exact admin_step. Qed.
Print Assumptions C15_admin_handover_only_by_admin.

(** A denom is created only by the account whose address it embeds, which becomes its admin,
    and only if it did not exist … *)
Theorem C15_create_by_embedded_creator :
  forall blocked s sender sub s', inv s -> step blocked s (Create sender sub) = Some s' ->
  admins s (tf_denom sender sub) = None /\ admins s' (tf_denom sender sub) = Some sender /\
  parse_denom (tf_denom sender sub) = Some (sender, sub) /\ meta s' (tf_denom sender sub) = true.
Proof. exact create_step. Qed.
Print Assumptions C15_create_by_embedded_creator.

(** … and only once: after any history, any further creation of the same denom is rejected. *)
Theorem C15_create_once_by_embedded_creator :
  forall blocked s sender sub s1 h sender2 sub2,
  inv s -> step blocked s (Create sender sub) = Some s1 ->
  tf_denom sender2 sub2 = tf_denom sender sub ->
  step blocked (fst (run blocked s1 h)) (Create sender2 sub2) = None.
Proof. exact create_once. Qed.
Print Assumptions C15_create_once_by_embedded_creator.

(** Coins that are not token-factory denoms are never minted through the module and only the
    signer's own balance can go down (MsgBurnNative). *)
Theorem C15_non_tf_denoms_untouched :
  forall blocked s o s' d, validate_denom d = false -> step blocked s o = Some s' ->
  supply s' d <= supply s d /\
  (forall a, bal s' a d <= bal s a d) /\
  (forall a, bal s' a d < bal s a d -> a = sender_of o /\ exists dv amt, o = BurnNative a d dv amt).
Proof. exact non_tf_step. Qed.
Print Assumptions C15_non_tf_denoms_untouched.

Theorem C15_non_tf_supply_never_increases_over_histories :
  forall blocked d, validate_denom d = false -> forall h s, supply (fst (run blocked s h)) d <= supply s d.
Proof. exact non_tf_history. Qed.
Print Assumptions C15_non_tf_supply_never_increases_over_histories.

(** Whose balance moves: the mint-to of an admin-signed Mint (never a blocked account), the
    burn-from of an admin-signed Burn, or the signer of a native burn. *)
Theorem C15_balance_moves_only_as_target :
  forall blocked s o s' a d, step blocked s o = Some s' -> bal s' a d <> bal s a d ->
  (exists sender dv amt to, o = Mint sender d dv amt to /\ admins s d = Some sender /\ a = resolve to sender /\
      bal s' a d = bal s a d + amt /\ 0 < amt /\ mem_str a blocked = false) \/
  (exists sender dv amt from, o = Burn sender d dv amt from /\ admins s d = Some sender /\ a = resolve from sender /\
      bal s' a d = bal s a d - amt /\ 0 < amt /\ amt <= bal s a d /\ mem_str a blocked = false) \/
  (exists dv amt, o = BurnNative a d dv amt /\ bal s' a d = bal s a d - amt /\ 0 < amt /\ amt <= bal s a d).
Proof. exact balance_step. Qed.
Print Assumptions C15_balance_moves_only_as_target.

(** Nothing is created or destroyed on the side: one account's balance moves by exactly the
    supply change. *)
Theorem C15_conservation :
  forall blocked s o s' d, step blocked s o = Some s' ->
  exists a, (forall a', a' <> a -> bal s' a' d = bal s a' d) /\
            bal s' a d - bal s a d = supply s' d - supply s d.
Proof. exact conservation_step. Qed.
Print Assumptions C15_conservation.

(** An accepted Mint / Burn / SetDenomMetadata was signed by the admin on record; an accepted
    ChangeAdmin additionally leaves exactly the named successor on record (also when the successor is
    the creator again). *)
Theorem C15_accepted_admin_message_signed_by_admin :
  forall blocked s o s', step blocked s o = Some s' ->
  match o with
  | Mint sender d _ _ _ | Burn sender d _ _ _ | SetMeta sender d _ => admins s d = Some sender
  | ChangeAdmin sender d new _ => admins s d = Some sender /\ admins s' d = Some new
  | _ => True
  end.
Proof. exact step_authority. Qed.
Print Assumptions C15_accepted_admin_message_signed_by_admin.

(** Stale authority: after a hand-over the former admin is rejected from the very next message. *)
Theorem C15_former_admin_rejected :
  forall blocked s old d new nv s', step blocked s (ChangeAdmin old d new nv) = Some s' -> new <> old ->
  admins s' d = Some new /\
  (forall dv amt t, step blocked s' (Mint old d dv amt t) = None) /\
  (forall dv amt t, step blocked s' (Burn old d dv amt t) = None) /\
  (forall n2 nv2, step blocked s' (ChangeAdmin old d n2 nv2) = None) /\
  (forall mv, step blocked s' (SetMeta old d mv) = None).
Proof. exact handover_demotes. Qed.
Print Assumptions C15_former_admin_rejected.

(** Whoever is not the current admin (incl. everybody, for a renounced denom) is rejected. *)
Theorem C15_not_admin_rejected :
  forall blocked s sender d, admins s d <> Some sender ->
  (forall dv amt t, step blocked s (Mint sender d dv amt t) = None) /\
  (forall dv amt t, step blocked s (Burn sender d dv amt t) = None) /\
  (forall n nv, step blocked s (ChangeAdmin sender d n nv) = None) /\
  (forall mv, step blocked s (SetMeta sender d mv) = None).
Proof. exact not_admin_rejected. Qed.
Print Assumptions C15_not_admin_rejected.

Theorem C15_rejected_changes_nothing :
  forall blocked s o, snd (deliver blocked s o) = false -> fst (deliver blocked s o) = s.
Proof. exact rejected_changes_nothing. Qed.
Print Assumptions C15_rejected_changes_nothing.

(** Genesis export / import round trip (at any point of a history): the identity on the model's
    state, so every theorem of this file holds ACROSS it; in particular whoever was not the admin
    before (the creator after a hand-over, anybody for a renounced denom) is still refused after. *)
Theorem C15_reimport_is_identity : forall blocked s, deliver blocked s Reimport = (s, true).
Proof. exact reimport_identity. Qed.
Print Assumptions C15_reimport_is_identity.

Theorem C15_not_admin_rejected_across_reimport :
  forall blocked s sender d, admins s d <> Some sender ->
  let s' := fst (deliver blocked s Reimport) in
  (forall dv amt t, step blocked s' (Mint sender d dv amt t) = None) /\
  (forall dv amt t, step blocked s' (Burn sender d dv amt t) = None) /\
  (forall n nv, step blocked s' (ChangeAdmin sender d n nv) = None) /\
  (forall mv, step blocked s' (SetMeta sender d mv) = None).
Proof. exact reimport_keeps_authority. Qed.
Print Assumptions C15_not_admin_rejected_across_reimport.

(** Transactions of several messages: all-or-nothing … *)
Theorem C15_rejected_tx_changes_nothing :
  forall blocked s tx, snd (deliver_tx blocked s tx) = false -> fst (deliver_tx blocked s tx) = s.
Proof. exact deliver_tx_rejected. Qed.
Print Assumptions C15_rejected_tx_changes_nothing.

(** … a failing message rolls back what earlier messages of the tx wrote (a hand-over inside a
    rejected tx never happened) … *)
Theorem C15_failing_message_rolls_back_tx :
  forall blocked s pre o post,
  (forall s1, run_msgs blocked s pre = Some s1 -> step blocked s1 o = None) ->
  deliver_tx blocked s (pre ++ o :: post)%list = (s, false).
Proof. exact deliver_tx_atomic. Qed.
Print Assumptions C15_failing_message_rolls_back_tx.

(** … and every message of an accepted tx is an accepted step from the state its predecessors
    left, so each per-message theorem of this file applies to it; e.g. for the supply: *)
Theorem C15_accepted_tx_each_message :
  forall blocked tx s s', run_msgs blocked s tx = Some s' ->
  forall l1 o l2, tx = (l1 ++ o :: l2)%list ->
  exists s1 s2, run_msgs blocked s l1 = Some s1 /\ step blocked s1 o = Some s2 /\ run_msgs blocked s2 l2 = Some s'.
Proof. exact accepted_tx_each_message. Qed.
Print Assumptions C15_accepted_tx_each_message.

Theorem C15_tx_supply_changes_only_by_admin_mint_burn_partial :
  forall blocked tx s s' d, run_msgs blocked s tx = Some s' -> supply s' d <> supply s d ->
  exists l1 o l2 s1 s2, tx = (l1 ++ o :: l2)%list /\ run_msgs blocked s l1 = Some s1 /\ step blocked s1 o = Some s2 /\
    supply s2 d <> supply s1 d /\ (supply_mover s1 s2 o d \/ own_native_burn s1 s2 o d).
Proof. exact tx_supply_moved. Qed.
Print Assumptions C15_tx_supply_changes_only_by_admin_mint_burn_partial.

(** The registry invariant the theorems above assume holds along every history. *)
Theorem C15_registry_invariant_preserved :
  forall blocked h s, inv s -> inv (fst (run blocked s h)).
Proof. exact run_inv. Qed.
Print Assumptions C15_registry_invariant_preserved.

(** Link to the trace predicate: snapshots of the model around any message satisfy the per-message
    clauses of [step_P] (lenient form), for any tracked key set that contains the message's denom. *)
Theorem C15_model_satisfies_property_core :
  forall blocked ds bs s o, inv s -> In (op_denom o) ds ->
  step_core false blocked (snap_keys ds bs s) o (snd (deliver blocked s o)) (snap_keys ds bs (fst (deliver blocked s o))).
Proof. exact model_step_core. Qed.
Print Assumptions C15_model_satisfies_property_core.

(** The boolean checker run on implementation traces is sound for [P] (strict and lenient). *)
Theorem C15_checker_sound : forall strict blocked t prev, Pb strict blocked prev t = true -> P strict blocked prev t.
Proof. exact Pb_sound. Qed.
Print Assumptions C15_checker_sound.

(* ================================================================== MESSAGE CARRIERS
   Token-factory messages nested in authz MsgExec wrappers (any depth, with or without grants),
   dispatched by a CosmWasm contract, or both.  [reaches c w blocked t s l sl]: tree [t], run from
   state [s], arrives at leaf [l] in state [sl] along a path on which every delegation edge is
   vouched for (ProofsTree.v): below MsgExec{grantee g} the message is g's own or its signer has
   granted g that message type (on record when the message starts); a message a contract dispatches
   is the contract's own.  [wasm_signer c = true]: the contract message handler compares the signers
   of EVERY dispatched message with the contract (obligation over the generated facts, Gen/C15Oblig.v). *)
Require Import Nib.C17.MsgTree Nib.C15.ProofsTree.

(** SUPPLY: whatever supply a message tree moves was moved by a REACHED Mint / Burn of that denom,
    signed by the admin on record in the state it ran in, by exactly the stated amount (or by a native
    burn of the signer's own coins — the partial form of the first theorem of this file) *)
Theorem C15_carriers_supply_moves_only_by_reached_admin_message_partial :
  forall c w blocked, wasm_signer c = true ->
  forall t s s' d, trun c w blocked t s = Some s' -> supply (tf s') d <> supply (tf s) d ->
  exists a o sl t', reaches c w blocked t s (LOp a o) sl /\ step blocked (tf sl) o = Some t' /\
                    (supply_mover (tf sl) t' o d \/ own_native_burn (tf sl) t' o d).
Proof. exact tree_supply_step. Qed.
Print Assumptions C15_carriers_supply_moves_only_by_reached_admin_message_partial.

(** CONTROL through carriers *)
Theorem C15_carriers_admin_moves_only_by_reached_admin_message :
  forall c w blocked, wasm_signer c = true ->
  forall t s s' d, inv (tf s) -> trun c w blocked t s = Some s' -> admins (tf s') d <> admins (tf s) d ->
  exists a o sl t', reaches c w blocked t s (LOp a o) sl /\ step blocked (tf sl) o = Some t' /\
    ((exists sender new nv, o = ChangeAdmin sender d new nv /\ admins (tf sl) d = Some sender /\ admins t' d = Some new) \/
     (exists sender sub, o = Create sender sub /\ d = tf_denom sender sub /\ admins (tf sl) d = None /\
        admins t' d = Some sender /\ parse_denom d = Some (sender, sub))).
Proof. exact tree_admin_step. Qed.
Print Assumptions C15_carriers_admin_moves_only_by_reached_admin_message.

(** BALANCES through carriers *)
Theorem C15_carriers_balance_moves_only_by_reached_message :
  forall c w blocked, wasm_signer c = true ->
  forall t s s' acct d, trun c w blocked t s = Some s' -> bal (tf s') acct d <> bal (tf s) acct d ->
  exists a o sl t', reaches c w blocked t s (LOp a o) sl /\ step blocked (tf sl) o = Some t' /\
    ((exists sender dv amt to, o = Mint sender d dv amt to /\ admins (tf sl) d = Some sender /\ acct = resolve to sender /\
        bal t' acct d = bal (tf sl) acct d + amt /\ 0 < amt /\ mem_str acct blocked = false) \/
     (exists sender dv amt from, o = Burn sender d dv amt from /\ admins (tf sl) d = Some sender /\ acct = resolve from sender /\
        bal t' acct d = bal (tf sl) acct d - amt /\ 0 < amt /\ amt <= bal (tf sl) acct d /\ mem_str acct blocked = false) \/
     (exists dv amt, o = BurnNative acct d dv amt /\ bal t' acct d = bal (tf sl) acct d - amt /\ 0 < amt /\ amt <= bal (tf sl) acct d)).
Proof. exact tree_balance_step. Qed.
Print Assumptions C15_carriers_balance_moves_only_by_reached_message.

(** … and for whole transactions (several trees, run in order) *)
Theorem C15_carriers_tx_supply_moves_only_by_reached_admin_message_partial :
  forall c w blocked, wasm_signer c = true ->
  forall tx s s' d, trun_all c w blocked tx s = Some s' -> supply (tf s') d <> supply (tf s) d ->
  exists pre t post s1 a o sl t', tx = (pre ++ t :: post)%list /\ trun_all c w blocked pre s = Some s1 /\
    reaches c w blocked t s1 (LOp a o) sl /\ step blocked (tf sl) o = Some t' /\
    (supply_mover (tf sl) t' o d \/ own_native_burn (tf sl) t' o d).
Proof. exact ttx_supply_step. Qed.
Print Assumptions C15_carriers_tx_supply_moves_only_by_reached_admin_message_partial.

Theorem C15_carriers_tx_admin_moves_only_by_reached_admin_message :
  forall c w blocked, wasm_signer c = true ->
  forall tx s s' d, inv (tf s) -> trun_all c w blocked tx s = Some s' -> admins (tf s') d <> admins (tf s) d ->
  exists pre t post s1 a o sl t', tx = (pre ++ t :: post)%list /\ trun_all c w blocked pre s = Some s1 /\
    reaches c w blocked t s1 (LOp a o) sl /\ step blocked (tf sl) o = Some t' /\
    ((exists sender new nv, o = ChangeAdmin sender d new nv /\ admins (tf sl) d = Some sender /\ admins t' d = Some new) \/
     (exists sender sub, o = Create sender sub /\ d = tf_denom sender sub /\ admins (tf sl) d = None /\
        admins t' d = Some sender /\ parse_denom d = Some (sender, sub))).
Proof. exact ttx_admin_step. Qed.
Print Assumptions C15_carriers_tx_admin_moves_only_by_reached_admin_message.

(** A contract dispatches only its own messages, whatever their type — in particular never a MsgExec
    that names somebody else (e.g. a denom admin) as grantee: the whole contract call fails *)
Theorem C15_contract_dispatches_only_its_own_messages :
  forall c w blocked, wasm_signer c = true ->
  forall snd ctr cs s s', trun c w blocked (Wasm snd ctr cs) s = Some s' -> Forall (fun t => tsigner t = ctr) cs.
Proof. exact contract_dispatches_only_its_own. Qed.
Print Assumptions C15_contract_dispatches_only_its_own_messages.

Theorem C15_contract_cannot_exec_for_others :
  forall c w blocked, wasm_signer c = true ->
  forall snd ctr g inner pre post s, g <> ctr ->
  trun c w blocked (Wasm snd ctr (pre ++ Exec g inner :: post)) s = None.
Proof. exact contract_cannot_exec_for_others. Qed.
Print Assumptions C15_contract_cannot_exec_for_others.

(** Below a MsgExec: the grantee's own message, or a grant on record *)
Theorem C15_exec_child_is_grantees_or_granted :
  forall c w blocked g t s s', trun c w blocked (Exec g [t]) s = Some s' ->
  tsigner t = g \/ wgranted s (tsigner t) g (tkind t) = true.
Proof. exact exec_child_vouched. Qed.
Print Assumptions C15_exec_child_is_grantees_or_granted.

(** THE SAME STATEMENTS ARE FALSE for a handler that does not compare the signers of (some) dispatched
    messages with the contract: the contract — which is not the admin — dispatches
    MsgExec{grantee: admin}[MsgMint{sender: admin}] and mints; no leaf of that tree is reached along
    vouched edges and the authority walk refuses it. *)
Theorem C15_carriers_unchecked_handler_refuted :
  exists s', trun cfg_unchecked harness_world [] witness_tree witness_state = Some s' /\
             supply (tf s') "tf/@1/gold" <> supply (tf witness_state) "tf/@1/gold" /\
             admins (tf witness_state) "tf/@1/gold" = Some "@1"%string /\
             (forall l sl, ~ reaches cfg_unchecked harness_world [] witness_tree witness_state l sl) /\
             walk harness_world witness_tree (gr witness_state) = None.
Proof. exact unchecked_handler_refuted. Qed.
Print Assumptions C15_carriers_unchecked_handler_refuted.

(** Every tx the model accepts passes the authority walk the trace checker evaluates (same grants
    afterwards); a rejected tx changes nothing (ledger and grants) *)
Theorem C15_accepted_tx_passes_authority_walk :
  forall c w blocked, wasm_signer c = true -> (forall a, w_ica_acct w a = false) ->
  forall tx s s', trun_all c w blocked tx s = Some s' -> walk_all w tx (gr s) = Some (gr s').
Proof. exact accepted_tx_passes_walk. Qed.
Print Assumptions C15_accepted_tx_passes_authority_walk.

Theorem C15_rejected_carrier_tx_changes_nothing :
  forall c w blocked s tx, snd (deliver_ttx c w blocked s tx) = false -> fst (deliver_ttx c w blocked s tx) = s.
Proof. exact deliver_ttx_rejected. Qed.
Print Assumptions C15_rejected_carrier_tx_changes_nothing.

Theorem C15_registry_invariant_preserved_by_trees :
  forall c w blocked t s s', trun c w blocked t s = Some s' -> inv (tf s) -> inv (tf s').
Proof. exact trun_inv. Qed.
Print Assumptions C15_registry_invariant_preserved_by_trees.

(** The boolean checker over traces of message trees is sound for [Pt] *)
Theorem C15_tree_checker_sound :
  forall strict blocked w t prev G, Pbt strict blocked w prev G t = true -> Pt strict blocked w prev G t.
Proof. exact Pbt_sound. Qed.
Print Assumptions C15_tree_checker_sound.
