(** C15 — proofs about the token-factory model: who can move a supply, who can move control,
    creation, non-tf coins, conservation, and the link to the trace property [P]. *)
From Coq Require Import List Bool Arith ZArith String Ascii Lia.
Import ListNotations.
Require Import Nib.C15.Model Nib.C15.Spec.
Local Open Scope string_scope.
Local Open Scope Z_scope.

(* ------------------------------------------------------------------ strings.Split *)

Lemma split_nonnil s : split_slash s <> [].
Proof.
  induction s as [|c r IH]; simpl; try discriminate.
  destruct (Ascii.eqb c "/"%char); try discriminate.
  destruct (split_slash r); try discriminate.
Qed.

Lemma split_app x y : split_slash (x ++ String "/" y) = (split_slash x ++ split_slash y)%list.
Proof.
  induction x as [|c x IH]; simpl.
  - reflexivity.
  - destruct (Ascii.eqb c "/"%char).
    + rewrite IH. reflexivity.
    + rewrite IH. destruct (split_slash x) as [|p ps] eqn:E.
      * exfalso. eapply split_nonnil; eauto.
      * reflexivity.
Qed.

Lemma split_single x p : split_slash x = [p] -> x = p.
Proof.
  revert p; induction x as [|c x IH]; intros p H; simpl in H.
  - inversion H; auto.
  - destruct (Ascii.eqb c "/"%char); try discriminate.
    + destruct (split_slash x) eqn:E; [exfalso; eapply split_nonnil; eauto | discriminate].
    + destruct (split_slash x) as [|q qs] eqn:E; [exfalso; eapply split_nonnil; eauto|].
      inversion H; subst. f_equal. apply IH. reflexivity.
Qed.

Lemma split_tf : split_slash "tf" = ["tf"].
Proof. reflexivity. Qed.

(** a denom built by TFDenom.Denom() that validates parses back to exactly its creator and subdenom *)
Lemma parse_tf_denom creator sub :
  validate_denom (tf_denom creator sub) = true -> parse_denom (tf_denom creator sub) = Some (creator, sub).
Proof.
  unfold validate_denom, parse_denom, tf_denom.
  change ("tf/" ++ creator ++ "/" ++ sub) with ("tf" ++ String "/" (creator ++ String "/" sub)).
  rewrite !split_app, split_tf. simpl.
  destruct (split_slash creator) as [|c1 cr] eqn:Ec; [exfalso; eapply split_nonnil; eauto|].
  destruct (split_slash sub) as [|s1 sr] eqn:Es; [exfalso; eapply split_nonnil; eauto|].
  destruct cr as [|c2 cr]; [destruct sr as [|s2 sr]|]; simpl.
  - apply split_single in Ec. apply split_single in Es. subst.
    destruct (nonempty c1 && nonempty s1); [reflexivity | discriminate].
  - destruct sr; discriminate.
  - destruct cr as [|c3 cr]; simpl; [destruct sr; simpl; discriminate|].
    destruct cr; discriminate.
Qed.

Lemma parse_denom_inj d c1 s1 c2 s2 :
  d = tf_denom c1 s1 -> d = tf_denom c2 s2 -> validate_denom d = true -> c1 = c2 /\ s1 = s2.
Proof.
  intros H1 H2 Hv. pose proof Hv as Hv2. rewrite H1 in Hv. rewrite H2 in Hv2.
  apply parse_tf_denom in Hv. apply parse_tf_denom in Hv2. rewrite <- H1 in Hv. rewrite <- H2 in Hv2.
  rewrite Hv in Hv2. inversion Hv2; auto.
Qed.

(* ------------------------------------------------------------------ maps *)

Lemma upd_same {V} (f : string -> V) k v : upd f k v k = v.
Proof. unfold upd. rewrite String.eqb_refl. reflexivity. Qed.

Lemma upd_other {V} (f : string -> V) k v x : x <> k -> upd f k v x = f x.
Proof. unfold upd. intro H. apply String.eqb_neq in H. rewrite H. reflexivity. Qed.

Lemma upd2_same f a d v : upd2 f a d v a d = v.
Proof. unfold upd2. rewrite !String.eqb_refl. reflexivity. Qed.

Lemma upd2_other f a d v x y : (x <> a \/ y <> d) -> upd2 f a d v x y = f x y.
Proof.
  unfold upd2. intros [H|H]; apply String.eqb_neq in H; rewrite H; simpl; auto.
  rewrite andb_false_r. reflexivity.
Qed.

Ltac brk H :=
  repeat match type of H with
  | (if ?c then _ else _) = Some _ => let E := fresh "E" in destruct c eqn:E; try discriminate H
  | match ?x with Some _ => _ | None => _ end = Some _ => let E := fresh "E" in destruct x eqn:E; try discriminate H
  end.

Ltac conds :=
  repeat match goal with
  | H : _ && _ = true |- _ => apply andb_true_iff in H; destruct H
  | H : String.eqb _ _ = true |- _ => apply String.eqb_eq in H
  | H : (_ <? _) = true |- _ => apply Z.ltb_lt in H
  | H : (_ <=? _) = true |- _ => apply Z.leb_le in H
  end.

(* ------------------------------------------------------------------ supply *)

(** Who can move a supply, and by how much (per delivered message). *)
Definition supply_mover (s s' : st) (o : op) (d : string) : Prop :=
  (exists sender dv amt to, o = Mint sender d dv amt to /\ admins s d = Some sender /\
     supply s' d = supply s d + amt /\ 0 < amt /\ validate_denom d = true) \/
  (exists sender dv amt from, o = Burn sender d dv amt from /\ admins s d = Some sender /\
     supply s' d = supply s d - amt /\ 0 < amt /\ validate_denom d = true).

Definition own_native_burn (s s' : st) (o : op) (d : string) : Prop :=
  exists sender dv amt, o = BurnNative sender d dv amt /\ supply s' d = supply s d - amt /\ 0 < amt /\
    amt <= bal s sender d /\ bal s' sender d = bal s sender d - amt.

Lemma supply_step blocked s o s' d :
  step blocked s o = Some s' -> supply s' d <> supply s d ->
  supply_mover s s' o d \/ own_native_burn s s' o d.
Proof.
  intros H Hne. destruct o; simpl in H; brk H; inversion H; subst; simpl in *; try congruence; conds; subst.
  - (* Mint *)
    destruct (String.eqb d denom) eqn:Ed.
    + apply String.eqb_eq in Ed. subst. left. left. unfold coin_ok in *. conds.
      exists s0, dv, amt, to. simpl. rewrite upd_same. repeat split; auto.
    + apply String.eqb_neq in Ed. rewrite upd_other in Hne by auto. congruence.
  - (* Burn *)
    destruct (String.eqb d denom) eqn:Ed.
    + apply String.eqb_eq in Ed. subst. left. right. unfold coin_ok in *. conds.
      exists s0, dv, amt, from. simpl. rewrite upd_same. repeat split; auto.
    + apply String.eqb_neq in Ed. rewrite upd_other in Hne by auto. congruence.
  - (* BurnNative *)
    destruct (String.eqb d denom) eqn:Ed.
    + apply String.eqb_eq in Ed. subst. right. unfold coin_ok in *. conds.
      exists sender, dv, amt. simpl. rewrite upd_same, upd2_same. repeat split; auto.
    + apply String.eqb_neq in Ed. rewrite upd_other in Hne by auto. congruence.
Qed.

(** For every message except MsgBurnNative the statement holds to the letter. *)
Lemma supply_step_strict blocked s o s' d :
  step blocked s o = Some s' -> (forall sd dn dv amt, o <> BurnNative sd dn dv amt) ->
  supply s' d <> supply s d -> supply_mover s s' o d.
Proof.
  intros H Hnb Hne. destruct (supply_step blocked s o s' d H Hne) as [Hm|(sd & dv & amt & Ho & _)]; auto.
  exfalso. eapply Hnb; eauto.
Qed.

(* ------------------------------------------------------------------ control *)

(** bank metadata exists for every registered denom (InsertDenom / unsafeInsertDenom write both) *)
Definition inv (s : st) : Prop := forall d, admins s d <> None -> meta s d = true.

Lemma inv_step blocked s o s' : step blocked s o = Some s' -> inv s -> inv s'.
Proof.
  intros H Hi d Hd. destruct o; simpl in H; brk H; inversion H; subst; simpl in *; auto.
  - unfold upd in *. destruct (String.eqb d (tf_denom sender sub)); auto.
  - unfold upd in Hd. destruct (String.eqb d denom) eqn:Ed; auto.
    apply String.eqb_eq in Ed. subst. apply Hi. congruence.
  - unfold upd. destruct (String.eqb d base); auto.
Qed.

Lemma admin_step blocked s o s' d :
  inv s -> step blocked s o = Some s' -> admins s' d <> admins s d ->
  (exists sender new nv, o = ChangeAdmin sender d new nv /\ admins s d = Some sender /\ admins s' d = Some new) \/
  (exists sender sub, o = Create sender sub /\ d = tf_denom sender sub /\ admins s d = None /\
     admins s' d = Some sender /\ parse_denom d = Some (sender, sub)).
Proof.
  intros Hi H Hne. destruct o; simpl in H; brk H; inversion H; subst; simpl in *; try congruence; conds; subst.
  - (* Create *)
    destruct (String.eqb d (tf_denom sender sub)) eqn:Ed.
    + apply String.eqb_eq in Ed. subst. right. exists sender, sub. rewrite upd_same.
      repeat split; auto.
      * destruct (admins s (tf_denom sender sub)) eqn:Ea; auto.
        assert (Hm : meta s (tf_denom sender sub) = true) by (apply Hi; congruence).
        match goal with Hn : negb _ = true |- _ => rewrite Hm in Hn; discriminate Hn end.
      * apply parse_tf_denom; auto.
    + apply String.eqb_neq in Ed. rewrite upd_other in Hne by auto. congruence.
  - (* ChangeAdmin *)
    destruct (String.eqb d denom) eqn:Ed.
    + apply String.eqb_eq in Ed. subst. left. do 3 eexists. rewrite upd_same. split; [reflexivity|]. split; auto.
    + apply String.eqb_neq in Ed. rewrite upd_other in Hne by auto. congruence.
Qed.

(** creation: by the embedded creator, who becomes the first admin, of a denom that did not exist *)
Lemma create_step blocked s sender sub s' :
  inv s -> step blocked s (Create sender sub) = Some s' ->
  admins s (tf_denom sender sub) = None /\ admins s' (tf_denom sender sub) = Some sender /\
  parse_denom (tf_denom sender sub) = Some (sender, sub) /\ meta s' (tf_denom sender sub) = true.
Proof.
  intros Hi H. simpl in H. brk H. inversion H; subst; simpl. conds.
  rewrite !upd_same. repeat split; auto.
  - destruct (admins s (tf_denom sender sub)) eqn:Ea; auto.
    assert (Hm : meta s (tf_denom sender sub) = true) by (apply Hi; congruence).
    rewrite Hm in H1. discriminate.
  - apply parse_tf_denom; auto.
Qed.

Lemma meta_monotone blocked s o s' d : step blocked s o = Some s' -> meta s d = true -> meta s' d = true.
Proof.
  intros H Hm. destruct o; simpl in H; brk H; inversion H; subst; simpl; auto;
    unfold upd; destruct (String.eqb d _); auto.
Qed.

Lemma create_existing_rejected blocked s sender sub :
  meta s (tf_denom sender sub) = true -> step blocked s (Create sender sub) = None.
Proof. intro H. simpl. rewrite H, andb_false_r. reflexivity. Qed.

Lemma run_meta_monotone blocked d : forall h s, meta s d = true -> meta (fst (run blocked s h)) d = true.
Proof.
  induction h as [|o r IH]; intros s H; simpl; auto.
  unfold deliver. destruct (step blocked s o) as [s1|] eqn:E.
  - specialize (IH s1 (meta_monotone _ _ _ _ _ E H)). destruct (run blocked s1 r). exact IH.
  - specialize (IH s H). destruct (run blocked s r). exact IH.
Qed.

Lemma run_inv blocked : forall h s, inv s -> inv (fst (run blocked s h)).
Proof.
  induction h as [|o r IH]; intros s H; simpl; auto.
  unfold deliver. destruct (step blocked s o) as [s1|] eqn:E.
  - specialize (IH s1 (inv_step _ _ _ _ E H)). destruct (run blocked s1 r). exact IH.
  - specialize (IH s H). destruct (run blocked s r). exact IH.
Qed.

(** once created, never again: after any history, a further creation of the same denom — by anyone
    — is rejected *)
Lemma create_once blocked s sender sub s1 h sender2 sub2 :
  inv s -> step blocked s (Create sender sub) = Some s1 ->
  tf_denom sender2 sub2 = tf_denom sender sub ->
  step blocked (fst (run blocked s1 h)) (Create sender2 sub2) = None.
Proof.
  intros Hi H Heq. apply create_existing_rejected. rewrite Heq.
  apply run_meta_monotone. destruct (create_step _ _ _ _ _ Hi H) as (_ & _ & _ & Hm). exact Hm.
Qed.

(** and only the embedded creator could have created it in the first place *)
Lemma create_only_by_embedded_creator blocked s sender sub s' c sb :
  step blocked s (Create sender sub) = Some s' -> parse_denom (tf_denom sender sub) = Some (c, sb) ->
  c = sender /\ sb = sub.
Proof.
  intros H Hp. simpl in H. brk H. conds. apply parse_tf_denom in H0. rewrite H0 in Hp. inversion Hp; auto.
Qed.

(* ------------------------------------------------------------------ balances, non-tf coins *)

(** exactly one account's balance of [d] moves, by the same amount as the supply *)
Lemma conservation_step blocked s o s' d :
  step blocked s o = Some s' ->
  exists a, (forall a', a' <> a -> bal s' a' d = bal s a' d) /\
            bal s' a d - bal s a d = supply s' d - supply s d.
Proof.
  intro H. destruct o; simpl in H; brk H; inversion H; subst; simpl in *;
    try (exists ""; split; [reflexivity | lia]).
  - exists (resolve to sender). split.
    + intros a' Ha. apply upd2_other. auto.
    + unfold upd2, upd. rewrite String.eqb_refl. simpl. destruct (String.eqb d denom) eqn:Ed; [apply String.eqb_eq in Ed; subst|]; lia.
  - exists (resolve from sender). split.
    + intros a' Ha. apply upd2_other. auto.
    + unfold upd2, upd. rewrite String.eqb_refl. simpl. destruct (String.eqb d denom) eqn:Ed; [apply String.eqb_eq in Ed; subst|]; lia.
  - exists sender. split.
    + intros a' Ha. apply upd2_other. auto.
    + unfold upd2, upd. rewrite String.eqb_refl. simpl. destruct (String.eqb d denom) eqn:Ed; [apply String.eqb_eq in Ed; subst|]; lia.
Qed.

(** whose balance can go down: the burn-from account of an admin-signed Burn, or the signer of a
    native burn; a balance goes up only as the mint-to of an admin-signed Mint *)
Lemma balance_step blocked s o s' a d :
  step blocked s o = Some s' -> bal s' a d <> bal s a d ->
  (exists sender dv amt to, o = Mint sender d dv amt to /\ admins s d = Some sender /\ a = resolve to sender /\
      bal s' a d = bal s a d + amt /\ 0 < amt /\ mem_str a blocked = false) \/
  (exists sender dv amt from, o = Burn sender d dv amt from /\ admins s d = Some sender /\ a = resolve from sender /\
      bal s' a d = bal s a d - amt /\ 0 < amt /\ amt <= bal s a d /\ mem_str a blocked = false) \/
  (exists dv amt, o = BurnNative a d dv amt /\ bal s' a d = bal s a d - amt /\ 0 < amt /\ amt <= bal s a d).
Proof.
  intros H Hne. destruct o; simpl in H; brk H; inversion H; subst; simpl in *; try congruence; conds; subst.
  - unfold upd2 in *. destruct (String.eqb a (resolve to s0) && String.eqb d denom) eqn:Ek; try congruence.
    conds. subst. left. unfold coin_ok in *. conds. exists s0, dv, amt, to. repeat split; auto.
  - unfold upd2 in *. destruct (String.eqb a (resolve from s0) && String.eqb d denom) eqn:Ek; try congruence.
    conds. subst. right. left. unfold coin_ok in *. conds. exists s0, dv, amt, from. repeat split; auto.
  - unfold upd2 in *. destruct (String.eqb a sender && String.eqb d denom) eqn:Ek; try congruence.
    conds. subst. right. right. unfold coin_ok in *. conds. exists dv, amt. repeat split; auto.
Qed.

(** coins that are not token-factory denoms: never minted, and only the signer's own balance can
    go down (MsgBurnNative) *)
Lemma non_tf_step blocked s o s' d :
  validate_denom d = false -> step blocked s o = Some s' ->
  supply s' d <= supply s d /\
  (forall a, bal s' a d <= bal s a d) /\
  (forall a, bal s' a d < bal s a d -> a = sender_of o /\ exists dv amt, o = BurnNative a d dv amt).
Proof.
  intros Hv H.
  assert (Hs : supply s' d <= supply s d).
  { destruct (Z.eq_dec (supply s' d) (supply s d)) as [E|E]; [lia|].
    destruct (supply_step _ _ _ _ _ H E) as [[(sd & dv & amt & to & _ & _ & _ & _ & Hv')|(sd & dv & amt & fr & _ & _ & _ & _ & Hv')]|(sd & dv & amt & _ & He & Hp & _)];
      try congruence. lia. }
  assert (Hb : forall a, bal s' a d <> bal s a d -> a = sender_of o /\ (exists dv amt, o = BurnNative a d dv amt) /\ bal s' a d < bal s a d).
  { intros a E. destruct (balance_step _ _ _ _ _ _ H E) as [(sd & dv & amt & to & Ho & Ha & _)|[(sd & dv & amt & fr & Ho & Ha & _)|(dv & amt & Ho & Hb & Hp & _)]].
    - exfalso. subst o. simpl in H. brk H. conds. congruence.
    - exfalso. subst o. simpl in H. brk H. conds. congruence.
    - subst o. simpl. split; auto. split; [eauto | lia]. }
  split; auto. split.
  - intro a. destruct (Z.eq_dec (bal s' a d) (bal s a d)) as [E|E]; [lia|]. destruct (Hb a E) as (_ & _ & Hl). lia.
  - intros a Hl. destruct (Hb a) as (H1 & H2 & _); [lia|]. auto.
Qed.

(** over histories: the supply of a non-tf coin never increases *)
Lemma non_tf_history blocked d : validate_denom d = false ->
  forall h s, supply (fst (run blocked s h)) d <= supply s d.
Proof.
  intros Hv. induction h as [|o r IH]; intro s; simpl; [lia|].
  unfold deliver. destruct (step blocked s o) as [s1|] eqn:E.
  - specialize (IH s1). destruct (run blocked s1 r). simpl in *.
    destruct (non_tf_step _ _ _ _ _ Hv E) as [Hs _]. lia.
  - specialize (IH s). destruct (run blocked s r). exact IH.
Qed.

(** over histories: while [a] is not the admin of [d] and nobody hands [d] over, no message
    signed by [a] moves the supply of the tf denom [d] except a native burn of its own coins *)
Lemma rejected_changes_nothing blocked s o : snd (deliver blocked s o) = false -> fst (deliver blocked s o) = s.
Proof. unfold deliver. destruct (step blocked s o); simpl; auto. discriminate. Qed.

(** a former admin is rejected from the very next message *)
Lemma handover_demotes blocked s old d new nv s' :
  step blocked s (ChangeAdmin old d new nv) = Some s' -> new <> old ->
  admins s' d = Some new /\
  (forall dv amt t, step blocked s' (Mint old d dv amt t) = None) /\
  (forall dv amt t, step blocked s' (Burn old d dv amt t) = None) /\
  (forall n2 nv2, step blocked s' (ChangeAdmin old d n2 nv2) = None) /\
  (forall mv, step blocked s' (SetMeta old d mv) = None).
Proof.
  intros H Hne. simpl in H. brk H. inversion H; subst; simpl. conds. subst.
  assert (Hn : String.eqb s0 new = false) by (apply String.eqb_neq; auto).
  rewrite !upd_same. split; auto. repeat split; intros; simpl; rewrite ?upd_same, ?Hn;
    repeat match goal with |- (if ?c then _ else _) = None => destruct c; auto end.
Qed.

(** a denom without admin ("" — renounced at genesis) or with an admin string nobody can sign as
    stays frozen: no Mint / Burn / ChangeAdmin / SetMeta on it is ever accepted from [sender] *)
Lemma not_admin_rejected blocked s sender d :
  admins s d <> Some sender ->
  (forall dv amt t, step blocked s (Mint sender d dv amt t) = None) /\
  (forall dv amt t, step blocked s (Burn sender d dv amt t) = None) /\
  (forall n nv, step blocked s (ChangeAdmin sender d n nv) = None) /\
  (forall mv, step blocked s (SetMeta sender d mv) = None).
Proof.
  intro Hn.
  assert (Hk : forall a, admins s d = Some a -> String.eqb sender a = false).
  { intros a Ha. apply String.eqb_neq. intro. subst. contradiction. }
  repeat split; intros; simpl;
    repeat match goal with |- (if ?c then _ else _) = None => destruct c; auto end;
    destruct (admins s d) as [a|] eqn:Ea; auto; rewrite (Hk a eq_refl); auto.
Qed.

(** accepted admin-only messages were signed by the admin on record; a hand-over installs the successor *)
Lemma step_authority blocked s o s' :
  step blocked s o = Some s' ->
  match o with
  | Mint sender d _ _ _ | Burn sender d _ _ _ | SetMeta sender d _ => admins s d = Some sender
  | ChangeAdmin sender d new _ => admins s d = Some sender /\ admins s' d = Some new
  | _ => True
  end.
Proof.
  intro H. destruct o; simpl in *; auto; brk H; conds; subst; auto.
  inversion H; subst; simpl. rewrite upd_same. auto.
Qed.

(** a genesis export / import round trip changes nothing: who was admin stays admin (also a renounced
    "" admin and an admin that has no account), nobody else becomes one *)
Lemma reimport_identity blocked s : deliver blocked s Reimport = (s, true).
Proof. reflexivity. Qed.

Lemma reimport_keeps_authority blocked s sender d :
  admins s d <> Some sender ->
  let s' := fst (deliver blocked s Reimport) in
  (forall dv amt t, step blocked s' (Mint sender d dv amt t) = None) /\
  (forall dv amt t, step blocked s' (Burn sender d dv amt t) = None) /\
  (forall n nv, step blocked s' (ChangeAdmin sender d n nv) = None) /\
  (forall mv, step blocked s' (SetMeta sender d mv) = None).
Proof. intro H. simpl. apply not_admin_rejected. exact H. Qed.

(* ------------------------------------------------------------------ transactions of several messages *)

Lemma deliver_tx_single blocked s o : deliver_tx blocked s [o] = deliver blocked s o.
Proof. unfold deliver_tx, deliver. simpl. destruct (step blocked s o); reflexivity. Qed.

Lemma deliver_tx_rejected blocked s tx : snd (deliver_tx blocked s tx) = false -> fst (deliver_tx blocked s tx) = s.
Proof.
  unfold deliver_tx. destruct tx as [|o r]; simpl; auto.
  destruct (match step blocked s o with Some s' => run_msgs blocked s' r | None => None end); simpl; auto. discriminate.
Qed.

(** a failing message discards what the earlier messages of the same tx wrote (e.g. a hand-over) *)
Lemma deliver_tx_atomic blocked s pre o post :
  (forall s1, run_msgs blocked s pre = Some s1 -> step blocked s1 o = None) ->
  deliver_tx blocked s (pre ++ o :: post)%list = (s, false).
Proof.
  intro H. unfold deliver_tx.
  assert (E : run_msgs blocked s (pre ++ o :: post)%list = None).
  { revert s H. induction pre as [|x pre IH]; intros s H; simpl.
    - rewrite (H s eq_refl). reflexivity.
    - destruct (step blocked s x) as [sx|] eqn:Ex; auto. apply IH. intros s1 H1. apply H. simpl. rewrite Ex. exact H1. }
  rewrite E. destruct (pre ++ o :: post)%list; reflexivity.
Qed.

(** every message of an accepted tx was an accepted step from the state the earlier messages left:
    all per-message theorems above apply to it *)
Lemma accepted_tx_each_message blocked : forall tx s s',
  run_msgs blocked s tx = Some s' ->
  forall l1 o l2, tx = (l1 ++ o :: l2)%list ->
  exists s1 s2, run_msgs blocked s l1 = Some s1 /\ step blocked s1 o = Some s2 /\ run_msgs blocked s2 l2 = Some s'.
Proof.
  induction tx as [|x r IH]; intros s s' H l1 o l2 E.
  - destruct l1; discriminate.
  - simpl in H. destruct (step blocked s x) as [sx|] eqn:Hx; try discriminate.
    destruct l1 as [|y l1]; simpl in E; inversion E; subst.
    + exists s, sx. auto.
    + destruct (IH sx s' H l1 o l2 eq_refl) as (s1 & s2 & H1 & H2 & H3).
      exists s1, s2. simpl. rewrite Hx. auto.
Qed.

Lemma run_msgs_inv blocked : forall tx s s', run_msgs blocked s tx = Some s' -> inv s -> inv s'.
Proof.
  induction tx as [|x r IH]; intros s s' H Hi; simpl in H.
  - inversion H; subst; auto.
  - destruct (step blocked s x) as [sx|] eqn:Hx; try discriminate.
    eapply IH; eauto. eapply inv_step; eauto.
Qed.

(** a supply that differs after an accepted tx was moved by one of its messages, under the
    per-message law, in the state that message ran in *)
Lemma tx_supply_moved blocked : forall tx s s' d,
  run_msgs blocked s tx = Some s' -> supply s' d <> supply s d ->
  exists l1 o l2 s1 s2, tx = (l1 ++ o :: l2)%list /\ run_msgs blocked s l1 = Some s1 /\ step blocked s1 o = Some s2 /\
    supply s2 d <> supply s1 d /\ (supply_mover s1 s2 o d \/ own_native_burn s1 s2 o d).
Proof.
  induction tx as [|x r IH]; intros s s' d H Hne; simpl in H.
  - inversion H; subst. congruence.
  - destruct (step blocked s x) as [sx|] eqn:Hx; try discriminate.
    destruct (Z.eq_dec (supply sx d) (supply s d)) as [E|E].
    + rewrite <- E in Hne. destruct (IH sx s' d H Hne) as (l1 & o & l2 & s1 & s2 & Ht & H1 & H2 & H3 & H4).
      exists (x :: l1), o, l2, s1, s2. subst r. simpl. rewrite Hx. auto.
    + exists [], x, r, s, sx. simpl. repeat split; auto. eapply supply_step; eauto.
Qed.

(* ------------------------------------------------------------------ the statement to the letter is refuted *)

Definition empty_state : st :=
  {| admins := fun _ => None; meta := fun _ => false; bal := fun _ _ => 0; supply := fun _ => 0 |}.

Definition witness_history : list op :=
  [Create "@0" "gold"; Mint "@0" "tf/@0/gold" true 60 (TAcct "@3"); BurnNative "@3" "tf/@0/gold" true 25].

Lemma strict_statement_refuted :
  exists blocked s o s' d,
    step blocked s o = Some s' /\ validate_denom d = true /\ supply s' d <> supply s d /\
    admins s d <> Some (sender_of o) /\ ~ supply_mover s s' o d.
Proof.
  set (s2 := fst (run [] empty_state (firstn 2 witness_history))).
  exists [], s2, (BurnNative "@3" "tf/@0/gold" true 25).
  destruct (step [] s2 (BurnNative "@3" "tf/@0/gold" true 25)) as [s3|] eqn:E; [|vm_compute in E; discriminate].
  exists s3, "tf/@0/gold". split; auto.
  assert (Hs3 : supply s3 "tf/@0/gold" = 35) by (vm_compute in E; inversion E; subst; reflexivity).
  assert (Hs2 : supply s2 "tf/@0/gold" = 60) by (vm_compute; reflexivity).
  assert (Ha : admins s2 "tf/@0/gold" = Some "@0") by (vm_compute; reflexivity).
  split; [vm_compute; reflexivity|]. split; [rewrite Hs3, Hs2; discriminate|]. split.
  - rewrite Ha. simpl. discriminate.
  - intros [(sd & dv & amt & to & Ho & _)|(sd & dv & amt & fr & Ho & _)]; discriminate.
Qed.

(* ------------------------------------------------------------------ the model satisfies P (all but the tracked-sum clause) *)

Definition snap_keys (ds : list string) (bs : list (string * string)) (s : st) : snap :=
  {| sn_supply := map (fun d => (d, supply s d)) ds;
     sn_bal := map (fun k => (fst k, snd k, bal s (fst k) (snd k))) bs;
     sn_admin := map (fun d => (d, admins s d)) ds |}.

Lemma lookup_map {V} (f : string -> V) d ds : In d ds -> lookup d (map (fun x => (x, f x)) ds) = Some (f d).
Proof.
  induction ds as [|x r IH]; simpl; [tauto|]. intros [H|H].
  - subst. rewrite String.eqb_refl. reflexivity.
  - destruct (String.eqb d x) eqn:E; auto. apply String.eqb_eq in E. subst. reflexivity.
Qed.

Lemma lookup2_map (f : string -> string -> Z) a d bs :
  In (a, d) bs -> lookup2 a d (map (fun k => (fst k, snd k, f (fst k) (snd k))) bs) = Some (f a d).
Proof.
  induction bs as [|[x y] r IH]; simpl; [tauto|]. intros [H|H].
  - inversion H; subst. rewrite !String.eqb_refl. reflexivity.
  - destruct (String.eqb a x && String.eqb d y) eqn:E; auto. conds. subst. reflexivity.
Qed.

Lemma in_map_key {V} (f : string -> V) d v ds : In (d, v) (map (fun x => (x, f x)) ds) -> In d ds /\ v = f d.
Proof. intro H. apply in_map_iff in H as (x & Hx & Hin). inversion Hx; subst. auto. Qed.

(** the five per-message clauses of [step_P] (everything except the sum over tracked accounts) *)
Definition step_core (strict : bool) (blocked : list string) (prev : snap) (o : op) (ok : bool) (cur : snap) : Prop :=
  (ok = false -> cur = prev) /\
  (o = Reimport -> cur = prev) /\
  (ok = true -> authority_ok prev cur o) /\
  (forall d v', In (d, v') (sn_supply cur) ->
     exists v, lookup d (sn_supply prev) = Some v /\ (v' <> v -> ok = true /\ supply_change_ok strict prev o d v v')) /\
  (forall d a', In (d, a') (sn_admin cur) ->
     exists a, lookup d (sn_admin prev) = Some a /\ (a' <> a -> ok = true /\ admin_change_ok o d a a')) /\
  (forall sender sub, o = Create sender sub -> ok = true ->
     lookup (tf_denom sender sub) (sn_admin prev) = Some None /\
     lookup (tf_denom sender sub) (sn_admin cur) = Some (Some sender) /\
     parse_denom (tf_denom sender sub) = Some (sender, sub)) /\
  (forall acct d b', In (acct, d, b') (sn_bal cur) ->
     exists b, lookup2 acct d (sn_bal prev) = Some b /\
       (b' <> b -> ok = true /\ bal_change_ok blocked o acct d b b' /\
                   (validate_denom d = false -> acct = sender_of o /\ b' < b))).

Lemma step_P_core strict blocked prev o ok cur : step_P strict blocked prev o ok cur -> step_core strict blocked prev o ok cur.
Proof. unfold step_P, step_core. tauto. Qed.

Lemma model_step_core blocked ds bs s o :
  inv s -> In (op_denom o) ds ->
  step_core false blocked (snap_keys ds bs s) o (snd (deliver blocked s o)) (snap_keys ds bs (fst (deliver blocked s o))).
Proof.
  intros Hi Htr. unfold deliver. destruct (step blocked s o) as [s'|] eqn:E; simpl.
  2:{ unfold step_core. split; [auto|]. split; [auto|]. split; [discriminate|]. split; [|split; [|split; [|]]].
      - intros d v' Hin. apply in_map_key in Hin as [Hin ->]. exists (supply s d). split; [apply (lookup_map (supply s)); auto | congruence].
      - intros d a' Hin. apply in_map_key in Hin as [Hin ->]. exists (admins s d). split; [apply (lookup_map (admins s)); auto | congruence].
      - intros; discriminate.
      - intros acct d b' Hin. apply in_map_iff in Hin as ([x y] & Hx & Hin). simpl in Hx. inversion Hx; subst.
        exists (bal s acct d). split; [apply (lookup2_map (bal s)); auto | congruence]. }
  unfold step_core. split; [discriminate|]. split; [|split; [|split; [|split; [|split]]]].
  - intro Ho. subst o. simpl in E. inversion E; subst. reflexivity.
  - intros _. pose proof (step_authority _ _ _ _ E) as Ha.
    destruct o; simpl in *; auto;
      rewrite ?(lookup_map (admins s)), ?(lookup_map (admins s')) by auto;
      try (rewrite Ha; reflexivity).
    destruct Ha as [Ha1 Ha2]. rewrite Ha1, Ha2. auto.
  - intros d v' Hin. apply in_map_key in Hin as [Hin ->]. exists (supply s d).
    split; [apply (lookup_map (supply s)); auto|]. intro Hne. split; auto.
    destruct (supply_step _ _ _ _ _ E Hne) as [[(sd & dv & amt & to & -> & Ha & Hs & Hp & Hv)|(sd & dv & amt & fr & -> & Ha & Hs & Hp & Hv)]|(sd & dv & amt & -> & Hs & Hp & _)];
      simpl; rewrite ?(lookup_map (admins s)) by auto; repeat split; auto; try congruence.
  - intros d a' Hin. apply in_map_key in Hin as [Hin ->]. exists (admins s d).
    split; [apply (lookup_map (admins s)); auto|]. intro Hne. split; auto.
    destruct (admin_step _ _ _ _ _ Hi E Hne) as [(sd & new & nv & -> & Ha & Hn)|(sd & sub & -> & Hd & Ha & Hn & Hp)]; simpl; auto.
  - intros sender sub Ho _. subst o. simpl in Htr.
    destruct (create_step _ _ _ _ _ Hi E) as (Ha & Ha' & Hp & _). simpl.
    rewrite (lookup_map (admins s)), (lookup_map (admins s')) by auto. rewrite Ha, Ha'. auto.
  - intros acct d b' Hin. apply in_map_iff in Hin as ([x y] & Hx & Hin). simpl in Hx. inversion Hx; subst.
    exists (bal s acct d). split; [apply (lookup2_map (bal s)); auto|]. intro Hne. split; auto. split.
    + destruct (balance_step _ _ _ _ _ _ E Hne) as [(sd & dv & amt & to & -> & Ha & Hr & Hb & _ & Hbl)|[(sd & dv & amt & fr & -> & Ha & Hr & Hb & Hp & Hle & Hbl)|(dv & amt & -> & Hb & Hp & Hle)]];
        simpl; repeat split; auto; lia.
    + intro Hv. destruct (non_tf_step _ _ _ _ _ Hv E) as (_ & Hle & Hlt).
      specialize (Hle acct). destruct (Hlt acct) as [Hs _]; [lia|]. split; auto. lia.
Qed.

(* ------------------------------------------------------------------ non-vacuity *)

Definition ex_history : list op :=
  [ Create "@0" "gold";
    Mint "@0" "tf/@0/gold" true 100 TDefault;
    Mint "@1" "tf/@0/gold" true 5 TDefault;                 (* not the admin *)
    Mint "@0" "tf/@0/gold" true 40 (TAcct "@4");            (* blocked module account *)
    ChangeAdmin "@0" "tf/@0/gold" "@1" true;
    Mint "@0" "tf/@0/gold" true 5 TDefault;                 (* former admin *)
    Burn "@1" "tf/@0/gold" true 30 (TAcct "@0");            (* new admin burns from a holder *)
    Create "@0" "gold";                                     (* once only *)
    Mint "@1" "tf/@0/gold/x" true 5 TDefault;               (* look-alike *)
    Mint "@1" "unibi" true 5 TDefault;                      (* not a tf denom *)
    BurnNative "@0" "tf/@0/gold" true 20 ].                 (* own coins *)

Example history_nonvacuous :
  snd (run ["@4"] empty_state ex_history) = [true; true; false; false; true; false; true; false; false; false; true]
  /\ supply (fst (run ["@4"] empty_state ex_history)) "tf/@0/gold" = 50
  /\ bal (fst (run ["@4"] empty_state ex_history)) "@0" "tf/@0/gold" = 50
  /\ admins (fst (run ["@4"] empty_state ex_history)) "tf/@0/gold" = Some "@1".
Proof. vm_compute. auto. Qed.

Example inv_nonvacuous : inv empty_state.
Proof. intros d H. simpl in H. congruence. Qed.

Example parse_nonvacuous :
  parse_denom "tf/@0/gold" = Some ("@0", "gold") /\ parse_denom "tf/@0/gold/x" = None /\
  parse_denom "tf//gold" = None /\ parse_denom "TF/@0/gold" = None /\ parse_denom "unibi" = None /\
  parse_denom "tf/@0/" = None.
Proof. vm_compute. auto 10. Qed.
