From Coq Require Import List Bool Arith ZArith String Lia.
Import ListNotations.
Require Import Nib.C15.Model Nib.C15.Spec.
