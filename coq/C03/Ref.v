(** C03 — reference semantics of a vm.StateDB: plain maps, Snapshot pushes a FULL COPY of the
    state, RevertToSnapshot pops back to it.  This is the simplest reading of the contract of
    go-ethereum's core/state that the interpreter relies on.  No journal, no caches, no dirty
    tracking.  No proofs in this file. *)
From Coq Require Import ZArith List Bool.
Import ListNotations.
Require Import Nib.C03.Model.
Local Open Scope Z_scope.

Record aview := { av_bal : Z; av_nonce : Z; av_code : Z; av_suic : bool }.

Record view := {
  v_acct : addr -> option aview;
  v_stor : addr -> key -> word;     (* current storage *)
  v_comm : addr -> key -> word;     (* storage as of the start of the transaction *)
  v_refund : Z;
  v_logs : list Z;                  (* newest first *)
  v_ala : addr -> bool;             (* access list: addresses *)
  v_als : addr -> key -> bool       (* access list: (address, slot) present *)
}.

Definition blank : aview := {| av_bal := 0; av_nonce := 0; av_code := 0; av_suic := false |}.
Definition av_with_bal (x : aview) (b : Z) : aview :=
  {| av_bal := b; av_nonce := av_nonce x; av_code := av_code x; av_suic := av_suic x |}.
Definition av_with_nonce (x : aview) (n : Z) : aview :=
  {| av_bal := av_bal x; av_nonce := n; av_code := av_code x; av_suic := av_suic x |}.
Definition av_with_code (x : aview) (c : Z) : aview :=
  {| av_bal := av_bal x; av_nonce := av_nonce x; av_code := c; av_suic := av_suic x |}.
Definition av_with_suic (x : aview) (b : bool) : aview :=
  {| av_bal := av_bal x; av_nonce := av_nonce x; av_code := av_code x; av_suic := b |}.
Definition av_empty (x : aview) : bool := (av_nonce x =? 0) && (av_bal x =? 0) && (av_code x =? 0).

Definition vset_acct (v : view) (a : addr) (x : option aview) : view :=
  {| v_acct := upd (v_acct v) a x; v_stor := v_stor v; v_comm := v_comm v; v_refund := v_refund v;
     v_logs := v_logs v; v_ala := v_ala v; v_als := v_als v |}.
Definition vset_stor (v : view) (a : addr) (f : key -> word) : view :=
  {| v_acct := v_acct v; v_stor := upd (v_stor v) a f; v_comm := v_comm v; v_refund := v_refund v;
     v_logs := v_logs v; v_ala := v_ala v; v_als := v_als v |}.
Definition vset_comm (v : view) (a : addr) (f : key -> word) : view :=
  {| v_acct := v_acct v; v_stor := v_stor v; v_comm := upd (v_comm v) a f; v_refund := v_refund v;
     v_logs := v_logs v; v_ala := v_ala v; v_als := v_als v |}.
Definition vset_refund (v : view) (r : Z) : view :=
  {| v_acct := v_acct v; v_stor := v_stor v; v_comm := v_comm v; v_refund := r;
     v_logs := v_logs v; v_ala := v_ala v; v_als := v_als v |}.
Definition vset_logs (v : view) (l : list Z) : view :=
  {| v_acct := v_acct v; v_stor := v_stor v; v_comm := v_comm v; v_refund := v_refund v;
     v_logs := l; v_ala := v_ala v; v_als := v_als v |}.
Definition vset_al (v : view) (fa : addr -> bool) (fs : addr -> key -> bool) : view :=
  {| v_acct := v_acct v; v_stor := v_stor v; v_comm := v_comm v; v_refund := v_refund v;
     v_logs := v_logs v; v_ala := fa; v_als := fs |}.

(** the account, created blank when missing (getOrNewStateObject) *)
Definition vget_or_new (v : view) (a : addr) : aview :=
  match v_acct v a with Some x => x | None => blank end.

Definition vadd_addr (v : view) (a : addr) : view := vset_al v (upd (v_ala v) a true) (v_als v).
Definition vadd_slot (v : view) (a : addr) (k : key) : view :=
  vset_al v (upd (v_ala v) a true) (upd (v_als v) a (upd (v_als v a) k true)).

Definition vprepare (v : view) (sender : addr) (dst : option addr) (pre : list addr)
           (al : list (addr * list key)) : view :=
  let v1 := vadd_addr v sender in
  let v2 := match dst with Some d => vadd_addr v1 d | None => v1 end in
  let v3 := fold_left vadd_addr pre v2 in
  fold_left (fun v el => fold_left (fun v k => vadd_slot v (fst el) k) (snd el) (vadd_addr v (fst el))) al v3.

(** all operations except Snapshot / RevertToSnapshot *)
Definition vstep (o : op) (v : view) : view * ret :=
  match o with
  | OCreateAccount a =>
    (* a fresh account; only the balance of a previous one is carried over; storage is gone *)
    let b := match v_acct v a with Some x => av_bal x | None => 0 end in
    (vset_comm (vset_stor (vset_acct v a (Some (av_with_bal blank b))) a (fun _ => 0)) a (fun _ => 0), [])
  | OSubBalance a amt =>
    let x := vget_or_new v a in (vset_acct v a (Some (av_with_bal x (av_bal x - amt))), [])
  | OAddBalance a amt =>
    let x := vget_or_new v a in (vset_acct v a (Some (av_with_bal x (av_bal x + amt))), [])
  | OGetBalance a => (v, match v_acct v a with Some x => [av_bal x] | None => [0] end)
  | OGetNonce a => (v, match v_acct v a with Some x => [av_nonce x] | None => [0] end)
  | OSetNonce a n => (vset_acct v a (Some (av_with_nonce (vget_or_new v a) n)), [])
  | OGetCodeHash a => (v, match v_acct v a with Some x => [av_code x] | None => [NOHASH] end)
  | OGetCode a => (v, match v_acct v a with Some x => [av_code x] | None => [0] end)
  | OSetCode a c => (vset_acct v a (Some (av_with_code (vget_or_new v a) c)), [])
  | OGetCodeSize a => (v, match v_acct v a with Some x => [av_code x] | None => [0] end)
  | OAddRefund g => (vset_refund v (v_refund v + g), [])
  | OSubRefund g => if v_refund v <? g then (v, rpanic) else (vset_refund v (v_refund v - g), [])
  | OGetRefund => (v, [v_refund v])
  | OGetCommittedState a k => (v, match v_acct v a with Some _ => [v_comm v a k] | None => [0] end)
  | OGetState a k => (v, match v_acct v a with Some _ => [v_stor v a k] | None => [0] end)
  | OSetState a k w =>
    (vset_stor (vset_acct v a (Some (vget_or_new v a))) a (upd (v_stor v a) k w), [])
  | OSuicide a =>
    match v_acct v a with
    | None => (v, rbool false)
    | Some x => (vset_acct v a (Some (av_with_bal (av_with_suic x true) 0)), rbool true)
    end
  | OHasSuicided a => (v, match v_acct v a with Some x => rbool (av_suic x) | None => rbool false end)
  | OExist a => (v, match v_acct v a with Some _ => rbool true | None => rbool false end)
  | OEmpty a => (v, match v_acct v a with Some x => rbool (av_empty x) | None => rbool true end)
  | OAddrInAL a => (v, rbool (v_ala v a))
  | OSlotInAL a k => (v, rbool (v_ala v a) ++ rbool (v_als v a k))
  | OAddAddrAL a => (vadd_addr v a, [])
  | OAddSlotAL a k => (vadd_slot v a k, [])
  | OPrepareAL sd dst pre al => (vprepare v sd dst pre al, [])
  | OAddLog l => (vset_logs v (l :: v_logs v), [])
  | OLogs => (v, rev (v_logs v))
  | OSnapshot | ORevert _ => (v, [])
  end.

(** the reference machine: current state + stack of saved copies *)
Record ref := { cur : view; stack : list (Z * view); rnext : Z }.

Fixpoint find_copy (id : Z) (l : list (Z * view)) : option (view * list (Z * view)) :=
  match l with
  | [] => None
  | (i, v) :: rest => if i =? id then Some (v, rest) else find_copy id rest
  end.

Definition rstep (o : op) (r : ref) : ref * ret :=
  match o with
  | OSnapshot => ({| cur := cur r; stack := (rnext r, cur r) :: stack r; rnext := rnext r + 1 |}, [rnext r])
  | ORevert id =>
    match find_copy id (stack r) with
    | None => (r, rpanic)
    | Some (v, older) => ({| cur := v; stack := older; rnext := rnext r |}, [])
    end
  | _ => let '(v, x) := vstep o (cur r) in ({| cur := v; stack := stack r; rnext := rnext r |}, x)
  end.

Fixpoint rrun (ops : list op) (r : ref) : ref * list ret :=
  match ops with
  | [] => (r, [])
  | o :: rest =>
    let '(r1, x) := rstep o r in
    let '(r2, xs) := rrun rest r1 in (r2, x :: xs)
  end.

(** ** persistent world between transactions (balances in wei) *)
Record wacct := { wa_bal : Z; wa_nonce : Z; wa_code : Z }.
Record world := { w_acct : addr -> option wacct; w_stor : addr -> key -> word }.

Definition empty_world : world := {| w_acct := fun _ => None; w_stor := fun _ _ => 0 |}.

Definition ref_begin (w : world) : ref :=
  {| cur := {| v_acct := fun a => match w_acct w a with
                                  | Some x => Some {| av_bal := wa_bal x; av_nonce := wa_nonce x;
                                                      av_code := wa_code x; av_suic := false |}
                                  | None => None end;
               v_stor := w_stor w; v_comm := w_stor w; v_refund := 0; v_logs := [];
               v_ala := fun _ => false; v_als := fun _ _ => false |};
     stack := []; rnext := 0 |}.

(** end of transaction: self-destructed accounts disappear with their storage *)
Definition ref_commit (v : view) : world :=
  {| w_acct := fun a => match v_acct v a with
                        | Some x => if av_suic x then None
                                    else Some {| wa_bal := av_bal x; wa_nonce := av_nonce x; wa_code := av_code x |}
                        | None => None end;
     w_stor := fun a k => match v_acct v a with
                          | Some x => if av_suic x then 0 else v_stor v a k
                          | None => v_stor v a k end |}.

Definition ref_tx (w : world) (ops : list op) : world * list ret :=
  let '(r, xs) := rrun ops (ref_begin w) in (ref_commit (cur r), xs).

Fixpoint ref_txs (w : world) (txs : list (list op)) : world * list (list ret) :=
  match txs with
  | [] => (w, [])
  | t :: rest =>
    let '(w1, xs) := ref_tx w t in
    let '(w2, xss) := ref_txs w1 rest in (w2, xs :: xss)
  end.

(** the world a keeper represents *)
Definition world_of (k : keeper) : world :=
  {| w_acct := fun a => match k_acct k a with
                        | Some x => Some {| wa_bal := to_wei (ka_bal x); wa_nonce := ka_nonce x; wa_code := ka_code x |}
                        | None => None end;
     w_stor := k_stor k |}.
