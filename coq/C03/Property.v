(** C03 — exported statements only. *)
From Coq Require Import ZArith List Bool.
Import ListNotations.
Require Import Nib.C03.Model Nib.C03.Ref Nib.C03.Spec Nib.C03.Proofs.
Local Open Scope Z_scope.

(** The boolean checker evaluated on implementation traces is sound for [P]. *)
Theorem C03_checker_sound : forall t, Pb t = true -> P t.
Proof. exact Pb_sound. Qed.
Print Assumptions C03_checker_sound.
