(** C03 — Nibiru EVM state transitions equal go-ethereum's on the same program.
    PARTIAL: the geth interpreter is the same code on both sides and is not modelled; the
    theorems live at the vm.StateDB interface (every protocol-obeying call sequence) plus the
    ApplyEvmMsg arithmetic.  This file holds only the exported statements. *)
From Coq Require Import ZArith List Bool.
Import ListNotations.
Require Import Nib.C03.Model Nib.C03.Ref Nib.C03.Spec Nib.C03.Msg Nib.C03.Precompiles Nib.C03.Proofs.
Local Open Scope Z_scope.

(** One step.  [R k0 f r]: the journaled StateDB [f] over keeper [k0] and the copy-stack reference
    [r] show the same state (every getter), and every live revision unwinds to its saved copy.
    Any method call obeying the protocol returns the same value on both and keeps [R]. *)
Theorem C03_step_refines_reference :
  forall k0 f r o, R k0 f r -> wf_step (k_stor k0) r o ->
  snd (step o f) = snd (rstep o r) /\ R k0 (fst (step o f)) (fst (rstep o r)).
Proof. exact step_sim. Qed.
Print Assumptions C03_step_refines_reference.

(** Any sequence, any length, any nesting of Snapshot/RevertToSnapshot: the list of all return
    values (= every observation the interpreter makes after every prefix) equals the reference's. *)
Theorem C03_journal_revert_exact :
  forall k0 ops f r, R k0 f r -> wf_run (k_stor k0) ops r ->
  snd (run ops f) = snd (rrun ops r) /\ R k0 (fst (run ops f)) (fst (rrun ops r)).
Proof. exact run_sim. Qed.
Print Assumptions C03_journal_revert_exact.

(** [R] implies agreement on everything readable, also on what was not read. *)
Theorem C03_related_states_read_equal :
  forall k0 f r, R k0 f r -> veq (V (core f)) (cur r).
Proof. intros k0 f r H. exact (R_cur k0 f r H). Qed.
Print Assumptions C03_related_states_read_equal.

(** A fresh StateDB is related to the reference started from the world the keeper holds. *)
Theorem C03_fresh_statedb_related : forall k, R k (new_full k) (ref_begin (world_of k)).
Proof. exact R_init. Qed.
Print Assumptions C03_fresh_statedb_related.

(** Commit writes exactly the visible state: for EVERY address the keeper afterwards holds the
    account (balance in unibi = wei/10^12, nonce, code hash) and every storage slot of the
    reference's end-of-transaction world; self-destructed accounts are gone with their storage. *)
Theorem C03_commit_writes_exactly_visible :
  forall s, Inv s -> clean (kp s) (journal s) (V s) -> kwf (kp s) ->
  forall a, committed_at (V s) (commit s) a.
Proof. exact commit_writes_visible. Qed.
Print Assumptions C03_commit_writes_exactly_visible.

(** One transaction end to end (fresh StateDB, calls, Commit) vs the reference transaction. *)
Theorem C03_transaction_refines_reference :
  forall k ops, kwf k -> wf_run (k_stor k) ops (ref_begin (world_of k)) ->
  let k' := fst (run_tx k ops) in
  let w' := fst (ref_tx (world_of k) ops) in
  snd (run_tx k ops) = snd (ref_tx (world_of k) ops) /\
  (forall a, match w_acct w' a, k_acct k' a with
             | Some x, Some y => ka_bal y = to_native (wa_bal x) /\ ka_nonce y = wa_nonce x /\ ka_code y = wa_code x
             | None, None => True
             | _, _ => False
             end /\ forall ky, k_stor k' a ky = w_stor w' a ky) /\
  kwf k' /\
  (whole_unibi w' -> weq (world_of k') w').
Proof. exact tx_refines. Qed.
Print Assumptions C03_transaction_refines_reference.

(** Histories of transactions whose value transfers are whole multiples of 10^12 wei: after every
    transaction the return values are the reference's and the keeper holds exactly the reference's
    world (balances included). *)
Theorem C03_history_refines_reference :
  forall txs k, kwf k -> hist_wf' k txs -> hist_ok k txs.
Proof. intros txs k Hk H. exact (history_refines txs k Hk (hist_wf'_wf txs k H)). Qed.
Print Assumptions C03_history_refines_reference.

(** The same against the PURE reference history (which never looks at a keeper), from any keeper
    representing the reference's start world; in particular from genesis: every return value of
    every call of every transaction equals the reference's, and the final keeper is the reference's
    final world. *)
Theorem C03_history_equals_reference_history :
  forall txs k w, kwf k -> weq (world_of k) w -> ref_hist_wf w txs ->
  snd (run_txs k txs) = snd (ref_txs w txs) /\
  weq (world_of (fst (run_txs k txs))) (fst (ref_txs w txs)) /\ kwf (fst (run_txs k txs)).
Proof. exact history_equals_reference. Qed.
Print Assumptions C03_history_equals_reference_history.

Theorem C03_history_from_genesis :
  forall txs, ref_hist_wf empty_world txs ->
  snd (run_txs empty_keeper txs) = snd (ref_txs empty_world txs) /\
  weq (world_of (fst (run_txs empty_keeper txs))) (fst (ref_txs empty_world txs)).
Proof. exact history_from_empty_world. Qed.
Print Assumptions C03_history_from_genesis.

(** Moving whole unibi keeps every balance whole (so the wei <-> unibi conversion at Commit is exact). *)
Theorem C03_whole_unibi_preserved :
  forall k ops, Forall op_whole ops -> whole_unibi (fst (ref_tx (world_of k) ops)).
Proof. exact whole_amounts_whole_world. Qed.
Print Assumptions C03_whole_unibi_preserved.

(** ApplyEvmMsg: refund = min(gasUsed / quotient, refund counter); bounds; London cap. *)
Theorem C03_refund_cap_eq_geth :
  forall q avail used, gas_to_refund q avail used = Z.min (used / q) avail.
Proof. exact gas_to_refund_is_min. Qed.
Print Assumptions C03_refund_cap_eq_geth.

Theorem C03_refund_cap_bounds :
  forall q avail used, 0 < q -> 0 <= avail -> 0 <= used ->
  0 <= gas_to_refund q avail used <= avail /\ gas_to_refund q avail used * q <= used.
Proof. exact gas_to_refund_bounds. Qed.
Print Assumptions C03_refund_cap_bounds.

(** ApplyEvmMsg: after SetNonce(from, n) the sender's nonce reads n (the nonce bracket). *)
Theorem C03_nonce_bracket :
  forall s a m, snd (step_core (OGetNonce a) (fst (step_core (OSetNonce a m) s))) = [m].
Proof. exact nonce_bracket. Qed.
Print Assumptions C03_nonce_bracket.

(** ParseWeiAsMultipleOfMicronibi leaves whole-unibi values unchanged. *)
Theorem C03_parse_wei_multiple : forall n, 0 <= n -> parse_wei (to_wei n) = Some (to_wei n).
Proof. exact parse_wei_multiple. Qed.
Print Assumptions C03_parse_wei_multiple.

(** The structural invariants Commit needs hold in every reachable StateDB. *)
Theorem C03_invariants_reachable : forall k ops, code_inv k -> Inv (core (fst (run ops (new_full k)))).
Proof. intros k ops Hc. exact (Inv_run ops (new_full k) (Inv_new k Hc)). Qed.
Print Assumptions C03_invariants_reachable.

(** The bytecode table (hash -> code, shared by all accounts with that code): Commit only adds to
    it, Keeper.DeleteAccount does not touch it, and after every transaction the code of every
    account is retrievable — also when a contract with the same code self-destructed. *)
Theorem C03_delete_account_keeps_bytecode : forall k a, k_code (kdelete k a) = k_code k.
Proof. exact kdelete_keeps_code. Qed.
Print Assumptions C03_delete_account_keeps_bytecode.

Theorem C03_commit_code_table :
  forall s, Inv s -> clean (kp s) (journal s) (V s) ->
  (forall h, k_code (kp s) h = true -> k_code (commit s) h = true) /\ code_inv (commit s).
Proof. exact commit_code_table. Qed.
Print Assumptions C03_commit_code_table.

Theorem C03_code_retrievable_after_tx :
  forall k ops, kwf k -> wf_run (k_stor k) ops (ref_begin (world_of k)) ->
  forall a x, k_acct (fst (run_tx k ops)) a = Some x -> ka_code x = 0 \/ k_code (fst (run_tx k ops)) (ka_code x) = true.
Proof. exact code_retrievable_after_tx. Qed.
Print Assumptions C03_code_retrievable_after_tx.

Theorem C03_shared_code_survives_selfdestruct_nonvacuous :
  let k := fst (run_txs empty_keeper ex_shared) in
  k_acct k 1 = None /\ option_map ka_code (k_acct k 2) = Some 3 /\ k_code k 3 = true.
Proof. exact ex_shared_code_survives. Qed.
Print Assumptions C03_shared_code_survives_selfdestruct_nonvacuous.

(** The boolean protocol check evaluated on traces (finite key universe) implies the Prop-level
    hypotheses of the theorems, for cases that only write storage keys of their universe; hence a
    checked trace satisfies the hypothesis of the history theorem. *)
Theorem C03_boolean_protocol_check_sound :
  forall as_ ks txs w, Forall (Forall (op_keys_in ks)) txs -> wsupp ks w ->
  wf_txs_b as_ ks w txs = true -> ref_hist_wf w txs.
Proof. exact wf_txs_b_sound. Qed.
Print Assumptions C03_boolean_protocol_check_sound.

Theorem C03_checked_trace_meets_theorem :
  forall t, Forall (Forall (op_keys_in (t_keys t))) (t_txs t) ->
  wf_txs_b (t_addrs t) (t_keys t) empty_world (t_txs t) = true ->
  snd (run_txs empty_keeper (t_txs t)) = snd (ref_txs empty_world (t_txs t)) /\
  weq (world_of (fst (run_txs empty_keeper (t_txs t)))) (fst (ref_txs empty_world (t_txs t))).
Proof. exact checked_trace_meets_theorem. Qed.
Print Assumptions C03_checked_trace_meets_theorem.

(** The boolean checker evaluated on implementation traces is sound for [P]. *)
Theorem C03_checker_sound : forall t, Pb t = true -> P t.
Proof. exact Pb_sound. Qed.
Print Assumptions C03_checker_sound.

Theorem C03_program_checker_sound : forall n g, Pprog_b n g = true -> Pprog n g.
Proof. exact Pprog_b_sound. Qed.
Print Assumptions C03_program_checker_sound.

(** Non-vacuity: a concrete two-transaction history with a contract creation, nested frames, a
    reverted SSTORE/refund/log/SELFDESTRUCT frame meets all hypotheses. *)
Theorem C03_hypotheses_nonvacuous :
  kwf empty_keeper /\ hist_wf' empty_keeper [ex_ops; ex_tx2] /\ ref_hist_wf empty_world [ex_ops; ex_tx2].
Proof. exact (conj kwf_empty (conj ex_hist_nonvacuous ex_ref_hist_nonvacuous)). Qed.
Print Assumptions C03_hypotheses_nonvacuous.

(** * The message layer (Msg.v): histories of MsgEthereumTx, each delivered on its own cache-context
    branch of the block state (ante chain, then Keeper.EthereumTx; written back only on success),
    with the process-wide pointer Keeper.Bank.StateDB through which EthereumTx finds "the StateDB of
    the transaction being delivered". *)

(** When the published StateDB is forgotten on every return path ([deliver true]; the flag is
    re-extracted from the source, Gen/C03Oblig.v), delivery from a chain with no published StateDB
    is the pointer-free, branch-free specification — for histories of ANY length containing ANY mix
    of messages rejected by the ante chain (not an EOA, funds below gas*price+value, wrong nonce),
    rejected by ApplyEvmMsg (gas limit below the intrinsic gas) and executed — and no StateDB is
    left behind. *)
Theorem C03_message_delivery_is_specification :
  forall f ms st, ms_ptr st = None ->
  ms_blk (fst (deliver_hist true true f st ms)) = fst (spec_hist f (ms_blk st) ms) /\
  snd (deliver_hist true true f st ms) = snd (spec_hist f (ms_blk st) ms) /\
  ms_ptr (fst (deliver_hist true true f st ms)) = None.
Proof. exact deliver_hist_is_spec. Qed.
Print Assumptions C03_message_delivery_is_specification.

(** A rejected message leaves the block state exactly as it was (its branch is dropped). *)
Theorem C03_rejected_message_has_no_effect :
  forall c b f st m, snd (deliver c b f st m) = MRejected -> ms_blk (fst (deliver c b f st m)) = ms_blk st.
Proof. exact rejected_no_effect. Qed.
Print Assumptions C03_rejected_message_has_no_effect.

(** Message histories against the reference (go-ethereum's state transition on the reference
    world: preCheck + buyGas, intrinsic gas, one reference transaction, refundGas): for every
    history whose executed messages obey the interpreter's protocol and move whole unibi at whole-
    unibi gas prices, EVERY message gets the reference's verdict and, when executed, the reference's
    return value for every call; the block state is the reference's world at the end — and after
    every message (second theorem: every prefix). *)
Theorem C03_message_history_equals_reference :
  forall f ms k w, kwf k -> weq (world_of k) w -> msgs_wf w ms ->
  let r := deliver_hist true true f {| ms_blk := k; ms_ptr := None |} ms in
  snd r = snd (ref_hist w ms) /\ weq (world_of (ms_blk (fst r))) (fst (ref_hist w ms)) /\
  kwf (ms_blk (fst r)) /\ ms_ptr (fst r) = None.
Proof. exact messages_equal_reference. Qed.
Print Assumptions C03_message_history_equals_reference.

Theorem C03_message_history_equals_reference_after_every_message :
  forall f ms1 ms2 k w, kwf k -> weq (world_of k) w -> msgs_wf w (ms1 ++ ms2) ->
  weq (world_of (ms_blk (fst (deliver_hist true true f {| ms_blk := k; ms_ptr := None |} ms1)))) (fst (ref_hist w ms1)).
Proof. exact messages_equal_reference_after_every_message. Qed.
Print Assumptions C03_message_history_equals_reference_after_every_message.

(** The variant that forgets the published StateDB only on the success path ([deliver false]) is
    REFUTED: after a message whose gas limit is below the intrinsic gas, the next ordinary message
    reports the same verdict and return values as the specification, but runs on the rejected
    message's dropped branch — its SSTORE never reaches the block state. *)
Theorem C03_msgs_stale_statedb_refuted :
  let bad := deliver_hist false true true {| ms_blk := ex_k0; ms_ptr := None |} ex_msgs in
  let good := spec_hist true ex_k0 ex_msgs in
  snd bad = snd good /\
  snd good = [MRejected; MExecuted [[]; []; [0]; [0]; []; []; []]] /\
  k_stor (fst good) 2 0 = 5 /\ k_stor (ms_blk (fst bad)) 2 0 = 0.
Proof. exact stale_statedb_refuted. Qed.
Print Assumptions C03_msgs_stale_statedb_refuted.

(** THE ADMISSION DECISION.  The three tx types are one shape (base fee, tip, fee cap; legacy and
    access-list: tip = cap = gas price).  With the sender balance checked against TxData.Cost()
    = gas*feeCap + value ([ante true]; re-extracted from the source, Gen/C03Oblig.v) the ante chain
    admits a message exactly when go-ethereum's preCheck + buyGas does: the same function of sender
    code, nonce, balance, tip, fee cap, base fee, gas limit and value — for every message whose gas
    price / fee cap is not below the base fee ([amounts_nonneg]: tip, gas limit, value are unsigned). *)
Theorem C03_admission_equals_reference :
  forall f k w m, weq (world_of k) w -> cap_covers_base m -> amounts_nonneg m ->
  (ante true f k m = None <-> ref_buy w m = None).
Proof. exact admission_sim. Qed.
Print Assumptions C03_admission_equals_reference.

(** When the ante chain compares the FEE CAP itself with the base fee ([floor_check] = true) the
    admission decision is go-ethereum's for EVERY message: no side condition on the prices. *)
Theorem C03_admission_exact_with_fee_cap_floor :
  forall k w m, weq (world_of k) w -> amounts_nonneg m -> (ante true true k m = None <-> ref_buy w m = None).
Proof. exact admission_exact. Qed.
Print Assumptions C03_admission_exact_with_fee_cap_floor.

(** Without that side condition the statement is FALSE when the ante chain's "fee cap below base fee"
    test compares max(baseFee, feeCap) with the base fee ([floor_check] = false: it never fires): a legacy
    message with gas price 0 is admitted and charged at the base fee; the reference rejects it. *)
Theorem C03_admission_below_base_fee_refuted :
  ref_buy (world_of ex_k0) ex_m_lowprice = None /\ ante true true ex_k0 ex_m_lowprice = None /\
  option_map (fun k1 => option_map ka_bal (k_acct k1 1)) (ante true false ex_k0 ex_m_lowprice) = Some (Some (1000000 - 100000)).
Proof. exact admission_below_base_fee_refuted. Qed.
Print Assumptions C03_admission_below_base_fee_refuted.

(** The variant that checks the balance against the EFFECTIVE cost (gas * effective price + value) is
    REFUTED: a dynamic-fee transfer (fee cap 10 unibi, no tip, gas 21000, value 50000 unibi) from a
    sender holding 100000 unibi is an invalid message for the reference (insufficient funds for
    gas * feeCap + value, no effect) and for [ante true]; the variant executes it. *)
Theorem C03_msgs_effective_cost_admission_refuted :
  let st0 := {| ms_blk := ex_k_poor; ms_ptr := None |} in
  let bad := deliver_hist true false true st0 [ex_m_feecap] in
  snd (ref_hist (world_of ex_k_poor) [ex_m_feecap]) = [MRejected] /\
  snd (deliver_hist true true true st0 [ex_m_feecap]) = [MRejected] /\
  (exists rets, snd bad = [MExecuted rets]) /\
  option_map ka_nonce (k_acct (ms_blk (fst bad)) 1) = Some 1 /\
  option_map ka_bal (k_acct (ms_blk (fst bad)) 1) = Some (100000 - 21000 - 50000) /\
  option_map ka_bal (k_acct (ms_blk (fst bad)) 3) = Some 50000.
Proof. exact effective_cost_admission_refuted. Qed.
Print Assumptions C03_msgs_effective_cost_admission_refuted.

(** Non-vacuity: that very history (rejected for its gas limit, then an ordinary call) meets the
    hypotheses of the history theorem. *)
Theorem C03_message_hypotheses_nonvacuous : kwf ex_k0 /\ msgs_wf (world_of ex_k0) ex_msgs.
Proof. exact ex_msgs_nonvacuous. Qed.
Print Assumptions C03_message_hypotheses_nonvacuous.

(** The boolean checker evaluated on message-history traces is sound. *)
Theorem C03_message_checker_sound : forall c, Pmsgs_b c = true -> Pmsgs c.
Proof. exact Pmsgs_b_sound. Qed.
Print Assumptions C03_message_checker_sound.

(** * The standard precompiles 0x01..0x09 (Precompiles.v): InitPrecompiles copies one upstream price
    table; London rules = vm.PrecompiledContractsBerlin (which table the source names is an obligation
    over the regenerated facts, Gen/C03Oblig.v). *)

(** The Istanbul and Berlin tables price every standard precompile except MODEXP identically ... *)
Theorem C03_std_precompiles_istanbul_berlin_differ_only_in_modexp :
  forall a n, std_gas Istanbul a n = std_gas Berlin a n.
Proof. exact istanbul_berlin_same_prices. Qed.
Print Assumptions C03_std_precompiles_istanbul_berlin_differ_only_in_modexp.

(** ... the London price of MODEXP is the EIP-2565 formula with its floor of 200 gas ... *)
Theorem C03_modexp_london_price :
  forall blen elen mlen hb,
  modexp_gas Berlin blen elen mlen hb =
  Z.max 200 (ceil_div (Z.max blen mlen) 8 * ceil_div (Z.max blen mlen) 8 * Z.max (adj_exp_len elen hb) 1 / 3) /\
  200 <= modexp_gas Berlin blen elen mlen hb.
Proof. intros. split; [apply modexp_berlin_formula|apply modexp_berlin_floor]. Qed.
Print Assumptions C03_modexp_london_price.

(** ... and a map filled from the Istanbul (or Byzantium) table is REFUTED: MODEXP with 32-byte operands
    costs 13056 gas there, 1360 under London rules. *)
Theorem C03_istanbul_precompile_table_refuted :
  modexp_gas Berlin 32 32 32 256 = 1360 /\ modexp_gas Istanbul 32 32 32 256 = 13056 /\
  modexp_gas Byzantium 32 32 32 256 = 13056.
Proof. exact istanbul_modexp_pricing_refuted. Qed.
Print Assumptions C03_istanbul_precompile_table_refuted.
