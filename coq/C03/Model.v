(** C03 — executable model of Nibiru's x/evm/statedb.StateDB (journal, state-object cache,
    dirties, revisions, refund, logs, access list, commit) WITHOUT the precompile / cache-context
    layer (that layer is property C04).  No proofs in this file.

    Conventions: addresses, storage keys, words, code ids are [Z].  A contract code is identified
    with its hash (content addressed store), id 0 = empty code.  Balances of state objects are in
    wei, balances of the keeper (bank) in unibi = 10^12 wei.  Maps are total functions with [upd];
    where the Go code enumerates a map an explicit key list accompanies the function. *)
From Coq Require Import ZArith List Bool.
Import ListNotations.
Local Open Scope Z_scope.

Definition addr := Z.
Definition key := Z.
Definition word := Z.

Definition upd {V} (m : Z -> V) (k : Z) (v : V) : Z -> V :=
  fun k' => if Z.eqb k' k then v else m k'.

(** 1 unibi = 10^12 wei  (x/evm/const.go NativeToWei / WeiToNative) *)
Definition WEI : Z := 1000000000000.
Definition to_wei (n : Z) : Z := n * WEI.
(* big.Int.Quo truncates toward zero (only visible for negative balances, which the interpreter never produces) *)
Definition to_native (w : Z) : Z := Z.quot w WEI.

(** ** Backing keeper (x/evm/keeper/statedb.go): auth account + bank balance + AccState *)
Record kacct := { ka_bal : Z (* unibi *); ka_nonce : Z; ka_code : Z }.
(** [k_code]: the ContractBytecode table, keyed by code hash and SHARED by all accounts with that code *)
Record keeper := { k_acct : addr -> option kacct; k_stor : addr -> key -> word; k_code : Z -> bool }.

Definition empty_keeper : keeper := {| k_acct := fun _ => None; k_stor := fun _ _ => 0; k_code := fun _ => false |}.

(** ** stateObject (state_object.go) *)
Record obj := {
  bal : Z;                       (* account.BalanceWei *)
  nonce : Z;
  chash : Z;                     (* account.CodeHash (= the code, content addressed) *)
  dcode : bool;                  (* DirtyCode *)
  suicided : bool;
  origin : key -> option word;   (* OriginStorage *)
  dirty : key -> option word;    (* DirtyStorage *)
  dkeys : list key               (* keys of DirtyStorage *)
}.

Definition new_obj (b n c : Z) : obj :=
  {| bal := b; nonce := n; chash := c; dcode := false; suicided := false;
     origin := fun _ => None; dirty := fun _ => None; dkeys := [] |}.

Definition with_bal (o : obj) (b : Z) : obj :=
  {| bal := b; nonce := nonce o; chash := chash o; dcode := dcode o; suicided := suicided o;
     origin := origin o; dirty := dirty o; dkeys := dkeys o |}.
Definition with_nonce (o : obj) (n : Z) : obj :=
  {| bal := bal o; nonce := n; chash := chash o; dcode := dcode o; suicided := suicided o;
     origin := origin o; dirty := dirty o; dkeys := dkeys o |}.
Definition with_code (o : obj) (c : Z) : obj :=
  {| bal := bal o; nonce := nonce o; chash := c; dcode := true (* setCode: DirtyCode = true *); suicided := suicided o;
     origin := origin o; dirty := dirty o; dkeys := dkeys o |}.
Definition with_suicided (o : obj) (b : bool) : obj :=
  {| bal := bal o; nonce := nonce o; chash := chash o; dcode := dcode o; suicided := b;
     origin := origin o; dirty := dirty o; dkeys := dkeys o |}.
Definition with_dirty (o : obj) (k : key) (v : word) : obj :=
  {| bal := bal o; nonce := nonce o; chash := chash o; dcode := dcode o; suicided := suicided o;
     origin := origin o; dirty := upd (dirty o) k (Some v);
     dkeys := match dirty o k with Some _ => dkeys o | None => k :: dkeys o end |}.
Definition with_origin (o : obj) (k : key) (v : word) : obj :=
  {| bal := bal o; nonce := nonce o; chash := chash o; dcode := dcode o; suicided := suicided o;
     origin := upd (origin o) k (Some v); dirty := dirty o; dkeys := dkeys o |}.

(** ** journal entries (journal.go) *)
Inductive entry :=
| ECreate (a : addr)                           (* createObjectChange *)
| EReset (a : addr) (prev : obj)               (* resetObjectChange *)
| ESuicide (a : addr) (prev : bool) (prevbal : Z)
| EBalance (a : addr) (prev : Z)
| ENonce (a : addr) (prev : Z)
| ECode (a : addr) (prevhash : Z)
| EStorage (a : addr) (k : key) (prev : word)
| ERefund (prev : Z)
| ELog
| EAlAddr (a : addr)
| EAlSlot (a : addr) (k : key).

(** JournalChange.Dirtied *)
Definition dirtied (e : entry) : option addr :=
  match e with
  | ECreate a | ESuicide a _ _ | EBalance a _ | ENonce a _ | ECode a _ | EStorage a _ _ => Some a
  | EReset _ _ | ERefund _ | ELog | EAlAddr _ | EAlSlot _ _ => None
  end.

(** ** StateDB *)
Record sdb := {
  objs : addr -> option obj;      (* stateObjects *)
  journal : list entry;           (* Journal.entries, newest first *)
  dirties : addr -> Z;            (* Journal.dirties (absent = 0) *)
  touched : list addr;            (* every address that ever was a key of Journal.dirties *)
  refund : Z;
  logs : list Z;                  (* newest first *)
  al_addr : addr -> bool;         (* accessList.addresses *)
  al_slot : addr -> key -> bool;  (* accessList.slots *)
  kp : keeper
}.

Definition new_sdb (k : keeper) : sdb :=
  {| objs := fun _ => None; journal := []; dirties := fun _ => 0; touched := [];
     refund := 0; logs := []; al_addr := fun _ => false; al_slot := fun _ _ => false; kp := k |}.

Definition set_objs (s : sdb) (f : addr -> option obj) : sdb :=
  {| objs := f; journal := journal s; dirties := dirties s; touched := touched s;
     refund := refund s; logs := logs s; al_addr := al_addr s; al_slot := al_slot s; kp := kp s |}.
Definition set_obj (s : sdb) (a : addr) (o : obj) : sdb := set_objs s (upd (objs s) a (Some o)).
Definition del_obj (s : sdb) (a : addr) : sdb := set_objs s (upd (objs s) a None).
Definition set_refund (s : sdb) (r : Z) : sdb :=
  {| objs := objs s; journal := journal s; dirties := dirties s; touched := touched s;
     refund := r; logs := logs s; al_addr := al_addr s; al_slot := al_slot s; kp := kp s |}.
Definition set_logs (s : sdb) (l : list Z) : sdb :=
  {| objs := objs s; journal := journal s; dirties := dirties s; touched := touched s;
     refund := refund s; logs := l; al_addr := al_addr s; al_slot := al_slot s; kp := kp s |}.
Definition set_al (s : sdb) (fa : addr -> bool) (fs : addr -> key -> bool) : sdb :=
  {| objs := objs s; journal := journal s; dirties := dirties s; touched := touched s;
     refund := refund s; logs := logs s; al_addr := fa; al_slot := fs; kp := kp s |}.
Definition set_journal (s : sdb) (j : list entry) (d : addr -> Z) (t : list addr) : sdb :=
  {| objs := objs s; journal := j; dirties := d; touched := t;
     refund := refund s; logs := logs s; al_addr := al_addr s; al_slot := al_slot s; kp := kp s |}.

(** journal.append *)
Definition push (s : sdb) (e : entry) : sdb :=
  match dirtied e with
  | Some a => set_journal s (e :: journal s) (upd (dirties s) a (dirties s a + 1)) (a :: touched s)
  | None => set_journal s (e :: journal s) (dirties s) (touched s)
  end.

(** getStateObject: live object, or load from the keeper and cache it *)
Definition obj_of_kacct (ka : kacct) : obj := new_obj (to_wei (ka_bal ka)) (ka_nonce ka) (ka_code ka).

Definition get_obj (s : sdb) (a : addr) : option obj * sdb :=
  match objs s a with
  | Some o => (Some o, s)
  | None =>
    match k_acct (kp s) a with
    | None => (None, s)
    | Some ka => let o := obj_of_kacct ka in (Some o, set_obj s a o)
    end
  end.

Definition lookup (s : sdb) (a : addr) : option obj := fst (get_obj s a).

(** createObject *)
Definition create_object (s : sdb) (a : addr) : obj * option obj * sdb :=
  let '(prev, s1) := get_obj s a in
  let o := new_obj 0 0 0 in
  let s2 := match prev with
            | None => push s1 (ECreate a)
            | Some p => push s1 (EReset a p)
            end in
  (o, prev, set_obj s2 a o).

(** getOrNewStateObject *)
Definition get_or_new (s : sdb) (a : addr) : obj * sdb :=
  let '(o, s1) := get_obj s a in
  match o with
  | Some o => (o, s1)
  | None => let '(o, _, s2) := create_object s1 a in (o, s2)
  end.

(** committed / visible value of a slot of object [o] cached for address [a] *)
Definition comm (kp0 : keeper) (a : addr) (o : obj) (k : key) : word :=
  match origin o k with Some v => v | None => k_stor kp0 a k end.
Definition st (kp0 : keeper) (a : addr) (o : obj) (k : key) : word :=
  match dirty o k with Some v => v | None => comm kp0 a o k end.

(** stateObject.GetCommittedState fills OriginStorage *)
Definition cache_origin (kp0 : keeper) (a : addr) (o : obj) (k : key) : obj :=
  match origin o k with Some _ => o | None => with_origin o k (k_stor kp0 a k) end.
(** stateObject.GetState consults OriginStorage only when the slot is not dirty *)
Definition cache_state (kp0 : keeper) (a : addr) (o : obj) (k : key) : obj :=
  match dirty o k with Some _ => o | None => cache_origin kp0 a o k end.

(** ** return values: every vm.StateDB method returns a list of integers
    (unit = [], bool = [0]/[1], a Go panic = [-99]) *)
Definition ret := list Z.
Definition rbool (b : bool) : ret := [if b then 1 else 0].
Definition rpanic : ret := [-99].
Definition NOHASH : Z := -1.  (* common.Hash{} returned by GetCodeHash for a missing account *)

Definition is_empty (o : obj) : bool := (nonce o =? 0) && (bal o =? 0) && (chash o =? 0).

(** ** setters *)
Definition set_balance (s1 : sdb) (a : addr) (o : obj) (b : Z) : sdb :=
  set_obj (push s1 (EBalance a (bal o))) a (with_bal o b).

Definition add_balance (s : sdb) (a : addr) (amt : Z) : sdb :=
  let '(o, s1) := get_or_new s a in
  if amt =? 0 then s1 else set_balance s1 a o (bal o + amt).

Definition sub_balance (s : sdb) (a : addr) (amt : Z) : sdb :=
  let '(o, s1) := get_or_new s a in
  if amt =? 0 then s1 else set_balance s1 a o (bal o - amt).

Definition set_nonce (s : sdb) (a : addr) (n : Z) : sdb :=
  let '(o, s1) := get_or_new s a in
  set_obj (push s1 (ENonce a (nonce o))) a (with_nonce o n).

Definition set_code (s : sdb) (a : addr) (c : Z) : sdb :=
  let '(o, s1) := get_or_new s a in
  set_obj (push s1 (ECode a (chash o))) a (with_code o c).

Definition set_state (s : sdb) (a : addr) (k : key) (v : word) : sdb :=
  let '(o, s1) := get_or_new s a in
  let prev := st (kp s1) a o k in
  let o1 := cache_state (kp s1) a o k in
  if prev =? v then set_obj s1 a o1
  else set_obj (push s1 (EStorage a k prev)) a (with_dirty o1 k v).

Definition suicide (s : sdb) (a : addr) : sdb * ret :=
  let '(o, s1) := get_obj s a in
  match o with
  | None => (s1, rbool false)
  | Some o =>
    (set_obj (push s1 (ESuicide a (suicided o) (bal o))) a (with_bal (with_suicided o true) 0),
     rbool true)
  end.

Definition create_account (s : sdb) (a : addr) : sdb :=
  let '(o, prev, s1) := create_object s a in
  match prev with
  | Some p => set_obj s1 a (with_bal o (bal p))
  | None => s1
  end.

Definition add_refund (s : sdb) (g : Z) : sdb := set_refund (push s (ERefund (refund s))) (refund s + g).

Definition sub_refund (s : sdb) (g : Z) : sdb * ret :=
  let s1 := push s (ERefund (refund s)) in
  if refund s <? g then (s1, rpanic) else (set_refund s1 (refund s - g), []).

Definition add_log (s : sdb) (l : Z) : sdb := set_logs (push s ELog) (l :: logs s).

Definition add_addr_al (s : sdb) (a : addr) : sdb :=
  if al_addr s a then s
  else (* addresses[a] = -1: present, no slot map *)
    push (set_al s (upd (al_addr s) a true) (upd (al_slot s) a (fun _ => false))) (EAlAddr a).

Definition slot_present (s : sdb) (a : addr) (k : key) : bool := al_addr s a && al_slot s a k.

Definition add_slot_al (s : sdb) (a : addr) (k : key) : sdb :=
  let addr_mod := negb (al_addr s a) in
  let slot_mod := negb (slot_present s a k) in
  (* a fresh slot map is allocated when the address had none *)
  let slots_a := if al_addr s a then al_slot s a else (fun _ => false) in
  let s1 := set_al s (upd (al_addr s) a true) (upd (al_slot s) a (upd slots_a k true)) in
  let s2 := if addr_mod then push s1 (EAlAddr a) else s1 in
  if slot_mod then push s2 (EAlSlot a k) else s2.

Definition prepare_al (s : sdb) (sender : addr) (dst : option addr) (pre : list addr)
           (al : list (addr * list key)) : sdb :=
  let s1 := add_addr_al s sender in
  let s2 := match dst with Some d => add_addr_al s1 d | None => s1 end in
  let s3 := fold_left add_addr_al pre s2 in
  fold_left (fun s el => fold_left (fun s k => add_slot_al s (fst el) k) (snd el) (add_addr_al s (fst el))) al s3.

(** ** journal entry Revert; like the Go code every entry goes through getStateObject *)
Definition on_obj (s : sdb) (a : addr) (f : obj -> obj) : sdb :=
  let '(o, s1) := get_obj s a in
  match o with Some o => set_obj s1 a (f o) | None => s1 end.

Definition undo (e : entry) (s : sdb) : sdb :=
  match e with
  | ECreate a => del_obj s a
  | EReset a p => set_obj s a p
  | ESuicide a ps pb => on_obj s a (fun o => with_bal (with_suicided o ps) pb)
  | EBalance a pb => on_obj s a (fun o => with_bal o pb)
  | ENonce a pn => on_obj s a (fun o => with_nonce o pn)
  | ECode a ph => on_obj s a (fun o => with_code o ph)
  | EStorage a k pv => on_obj s a (fun o => with_dirty o k pv)
  | ERefund p => set_refund s p
  | ELog => set_logs s (tl (logs s))
  | EAlAddr a => set_al s (upd (al_addr s) a false) (al_slot s)
  | EAlSlot a k => set_al s (al_addr s) (upd (al_slot s) a (upd (al_slot s a) k false))
  end.

(** one iteration of journal.Revert's loop: revert the newest entry, drop its dirty count *)
Definition pop_undo (s : sdb) : sdb :=
  match journal s with
  | [] => s
  | e :: rest =>
    let s1 := undo e s in
    match dirtied e with
    | Some a => set_journal s1 rest (upd (dirties s1) a (dirties s1 a - 1)) (touched s1)
    | None => set_journal s1 rest (dirties s1) (touched s1)
    end
  end.

Fixpoint unwind_k (n : nat) (s : sdb) : sdb :=
  match n with O => s | S n' => unwind_k n' (pop_undo s) end.

(** journal.Revert(statedb, snapshot) *)
Definition unwind (n : nat) (s : sdb) : sdb := unwind_k (length (journal s) - n) s.

(** ** StateDB with revisions *)
Record full := {
  core : sdb;
  revs : list (Z * nat);   (* validRevisions, newest first: (id, journal length) *)
  next_rev : Z
}.

Definition new_full (k : keeper) : full := {| core := new_sdb k; revs := []; next_rev := 0 |}.
Definition with_core (f : full) (s : sdb) : full := {| core := s; revs := revs f; next_rev := next_rev f |}.

(** the revisions older than [id] and the journal index of [id] *)
Fixpoint find_rev (id : Z) (l : list (Z * nat)) : option (nat * list (Z * nat)) :=
  match l with
  | [] => None
  | (i, n) :: rest => if i =? id then Some (n, rest) else find_rev id rest
  end.

(** ** the vm.StateDB interface as a datatype *)
Inductive op :=
| OCreateAccount (a : addr)
| OSubBalance (a : addr) (v : Z)
| OAddBalance (a : addr) (v : Z)
| OGetBalance (a : addr)
| OGetNonce (a : addr)
| OSetNonce (a : addr) (n : Z)
| OGetCodeHash (a : addr)
| OGetCode (a : addr)
| OSetCode (a : addr) (c : Z)
| OGetCodeSize (a : addr)
| OAddRefund (g : Z)
| OSubRefund (g : Z)
| OGetRefund
| OGetCommittedState (a : addr) (k : key)
| OGetState (a : addr) (k : key)
| OSetState (a : addr) (k : key) (v : word)
| OSuicide (a : addr)
| OHasSuicided (a : addr)
| OExist (a : addr)
| OEmpty (a : addr)
| OAddrInAL (a : addr)
| OSlotInAL (a : addr) (k : key)
| OAddAddrAL (a : addr)
| OAddSlotAL (a : addr) (k : key)
| OPrepareAL (sender : addr) (dst : option addr) (pre : list addr) (al : list (addr * list key))
| OSnapshot
| ORevert (id : Z)
| OAddLog (l : Z)
| OLogs.

(** a read through getStateObject: the object gets cached *)
Definition read_obj (s : sdb) (a : addr) (f : option obj -> ret) : sdb * ret :=
  let '(o, s1) := get_obj s a in (s1, f o).

Definition get_state (s : sdb) (a : addr) (k : key) : sdb * ret :=
  let '(o, s1) := get_obj s a in
  match o with
  | None => (s1, [0])
  | Some o => (set_obj s1 a (cache_state (kp s1) a o k), [st (kp s1) a o k])
  end.

Definition get_committed (s : sdb) (a : addr) (k : key) : sdb * ret :=
  let '(o, s1) := get_obj s a in
  match o with
  | None => (s1, [0])
  | Some o => (set_obj s1 a (cache_origin (kp s1) a o k), [comm (kp s1) a o k])
  end.

Definition step_core (o : op) (s : sdb) : sdb * ret :=
  match o with
  | OCreateAccount a => (create_account s a, [])
  | OSubBalance a v => (sub_balance s a v, [])
  | OAddBalance a v => (add_balance s a v, [])
  | OGetBalance a => read_obj s a (fun o => match o with Some o => [bal o] | None => [0] end)
  | OGetNonce a => read_obj s a (fun o => match o with Some o => [nonce o] | None => [0] end)
  | OSetNonce a n => (set_nonce s a n, [])
  | OGetCodeHash a => read_obj s a (fun o => match o with Some o => [chash o] | None => [NOHASH] end)
  | OGetCode a => read_obj s a (fun o => match o with Some o => [chash o] | None => [0] end)
  | OSetCode a c => (set_code s a c, [])
  | OGetCodeSize a => read_obj s a (fun o => match o with Some o => [chash o] | None => [0] end)
  | OAddRefund g => (add_refund s g, [])
  | OSubRefund g => sub_refund s g
  | OGetRefund => (s, [refund s])
  | OGetCommittedState a k => get_committed s a k
  | OGetState a k => get_state s a k
  | OSetState a k v => (set_state s a k v, [])
  | OSuicide a => suicide s a
  | OHasSuicided a => read_obj s a (fun o => match o with Some o => rbool (suicided o) | None => rbool false end)
  | OExist a => read_obj s a (fun o => match o with Some _ => rbool true | None => rbool false end)
  | OEmpty a => read_obj s a (fun o => match o with Some o => rbool (is_empty o) | None => rbool true end)
  | OAddrInAL a => (s, rbool (al_addr s a))
  | OSlotInAL a k => (s, rbool (al_addr s a) ++ rbool (slot_present s a k))
  | OAddAddrAL a => (add_addr_al s a, [])
  | OAddSlotAL a k => (add_slot_al s a k, [])
  | OPrepareAL sd dst pre al => (prepare_al s sd dst pre al, [])
  | OAddLog l => (add_log s l, [])
  | OLogs => (s, rev (logs s))
  | OSnapshot | ORevert _ => (s, [])   (* handled by [step] *)
  end.

Definition step (o : op) (f : full) : full * ret :=
  match o with
  | OSnapshot =>
    ({| core := core f; revs := (next_rev f, length (journal (core f))) :: revs f;
        next_rev := next_rev f + 1 |}, [next_rev f])
  | ORevert id =>
    match find_rev id (revs f) with
    | None => (f, rpanic)
    | Some (n, older) => ({| core := unwind n (core f); revs := older; next_rev := next_rev f |}, [])
    end
  | _ => let '(s, r) := step_core o (core f) in (with_core f s, r)
  end.

Fixpoint run (ops : list op) (f : full) : full * list ret :=
  match ops with
  | [] => (f, [])
  | o :: rest =>
    let '(f1, r) := step o f in
    let '(f2, rs) := run rest f1 in (f2, r :: rs)
  end.

(** ** Commit (statedb.go commitCtx with final = true and no cache context) *)
Definition nodup_z (l : list Z) : list Z := nodup Z.eq_dec l.

Definition kset_acct (k : keeper) (a : addr) (v : option kacct) : keeper :=
  {| k_acct := upd (k_acct k) a v; k_stor := k_stor k; k_code := k_code k |}.
Definition kset_stor (k : keeper) (a : addr) (ky : key) (v : word) : keeper :=
  {| k_acct := k_acct k; k_stor := upd (k_stor k) a (upd (k_stor k a) ky v); k_code := k_code k |}.
(** Keeper.SetCode: store the bytecode under its hash (empty code: nothing to store) *)
Definition kset_code (k : keeper) (h : Z) : keeper :=
  {| k_acct := k_acct k; k_stor := k_stor k; k_code := upd (k_code k) h true |}.
(** Keeper.DeleteAccount: balance, storage and auth account removed (nothing when there is no account);
    the bytecode table is NOT touched — other accounts may share the code *)
Definition kdelete (k : keeper) (a : addr) : keeper :=
  match k_acct k a with
  | None => k
  | Some _ => {| k_acct := upd (k_acct k) a None; k_stor := upd (k_stor k) a (fun _ => 0); k_code := k_code k |}
  end.

(** Go: [obj.OriginStorage[key]] — a plain map read, the zero hash when the key is not cached *)
Definition origin_or_zero (o : obj) (k : key) : word :=
  match origin o k with Some v => v | None => 0 end.

Definition commit_obj (k : keeper) (a : addr) (o : obj) : keeper :=
  if suicided o then kdelete k a
  else
    (* obj.code != nil && obj.DirtyCode *)
    let k0 := if dcode o && negb (chash o =? 0) then kset_code k (chash o) else k in
    let k1 := kset_acct k0 a (Some {| ka_bal := to_native (bal o); ka_nonce := nonce o; ka_code := chash o |}) in
    fold_left (fun k ky =>
                 match dirty o ky with
                 | Some v => if v =? origin_or_zero o ky then k else kset_stor k a ky v
                 | None => k
                 end) (dkeys o) k1.

(** the keeper after Commit; [objs] are read through getStateObject as in Go *)
Definition commit (s : sdb) : keeper :=
  fold_left (fun k a =>
               if 0 <? dirties s a then
                 match lookup s a with
                 | Some o => commit_obj k a o
                 | None => k
                 end
               else k) (nodup_z (touched s)) (kp s).

(** Commit returns an error (after a partial write) when an object to be written has a negative
    unibi balance: SetAccBalance would have to burn more than the bank holds.  The interpreter never
    overdraws (CanTransfer); this is only reachable by protocol-violating call sequences. *)
Definition commit_fails (s : sdb) : bool :=
  existsb (fun a => (0 <? dirties s a) &&
                    match lookup s a with
                    | Some o => negb (suicided o) && (to_native (bal o) <? 0)
                    | None => false
                    end) (nodup_z (touched s)).

(** one transaction: fresh StateDB over the keeper, the ops, Commit *)
Definition run_tx (k : keeper) (ops : list op) : keeper * list ret :=
  let '(f, rs) := run ops (new_full k) in (commit (core f), rs).

Fixpoint run_txs (k : keeper) (txs : list (list op)) : keeper * list (list ret) :=
  match txs with
  | [] => (k, [])
  | t :: rest =>
    let '(k1, rs) := run_tx k t in
    let '(k2, rss) := run_txs k1 rest in (k2, rs :: rss)
  end.

(** ** ApplyEvmMsg arithmetic (msg_server.go, gas_fees.go) *)
Definition gas_to_refund (quot available gas_used : Z) : Z :=
  let r := gas_used / quot in if available <? r then available else r.

(** ParseWeiAsMultipleOfMicronibi: None = error *)
Definition parse_wei (w : Z) : option Z :=
  if w <=? 0 then Some w else if w <? WEI then None else Some (to_wei (to_native w)).
