(** C03 — the journal / commit DISCIPLINE the model is written from, as data.
    coq/Gen/C03Facts.v is re-extracted from /repo on every check (harness/gen/c03, go/ast with a
    normal form that survives behaviour-preserving rewrites); coq/Gen/C03Oblig.v proves that the
    extracted tables equal the tables below.  A change of which entry a mutator journals, with which
    previous value, before or after the mutation, under which condition, what a Revert restores, what
    Dirtied returns, or what Commit / DeleteAccount write, changes the extracted term and breaks the
    obligation.  This file is maintained by hand, side by side with Model.v. *)
From Coq Require Import String List Bool ZArith.
Import ListNotations.
Require Import Nib.C03.Model.
Open Scope string_scope.

(** ** journal entry types: name, fields, what Dirtied() returns
    Model.v [entry] has one constructor per row, with the same stored fields, and [dirtied]
    returns the account exactly for the rows whose third component is "recv.account"
    (theorems [entry_types_cover_model], [dirtied_matches_table] below). *)
Definition model_entry_types : list (string * list string * string) := [
  ("accessListAddAccountChange", ["address"], "nil");
  ("accessListAddSlotChange", ["address"; "slot"], "nil");
  ("addLogChange", [], "nil");
  ("balanceChange", ["account"; "prevWei"], "recv.account");
  ("codeChange", ["account"; "prevcode"; "prevhash"], "recv.account");
  ("createObjectChange", ["account"], "recv.account");
  ("nonceChange", ["account"; "prev"], "recv.account");
  ("refundChange", ["prev"], "nil");
  ("resetObjectChange", ["prev"], "nil");
  ("storageChange", ["account"; "key"; "prevalue"], "recv.account");
  ("suicideChange", ["account"; "prev"; "prevbalance"], "recv.account")
].
(** ** per function: guarded effects and, per boolean result, the DNF of its truth condition.
    Reading guide (Go row -> Model.v definition):
      X.Revert                      -> the clause of [undo] for the entry (through [on_obj] = getStateObject)
      journal.append / journal.Revert -> [push] (dirties[a]++) / [pop_undo] (Revert, dirties[a]--, delete at 0)
      "journal pre T{f=e}"          -> [push s (T ... e ...)] placed BEFORE the state update in the op
                                       ("post" would mean prev is read after the update: never in the model)
      StateDB.createObject / CreateAccount -> [create_object] / [create_account]
      StateDB.Suicide               -> [suicide];  AddRefund/SubRefund -> [add_refund] / [sub_refund] (push, then panic test)
      StateDB.AddLog                -> [add_log];  Snapshot/RevertToSnapshot -> [step] clauses
      StateDB.Add*ToAccessList + accessList.* -> [add_addr_al], [add_slot_al], [slot_present], undo of EAlAddr/EAlSlot
      stateObject.Set*/AddBalance/SubBalance/SetState/GetCommittedState -> [set_balance], [add_balance] (zero amount: no entry),
                                       [set_nonce], [set_code], [set_state] (unchanged value: no entry), [cache_origin]
      StateDB.commitCtx + Keeper.*  -> [commit], [commit_obj] (skip test = [origin_or_zero]), [kdelete] (account + storage,
                                       NOT the code table), [kset_acct], [kset_stor] *)
Definition model_functions : list (string * (list (string * list (string * bool)) * list (list (list (string * bool))))) := [
  ("accessListAddAccountChange.Revert", ([
    ("call p0.accessList.DeleteAddress(recv.address)", [])
  ], []));
  ("accessListAddSlotChange.Revert", ([
    ("call p0.accessList.DeleteSlot(recv.address,recv.slot)", [])
  ], []));
  ("addLogChange.Revert", ([
    ("set p0.logs := p0.logs[:(len(p0.logs)-1)]", [])
  ], []));
  ("balanceChange.Revert", ([
    ("call p0.getStateObject(recv.account).setBalance(recv.prevWei)", [])
  ], []));
  ("codeChange.Revert", ([
    ("call p0.getStateObject(recv.account).setCode(common.BytesToHash(recv.prevhash),recv.prevcode)", [])
  ], []));
  ("createObjectChange.Revert", ([
    ("call delete(p0.stateObjects,recv.account)", [])
  ], []));
  ("nonceChange.Revert", ([
    ("call p0.getStateObject(recv.account).setNonce(recv.prev)", [])
  ], []));
  ("refundChange.Revert", ([
    ("set p0.refund := recv.prev", [])
  ], []));
  ("resetObjectChange.Revert", ([
    ("set p0.stateObjects[recv.prev.Address()] := recv.prev", [])
  ], []));
  ("storageChange.Revert", ([
    ("call p0.getStateObject(recv.account).setState(recv.key,recv.prevalue)", [])
  ], []));
  ("suicideChange.Revert", ([
    ("call p0.getStateObject(recv.account).setBalance(recv.prevbalance)", [("eq(nil,p0.getStateObject(recv.account))", false)]);
    ("set p0.getStateObject(recv.account).Suicided := recv.prev", [("eq(nil,p0.getStateObject(recv.account))", false)])
  ], []));
  ("journal.append", ([
    ("set recv.dirties[p0.Dirtied()]++", [("eq(nil,p0.Dirtied())", false)]);
    ("set recv.entries := append(recv.entries,p0)", [])
  ], []));
  ("journal.Revert", ([
    ("call recv.entries[(len(recv.entries)-1)].Revert(p0)", [("loop", true)]);
    ("dec recv.dirties[recv.entries[(len(recv.entries)-1)].Dirtied()] (delete the entry at zero)", [("eq(nil,recv.entries[(len(recv.entries)-1)].Dirtied())", false); ("loop", true)]);
    ("set recv.entries := recv.entries[:p1]", [])
  ], []));
  ("journal.sortedDirties", ([
    ("sort by bytes.Compare", [])
  ], []));
  ("StateDB.AddLog", ([
    ("journal pre addLogChange{}", []);
    ("set recv.logs := append(recv.logs,p0)", [])
  ], []));
  ("StateDB.AddRefund", ([
    ("journal pre refundChange{prev=recv.refund}", []);
    ("set recv.refund := +=p0", [])
  ], []));
  ("StateDB.SubRefund", ([
    ("journal pre refundChange{prev=recv.refund}", []);
    ("panic", [("lt(recv.refund,p0)", true)]);
    ("set recv.refund := -=p0", [("lt(recv.refund,p0)", false)])
  ], []));
  ("StateDB.createObject", ([
    ("journal pre createObjectChange{account=p0}", [("eq(nil,recv.getStateObject(p0))", true)]);
    ("journal pre resetObjectChange{prev=recv.getStateObject(p0)}", [("eq(nil,recv.getStateObject(p0))", false)]);
    ("set recv.stateObjects[newObject(recv,p0,Account{}).Address()] := newObject(recv,p0,Account{})", [])
  ], []));
  ("StateDB.CreateAccount", ([
    ("call recv.createObject(p0)", []);
    ("call recv.createObject(p0)#0.setBalance(recv.createObject(p0)#1.account.BalanceWei)", [("eq(nil,recv.createObject(p0)#1)", false)])
  ], []));
  ("StateDB.Suicide", ([
    ("journal pre suicideChange{account=p0;prev=recv.getStateObject(p0).Suicided;prevbalance=recv.getStateObject(p0).Balance()}", [("eq(nil,recv.getStateObject(p0))", false)]);
    ("set recv.getStateObject(p0).Suicided := true", [("eq(nil,recv.getStateObject(p0))", false)]);
    ("set recv.getStateObject(p0).account.BalanceWei := new(big.Int)", [("eq(nil,recv.getStateObject(p0))", false)])
  ], [[[("eq(nil,recv.getStateObject(p0))", false)]]]));
  ("StateDB.AddAddressToAccessList", ([
    ("journal pre accessListAddAccountChange{address=p0}", [("recv.accessList.AddAddress(p0)", true)])
  ], []));
  ("StateDB.AddSlotToAccessList", ([
    ("call recv.accessList.AddSlot(p0,p1)", []);
    ("journal pre accessListAddAccountChange{address=p0}", [("recv.accessList.AddSlot(p0,p1)#0", true)]);
    ("journal pre accessListAddSlotChange{address=p0;slot=p1}", [("recv.accessList.AddSlot(p0,p1)#1", true)])
  ], []));
  ("StateDB.Snapshot", ([
    ("set recv.nextRevisionID++", []);
    ("set recv.validRevisions := append(recv.validRevisions,revision{id=recv.nextRevisionID;journalIndex=recv.Journal.Length()})", [])
  ], []));
  ("StateDB.RevertToSnapshot", ([
    ("call recv.Journal.Revert(recv,recv.validRevisions[sort.Search(len(recv.validRevisions),func)].journalIndex)", [("eq(len(recv.validRevisions),sort.Search(len(recv.validRevisions),func))", false); ("eq(p0,recv.validRevisions[sort.Search(len(recv.validRevisions),func)].id)", true)]);
    ("panic", [("eq(len(recv.validRevisions),sort.Search(len(recv.validRevisions),func))", true)]);
    ("panic", [("eq(p0,recv.validRevisions[sort.Search(len(recv.validRevisions),func)].id)", false)]);
    ("set recv.validRevisions := recv.validRevisions[:sort.Search(len(recv.validRevisions),func)]", [("eq(len(recv.validRevisions),sort.Search(len(recv.validRevisions),func))", false); ("eq(p0,recv.validRevisions[sort.Search(len(recv.validRevisions),func)].id)", true)])
  ], []));
  ("StateDB.Commit", ([
    ("call recv.writeToCommitCtxFromCacheCtx()", [("eq(nil,recv.writeToCommitCtxFromCacheCtx)", false)])
  ], []));
  ("StateDB.commitCtx", ([
    ("call delete(recv.stateObjects,ADDR)", [("OBJ.Suicided", true); ("eq(nil,OBJ)", false); ("p1", true); ("range(recv.Journal.sortedDirties())", true)]);
    ("call recv.keeper.DeleteAccount(p0,OBJ.Address())", [("OBJ.Suicided", true); ("eq(nil,OBJ)", false); ("range(recv.Journal.sortedDirties())", true)]);
    ("call recv.keeper.SetAccount(p0,OBJ.Address(),OBJ.account.ToNative())", [("OBJ.Suicided", false); ("eq(nil,OBJ)", false); ("range(recv.Journal.sortedDirties())", true)]);
    ("call recv.keeper.SetCode(p0,OBJ.CodeHash(),OBJ.code)", [("OBJ.DirtyCode", true); ("OBJ.Suicided", false); ("eq(nil,OBJ)", false); ("eq(nil,OBJ.code)", false); ("range(recv.Journal.sortedDirties())", true)]);
    ("call recv.keeper.SetState(p0,OBJ.Address(),KEY,OBJ.DirtyStorage[KEY].Bytes())", [("OBJ.Suicided", false); ("eq(OBJ.DirtyStorage[KEY],OBJ.OriginStorage[KEY])", false); ("eq(nil,OBJ)", false); ("range(OBJ.DirtyStorage.SortedKeys())", true); ("range(recv.Journal.sortedDirties())", true)]);
    ("call recv.keeper.SetState(p0,OBJ.Address(),KEY,OBJ.DirtyStorage[KEY].Bytes())", [("OBJ.Suicided", false); ("eq(nil,OBJ)", false); ("eq(nil,recv.writeToCommitCtxFromCacheCtx)", false); ("range(OBJ.DirtyStorage.SortedKeys())", true); ("range(recv.Journal.sortedDirties())", true)]);
    ("call recv.keeper.SetState(p0,OBJ.Address(),KEY,OBJ.DirtyStorage[KEY].Bytes())", [("OBJ.Suicided", false); ("eq(nil,OBJ)", false); ("p1", false); ("range(OBJ.DirtyStorage.SortedKeys())", true); ("range(recv.Journal.sortedDirties())", true)]);
    ("set OBJ.OriginStorage[KEY] := OBJ.DirtyStorage[KEY]", [("OBJ.Suicided", false); ("eq(OBJ.DirtyStorage[KEY],OBJ.OriginStorage[KEY])", false); ("eq(nil,OBJ)", false); ("p1", true); ("range(OBJ.DirtyStorage.SortedKeys())", true); ("range(recv.Journal.sortedDirties())", true)]);
    ("set OBJ.OriginStorage[KEY] := OBJ.DirtyStorage[KEY]", [("OBJ.Suicided", false); ("eq(nil,OBJ)", false); ("eq(nil,recv.writeToCommitCtxFromCacheCtx)", false); ("p1", true); ("range(OBJ.DirtyStorage.SortedKeys())", true); ("range(recv.Journal.sortedDirties())", true)]);
    ("set recv.Journal.dirties[ADDR] := 0", [("range(recv.Journal.sortedDirties())", true)])
  ], []));
  ("StateDB.AddBalance", ([
    ("call recv.getOrNewStateObject(p0)", []);
    ("call recv.getOrNewStateObject(p0).AddBalance(p1)", [("eq(nil,recv.getOrNewStateObject(p0))", false)])
  ], []));
  ("StateDB.SubBalance", ([
    ("call recv.getOrNewStateObject(p0)", []);
    ("call recv.getOrNewStateObject(p0).SubBalance(p1)", [("eq(nil,recv.getOrNewStateObject(p0))", false)])
  ], []));
  ("StateDB.SetNonce", ([
    ("call recv.getOrNewStateObject(p0)", []);
    ("call recv.getOrNewStateObject(p0).SetNonce(p1)", [("eq(nil,recv.getOrNewStateObject(p0))", false)])
  ], []));
  ("StateDB.SetCode", ([
    ("call recv.getOrNewStateObject(p0)", []);
    ("call recv.getOrNewStateObject(p0).SetCode(crypto.Keccak256Hash(p1),p1)", [("eq(nil,recv.getOrNewStateObject(p0))", false)])
  ], []));
  ("StateDB.SetState", ([
    ("call recv.getOrNewStateObject(p0)", []);
    ("call recv.getOrNewStateObject(p0).SetState(p1,p2)", [("eq(nil,recv.getOrNewStateObject(p0))", false)])
  ], []));
  ("stateObject.AddBalance", ([
    ("call recv.SetBalance(new(big.Int).Add(recv.Balance(),p0))", [("eq(0,p0.Sign())", false)])
  ], []));
  ("stateObject.SubBalance", ([
    ("call recv.SetBalance(new(big.Int).Sub(recv.Balance(),p0))", [("eq(0,p0.Sign())", false)])
  ], []));
  ("stateObject.SetBalance", ([
    ("call recv.setBalance(p0)", []);
    ("journal pre balanceChange{account=recv.address;prevWei=recv.account.BalanceWei}", [])
  ], []));
  ("stateObject.SetNonce", ([
    ("call recv.setNonce(p0)", []);
    ("journal pre nonceChange{account=recv.address;prev=recv.account.Nonce}", [])
  ], []));
  ("stateObject.SetCode", ([
    ("call recv.setCode(p0,p1)", []);
    ("journal pre codeChange{account=recv.address;prevcode=recv.Code();prevhash=recv.CodeHash()}", [])
  ], []));
  ("stateObject.SetState", ([
    ("call recv.setState(p0,p1)", [("eq(p1,recv.GetState(p0))", false)]);
    ("journal pre storageChange{account=recv.address;key=p0;prevalue=recv.GetState(p0)}", [("eq(p1,recv.GetState(p0))", false)])
  ], []));
  ("stateObject.GetState", ([

  ], []));
  ("stateObject.GetCommittedState", ([
    ("call recv.db.keeper.GetState(recv.db.evmTxCtx,recv.Address(),p0)", [("has(recv.OriginStorage[p0])", false)]);
    ("set recv.OriginStorage[p0] := recv.db.keeper.GetState(recv.db.evmTxCtx,recv.Address(),p0)", [("has(recv.OriginStorage[p0])", false)])
  ], []));
  ("stateObject.setBalance", ([
    ("set recv.account.BalanceWei := p0", [])
  ], []));
  ("stateObject.setNonce", ([
    ("set recv.account.Nonce := p0", [])
  ], []));
  ("stateObject.setCode", ([
    ("set recv.DirtyCode := true", []);
    ("set recv.account.CodeHash := p0[:]", []);
    ("set recv.code := p1", [])
  ], []));
  ("stateObject.setState", ([
    ("set recv.DirtyStorage[p0] := p1", [])
  ], []));
  ("stateObject.isEmpty", ([

  ], [[[("bytes.Equal(recv.account.CodeHash,emptyCodeHash)", true); ("eq(0,recv.account.BalanceWei.Sign())", true); ("eq(0,recv.account.Nonce)", true)]]]));
  ("StateDB.Empty", ([

  ], [[[("eq(nil,recv.getStateObject(p0))", true)]; [("recv.getStateObject(p0).isEmpty()", true)]]]));
  ("StateDB.Exist", ([

  ], [[[("eq(nil,recv.getStateObject(p0))", false)]]]));
  ("StateDB.HasSuicided", ([

  ], [[[("eq(nil,recv.getStateObject(p0))", false); ("recv.getStateObject(p0).Suicided", true)]]]));
  ("accessList.AddAddress", ([
    ("set recv.addresses[p0] := -1", [("has(recv.addresses[p0])", false)])
  ], [[[("has(recv.addresses[p0])", false)]]]));
  ("accessList.AddSlot", ([
    ("set recv.addresses[p0] := len(recv.slots)", [("eq(-1,val(recv.addresses[p0]))", true)]);
    ("set recv.addresses[p0] := len(recv.slots)", [("has(recv.addresses[p0])", false)]);
    ("set recv.slots := append(recv.slots,map[common.Hash]struct{}{p1={}})", [("eq(-1,val(recv.addresses[p0]))", true)]);
    ("set recv.slots := append(recv.slots,map[common.Hash]struct{}{p1={}})", [("has(recv.addresses[p0])", false)]);
    ("set recv.slots[val(recv.addresses[p0])][p1] := struct{}{}", [("eq(-1,val(recv.addresses[p0]))", false); ("has(recv.addresses[p0])", true); ("has(recv.slots[val(recv.addresses[p0])][p1])", false)])
  ], [[[("has(recv.addresses[p0])", false)]]; [[("eq(-1,val(recv.addresses[p0]))", true)]; [("has(recv.addresses[p0])", false)]; [("has(recv.slots[val(recv.addresses[p0])][p1])", false)]]]));
  ("accessList.DeleteSlot", ([
    ("call delete(recv.slots[val(recv.addresses[p0])],p1)", [("has(recv.addresses[p0])", true)]);
    ("panic", [("has(recv.addresses[p0])", false)]);
    ("set recv.addresses[p0] := -1", [("eq(0,len(recv.slots[val(recv.addresses[p0])]))", true); ("has(recv.addresses[p0])", true)]);
    ("set recv.slots := recv.slots[:val(recv.addresses[p0])]", [("eq(0,len(recv.slots[val(recv.addresses[p0])]))", true); ("has(recv.addresses[p0])", true)])
  ], []));
  ("accessList.DeleteAddress", ([
    ("call delete(recv.addresses,p0)", [])
  ], []));
  ("accessList.Contains", ([

  ], [[[("has(recv.addresses[p0])", true)]]; [[("eq(-1,val(recv.addresses[p0]))", false); ("has(recv.addresses[p0])", true); ("has(recv.slots[val(recv.addresses[p0])][p1])", true)]]]));
  ("accessList.ContainsAddress", ([

  ], [[[("has(recv.addresses[p0])", true)]]]));
  ("Keeper.DeleteAccount", ([
    ("call recv.ForEachStorage(p0,p1,func)", [("eq(nil,recv.accountKeeper.GetAccount(p0,sdk.AccAddress(p1.Bytes())))", false); ("is(recv.accountKeeper.GetAccount(p0,sdk.AccAddress(p1.Bytes())).(eth.EthAccountI))", true)]);
    ("call recv.SetAccBalance(p0,p1,new(big.Int))", [("eq(nil,recv.accountKeeper.GetAccount(p0,sdk.AccAddress(p1.Bytes())))", false); ("is(recv.accountKeeper.GetAccount(p0,sdk.AccAddress(p1.Bytes())).(eth.EthAccountI))", true)]);
    ("call recv.SetState(p0,p1,key,nil)", [("callback(recv.ForEachStorage)", true); ("eq(nil,recv.accountKeeper.GetAccount(p0,sdk.AccAddress(p1.Bytes())))", false); ("is(recv.accountKeeper.GetAccount(p0,sdk.AccAddress(p1.Bytes())).(eth.EthAccountI))", true)]);
    ("call recv.accountKeeper.GetAccount(p0,sdk.AccAddress(p1.Bytes()))", []);
    ("call recv.accountKeeper.RemoveAccount(p0,recv.accountKeeper.GetAccount(p0,sdk.AccAddress(p1.Bytes())))", [("eq(nil,recv.accountKeeper.GetAccount(p0,sdk.AccAddress(p1.Bytes())))", false); ("is(recv.accountKeeper.GetAccount(p0,sdk.AccAddress(p1.Bytes())).(eth.EthAccountI))", true)])
  ], []));
  ("Keeper.SetAccount", ([
    ("call recv.SetAccBalance(p0,p1,p2.BalanceNative)", []);
    ("call recv.accountKeeper.GetAccount(p0,sdk.AccAddress(p1.Bytes()))", []);
    ("call recv.accountKeeper.GetAccount(p0,sdk.AccAddress(p1.Bytes())).(eth.EthAccountI).SetCodeHash(gethcommon.BytesToHash(p2.CodeHash))", [("is(recv.accountKeeper.GetAccount(p0,sdk.AccAddress(p1.Bytes())).(eth.EthAccountI))", true)]);
    ("call recv.accountKeeper.GetAccount(p0,sdk.AccAddress(p1.Bytes())).SetSequence(p2.Nonce)", []);
    ("call recv.accountKeeper.NewAccountWithAddress(p0,sdk.AccAddress(p1.Bytes()))", [("eq(nil,recv.accountKeeper.GetAccount(p0,sdk.AccAddress(p1.Bytes())))", true)]);
    ("call recv.accountKeeper.SetAccount(p0,recv.accountKeeper.GetAccount(p0,sdk.AccAddress(p1.Bytes())))", []);
    ("set recv.accountKeeper.GetAccount(p0,sdk.AccAddress(p1.Bytes())) := recv.accountKeeper.NewAccountWithAddress(p0,sdk.AccAddress(p1.Bytes()))", [("eq(nil,recv.accountKeeper.GetAccount(p0,sdk.AccAddress(p1.Bytes())))", true)])
  ], []));
  ("Keeper.SetState", ([
    ("call recv.EvmState.SetAccState(p0,p1,p2,p3)", [])
  ], []));
  ("Keeper.SetCode", ([
    ("call recv.EvmState.SetAccCode(p0,p1,p2)", [])
  ], []))
].

(** ** big.Int aliasing discipline.
    The Gallina model has immutable integers; that is a faithful reading of the Go code only if no
    stored balance is ever updated IN PLACE, because balance pointers are shared: CreateAccount hands
    the previous object's pointer to the new object ("shared" row), Balance() returns the stored
    pointer ("alias"), reverts re-install the pointer kept by the journal entry.  Every update must
    store a FRESH big.Int ("fresh" rows) and journal entries must keep their own COPY. *)
Definition model_bigint : list (string * string) := [
  ("assign", "StateDB.CreateAccount: setBalance shared recv.createObject(p0)#1.account.BalanceWei");
  ("assign", "StateDB.SetBalanceWei: SetBalance param");
  ("assign", "StateDB.Suicide: BalanceWei := fresh new(big.Int)");
  ("assign", "balanceChange.Revert: setBalance entry recv.prevWei");
  ("assign", "newObject: BalanceNative := fresh new(big.Int)");
  ("assign", "stateObject.AddBalance: SetBalance fresh new(big.Int).Add(recv.Balance(),p0)");
  ("assign", "stateObject.SetBalance: setBalance param");
  ("assign", "stateObject.SubBalance: SetBalance fresh new(big.Int).Sub(recv.Balance(),p0)");
  ("assign", "stateObject.setBalance: BalanceWei := param");
  ("assign", "suicideChange.Revert: setBalance entry recv.prevbalance");
  ("getter", "stateObject.Balance alias recv.account.BalanceWei");
  ("journal-prev", "balanceChange.prevWei copy");
  ("journal-prev", "suicideChange.prevbalance copy")
].

Definition no_inplace (t : list (string * string)) : bool :=
  forallb (fun r => negb (String.eqb (fst r) "inplace")) t.
Lemma model_no_inplace : no_inplace model_bigint = true.
Proof. reflexivity. Qed.

(** ** link to the Gallina definitions *)
Definition entry_name (e : entry) : string :=
  match e with
  | ECreate _ => "createObjectChange" | EReset _ _ => "resetObjectChange" | ESuicide _ _ _ => "suicideChange"
  | EBalance _ _ => "balanceChange" | ENonce _ _ => "nonceChange" | ECode _ _ => "codeChange"
  | EStorage _ _ _ => "storageChange" | ERefund _ => "refundChange" | ELog => "addLogChange"
  | EAlAddr _ => "accessListAddAccountChange" | EAlSlot _ _ => "accessListAddSlotChange"
  end.

Definition model_entry_names : list string :=
  ["accessListAddAccountChange"; "accessListAddSlotChange"; "addLogChange"; "balanceChange"; "codeChange";
   "createObjectChange"; "nonceChange"; "refundChange"; "resetObjectChange"; "storageChange"; "suicideChange"].

Fixpoint table_dirtied (n : string) (t : list (string * list string * string)) : option string :=
  match t with
  | [] => None
  | (m, _, d) :: rest => if String.eqb n m then Some d else table_dirtied n rest
  end.

(** every row of the table is a constructor of [entry] and vice versa *)
Lemma entry_types_cover_model : map (fun r => fst (fst r)) model_entry_types = model_entry_names.
Proof. reflexivity. Qed.
Lemma entry_name_in_table e : In (entry_name e) model_entry_names.
Proof. destruct e; simpl; tauto. Qed.

(** [dirtied] charges the account exactly where the Go Dirtied() returns the entry's account *)
Lemma dirtied_matches_table e :
  table_dirtied (entry_name e) model_entry_types =
  Some (match dirtied e with Some _ => "recv.account" | None => "nil" end).
Proof. destruct e; reflexivity. Qed.

Definition get_fn {A} (n : string) (l : list (string * A)) : option A :=
  match find (fun r => String.eqb n (fst r)) l with Some r => Some (snd r) | None => None end.
