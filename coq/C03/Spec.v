(** C03 — the property.  (1) Prop level: the usage protocol [wf_step] the geth interpreter obeys
    and the statement shapes used by the theorems in Proofs*.v.  (2) Boolean level: the checker
    [Pb] evaluated on implementation traces (Nibiru StateDB vs go-ethereum core/state on the same
    call sequence), with [Pb_sound]. *)
From Coq Require Import ZArith List Bool Lia.
Import ListNotations.
Require Import Nib.C03.Model Nib.C03.Ref.
Local Open Scope Z_scope.

(** * 1. usage protocol (Prop) — stated on the REFERENCE state only *)

(** [base] = storage at the start of the transaction *)
Definition wf_create (base : addr -> key -> word) (v : view) (a : addr) : Prop :=
  (forall k, base a k = 0) /\
  match v_acct v a with
  | None => True
  | Some x => av_nonce x = 0 /\ av_code x = 0 /\ av_suic x = false /\ forall k, v_stor v a k = 0
  end.

Definition wf_step (base : addr -> key -> word) (r : ref) (o : op) : Prop :=
  match o with
  | OCreateAccount a => wf_create base (cur r) a      (* evm.create collision rule / Call to a missing account *)
  | OSubRefund g => g <= v_refund (cur r)             (* SSTORE refund bookkeeping never underflows *)
  | ORevert id => find_copy id (stack r) <> None      (* reverts target live snapshot ids *)
  | _ => True
  end.

Fixpoint wf_run (base : addr -> key -> word) (ops : list op) (r : ref) : Prop :=
  match ops with
  | [] => True
  | o :: rest => wf_step base r o /\ wf_run base rest (fst (rstep o r))
  end.

(** * 2. boolean checker over a finite universe of addresses / keys *)

Definition all_zero (ks : list key) (f : key -> word) : bool := forallb (fun k => f k =? 0) ks.

Definition wf_create_b (ks : list key) (base : addr -> key -> word) (v : view) (a : addr) : bool :=
  all_zero ks (base a) &&
  match v_acct v a with
  | None => true
  | Some x => (av_nonce x =? 0) && (av_code x =? 0) && negb (av_suic x) && all_zero ks (v_stor v a)
  end.

(** executing code: the account has code, or nonce 1 while its init code runs *)
Definition contract_like (x : aview) : bool := negb (av_code x =? 0) || negb (av_nonce x =? 0).

Definition divides_wei (x : Z) : bool := (0 <=? x) && (x mod WEI =? 0).

(** protocol + the property's side conditions (whole unibi amounts, no overdraft) + the two places
    where upstream geth's object deletion (EIP-158) makes [Exist]-dependent calls differ:
    SELFDESTRUCT and SSTORE are only executed by accounts with code or nonce, nonces never decrease
    and code is set once (so such an account cannot end the transaction empty — an empty account
    is deleted with its storage by geth), PrepareAccessList starts a tx *)
Definition wf_step_b (as_ : list addr) (ks : list key) (base : addr -> key -> word) (r : ref) (o : op) : bool :=
  let v := cur r in
  match o with
  | OCreateAccount a => wf_create_b ks base v a
  | OSubRefund g => g <=? v_refund v
  | ORevert id => match find_copy id (stack r) with Some _ => true | None => false end
  | OAddBalance a x => divides_wei x
  | OSubBalance a x => divides_wei x && (x <=? match v_acct v a with Some y => av_bal y | None => 0 end)
  | OSuicide a | OSetState a _ _ => match v_acct v a with Some y => contract_like y | None => false end
  | OSetNonce a n => match v_acct v a with Some y => av_nonce y <=? n | None => 0 <=? n end
  | OSetCode a c => match v_acct v a with Some y => av_code y =? 0 | None => true end
  | OPrepareAL _ _ _ _ => forallb (fun a => negb (v_ala v a)) as_
  | _ => true
  end.

Fixpoint wf_run_b (as_ : list addr) (ks : list key) (base : addr -> key -> word) (ops : list op) (r : ref) : bool :=
  match ops with
  | [] => true
  | o :: rest => wf_step_b as_ ks base r o && wf_run_b as_ ks base rest (fst (rstep o r))
  end.

Fixpoint wf_txs_b (as_ : list addr) (ks : list key) (w : world) (txs : list (list op)) : bool :=
  match txs with
  | [] => true
  | t :: rest => wf_run_b as_ ks (w_stor w) t (ref_begin w) && wf_txs_b as_ ks (fst (ref_tx w t)) rest
  end.

(** ** observations *)
(** one account row of the post-commit table: exists, balance (wei), nonce, code, storage over the key universe *)
Definition arow : Type := (bool * Z * Z * Z * list Z)%type.
Record tx_obs := { o_rets : list ret; o_table : list arow }.

Definition row_of_world (ks : list key) (w : world) (a : addr) : arow :=
  match w_acct w a with
  | Some x => (true, wa_bal x, wa_nonce x, wa_code x, map (w_stor w a) ks)
  | None => (false, 0, 0, 0, map (w_stor w a) ks)
  end.
Definition table_of_world (as_ : list addr) (ks : list key) (w : world) : list arow :=
  map (row_of_world ks w) as_.

(** "non-existent ≡ empty account" *)
Definition norm_row (r : arow) : arow :=
  let '(e, b, n, c, st) := r in
  if negb e || ((b =? 0) && (n =? 0) && (c =? 0)) then (false, 0, 0, 0, st) else r.

(** [Exist] is compared only on non-empty accounts (the generator follows every Exist by Empty);
    the zero hash and the empty-code hash returned by GetCodeHash are identified, as the
    interpreter does (evm.create collision test; EXTCODEHASH asks Empty first) *)
Fixpoint norm_rets (ops : list op) (rs : list ret) : list ret :=
  match ops, rs with
  | OExist a :: ((OEmpty b :: _) as ops'), [e] :: (([m] :: _) as rs') =>
    (if (a =? b) && (m =? 1) then [0] else [e]) :: norm_rets ops' rs'
  | OGetCodeHash _ :: ops', [h] :: rs' => [if h =? NOHASH then 0 else h] :: norm_rets ops' rs'
  | _ :: ops', r :: rs' => r :: norm_rets ops' rs'
  | _, _ => rs
  end.

Definition norm_obs (ops : list op) (o : tx_obs) : tx_obs :=
  {| o_rets := norm_rets ops (o_rets o); o_table := map norm_row (o_table o) |}.

(** decidable equality of observations *)
Fixpoint zlist_eqb (a b : list Z) : bool :=
  match a, b with
  | [], [] => true
  | x :: a', y :: b' => (x =? y) && zlist_eqb a' b'
  | _, _ => false
  end.
Fixpoint list_eqb {A} (f : A -> A -> bool) (a b : list A) : bool :=
  match a, b with
  | [], [] => true
  | x :: a', y :: b' => f x y && list_eqb f a' b'
  | _, _ => false
  end.
Definition row_eqb (x y : arow) : bool :=
  let '(e1, b1, n1, c1, s1) := x in let '(e2, b2, n2, c2, s2) := y in
  Bool.eqb e1 e2 && (b1 =? b2) && (n1 =? n2) && (c1 =? c2) && zlist_eqb s1 s2.
Definition obs_eqb (x y : tx_obs) : bool :=
  list_eqb zlist_eqb (o_rets x) (o_rets y) && list_eqb row_eqb (o_table x) (o_table y).

Lemma zlist_eqb_eq a b : zlist_eqb a b = true -> a = b.
Proof.
  revert b; induction a as [|x a IH]; intros [|y b] H; simpl in H; try discriminate; auto.
  apply andb_true_iff in H as [H1 H2]. apply Z.eqb_eq in H1. subst. f_equal. auto.
Qed.
Lemma list_eqb_eq {A} (f : A -> A -> bool) (Hf : forall x y, f x y = true -> x = y) a b :
  list_eqb f a b = true -> a = b.
Proof.
  revert b; induction a as [|x a IH]; intros [|y b] H; simpl in H; try discriminate; auto.
  apply andb_true_iff in H as [H1 H2]. apply Hf in H1. subst. f_equal. auto.
Qed.
Lemma row_eqb_eq x y : row_eqb x y = true -> x = y.
Proof.
  destruct x as [[[[e1 b1] n1] c1] s1], y as [[[[e2 b2] n2] c2] s2]. simpl. intro H.
  repeat (apply andb_true_iff in H as [H ?]).
  apply eqb_prop in H. repeat match goal with X : (_ =? _) = true |- _ => apply Z.eqb_eq in X end.
  match goal with X : zlist_eqb _ _ = true |- _ => apply zlist_eqb_eq in X end. subst. reflexivity.
Qed.
Lemma obs_eqb_eq x y : obs_eqb x y = true -> x = y.
Proof.
  destruct x, y. unfold obs_eqb. simpl. intro H. apply andb_true_iff in H as [H1 H2].
  apply (list_eqb_eq _ zlist_eqb_eq) in H1. apply (list_eqb_eq _ row_eqb_eq) in H2. subst. reflexivity.
Qed.

(** the reference run of a history, as observations *)
Fixpoint ref_obs (as_ : list addr) (ks : list key) (w : world) (txs : list (list op)) : list tx_obs :=
  match txs with
  | [] => []
  | t :: rest =>
    let '(w1, xs) := ref_tx w t in
    {| o_rets := xs; o_table := table_of_world as_ ks w1 |} :: ref_obs as_ ks w1 rest
  end.

(** ** the property on an observed differential trace *)
Record trace := {
  t_addrs : list addr; t_keys : list key;
  t_txs : list (list op);          (* a history of transactions from the empty world *)
  t_nib : list tx_obs;             (* observed on Nibiru's statedb.StateDB + keeper *)
  t_geth : list tx_obs             (* observed on go-ethereum's core/state *)
}.

Fixpoint norm_all (txs : list (list op)) (os : list tx_obs) : list tx_obs :=
  match txs, os with
  | t :: txs', o :: os' => norm_obs t o :: norm_all txs' os'
  | _, _ => os
  end.

(** On a history obeying the protocol, Nibiru's observations are exactly the reference's, and
    equal go-ethereum's up to "non-existent ≡ empty". *)
Definition P (t : trace) : Prop :=
  wf_txs_b (t_addrs t) (t_keys t) empty_world (t_txs t) = true ->
  t_nib t = ref_obs (t_addrs t) (t_keys t) empty_world (t_txs t) /\
  norm_all (t_txs t) (t_nib t) = norm_all (t_txs t) (t_geth t).

Definition Pb (t : trace) : bool :=
  negb (wf_txs_b (t_addrs t) (t_keys t) empty_world (t_txs t)) ||
  (list_eqb obs_eqb (t_nib t) (ref_obs (t_addrs t) (t_keys t) empty_world (t_txs t)) &&
   list_eqb obs_eqb (norm_all (t_txs t) (t_nib t)) (norm_all (t_txs t) (t_geth t))).

Lemma Pb_sound t : Pb t = true -> P t.
Proof.
  unfold Pb, P. intros H Hwf. rewrite Hwf in H. simpl in H.
  apply andb_true_iff in H as [H1 H2].
  split; apply (list_eqb_eq _ obs_eqb_eq); assumption.
Qed.

(** * 3. program-level differential records (driver (b): bytecode through Keeper.ApplyEvmMsg vs
    go-ethereum core.ApplyMessage) — validation of the glue around the StateDB *)
Record prog_obs := {
  p_rej : bool;            (* message rejected before execution *)
  p_gas : Z;               (* gas used after refunds *)
  p_err : Z;               (* VM error class *)
  p_ret : list Z; p_logs : list Z;
  p_state : list arow      (* post-state of every address either side may have touched *)
}.

Definition Pprog (n g : prog_obs) : Prop :=
  p_rej n = p_rej g /\
  (p_rej n = false -> p_gas n = p_gas g /\ p_err n = p_err g /\ p_ret n = p_ret g /\ p_logs n = p_logs g) /\
  map norm_row (p_state n) = map norm_row (p_state g).

Definition Pprog_b (n g : prog_obs) : bool :=
  Bool.eqb (p_rej n) (p_rej g) &&
  (p_rej n || ((p_gas n =? p_gas g) && (p_err n =? p_err g) && zlist_eqb (p_ret n) (p_ret g) && zlist_eqb (p_logs n) (p_logs g))) &&
  list_eqb row_eqb (map norm_row (p_state n)) (map norm_row (p_state g)).

Lemma Pprog_b_sound n g : Pprog_b n g = true -> Pprog n g.
Proof.
  unfold Pprog_b, Pprog. intro H. apply andb_true_iff in H as [H H3]. apply andb_true_iff in H as [H1 H2].
  split; [apply eqb_prop, H1|]. split; [|apply (list_eqb_eq _ row_eqb_eq), H3].
  intro Hr. rewrite Hr in H2. simpl in H2.
  repeat (apply andb_true_iff in H2 as [H2 ?]).
  repeat match goal with X : (_ =? _) = true |- _ => apply Z.eqb_eq in X end.
  repeat match goal with X : zlist_eqb _ _ = true |- _ => apply zlist_eqb_eq in X end. auto.
Qed.

(** * 4. message-history differential records (driver (c): histories of MsgEthereumTx, each on its
    own cache-context branch through the EVM ante chain + Keeper.EthereumTx, vs go-ethereum
    core.ApplyMessage on the same sequence).  After EVERY message: the same verdict (rejected before
    execution / executed), for executed messages the same gas, VM error class, return data and logs,
    every log carrying the hash of the message that emitted it, and the same committed state. *)
Record msgs_trace := {
  mt_init_n : list arow; mt_init_g : list arow;   (* the world before the first message, both sides *)
  mt_msgs : list (prog_obs * prog_obs * bool)     (* Nibiru, go-ethereum, "all logs carry this message's tx hash" *)
}.

Definition Pmsgs (c : msgs_trace) : Prop :=
  map norm_row (mt_init_n c) = map norm_row (mt_init_g c) /\
  Forall (fun x : prog_obs * prog_obs * bool => let '(n, g, h) := x in Pprog n g /\ h = true) (mt_msgs c).

Definition Pmsgs_b (c : msgs_trace) : bool :=
  list_eqb row_eqb (map norm_row (mt_init_n c)) (map norm_row (mt_init_g c)) &&
  forallb (fun x : prog_obs * prog_obs * bool => let '(n, g, h) := x in Pprog_b n g && h) (mt_msgs c).

Lemma Pmsgs_b_sound c : Pmsgs_b c = true -> Pmsgs c.
Proof.
  unfold Pmsgs_b, Pmsgs. intro H. apply andb_true_iff in H as [H1 H2].
  split; [apply (list_eqb_eq _ row_eqb_eq), H1|].
  induction (mt_msgs c) as [|[[n g] h] l IH]; [constructor|].
  simpl in H2. apply andb_true_iff in H2 as [H2 H3]. apply andb_true_iff in H2 as [H2 H4].
  constructor; [|apply IH, H3]. split; [apply Pprog_b_sound, H2|exact H4].
Qed.
