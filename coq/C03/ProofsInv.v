(** C03 — proofs, part 5: structural invariants of every reachable StateDB that Commit relies on:
    the OriginStorage cache is coherent with the keeper, every dirty slot has its committed value
    cached (so that the "unchanged" test of commitCtx reads a real value, not a map default), the
    dirty-key list is complete, [Journal.dirties] counts the journal's entries, and — because
    [storageChange.Revert] writes DirtyStorage without consulting OriginStorage — that these facts
    survive reverting any suffix of the journal ([jok]). *)
From Coq Require Import ZArith List Bool Lia.
Import ListNotations.
Require Import Nib.C03.Model Nib.C03.Ref Nib.C03.Spec Nib.C03.ProofsBase Nib.C03.ProofsUndo Nib.C03.ProofsOps.
Local Open Scope Z_scope.

(** [code_src]: an object whose code is not flagged dirty carries a hash that is already in the
    (shared) bytecode table, or no code *)
Definition code_src (kp0 : keeper) (o : obj) : Prop :=
  dcode o = false -> chash o = 0 \/ k_code kp0 (chash o) = true.

Definition obj_ok (kp0 : keeper) (a : addr) (o : obj) : Prop :=
  (forall k v, origin o k = Some v -> v = k_stor kp0 a k) /\
  (forall k, dirty o k <> None -> origin o k <> None) /\
  (forall k, dirty o k <> None -> In k (dkeys o)) /\
  code_src kp0 o.

(** every account's code is in the bytecode table *)
Definition code_inv (k : keeper) : Prop :=
  forall a x, k_acct k a = Some x -> ka_code x = 0 \/ k_code k (ka_code x) = true.

Definition objs_ok (s : sdb) : Prop := forall a o, lookup s a = Some o -> obj_ok (kp s) a o.

(** what reverting entry [e] needs from the state it is reverted in *)
Definition pre (e : entry) (s : sdb) : Prop :=
  match e with
  | EStorage a k _ => exists o, lookup s a = Some o /\ origin o k <> None
  | EReset a p => obj_ok (kp s) a p
  | _ => True
  end.

Fixpoint jok (j : list entry) (s : sdb) : Prop :=
  match j with [] => True | e :: rest => pre e s /\ jok rest (undo e s) end.

Record Inv (s : sdb) : Prop := {
  inv_kcode : code_inv (kp s);
  inv_objs : objs_ok s;
  inv_jok : jok (journal s) s;
  inv_dirt : forall a, dirties s a = count_dirty a (journal s);
  inv_touched : forall a, 0 < dirties s a -> In a (touched s)
}.

(** ** objects *)
Lemma obj_ok_new kp0 a b n c : c = 0 \/ k_code kp0 c = true -> obj_ok kp0 a (new_obj b n c).
Proof. intro Hc. split; [|split; [|split]]; simpl; intros; try congruence. intros _. exact Hc. Qed.

Lemma obj_ok_kobj kp0 a o : code_inv kp0 -> kobj kp0 a = Some o -> obj_ok kp0 a o.
Proof.
  intro Hci. unfold kobj. destruct (k_acct kp0 a) eqn:E; [|discriminate]. intros [= <-].
  apply obj_ok_new. apply (Hci a k E).
Qed.

Lemma obj_ok_fields kp0 a o o' :
  origin o' = origin o -> dirty o' = dirty o -> dkeys o' = dkeys o ->
  (dcode o' = true \/ (dcode o' = dcode o /\ chash o' = chash o)) ->
  obj_ok kp0 a o -> obj_ok kp0 a o'.
Proof.
  intros H1 H2 H3 H4 (A & B & C & D). unfold obj_ok. rewrite H1, H2, H3.
  split; [auto|]. split; [auto|]. split; [auto|].
  intro Hd. destruct H4 as [H4|[H4 H5]]; [congruence|]. rewrite H5. apply D. congruence.
Qed.

Lemma obj_ok_with_dirty kp0 a o k v : origin o k <> None -> obj_ok kp0 a o -> obj_ok kp0 a (with_dirty o k v).
Proof.
  intros Ho (A & B & C & D). split; [exact A|]. split; [|split; [|exact D]];
    simpl; intros k'; unfold upd; destruct (Z.eqb_spec k' k); subst; auto.
  all: try (intros _; destruct (dirty o k) eqn:E; [apply C; congruence|left; reflexivity]).
  all: try (intro H; destruct (dirty o k); [|right]; auto).
Qed.

Lemma obj_ok_cache_origin kp0 a o k : obj_ok kp0 a o -> obj_ok kp0 a (cache_origin kp0 a o k).
Proof.
  intros (A & B & C & D). unfold cache_origin. destruct (origin o k) eqn:E; [split; auto|].
  split; [|split; [|split; [|exact D]]]; simpl; intros k'; unfold upd; destruct (Z.eqb_spec k' k); subst; auto; try congruence;
    try (intros v [= <-]; reflexivity).
Qed.
Lemma obj_ok_cache_state kp0 a o k : obj_ok kp0 a o -> obj_ok kp0 a (cache_state kp0 a o k).
Proof. intro H. unfold cache_state. destruct (dirty o k); [exact H|apply obj_ok_cache_origin, H]. Qed.

Lemma origin_cache_origin kp0 a o k k' : origin o k' <> None -> origin (cache_origin kp0 a o k) k' <> None.
Proof.
  unfold cache_origin. destruct (origin o k) eqn:E; [auto|]. simpl. unfold upd. destruct (k' =? k); congruence.
Qed.
Lemma origin_cache_state kp0 a o k k' : origin o k' <> None -> origin (cache_state kp0 a o k) k' <> None.
Proof. unfold cache_state. destruct (dirty o k); [auto|apply origin_cache_origin]. Qed.
Lemma origin_cache_state_self kp0 a o k : obj_ok kp0 a o -> origin (cache_state kp0 a o k) k <> None.
Proof.
  intros (_ & B & _ & _). unfold cache_state. destruct (dirty o k) eqn:E; [apply B; congruence|].
  unfold cache_origin. destruct (origin o k) eqn:E2; [congruence|]. simpl. rewrite upd_same. congruence.
Qed.

(** ** lookup after an undo *)
Lemma lookup_on_obj s a f a' :
  lookup (on_obj s a f) a' = if a' =? a then option_map f (lookup s a) else lookup s a'.
Proof.
  rewrite on_obj_eq. destruct (lookup s a) as [o|] eqn:Hl.
  - rewrite lookup_set_obj. destruct (a' =? a); [reflexivity|apply lookup_loaded].
  - rewrite lookup_loaded. destruct (Z.eqb_spec a' a); subst; auto.
Qed.

Definition scalar (e : entry) : bool :=
  match e with ERefund _ | ELog | EAlAddr _ | EAlSlot _ _ => true | _ => false end.

Lemma lookup_undo_scalar e s a : scalar e = true -> lookup (undo e s) a = lookup s a.
Proof. destruct e; try discriminate; intros _; simpl; apply lookup_ext; reflexivity. Qed.

(** ** monotonicity in the set of cached committed values *)
Definition ole (x y : option obj) : Prop :=
  match x, y with
  | None, None => True
  | Some o, Some o' => forall k, origin o k <> None -> origin o' k <> None
  | _, _ => False
  end.
Definition le (s t : sdb) : Prop := kp s = kp t /\ forall a, ole (lookup s a) (lookup t a).

Lemma ole_refl x : ole x x. Proof. destruct x; simpl; auto. Qed.
Lemma le_of_eq s t : kp s = kp t -> (forall a, lookup s a = lookup t a) -> le s t.
Proof. intros K H. split; [exact K|]. intro a. rewrite H. apply ole_refl. Qed.

Lemma ole_map f x y : (forall o, origin (f o) = origin o) -> ole x y -> ole (option_map f x) (option_map f y).
Proof. intros Hf. destruct x, y; simpl; auto. intros H k. rewrite !Hf. apply H. Qed.

Lemma undo_le e s t : le s t -> le (undo e s) (undo e t).
Proof.
  intros [K H]. split; [rewrite !kp_undo; exact K|]. intro a'.
  destruct (scalar e) eqn:Hs.
  { rewrite !lookup_undo_scalar by exact Hs. apply H. }
  destruct e; try discriminate; cbn [undo];
    try (rewrite !lookup_on_obj; destruct (a' =? a); [apply ole_map; [reflexivity|apply H]|apply H]).
  - rewrite !lookup_del_obj, K. destruct (a' =? a); [apply ole_refl|apply H].
  - rewrite !lookup_set_obj. destruct (a' =? a); [simpl; auto|apply H].
Qed.

Lemma pre_le e s t : le s t -> pre e s -> pre e t.
Proof.
  intros [K H]. destruct e; simpl; auto.
  - rewrite K. auto.
  - intros (o & Hl & Ho). specialize (H a). rewrite Hl in H. destruct (lookup t a) as [o'|]; [|contradiction].
    exists o'. split; [reflexivity|apply H, Ho].
Qed.

Lemma jok_le j : forall s t, le s t -> jok j s -> jok j t.
Proof.
  induction j as [|e j IH]; intros s t Hle; simpl; [auto|].
  intros [Hp Hj]. split; [eapply pre_le; eauto|]. eapply IH; [apply undo_le, Hle|exact Hj].
Qed.

Lemma objs_ok_undo e s : code_inv (kp s) -> objs_ok s -> pre e s -> objs_ok (undo e s).
Proof.
  intros Hci Hok Hp a' o'. rewrite kp_undo.
  destruct (scalar e) eqn:Hs.
  { rewrite lookup_undo_scalar by exact Hs. apply Hok. }
  destruct e; try discriminate; cbn [undo pre] in *;
    try (rewrite lookup_on_obj; destruct (Z.eqb_spec a' a); [subst|apply Hok];
         destruct (lookup s a) as [o|] eqn:Hl; [|discriminate]; intros [= <-];
         apply (obj_ok_fields _ _ o); try reflexivity; try (left; reflexivity); try (right; split; reflexivity);
         apply Hok, Hl).
  - rewrite lookup_del_obj. destruct (Z.eqb_spec a' a); [subst; apply obj_ok_kobj, Hci|apply Hok].
  - rewrite lookup_set_obj. destruct (Z.eqb_spec a' a); [subst; intros [= <-]; exact Hp|apply Hok].
  - (* storageChange *)
    rewrite lookup_on_obj. destruct (Z.eqb_spec a' a); [subst|apply Hok].
    destruct Hp as (o & Hl & Ho). rewrite Hl. intros [= <-].
    apply obj_ok_with_dirty; [exact Ho|apply Hok, Hl].
Qed.

(** ** the invariant only depends on what the state shows through [lookup] *)
Lemma jok_ext j s t : kp t = kp s -> (forall a, lookup t a = lookup s a) -> jok j s -> jok j t.
Proof. intros K H. apply jok_le. apply le_of_eq; auto. Qed.

Lemma Inv_ext s t :
  (forall a, lookup t a = lookup s a) -> kp t = kp s -> journal t = journal s ->
  dirties t = dirties s -> touched t = touched s -> Inv s -> Inv t.
Proof.
  intros HL K J D T [Z0 A B C E]. split.
  - rewrite K. exact Z0.
  - intros a o. rewrite HL, K. apply A.
  - rewrite J. eapply jok_ext; eauto.
  - intro a. rewrite D, J. apply C.
  - intro a. rewrite D, T. apply E.
Qed.

(** ** primitive transitions every method is composed of *)
Inductive jpair (a : addr) (o : obj) : entry -> obj -> Prop :=
| jp_bal b : jpair a o (EBalance a (bal o)) (with_bal o b)
| jp_nonce n : jpair a o (ENonce a (nonce o)) (with_nonce o n)
| jp_code c : jpair a o (ECode a (chash o)) (with_code o c)
| jp_suicide : jpair a o (ESuicide a (suicided o) (bal o)) (with_bal (with_suicided o true) 0)
| jp_storage k pv v : origin o k <> None -> jpair a o (EStorage a k pv) (with_dirty o k v).

Inductive prim : sdb -> sdb -> Prop :=
| p_ext s t : (forall a, lookup t a = lookup s a) -> kp t = kp s -> journal t = journal s ->
              dirties t = dirties s -> touched t = touched s -> prim s t
| p_recache s a o o' : lookup s a = Some o -> (obj_ok (kp s) a o -> obj_ok (kp s) a o') ->
                       (forall k, origin o k <> None -> origin o' k <> None) -> prim s (set_obj s a o')
| p_jset s a o e o' : lookup s a = Some o -> jpair a o e o' -> prim s (set_obj (push s e) a o')
| p_create s a : lookup s a = None -> prim s (set_obj (push s (ECreate a)) a blank_obj)
| p_reset s a p : lookup s a = Some p ->
                  prim s (set_obj (set_obj (push s (EReset a p)) a blank_obj) a (with_bal blank_obj (bal p)))
| p_scalar s s0 e : scalar e = true -> objs s0 = objs s -> kp s0 = kp s -> journal s0 = journal s ->
                    dirties s0 = dirties s -> touched s0 = touched s -> prim s (push s0 e).

Lemma jpair_dirtied a o e o' : jpair a o e o' -> dirtied e = Some a.
Proof. destruct 1; reflexivity. Qed.
Lemma jpair_ok kp0 a o e o' : jpair a o e o' -> obj_ok kp0 a o -> obj_ok kp0 a o'.
Proof.
  destruct 1; intro Hok;
    try (apply (obj_ok_fields _ _ o); try reflexivity; try (left; reflexivity); try (right; split; reflexivity); exact Hok).
  apply obj_ok_with_dirty; assumption.
Qed.
Lemma jpair_origin a o e o' : jpair a o e o' -> origin o' = origin o.
Proof. destruct 1; reflexivity. Qed.

(** reverting the entry of a [jpair] from any state showing [o'] at [a] *)
Lemma jpair_undo a o e o' t :
  jpair a o e o' -> lookup t a = Some o' ->
  pre e t /\ exists o'', origin o'' = origin o /\
                         forall a', lookup (undo e t) a' = if a' =? a then Some o'' else lookup t a'.
Proof.
  intros Hj Hl. pose proof (jpair_origin _ _ _ _ Hj) as Ho.
  destruct Hj; cbn [pre undo]; (split; [try exact I|]);
    try (eexists; split; [|intro a'; rewrite lookup_on_obj, Hl; reflexivity]; simpl; exact Ho).
  eexists. split; [exact Hl|]. simpl. assumption.
Qed.

Lemma dirties_push s e a :
  dirties (push s e) a = dirties s a + match dirtied e with Some b => if b =? a then 1 else 0 | None => 0 end.
Proof.
  unfold push. destruct (dirtied e) as [b|]; simpl; [|lia].
  unfold upd. destruct (Z.eqb_spec a b), (Z.eqb_spec b a); subst; try lia; congruence.
Qed.

Lemma touched_push s e a : In a (touched s) -> In a (touched (push s e)).
Proof. unfold push. destruct (dirtied e); simpl; auto. Qed.
Lemma touched_push_self s e a : dirtied e = Some a -> In a (touched (push s e)).
Proof. unfold push. intros ->. simpl. auto. Qed.

Lemma Inv_push_bookkeeping s e :
  (forall a, dirties s a = count_dirty a (journal s)) -> (forall a, 0 < dirties s a -> In a (touched s)) ->
  (forall a, dirties (push s e) a = count_dirty a (journal (push s e))) /\
  (forall a, 0 < dirties (push s e) a -> In a (touched (push s e))).
Proof.
  intros C E. split; intro a; rewrite dirties_push, ?journal_push; simpl.
  - rewrite C. destruct (dirtied e) as [b|]; [destruct (b =? a)|]; lia.
  - destruct (dirtied e) as [b|] eqn:Hd.
    + destruct (Z.eqb_spec b a); [subst; intros _; apply touched_push_self, Hd|].
      intro Hpos. apply touched_push, E. lia.
    + intro Hpos. apply touched_push, E. lia.
Qed.

Lemma Inv_prim s t : prim s t -> Inv s -> Inv t.
Proof.
  intros Hp HI. pose proof HI as [Z0 A B C E]. destruct Hp.
  - eapply Inv_ext; eauto.
  - (* recache *)
    split; auto.
    + intros a' x. rewrite lookup_set_obj. destruct (Z.eqb_spec a' a); [subst; intros [= <-]; auto|apply A].
    + cbn [journal set_obj set_objs]. eapply jok_le; [|exact B]. split; [reflexivity|].
      intro a'. rewrite lookup_set_obj. destruct (Z.eqb_spec a' a); [subst; rewrite H; simpl; auto|apply ole_refl].
  - (* journaled object update *)
    destruct (Inv_push_bookkeeping s e C E) as [C' E'].
    assert (Hl' : lookup (set_obj (push s e) a o') a = Some o') by (rewrite lookup_set_obj, Z.eqb_refl; reflexivity).
    destruct (jpair_undo a o e o' _ H0 Hl') as (Hpre & o'' & Ho'' & Hlk).
    split; auto; try (cbn [kp set_obj set_objs]; rewrite ?kp_push; exact Z0).
    + intros a' x. rewrite lookup_set_obj. cbn [kp set_obj set_objs]. rewrite kp_push.
      destruct (Z.eqb_spec a' a); [subst; intros [= <-]; eapply jpair_ok; eauto|rewrite lookup_push; apply A].
    + cbn [journal set_obj set_objs]. rewrite journal_push. split; [exact Hpre|].
      eapply jok_le; [|exact B]. split; [rewrite kp_undo; cbn [kp set_obj set_objs]; rewrite kp_push; reflexivity|].
      intro a'. rewrite Hlk, lookup_set_obj. destruct (Z.eqb_spec a' a).
      * subst. rewrite H. simpl. rewrite Ho''. auto.
      * rewrite lookup_push. apply ole_refl.
  - (* createObjectChange *)
    destruct (Inv_push_bookkeeping s (ECreate a) C E) as [C' E'].
    split; auto; try (cbn [kp set_obj set_objs]; rewrite ?kp_push; exact Z0).
    + intros a' x. rewrite lookup_set_obj. cbn [kp set_obj set_objs]. rewrite kp_push.
      destruct (Z.eqb_spec a' a); [subst; intros [= <-]; apply obj_ok_new; left; reflexivity|rewrite lookup_push; apply A].
    + cbn [journal set_obj set_objs]. rewrite journal_push. split; [exact I|]. cbn [undo].
      eapply jok_ext; [| |exact B]; [cbn [kp del_obj set_obj set_objs]; apply kp_push|].
      intro a'. rewrite lookup_del_obj, lookup_set_obj. cbn [kp set_obj set_objs]. rewrite kp_push.
      destruct (Z.eqb_spec a' a); [subst; rewrite H; apply lookup_none_kobj, H|apply lookup_push].
  - (* resetObjectChange *)
    destruct (Inv_push_bookkeeping s (EReset a p) C E) as [C' E'].
    split; auto; try (cbn [kp set_obj set_objs]; rewrite ?kp_push; exact Z0).
    + intros a' x. rewrite lookup_set_obj. cbn [kp set_obj set_objs]. rewrite kp_push.
      destruct (Z.eqb_spec a' a); [subst; intros [= <-]; apply (obj_ok_fields _ _ blank_obj); try reflexivity;
                                   [right; split; reflexivity|apply obj_ok_new; left; reflexivity]|].
      rewrite lookup_set_obj. destruct (Z.eqb_spec a' a); [contradiction|]. rewrite lookup_push. apply A.
    + cbn [journal set_obj set_objs]. rewrite journal_push. split.
      * cbn [pre kp set_obj set_objs]. rewrite kp_push. apply A, H.
      * cbn [undo]. eapply jok_ext; [| |exact B]; [cbn [kp set_obj set_objs]; apply kp_push|].
        intro a'. rewrite !lookup_set_obj. destruct (Z.eqb_spec a' a); [subst; auto|apply lookup_push].
  - (* refund / log / access-list entries *)
    assert (HI0 : Inv s0).
    { eapply Inv_ext; [| | | | |exact HI]; auto. intro a. apply lookup_ext; auto. }
    destruct HI0 as [Z1 A0 B0 C0 E0].
    destruct (Inv_push_bookkeeping s0 e C0 E0) as [C' E'].
    split; auto; try (rewrite ?kp_push; exact Z1).
    + intros a' x. rewrite lookup_push, kp_push. apply A0.
    + rewrite journal_push. split; [destruct e; try discriminate; exact I|].
      eapply jok_ext; [| |exact B0]; [rewrite kp_undo; apply kp_push|].
      intro a'. rewrite lookup_undo_scalar by assumption. apply lookup_push.
Qed.

Inductive prims : sdb -> sdb -> Prop :=
| ps_nil s : prims s s
| ps_cons s1 s2 s3 : prim s1 s2 -> prims s2 s3 -> prims s1 s3.

Lemma prims_one s t : prim s t -> prims s t.
Proof. intro H. eapply ps_cons; [exact H|apply ps_nil]. Qed.
Lemma prims_trans s1 s2 s3 : prims s1 s2 -> prims s2 s3 -> prims s1 s3.
Proof. induction 1; auto. intro. eapply ps_cons; eauto. Qed.
Lemma Inv_prims s t : prims s t -> Inv s -> Inv t.
Proof. induction 1; auto. intro. apply IHprims. eapply Inv_prim; eauto. Qed.

(** ** every method is a composition of primitive transitions *)
Lemma prim_load s a : prim s (snd (get_obj s a)).
Proof.
  apply p_ext; [intro; apply lookup_loaded | apply kp_loaded | apply journal_loaded
                | apply dirties_loaded | apply touched_loaded].
Qed.

Lemma prims_get_or_new s a : prims s (snd (get_or_new s a)).
Proof.
  destruct (lookup s a) as [o|] eqn:Hl.
  - rewrite (get_or_new_some s a o Hl). apply prims_one, prim_load.
  - rewrite (get_or_new_none s a Hl). apply prims_one, p_create, Hl.
Qed.

Lemma prims_mutator s a (E : obj -> entry) (F : obj -> obj) :
  (forall o, jpair a o (E o) (F o)) ->
  prims s (let '(o, s1) := get_or_new s a in set_obj (push s1 (E o)) a (F o)).
Proof.
  intro Hj. destruct (get_or_new_spec s a) as (_ & Hl & _ & _). pose proof (prims_get_or_new s a) as Hp.
  destruct (get_or_new s a) as [o s1]. cbn [fst snd] in *.
  eapply prims_trans; [exact Hp|]. apply prims_one. eapply p_jset; eauto.
Qed.

Lemma prims_balance s a d :
  prims s (let '(o, s1) := get_or_new s a in if d =? 0 then s1 else set_balance s1 a o (bal o + d)).
Proof.
  destruct (d =? 0).
  - pose proof (prims_get_or_new s a) as Hp. destruct (get_or_new s a). exact Hp.
  - apply (prims_mutator s a (fun o => EBalance a (bal o)) (fun o => with_bal o (bal o + d))). intro o. constructor.
Qed.

Lemma prims_read s a f : prims s (fst (read_obj s a f)).
Proof. unfold read_obj. destruct (get_obj s a) eqn:E. cbn [fst]. replace s0 with (snd (get_obj s a)) by (rewrite E; reflexivity). apply prims_one, prim_load. Qed.

Lemma prims_recache s a o o' :
  lookup s a = Some o -> (obj_ok (kp s) a o -> obj_ok (kp s) a o') ->
  (forall k, origin o k <> None -> origin o' k <> None) ->
  prims s (set_obj (snd (get_obj s a)) a o').
Proof.
  intros Hl H1 H2. eapply ps_cons; [apply prim_load|]. apply prims_one.
  apply (p_recache _ a o o'); [rewrite lookup_loaded; exact Hl|rewrite kp_loaded; exact H1|exact H2].
Qed.

Lemma prims_scalar_fold {X} (f : sdb -> X -> sdb) :
  (forall s x, prims s (f s x)) -> forall l s, prims s (fold_left f l s).
Proof. intros H l. induction l as [|x l IH]; intro s; simpl; [apply ps_nil|]. eapply prims_trans; [apply H|apply IH]. Qed.

Lemma prims_add_addr s a : prims s (add_addr_al s a).
Proof.
  unfold add_addr_al. destruct (al_addr s a); [apply ps_nil|]. apply prims_one. apply p_scalar; reflexivity.
Qed.

Lemma prims_add_slot s a k : prims s (add_slot_al s a k).
Proof.
  unfold add_slot_al. set (s1 := set_al _ _ _).
  assert (P1 : prim s s1) by (apply p_ext; try reflexivity; intro; apply lookup_ext; reflexivity).
  destruct (negb (al_addr s a)), (negb (slot_present s a k)).
  - eapply ps_cons; [exact P1|]. eapply ps_cons; [apply (p_scalar s1 s1 (EAlAddr a)); reflexivity|].
    apply prims_one. apply (p_scalar _ _ (EAlSlot a k)); reflexivity.
  - eapply ps_cons; [exact P1|]. apply prims_one. apply (p_scalar s1 s1 (EAlAddr a)); reflexivity.
  - eapply ps_cons; [exact P1|]. apply prims_one. apply (p_scalar s1 s1 (EAlSlot a k)); reflexivity.
  - apply prims_one, P1.
Qed.

Lemma prims_prepare s sd dst pre al : prims s (prepare_al s sd dst pre al).
Proof.
  unfold prepare_al.
  eapply prims_trans; [apply prims_add_addr|].
  eapply prims_trans; [instantiate (1 := match dst with Some d => add_addr_al (add_addr_al s sd) d | None => add_addr_al s sd end);
                       destruct dst; [apply prims_add_addr|apply ps_nil]|].
  eapply prims_trans; [apply (prims_scalar_fold add_addr_al prims_add_addr)|].
  apply prims_scalar_fold. intros s' el.
  eapply prims_trans; [apply prims_add_addr|]. apply prims_scalar_fold. intros; apply prims_add_slot.
Qed.

Theorem prims_step_core o s : Inv s -> prims s (fst (step_core o s)).
Proof.
  intro HI. destruct o; cbn [step_core fst]; try apply prims_read; try apply ps_nil.
  - (* CreateAccount *)
    unfold create_account, create_object. rewrite get_obj_eq.
    destruct (lookup s a) as [p|] eqn:Hl.
    + eapply ps_cons; [apply (prim_load s a)|]. apply prims_one. apply p_reset. rewrite lookup_loaded. exact Hl.
    + rewrite (get_obj_none s a Hl). cbn [snd]. apply prims_one, p_create, Hl.
  - pose proof (prims_balance s a (- v)) as H. unfold sub_balance.
    replace (- v =? 0) with (v =? 0) in H by (destruct (Z.eqb_spec v 0), (Z.eqb_spec (- v) 0); try reflexivity; lia).
    destruct (get_or_new s a) as [o s1]. replace (bal o - v) with (bal o + - v) by lia. exact H.
  - apply prims_balance.
  - apply (prims_mutator s a (fun o => ENonce a (nonce o)) (fun o => with_nonce o n)). intro; constructor.
  - apply (prims_mutator s a (fun o => ECode a (chash o)) (fun o => with_code o c)). intro; constructor.
  - unfold add_refund. eapply ps_cons; [apply (p_scalar s s (ERefund (refund s))); reflexivity|].
    apply prims_one. apply p_ext; try reflexivity. intro; apply lookup_ext; reflexivity.
  - unfold sub_refund. destruct (refund s <? g); cbn [fst].
    + apply prims_one. apply (p_scalar s s); reflexivity.
    + eapply ps_cons; [apply (p_scalar s s (ERefund (refund s))); reflexivity|].
      apply prims_one. apply p_ext; try reflexivity. intro; apply lookup_ext; reflexivity.
  - (* GetCommittedState *)
    unfold get_committed. rewrite get_obj_eq. destruct (lookup s a) as [o|] eqn:Hl; cbn [fst].
    + rewrite kp_loaded. apply (prims_recache s a o); [exact Hl|apply obj_ok_cache_origin|intro; apply origin_cache_origin].
    + apply prims_one, prim_load.
  - unfold get_state. rewrite get_obj_eq. destruct (lookup s a) as [o|] eqn:Hl; cbn [fst].
    + rewrite kp_loaded. apply (prims_recache s a o); [exact Hl|apply obj_ok_cache_state|intro; apply origin_cache_state].
    + apply prims_one, prim_load.
  - (* SetState *)
    unfold set_state. destruct (get_or_new_spec s a) as (_ & Hl & _ & _). pose proof (prims_get_or_new s a) as Hp.
    destruct (get_or_new s a) as [o s1]. cbn [fst snd] in *.
    eapply prims_trans; [exact Hp|].
    set (o1 := cache_state (kp s1) a o k).
    assert (P1 : prim s1 (set_obj s1 a o1)).
    { apply (p_recache s1 a o o1 Hl); [apply obj_ok_cache_state|intro; apply origin_cache_state]. }
    destruct (st (kp s1) a o k =? v); [apply prims_one, P1|].
    eapply ps_cons; [exact P1|].
    assert (Hok : obj_ok (kp s1) a o) by (apply (inv_objs _ (Inv_prims _ _ Hp HI)), Hl).
    eapply ps_cons.
    { apply (p_jset _ a o1 (EStorage a k (st (kp s1) a o k)) (with_dirty o1 k v)).
      - rewrite lookup_set_obj, Z.eqb_refl. reflexivity.
      - constructor. apply origin_cache_state_self, Hok. }
    (* same state up to the order of the two updates of the object table *)
    apply prims_one. apply p_ext; try reflexivity.
    intro a'. rewrite !lookup_set_obj. destruct (Z.eqb_spec a' a) as [->|Hne]; [reflexivity|].
    rewrite !lookup_push, lookup_set_obj. destruct (Z.eqb_spec a' a); [contradiction|reflexivity].
  - (* Suicide *)
    unfold suicide. rewrite get_obj_eq. destruct (lookup s a) as [o|] eqn:Hl; cbn [fst].
    + eapply ps_cons; [apply (prim_load s a)|]. apply prims_one. eapply p_jset; [rewrite lookup_loaded; exact Hl|constructor].
    + apply prims_one, prim_load.
  - apply prims_add_addr.
  - apply prims_add_slot.
  - apply prims_prepare.
  - unfold add_log. eapply ps_cons; [apply (p_scalar s s ELog); reflexivity|].
    apply prims_one. apply p_ext; try reflexivity. intro; apply lookup_ext; reflexivity.
Qed.

(** ** reverting keeps the invariant *)
Lemma dirties_on_obj s a f : dirties (on_obj s a f) = dirties s.
Proof. rewrite on_obj_eq. destruct (lookup s a); cbn [dirties set_obj set_objs]; apply dirties_loaded. Qed.
Lemma touched_on_obj s a f : touched (on_obj s a f) = touched s.
Proof. rewrite on_obj_eq. destruct (lookup s a); cbn [touched set_obj set_objs]; apply touched_loaded. Qed.
Lemma dirties_undo e s : dirties (undo e s) = dirties s.
Proof. destruct e; simpl; try reflexivity; apply dirties_on_obj. Qed.
Lemma touched_undo e s : touched (undo e s) = touched s.
Proof. destruct e; simpl; try reflexivity; apply touched_on_obj. Qed.

Lemma Inv_pop_undo s : Inv s -> Inv (pop_undo s).
Proof.
  intros [Z0 A B C E]. unfold pop_undo. destruct (journal s) as [|e rest] eqn:Hj;
    [split; [exact Z0|exact A|rewrite Hj; exact B|intro; rewrite Hj; apply C|exact E]|].
  simpl in B. destruct B as [Hp Hj'].
  pose proof (objs_ok_undo e s Z0 A Hp) as A'.
  assert (Z0' : code_inv (kp (undo e s))) by (rewrite kp_undo; exact Z0).
  assert (Hcount : forall a, count_dirty a rest =
                             dirties s a - match dirtied e with Some b => if b =? a then 1 else 0 | None => 0 end).
  { intro a. rewrite C. simpl. lia. }
  destruct (dirtied e) as [b|] eqn:Hd; split; cbn [journal dirties touched set_journal]; try exact Z0'.
  - intros a o Hl. apply (A' a o). rewrite <- Hl. apply lookup_ext; reflexivity.
  - eapply jok_ext; [| |exact Hj']; [reflexivity|]. intro a. apply lookup_ext; reflexivity.
  - intro a. rewrite Hcount, dirties_undo. unfold upd.
    destruct (Z.eqb_spec a b), (Z.eqb_spec b a); subst; try lia; congruence.
  - intro a. rewrite dirties_undo, touched_undo. unfold upd. destruct (Z.eqb_spec a b); intro; apply E; subst; lia.
  - intros a o Hl. apply (A' a o). rewrite <- Hl. apply lookup_ext; reflexivity.
  - eapply jok_ext; [| |exact Hj']; [reflexivity|]. intro a. apply lookup_ext; reflexivity.
  - intro a. rewrite Hcount, dirties_undo. lia.
  - intro a. rewrite dirties_undo, touched_undo. apply E.
Qed.

Lemma Inv_unwind_k n : forall s, Inv s -> Inv (unwind_k n s).
Proof. induction n; intros s H; simpl; auto. apply IHn, Inv_pop_undo, H. Qed.

Lemma Inv_new k : code_inv k -> Inv (new_sdb k).
Proof.
  intro Hc. split; simpl; auto; try lia.
  intros a o. rewrite lookup_def. simpl. apply obj_ok_kobj, Hc.
Qed.

Lemma core_step_eq o f :
  match o with OSnapshot | ORevert _ => True | _ => core (fst (step o f)) = fst (step_core o (core f)) end.
Proof. destruct o; try exact I; cbn [step]; destruct (step_core _ (core f)); reflexivity. Qed.

Theorem Inv_step o f : Inv (core f) -> Inv (core (fst (step o f))).
Proof.
  intro H. pose proof (core_step_eq o f) as E. pose proof (prims_step_core o _ H) as P.
  destruct o; try (rewrite E; eapply Inv_prims; eauto; fail).
  - exact H.
  - cbn [step]. destruct (find_rev id (revs f)) as [[n older]|]; cbn [fst core]; [|exact H].
    apply Inv_unwind_k, H.
Qed.

Theorem Inv_run : forall ops f, Inv (core f) -> Inv (core (fst (run ops f))).
Proof.
  induction ops as [|o ops IH]; intros f H; simpl; [exact H|].
  pose proof (Inv_step o f H) as H1. destruct (step o f) as [f1 x]. cbn [fst] in *.
  specialize (IH f1 H1). destruct (run ops f1). exact IH.
Qed.
