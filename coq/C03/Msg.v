(** C03 — the MESSAGE layer: histories of MsgEthereumTx delivered the way baseapp.runTx delivers
    them — every message on its own cache-context branch of the block state, written back only when
    the handler returns no error — through the EVM ante chain and [Keeper.EthereumTx]
    (x/evm/keeper/msg_server.go), including the process-wide pointer [Keeper.Bank.StateDB] through
    which EthereumTx finds "the StateDB of the transaction being delivered" (Bank.TxStateDB /
    NewStateDB / ClearTxStateDB, x/evm/keeper/bank_extension.go).

    The interpreter is not modelled (as everywhere in C03): an executed message carries the list of
    vm.StateDB calls ApplyEvmMsg and the interpreter issue, and the gas it reports.  Messages that
    are rejected BEFORE execution are modelled exactly: sender not an EOA, balance below
    gas*price + value, wrong nonce (evmante), gas limit below the intrinsic gas (ApplyEvmMsg).

    No proofs in this file. *)
From Coq Require Import ZArith List Bool.
Import ListNotations.
Require Import Nib.C03.Model Nib.C03.Ref.
Local Open Scope Z_scope.

Record msg := {
  m_from : addr; m_nonce : Z; m_gas : Z;
  (* the three tx types in one shape: base fee of the block, maxPriorityFeePerGas, maxFeePerGas (wei
     per gas); a legacy / access-list tx has tip = cap = its gas price *)
  m_base : Z; m_tip : Z; m_cap : Z;
  m_value : Z;            (* wei *)
  (* what core.IntrinsicGas looks at *)
  m_create : bool; m_nz : Z; m_z : Z; m_al_addrs : Z; m_al_keys : Z;
  m_ops : list op;        (* the vm.StateDB calls of ApplyEvmMsg + interpreter when the message is executed *)
  m_used : Z              (* gas used after refunds, as ApplyEvmMsg reports it *)
}.

(** core.IntrinsicGas under Homestead + EIP-2028 (London): 21000 (+32000 for a creation),
    16 / 4 per non-zero / zero calldata byte, 2400 per access-list address, 1900 per storage key *)
Definition intrinsic (m : msg) : Z :=
  21000 + (if m_create m then 32000 else 0) + 16 * m_nz m + 4 * m_z m + 2400 * m_al_addrs m + 1900 * m_al_keys m.

(** TxData.EffectiveGasPriceWeiPerGas: max(baseFee, min(tip + baseFee, feeCap)) — what VerifyFee
    deducts and RefundGas refunds at; go-ethereum's msg.gasPrice = min(tip + baseFee, feeCap) *)
Definition nib_price (m : msg) : Z := Z.max (m_base m) (Z.min (m_tip m + m_base m) (m_cap m)).
Definition geth_price (m : msg) : Z := Z.min (m_tip m + m_base m) (m_cap m).

Definition fee (m : msg) : Z := m_gas m * nib_price m.                       (* wei *)
Definition leftover (m : msg) : Z := (m_gas m - m_used m) * nib_price m.    (* wei *)
Definition cap_cost (m : msg) : Z := m_gas m * m_cap m + m_value m.         (* TxData.Cost() *)
Definition eff_cost (m : msg) : Z := fee m + m_value m.                      (* TxData.EffectiveCostWei(baseFee) *)
Definition rfee (m : msg) : Z := m_gas m * geth_price m.
Definition rleftover (m : msg) : Z := (m_gas m - m_used m) * geth_price m.

Definition kacct0 : kacct := {| ka_bal := 0; ka_nonce := 0; ka_code := 0 |}.
Definition k_get (k : keeper) (a : addr) : kacct := match k_acct k a with Some x => x | None => kacct0 end.

(** app/evmante on the message's branch: EthValidateBasic (TxData.Validate: tip above fee cap),
    AnteDecVerifyEthAcc (sender is an EOA; keeper.CheckSenderBalance: balance >= what?  [cap_check]
    = it compares with TxData.Cost() = gas*feeCap + value — re-extracted from the source on every
    check — otherwise with the effective cost gas*effectivePrice + value), CanTransferDecorator (value
    subsumed; its "fee cap below the base fee" test: [floor_check] = it compares the FEE CAP with the
    base fee — re-extracted from the source; when it compares max(baseFee, feeCap) instead it never
    fires and a price below the base fee is ADMITTED and charged at the base fee — go-ethereum rejects
    it, see [admission_below_base_fee_refuted]), AnteDecEthGasConsume (the effective fee leaves the sender;
    in DeliverTx no intrinsic-gas check), AnteDecEthIncrementSenderSequence (tx nonce = account
    sequence, then +1).  The fee collector is outside the address universe. *)
Definition ante (cap_check floor_check : bool) (k : keeper) (m : msg) : option keeper :=
  let x := k_get k (m_from m) in
  if negb (ka_code x =? 0) then None
  else if m_cap m <? m_tip m then None
  else if floor_check && (m_cap m <? m_base m) then None
  else if to_wei (ka_bal x) <? (if cap_check then cap_cost m else eff_cost m) then None
  else if to_wei (ka_bal x) <? fee m then None        (* AnteDecEthGasConsume.deductFee: the bank refuses *)
  else if negb (ka_nonce x =? m_nonce m) then None
  else Some (kset_acct k (m_from m)
               (Some {| ka_bal := ka_bal x - to_native (fee m); ka_nonce := ka_nonce x + 1; ka_code := ka_code x |})).

(** Keeper.RefundGas: the leftover gas at the price paid goes back to the sender (bank transfer
    on the message's ctx, after the StateDB was committed) *)
Definition refund_gas (k : keeper) (m : msg) : keeper :=
  if to_native (leftover m) =? 0 then k
  else let x := k_get k (m_from m) in
       kset_acct k (m_from m)
         (Some {| ka_bal := ka_bal x + to_native (leftover m); ka_nonce := ka_nonce x; ka_code := ka_code x |}).

(** the chain between two messages: the block state and the process-wide pointer Keeper.Bank.StateDB.
    A published StateDB carries the ctx it was created on ([kp]): that is where its Commit writes. *)
Record mstate := { ms_blk : keeper; ms_ptr : option full }.

Inductive mres := MRejected | MExecuted (rets : list ret).

(** One message.  [clears_on_error]: does EthereumTx forget the published StateDB on EVERY return
    path once it has obtained one (true: `defer k.Bank.ClearTxStateDB(ctx)` right after obtaining it
    — the value is re-extracted from the source on every check, Gen/C03Facts.v), or only on the
    success path (false).

      branch   := ctx.CacheContext()               copy of the block state
      ante     on branch                           error: branch dropped
      EthereumTx(branch):
        stateDB := Bank.TxStateDB(); if nil { stateDB = NewStateDB(branch) (publishes it) }
        ApplyEvmMsg: gas < intrinsic -> error      (no StateDB call was made yet)
                     the calls; Commit()           writes to the ctx the StateDB was CREATED on
        RefundGas on branch
      no error: branch written back to the block state; error: branch dropped *)
Definition deliver (clears_on_error cap_check floor_check : bool) (st : mstate) (m : msg) : mstate * mres :=
  match ante cap_check floor_check (ms_blk st) m with
  | None => (st, MRejected)
  | Some branch =>
    let f := match ms_ptr st with Some f => f | None => new_full branch end in
    if m_gas m <? intrinsic m then
      ({| ms_blk := ms_blk st; ms_ptr := if clears_on_error then None else Some f |}, MRejected)
    else
      let '(f1, rets) := run (m_ops m) f in
      let written := commit (core f1) in
      (* a StateDB left behind by an earlier message writes to that message's dropped branch *)
      let branch' := match ms_ptr st with Some _ => branch | None => written end in
      ({| ms_blk := refund_gas branch' m; ms_ptr := None |}, MExecuted rets)
  end.

Fixpoint deliver_hist (c b f : bool) (st : mstate) (ms : list msg) : mstate * list mres :=
  match ms with
  | [] => (st, [])
  | m :: rest =>
    let '(st1, r) := deliver c b f st m in
    let '(st2, rs) := deliver_hist c b f st1 rest in (st2, r :: rs)
  end.

(** ** what delivery should be: no pointer, no branches — a rejected message is a no-op, an executed
    one is ante; one StateDB transaction ([run_tx]); refund *)
Definition spec_deliver (f : bool) (k : keeper) (m : msg) : keeper * mres :=
  match ante true f k m with
  | None => (k, MRejected)
  | Some k1 =>
    if m_gas m <? intrinsic m then (k, MRejected)
    else let '(k2, rets) := run_tx k1 (m_ops m) in (refund_gas k2 m, MExecuted rets)
  end.

Fixpoint spec_hist (f : bool) (k : keeper) (ms : list msg) : keeper * list mres :=
  match ms with
  | [] => (k, [])
  | m :: rest =>
    let '(k1, r) := spec_deliver f k m in
    let '(k2, rs) := spec_hist f k1 rest in (k2, r :: rs)
  end.

(** ** the reference: go-ethereum's state transition (core/state_transition.go) on the reference
    world (balances in wei).  preCheck: nonce equal, sender is an EOA, balance >= gas*price + value
    (buyGas), then gas is bought; gas < intrinsic gas: the message is INVALID — no effect at all;
    execution = one reference transaction; refundGas.  London preCheck: fee cap below tip, fee cap
    below base fee; buyGas checks the balance against gas*feeCap + value and takes gas*gasPrice.  (Nibiru's ante bumps the sequence before
    ApplyEvmMsg resets the nonce through the StateDB; the reference bumps it at the same place so
    that both run the same calls from the same state.) *)
Definition wacct0 : wacct := {| wa_bal := 0; wa_nonce := 0; wa_code := 0 |}.
Definition w_get (w : world) (a : addr) : wacct := match w_acct w a with Some x => x | None => wacct0 end.
Definition wset_acct (w : world) (a : addr) (x : option wacct) : world :=
  {| w_acct := upd (w_acct w) a x; w_stor := w_stor w |}.

Definition ref_buy (w : world) (m : msg) : option world :=
  let x := w_get w (m_from m) in
  if negb (wa_code x =? 0) then None
  else if m_cap m <? m_tip m then None
  else if m_cap m <? m_base m then None
  else if wa_bal x <? cap_cost m then None
  else if negb (wa_nonce x =? m_nonce m) then None
  else Some (wset_acct w (m_from m)
               (Some {| wa_bal := wa_bal x - rfee m; wa_nonce := wa_nonce x + 1; wa_code := wa_code x |})).

Definition ref_refund (w : world) (m : msg) : world :=
  if to_native (rleftover m) =? 0 then w
  else let x := w_get w (m_from m) in
       wset_acct w (m_from m)
         (Some {| wa_bal := wa_bal x + rleftover m; wa_nonce := wa_nonce x; wa_code := wa_code x |}).

Definition ref_deliver (w : world) (m : msg) : world * mres :=
  match ref_buy w m with
  | None => (w, MRejected)
  | Some w1 =>
    if m_gas m <? intrinsic m then (w, MRejected)
    else let '(w2, rets) := ref_tx w1 (m_ops m) in (ref_refund w2 m, MExecuted rets)
  end.

Fixpoint ref_hist (w : world) (ms : list msg) : world * list mres :=
  match ms with
  | [] => (w, [])
  | m :: rest =>
    let '(w1, r) := ref_deliver w m in
    let '(w2, rs) := ref_hist w1 rest in (w2, r :: rs)
  end.

(** ** a concrete history: a funded EOA (1) and a contract (2, code 7); the first message has a gas
    limit below the intrinsic gas, the second is an ordinary call that SSTOREs *)
Definition ex_k0 : keeper :=
  kset_code (kset_acct (kset_acct empty_keeper 1 (Some {| ka_bal := 1000000; ka_nonce := 0; ka_code := 0 |}))
                       2 (Some {| ka_bal := 10; ka_nonce := 1; ka_code := 7 |})) 7.
Definition ex_m_low : msg :=
  {| m_from := 1; m_nonce := 0; m_gas := 20000; m_base := WEI; m_tip := WEI; m_cap := WEI; m_value := 0;
     m_create := false; m_nz := 0; m_z := 0; m_al_addrs := 0; m_al_keys := 0; m_ops := []; m_used := 0 |}.
Definition ex_m_call : msg :=
  {| m_from := 1; m_nonce := 0; m_gas := 100000; m_base := WEI; m_tip := WEI; m_cap := WEI; m_value := 0;
     m_create := false; m_nz := 0; m_z := 0; m_al_addrs := 0; m_al_keys := 0;
     m_ops := [OPrepareAL 1 (Some 2) [] []; OSetNonce 1 0; OSnapshot; OGetState 2 0; OSetState 2 0 5; OAddLog 9; OSetNonce 1 1];
     m_used := 43000 |}.
Definition ex_msgs : list msg := [ex_m_low; ex_m_call].

(** a dynamic-fee transfer (fee cap 10 unibi, no tip, gas 21000, value 50000 unibi) from an EOA holding
    100000 unibi: it can pay the effective cost 21000 + 50000 but not gas*feeCap + value = 260000 *)
Definition ex_k_poor : keeper :=
  kset_acct empty_keeper 1 (Some {| ka_bal := 100000; ka_nonce := 0; ka_code := 0 |}).
Definition ex_m_feecap : msg :=
  {| m_from := 1; m_nonce := 0; m_gas := 21000; m_base := WEI; m_tip := 0; m_cap := 10 * WEI; m_value := 50000 * WEI;
     m_create := false; m_nz := 0; m_z := 0; m_al_addrs := 0; m_al_keys := 0;
     m_ops := [OPrepareAL 1 (Some 3) [] []; OSetNonce 1 0; OSnapshot; OSubBalance 1 (50000 * WEI); OAddBalance 3 (50000 * WEI); OSetNonce 1 1];
     m_used := 21000 |}.

(** a legacy call with gas price 0 (< base fee) from the rich EOA of [ex_k0] *)
Definition ex_m_lowprice : msg :=
  {| m_from := 1; m_nonce := 0; m_gas := 100000; m_base := WEI; m_tip := 0; m_cap := 0; m_value := 0;
     m_create := false; m_nz := 0; m_z := 0; m_al_addrs := 0; m_al_keys := 0; m_ops := []; m_used := 21000 |}.
