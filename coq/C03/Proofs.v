(** C03 — proofs: the development is split into
      ProofsBase   the observable view [V] of a journaled StateDB (caches invisible)
      ProofsUndo   reverting journal entries / unwinding, on the view
      ProofsOps    every vm.StateDB method = the reference operation on the view; its journal entries revert it
      ProofsSim    simulation with the copy-stack reference for arbitrary sequences
      ProofsInv    structural invariants Commit relies on (cache coherence, dirty counts)
      ProofsCommit Commit writes exactly the visible state
      ProofsTx     transactions, histories, ApplyEvmMsg arithmetic, non-vacuity examples
      ProofsHist   histories against the pure reference history (the reference respects pointwise equality)
      ProofsWf     the boolean protocol check on traces implies the Prop-level hypotheses
      ProofsPre    the standard precompiles 0x01..0x09: price tables per upstream fork table (MODEXP, EIP-2565)
      ProofsMsg    the message layer: pointer / branch discipline of Keeper.EthereumTx, message histories
                   against the reference state transition, refutation of the clear-on-success-only variant
    This file gathers them for Property.v. *)
Require Export Nib.C03.ProofsBase Nib.C03.ProofsUndo Nib.C03.ProofsOps Nib.C03.ProofsSim
               Nib.C03.ProofsInv Nib.C03.ProofsCommit Nib.C03.ProofsTx Nib.C03.ProofsHist Nib.C03.ProofsWf Nib.C03.ProofsMsg Nib.C03.ProofsPre.
