(** C03 — proofs (under construction). *)
From Coq Require Import ZArith List Bool Lia.
Import ListNotations.
Require Import Nib.C03.Model Nib.C03.Ref Nib.C03.Spec.
Local Open Scope Z_scope.
