(** C03 — the STANDARD precompiles 0x01..0x09 (ecrecover, sha256, ripemd160, identity, modexp, bn256
    add / scalar mul / pairing, blake2f) as a price table per upstream fork table.  InitPrecompiles
    (x/evm/precompile/precompile.go) copies ONE upstream table of go-ethereum's core/vm/contracts.go into
    Nibiru's precompile map; which one is re-extracted from the source on every check
    (Gen/C03Facts.v: [c03_std_precompile_tables]).  London rules = vm.PrecompiledContractsBerlin.
    The tables share the implementations (same return data); they differ in the PRICE of MODEXP
    (EIP-2565, Berlin) — and Byzantium additionally in the bn256 prices and in lacking blake2f.

    No proofs in this file. *)
From Coq Require Import ZArith List Bool String.
Import ListNotations.
Local Open Scope Z_scope.

Inductive table := Byzantium | Istanbul | Berlin.

Definition table_of_name (s : string) : option table :=
  if String.eqb s "PrecompiledContractsBerlin" then Some Berlin
  else if String.eqb s "PrecompiledContractsIstanbul" then Some Istanbul
  else if String.eqb s "PrecompiledContractsByzantium" then Some Byzantium
  else None.

(** the table InitPrecompiles copies: exactly one upstream table is named *)
Definition table_of_names (l : list string) : option table :=
  match l with [s] => table_of_name s | _ => None end.

Definition ceil_div (a b : Z) : Z := (a + b - 1) / b.

(** adjusted exponent length (EIP-198): 8 * (elen - 32) for long exponents, plus the index of the
    highest set bit of the first 32 bytes of the exponent ([hb] = their bit length) *)
Definition adj_exp_len (elen hb : Z) : Z :=
  (if 32 <? elen then 8 * (elen - 32) else 0) + (if 0 <? hb then hb - 1 else 0).

(** EIP-198 multiplication complexity (Byzantium, Istanbul) *)
Definition mult_complexity_198 (x : Z) : Z :=
  if x <=? 64 then x * x
  else if x <=? 1024 then x * x / 4 + 96 * x - 3072
  else x * x / 16 + 480 * x - 199680.

(** bigModExp.RequiredGas *)
Definition modexp_gas (t : table) (blen elen mlen hb : Z) : Z :=
  let adj := Z.max (adj_exp_len elen hb) 1 in
  match t with
  | Berlin =>                                    (* EIP-2565 *)
    let w := ceil_div (Z.max blen mlen) 8 in
    Z.max 200 (w * w * adj / 3)
  | _ => mult_complexity_198 (Z.max blen mlen) * adj / 20
  end.

(** the other standard precompiles: price as a function of the input length [n] (blake2f: of the
    rounds field [n]); -1 = no such precompile in the table *)
Definition words (n : Z) : Z := ceil_div n 32.
Definition std_gas (t : table) (a : Z) (n : Z) : Z :=
  if a =? 1 then 3000
  else if a =? 2 then 60 + 12 * words n
  else if a =? 3 then 600 + 120 * words n
  else if a =? 4 then 15 + 3 * words n
  else if a =? 6 then match t with Byzantium => 500 | _ => 150 end
  else if a =? 7 then match t with Byzantium => 40000 | _ => 6000 end
  else if a =? 8 then match t with Byzantium => 100000 + 80000 * (n / 192) | _ => 45000 + 34000 * (n / 192) end
  else if a =? 9 then match t with Byzantium => -1 | _ => n end
  else -1.
