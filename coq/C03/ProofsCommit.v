(** C03 — proofs, part 6: Commit writes exactly the visible state. *)
From Coq Require Import ZArith List Bool Lia.
Import ListNotations.
Require Import Nib.C03.Model Nib.C03.Ref Nib.C03.Spec Nib.C03.ProofsBase Nib.C03.ProofsUndo
               Nib.C03.ProofsOps Nib.C03.ProofsSim Nib.C03.ProofsInv.
Local Open Scope Z_scope.

(** keeper well-formedness: no storage without an account; every account's code is in the
    (shared) bytecode table *)
Definition kwf (k : keeper) : Prop :=
  (forall a, k_acct k a = None -> forall ky, k_stor k a ky = 0) /\ code_inv k.

(** two keepers agree at address [a] *)
Definition same_k_at (k1 k2 : keeper) (a : addr) : Prop :=
  k_acct k1 a = k_acct k2 a /\ forall ky, k_stor k1 a ky = k_stor k2 a ky.

Lemma same_k_refl k a : same_k_at k k a. Proof. split; auto. Qed.
Lemma same_k_trans k1 k2 k3 a : same_k_at k1 k2 a -> same_k_at k2 k3 a -> same_k_at k1 k3 a.
Proof. intros [A B] [C D]. split; [congruence|]. intro. rewrite B. apply D. Qed.

(** ** the storage loop of commitCtx *)
Definition stor_step (a : addr) (o : obj) (k : keeper) (ky : key) : keeper :=
  match dirty o ky with
  | Some v => if v =? origin_or_zero o ky then k else kset_stor k a ky v
  | None => k
  end.

Definition written (o : obj) (ky : key) : bool :=
  match dirty o ky with Some v => negb (v =? origin_or_zero o ky) | None => false end.
Definition dirty_val (o : obj) (ky : key) : word := match dirty o ky with Some v => v | None => 0 end.

Lemma stor_step_acct a o k ky : k_acct (stor_step a o k ky) = k_acct k.
Proof. unfold stor_step. destruct (dirty o ky); [destruct (_ =? _)|]; reflexivity. Qed.

Lemma stor_step_stor a o k x b ky :
  k_stor (stor_step a o k x) b ky =
  if (b =? a) && (ky =? x) && written o x then dirty_val o x else k_stor k b ky.
Proof.
  unfold stor_step, written, dirty_val. destruct (dirty o x) as [v|]; [|rewrite andb_false_r; reflexivity].
  destruct (v =? origin_or_zero o x); cbn [negb]; [rewrite andb_false_r; reflexivity|].
  rewrite andb_true_r. cbn [k_stor kset_stor]. unfold upd.
  destruct (Z.eqb_spec b a); subst; cbn [andb]; [destruct (ky =? x); reflexivity|reflexivity].
Qed.

Lemma stor_fold_acct a o l : forall k, k_acct (fold_left (stor_step a o) l k) = k_acct k.
Proof. induction l as [|x l IH]; intro k; simpl; [reflexivity|]. rewrite IH. apply stor_step_acct. Qed.

Lemma stor_fold_stor a o l : forall k b ky,
  k_stor (fold_left (stor_step a o) l k) b ky =
  if (b =? a) && existsb (Z.eqb ky) l && written o ky then dirty_val o ky else k_stor k b ky.
Proof.
  induction l as [|x l IH]; intros k b ky; simpl; [rewrite andb_false_r; reflexivity|].
  rewrite IH, stor_step_stor.
  destruct (b =? a); simpl; [|reflexivity].
  destruct (Z.eqb_spec ky x); subst; simpl.
  - destruct (written o x); [destruct (existsb (Z.eqb x) l)|rewrite andb_false_r]; reflexivity.
  - reflexivity.
Qed.

Lemma existsb_In ky l : In ky l -> existsb (Z.eqb ky) l = true.
Proof. intro H. apply existsb_exists. exists ky. split; [exact H|apply Z.eqb_refl]. Qed.

(** the committed storage of a live object is what the object shows *)
Lemma commit_storage kp0 a o k1 ky :
  obj_ok kp0 a o -> (forall x, k_stor k1 a x = k_stor kp0 a x) ->
  k_stor (fold_left (stor_step a o) (dkeys o) k1) a ky = st kp0 a o ky.
Proof.
  intros (Hcoh & Hdo & Hdk) Hk1. rewrite stor_fold_stor, Z.eqb_refl. simpl.
  unfold written, dirty_val, st, comm, origin_or_zero.
  destruct (dirty o ky) as [v|] eqn:Hd.
  - rewrite (existsb_In ky (dkeys o)) by (apply Hdk; congruence). simpl.
    destruct (origin o ky) as [v'|] eqn:Ho; [|exfalso; apply (Hdo ky); congruence].
    destruct (Z.eqb_spec v v'); simpl; [|reflexivity].
    subst. rewrite Hk1. symmetry. apply Hcoh, Ho.
  - rewrite andb_false_r. rewrite Hk1. destruct (origin o ky) as [v'|] eqn:Ho; [|reflexivity].
    symmetry. apply Hcoh, Ho.
Qed.

(** ** one dirty address *)
Definition commit_addr (s : sdb) (k : keeper) (a : addr) : keeper :=
  if 0 <? dirties s a then
    match lookup s a with Some o => commit_obj k a o | None => k end
  else k.

Lemma commit_eq s : commit s = fold_left (commit_addr s) (nodup_z (touched s)) (kp s).
Proof. reflexivity. Qed.

Definition code_written (k : keeper) (o : obj) : keeper :=
  if dcode o && negb (chash o =? 0) then kset_code k (chash o) else k.

Lemma commit_obj_eq' k a o :
  commit_obj k a o =
  if suicided o then kdelete k a
  else fold_left (stor_step a o) (dkeys o)
         (kset_acct (code_written k o) a (Some {| ka_bal := to_native (bal o); ka_nonce := nonce o; ka_code := chash o |})).
Proof. reflexivity. Qed.

Lemma code_written_acct k o : k_acct (code_written k o) = k_acct k.
Proof. unfold code_written. destruct (_ && _); reflexivity. Qed.
Lemma code_written_stor k o : k_stor (code_written k o) = k_stor k.
Proof. unfold code_written. destruct (_ && _); reflexivity. Qed.

Lemma commit_obj_eq k a o :
  commit_obj k a o =
  if suicided o then kdelete k a
  else fold_left (stor_step a o) (dkeys o)
         (kset_acct (code_written k o) a (Some {| ka_bal := to_native (bal o); ka_nonce := nonce o; ka_code := chash o |})).
Proof. reflexivity. Qed.

Lemma commit_obj_other k a o b : b <> a -> same_k_at (commit_obj k a o) k b.
Proof.
  intro Hne. rewrite commit_obj_eq. destruct (suicided o).
  - unfold kdelete. destruct (k_acct k a); [|apply same_k_refl].
    split; simpl; intros; unfold upd; destruct (Z.eqb_spec b a); try contradiction; reflexivity.
  - split; [rewrite stor_fold_acct; simpl; rewrite code_written_acct; unfold upd; destruct (Z.eqb_spec b a); try contradiction; reflexivity|].
    intro ky. rewrite stor_fold_stor. destruct (Z.eqb_spec b a); try contradiction. simpl. rewrite code_written_stor. reflexivity.
Qed.

Lemma commit_obj_cong k1 k2 a o : same_k_at k1 k2 a -> same_k_at (commit_obj k1 a o) (commit_obj k2 a o) a.
Proof.
  intros [A B]. rewrite !commit_obj_eq. destruct (suicided o).
  - unfold kdelete. rewrite A. destruct (k_acct k2 a) eqn:E2; [|split; [congruence|exact B]].
    split; simpl; intros; rewrite ?upd_same; reflexivity.
  - split; [rewrite !stor_fold_acct; simpl; rewrite !upd_same; reflexivity|].
    intro ky. rewrite !stor_fold_stor. destruct (_ && _ && _); [reflexivity|]. simpl. rewrite !code_written_stor. apply B.
Qed.

Lemma commit_addr_other s k a b : b <> a -> same_k_at (commit_addr s k a) k b.
Proof.
  intro H. unfold commit_addr. destruct (0 <? dirties s a); [|apply same_k_refl].
  destruct (lookup s a); [apply commit_obj_other, H|apply same_k_refl].
Qed.
Lemma commit_addr_cong s k1 k2 a : same_k_at k1 k2 a -> same_k_at (commit_addr s k1 a) (commit_addr s k2 a) a.
Proof.
  intro H. unfold commit_addr. destruct (0 <? dirties s a); [|exact H].
  destruct (lookup s a); [apply commit_obj_cong, H|exact H].
Qed.

Lemma commit_fold_notin s a l : ~ In a l -> forall k, same_k_at (fold_left (commit_addr s) l k) k a.
Proof.
  induction l as [|b l IH]; intros Hn k; simpl; [apply same_k_refl|].
  eapply same_k_trans; [apply IH; intro; apply Hn; right; assumption|].
  apply commit_addr_other. intro; subst; apply Hn; left; reflexivity.
Qed.

Lemma commit_fold_in s a l : NoDup l -> In a l -> forall k,
  same_k_at (fold_left (commit_addr s) l k) (commit_addr s k a) a.
Proof.
  induction l as [|b l IH]; intros Hnd Hin k; [contradiction|]. simpl. inversion Hnd; subst.
  destruct (Z.eq_dec b a) as [->|Hne].
  - apply commit_fold_notin. assumption.
  - destruct Hin as [->|Hin]; [contradiction|].
    eapply same_k_trans; [apply IH; assumption|].
    apply commit_addr_cong, commit_addr_other. auto.
Qed.

Lemma lookup_none_kobj_acct s a : lookup s a = None -> k_acct (kp s) a = None.
Proof. intro H. apply lookup_none_kobj in H. unfold kobj in H. destruct (k_acct (kp s) a); [discriminate|reflexivity]. Qed.

(** ** the theorem *)
(** what the reference leaves at [a] at the end of the transaction, in keeper units *)
Definition committed_at (v : view) (k' : keeper) (a : addr) : Prop :=
  match w_acct (ref_commit v) a, k_acct k' a with
  | Some x, Some y => ka_bal y = to_native (wa_bal x) /\ ka_nonce y = wa_nonce x /\ ka_code y = wa_code x
  | None, None => True
  | _, _ => False
  end /\ forall ky, k_stor k' a ky = w_stor (ref_commit v) a ky.

Lemma to_native_to_wei n : to_native (to_wei n) = n.
Proof. unfold to_native, to_wei. apply Z.quot_mul. unfold WEI. lia. Qed.

Theorem commit_writes_visible s :
  Inv s -> clean (kp s) (journal s) (V s) -> kwf (kp s) ->
  forall a, committed_at (V s) (commit s) a.
Proof.
  intros HI Hcl Hk a. rewrite commit_eq.
  assert (Hat : same_k_at (fold_left (commit_addr s) (nodup_z (touched s)) (kp s)) (commit_addr s (kp s) a) a).
  { destruct (in_dec Z.eq_dec a (nodup_z (touched s))) as [Hin|Hnin].
    - apply commit_fold_in; [apply NoDup_nodup|exact Hin].
    - eapply same_k_trans; [apply commit_fold_notin, Hnin|].
      unfold commit_addr. destruct (Z.ltb_spec 0 (dirties s a)); [|apply same_k_refl].
      exfalso. apply Hnin. apply nodup_In. apply (inv_touched _ HI). assumption. }
  destruct Hat as [Hacct Hstor]. unfold committed_at. rewrite Hacct.
  assert (Hst : forall ky, k_stor (fold_left (commit_addr s) (nodup_z (touched s)) (kp s)) a ky =
                           k_stor (commit_addr s (kp s) a) a ky) by exact Hstor.
  cut (match w_acct (ref_commit (V s)) a, k_acct (commit_addr s (kp s) a) a with
       | Some x, Some y => ka_bal y = to_native (wa_bal x) /\ ka_nonce y = wa_nonce x /\ ka_code y = wa_code x
       | None, None => True
       | _, _ => False
       end /\ forall ky, k_stor (commit_addr s (kp s) a) a ky = w_stor (ref_commit (V s)) a ky).
  { intros [A B]. split; [exact A|]. intro ky. rewrite Hst. apply B. }
  clear Hacct Hstor Hst.
  unfold commit_addr. destruct (Z.ltb_spec 0 (dirties s a)) as [Hd|Hd].
  - (* a dirty address *)
    simpl w_acct. simpl w_stor. destruct (lookup s a) as [o|] eqn:Hl; cbn [option_map].
    + rewrite commit_obj_eq. cbn [aview_of av_suic av_bal av_nonce av_code]. destruct (suicided o) eqn:Hs.
      * (* self-destructed: DeleteAccount *)
        unfold kdelete. destruct (k_acct (kp s) a) eqn:Hka; simpl.
        -- rewrite !upd_same. split; [exact I|reflexivity].
        -- rewrite Hka. split; [exact I|]. intro ky. apply (proj1 Hk), Hka.
      * split.
        -- rewrite stor_fold_acct. simpl. rewrite upd_same. auto.
        -- intro ky. apply commit_storage; [apply (inv_objs _ HI), Hl|intro x; simpl; rewrite code_written_stor; reflexivity].
    + rewrite (lookup_none_kobj_acct s a Hl). split; [exact I|reflexivity].
  - (* nobody is charged for [a]: the keeper already holds what the account shows *)
    assert (Hc : count_dirty a (journal s) = 0).
    { pose proof (count_dirty_nonneg a (journal s)) as Hnn. pose proof (inv_dirt _ HI a) as Hda. lia. }
    destruct (Hcl a Hc) as [A B]. cbn [ref_commit w_acct w_stor]. rewrite A. unfold kobj.
    destruct (k_acct (kp s) a) as [ka|] eqn:Hka; cbn [option_map obj_of_kacct aview_of new_obj av_suic suicided].
    + split; [|intro ky; apply eq_sym, B].
      simpl. split; [symmetry; apply to_native_to_wei|auto].
    + split; [exact I|]. intro ky. symmetry. apply B.
Qed.

(** ** the bytecode table: Commit only ever ADDS code; DeleteAccount leaves it alone, so the code
    of an account that shares its bytecode with a self-destructed sibling stays retrievable *)
Lemma kdelete_keeps_code k a : k_code (kdelete k a) = k_code k.
Proof. unfold kdelete. destruct (k_acct k a); reflexivity. Qed.

Lemma stor_fold_code a o l : forall k, k_code (fold_left (stor_step a o) l k) = k_code k.
Proof.
  induction l as [|x l IH]; intro k; simpl; [reflexivity|]. rewrite IH.
  unfold stor_step. destruct (dirty o x); [destruct (_ =? _)|]; reflexivity.
Qed.

Lemma commit_obj_code k a o h :
  k_code (commit_obj k a o) h =
  if negb (suicided o) && dcode o && negb (chash o =? 0) && (h =? chash o) then true else k_code k h.
Proof.
  rewrite commit_obj_eq'. destruct (suicided o); simpl; [rewrite kdelete_keeps_code; reflexivity|].
  rewrite stor_fold_code. simpl. unfold code_written. destruct (dcode o); simpl; [|reflexivity].
  destruct (chash o =? 0); simpl; [reflexivity|]. unfold upd. destruct (h =? chash o); reflexivity.
Qed.

Lemma commit_addr_code_mono s k a h : k_code k h = true -> k_code (commit_addr s k a) h = true.
Proof.
  intro H. unfold commit_addr. destruct (0 <? dirties s a); [|exact H].
  destruct (lookup s a); [|exact H]. rewrite commit_obj_code, H. destruct (_ && _ && _ && _); reflexivity.
Qed.

Lemma commit_fold_code_mono s l h : forall k, k_code k h = true -> k_code (fold_left (commit_addr s) l k) h = true.
Proof. induction l as [|b l IH]; intros k H; simpl; [exact H|]. apply IH, commit_addr_code_mono, H. Qed.

Lemma commit_fold_code_written s a o l : In a l -> 0 < dirties s a -> lookup s a = Some o ->
  suicided o = false -> dcode o = true -> chash o <> 0 ->
  forall k, k_code (fold_left (commit_addr s) l k) (chash o) = true.
Proof.
  intros Hin Hd Hl Hs Hdc Hc. induction l as [|b l IH]; intro k; [contradiction|]. simpl.
  destruct (Z.eq_dec b a) as [->|Hne].
  - apply commit_fold_code_mono. unfold commit_addr.
    destruct (Z.ltb_spec 0 (dirties s a)); [|lia]. rewrite Hl, commit_obj_code, Hs, Hdc. simpl.
    destruct (Z.eqb_spec (chash o) 0); [contradiction|]. simpl. rewrite Z.eqb_refl. reflexivity.
  - destruct Hin as [->|Hin]; [contradiction|]. apply IH, Hin.
Qed.

Theorem commit_code_table s :
  Inv s -> clean (kp s) (journal s) (V s) ->
  (forall h, k_code (kp s) h = true -> k_code (commit s) h = true) /\ code_inv (commit s).
Proof.
  intros HI Hcl. split; [intros h H; rewrite commit_eq; apply commit_fold_code_mono, H|].
  intros a x Hx. rewrite commit_eq in *.
  assert (Hat : same_k_at (fold_left (commit_addr s) (nodup_z (touched s)) (kp s)) (commit_addr s (kp s) a) a).
  { destruct (in_dec Z.eq_dec a (nodup_z (touched s))) as [Hin|Hnin].
    - apply commit_fold_in; [apply NoDup_nodup|exact Hin].
    - eapply same_k_trans; [apply commit_fold_notin, Hnin|].
      unfold commit_addr. destruct (Z.ltb_spec 0 (dirties s a)); [|apply same_k_refl].
      exfalso. apply Hnin. apply nodup_In. apply (inv_touched _ HI). assumption. }
  destruct Hat as [Hacct _]. rewrite Hacct in Hx. unfold commit_addr in Hx.
  destruct (Z.ltb_spec 0 (dirties s a)) as [Hd|Hd].
  - destruct (lookup s a) as [o|] eqn:Hl.
    + rewrite commit_obj_eq' in Hx. destruct (suicided o) eqn:Hs.
      * unfold kdelete in Hx. destruct (k_acct (kp s) a) eqn:Hka; simpl in Hx.
        -- rewrite upd_same in Hx. discriminate.
        -- congruence.
      * rewrite stor_fold_acct in Hx. simpl in Hx. rewrite upd_same in Hx. injection Hx as <-. simpl.
        destruct (Z.eq_dec (chash o) 0) as [Hz|Hnz]; [left; exact Hz|right].
        destruct (dcode o) eqn:Hdc.
        -- apply (commit_fold_code_written s a o); auto. apply nodup_In, (inv_touched _ HI), Hd.
        -- apply commit_fold_code_mono.
           destruct (inv_objs _ HI a o Hl) as (_ & _ & _ & Hsrc). destruct (Hsrc Hdc); [contradiction|assumption].
    + destruct (inv_kcode _ HI a x Hx) as [Hz|Hc]; [left; exact Hz|right; apply commit_fold_code_mono, Hc].
  - destruct (inv_kcode _ HI a x Hx) as [Hz|Hc]; [left; exact Hz|right; apply commit_fold_code_mono, Hc].
Qed.
