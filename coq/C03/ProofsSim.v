(** C03 — proofs, part 4: the simulation between the journaled StateDB with revisions and the
    reference machine (stack of full copies), for arbitrary op sequences obeying the protocol. *)
From Coq Require Import ZArith List Bool Lia.
Import ListNotations.
Require Import Nib.C03.Model Nib.C03.Ref Nib.C03.Spec Nib.C03.ProofsBase Nib.C03.ProofsUndo Nib.C03.ProofsOps.
Local Open Scope Z_scope.

(** accounts nobody is charged for look exactly as in the keeper *)
Definition clean (kp0 : keeper) (j : list entry) (v : view) : Prop :=
  forall a, count_dirty a j = 0 ->
  v_acct v a = option_map aview_of (kobj kp0 a) /\ forall k, v_stor v a k = k_stor kp0 a k.

Lemma clean_veq kp0 j v w : veq v w -> clean kp0 j v -> clean kp0 j w.
Proof. intros [] H a Ha. destruct (H a Ha) as [A B]. split; [rewrite <- eq_acct; exact A|intro k; rewrite <- eq_stor; apply B]. Qed.

(** a saved revision: unwinding to journal length [n] gives the saved copy *)
Definition snap_ok (s : sdb) (n : nat) (vw : view) : Prop :=
  let d := (length (journal s) - n)%nat in
  veq (vunwind (kp s) (firstn d (journal s)) (V s)) vw /\ clean (kp s) (skipn d (journal s)) vw.

Fixpoint revs_rel (s : sdb) (bound : nat) (rv : list (Z * nat)) (stk : list (Z * view)) : Prop :=
  match rv, stk with
  | [], [] => True
  | (id, n) :: rv', (id', vw) :: stk' =>
    id = id' /\ (n <= bound)%nat /\ snap_ok s n vw /\ revs_rel s n rv' stk'
  | _, _ => False
  end.

Record R (k0 : keeper) (f : full) (r : ref) : Prop := {
  R_kp : kp (core f) = k0;   (* the keeper is not written before Commit *)
  R_cur : veq (V (core f)) (cur r);
  R_clean : clean (kp (core f)) (journal (core f)) (V (core f));
  R_next : next_rev f = rnext r;
  R_revs : revs_rel (core f) (length (journal (core f))) (revs f) (stack r)
}.

(** ** a method call keeps every saved revision valid *)
Lemma snap_ok_step s s' n vw :
  ok s s' -> (n <= length (journal s))%nat -> snap_ok s n vw -> snap_ok s' n vw.
Proof.
  intros (K & new & J & HU & HF) Hn [HV HC]. unfold snap_ok in *. rewrite K, J, app_length.
  replace (length new + length (journal s) - n)%nat with (length new + (length (journal s) - n))%nat by lia.
  rewrite firstn_app_2, skipn_app.
  replace (length new + (length (journal s) - n) - length new)%nat with (length (journal s) - n)%nat by lia.
  rewrite (skipn_all2 new) by lia. simpl. split; [|exact HC].
  rewrite vunwind_app. eapply veq_trans; [apply vunwind_veq, HU|exact HV].
Qed.

Lemma revs_rel_step s s' : ok s s' -> forall rv stk bound,
  (bound <= length (journal s))%nat -> revs_rel s bound rv stk -> revs_rel s' bound rv stk.
Proof.
  intros Hok. induction rv as [|[id n] rv IH]; intros [|[id' vw] stk] bound Hb H; simpl in *; auto; try contradiction.
  destruct H as (Hid & Hn & Hs & Hr). split; [exact Hid|]. split; [exact Hn|]. split.
  - eapply snap_ok_step; eauto. lia.
  - apply IH; [lia|exact Hr].
Qed.

Lemma revs_rel_weaken s rv stk b1 b2 : (b1 <= b2)%nat -> revs_rel s b1 rv stk -> revs_rel s b2 rv stk.
Proof.
  destruct rv as [|[id n] rv], stk as [|[id' vw] stk]; simpl; auto.
  intros Hb (A & B & C & D). split; [exact A|]. split; [lia|]. split; assumption.
Qed.

Lemma clean_step s s' : ok s s' -> clean (kp s) (journal s) (V s) -> clean (kp s') (journal s') (V s').
Proof.
  intros (K & new & J & HU & HF) HC a Ha. rewrite J, count_dirty_app in Ha.
  pose proof (count_dirty_nonneg a new). pose proof (count_dirty_nonneg a (journal s)).
  destruct (HC a ltac:(lia)) as [A B]. destruct (HF a ltac:(lia)) as [A' B'].
  rewrite K. split; [congruence|]. intro k. rewrite B'. apply B.
Qed.

(** ** reverting to a saved revision *)
Lemma firstn_skipn_split {A} (l : list A) (d1 d2 : nat) :
  firstn (d1 + d2) l = firstn d1 l ++ firstn d2 (skipn d1 l).
Proof.
  revert l; induction d1 as [|d1 IH]; intros l; simpl; [reflexivity|].
  destruct l; simpl; [rewrite firstn_nil; reflexivity|]. rewrite IH. reflexivity.
Qed.
Lemma skipn_skipn' {A} (l : list A) (d1 d2 : nat) : skipn d2 (skipn d1 l) = skipn (d1 + d2) l.
Proof.
  revert l; induction d1 as [|d1 IH]; intros l; simpl; [reflexivity|].
  destruct l; simpl; [rewrite skipn_nil; reflexivity|]. apply IH.
Qed.

Lemma snap_ok_unwind s n n2 vw2 :
  (n2 <= n)%nat -> (n <= length (journal s))%nat -> snap_ok s n2 vw2 -> snap_ok (unwind n s) n2 vw2.
Proof.
  intros H2 Hn [HV HC]. destruct (unwind_spec n s Hn) as (J & K & HU).
  unfold snap_ok in *. rewrite K, J.
  set (L := length (journal s)) in *.
  assert (Hlen : length (skipn (L - n) (journal s)) = n) by (rewrite skipn_length; unfold L; lia).
  rewrite Hlen.
  replace (L - n2)%nat with ((L - n) + (n - n2))%nat in HV, HC by lia.
  rewrite firstn_skipn_split, vunwind_app in HV. rewrite <- skipn_skipn' in HC.
  split; [|exact HC].
  eapply veq_trans; [apply vunwind_veq, HU|exact HV].
Qed.

Lemma revs_rel_unwind s n : (n <= length (journal s))%nat -> forall rv stk bound,
  (bound <= n)%nat -> revs_rel s bound rv stk -> revs_rel (unwind n s) bound rv stk.
Proof.
  intros Hn. induction rv as [|[id m] rv IH]; intros [|[id' vw] stk] bound Hb H; simpl in *; auto; try contradiction.
  destruct H as (Hid & Hm & Hs & Hr). split; [exact Hid|]. split; [exact Hm|]. split.
  - apply snap_ok_unwind; auto. lia.
  - apply IH; [lia|exact Hr].
Qed.

Lemma find_rel s : forall rv stk bound id,
  revs_rel s bound rv stk ->
  match find_rev id rv, find_copy id stk with
  | None, None => True
  | Some (n, older), Some (vw, older') => (n <= bound)%nat /\ snap_ok s n vw /\ revs_rel s n older older'
  | _, _ => False
  end.
Proof.
  induction rv as [|[i n] rv IH]; intros [|[i' vw] stk] bound id H; simpl in *; auto; try contradiction.
  destruct H as (Hid & Hn & Hs & Hr). subst i'. destruct (i =? id).
  - auto.
  - specialize (IH stk n id Hr). destruct (find_rev id rv) as [[m older]|], (find_copy id stk) as [[vw' older']|]; auto.
    destruct IH as (A & B & C). split; [lia|]. split; assumption.
Qed.

(** ** one step *)
Definition is_core (o : op) : bool := match o with OSnapshot | ORevert _ => false | _ => true end.

Lemma step_core_eq o f : is_core o = true ->
  step o f = (with_core f (fst (step_core o (core f))), snd (step_core o (core f))).
Proof. destruct o; try discriminate; intros _; cbn [step]; destruct (step_core _ (core f)); reflexivity. Qed.
Lemma rstep_core_eq o r : is_core o = true ->
  rstep o r = ({| cur := fst (vstep o (cur r)); stack := stack r; rnext := rnext r |}, snd (vstep o (cur r))).
Proof. destruct o; try discriminate; intros _; cbn [rstep]; destruct (vstep _ (cur r)); reflexivity. Qed.

Theorem step_sim k0 f r o :
  R k0 f r -> wf_step (k_stor k0) r o ->
  snd (step o f) = snd (rstep o r) /\ R k0 (fst (step o f)) (fst (rstep o r)).
Proof.
  intros HR Hwf. pose proof HR as [HB HC HCl HN HRv].
  assert (Hcore : forall o', is_core o' = true ->
                  wf_core (core f) o' ->
                  snd (step_core o' (core f)) = snd (vstep o' (cur r)) /\
                  R k0 (with_core f (fst (step_core o' (core f))))
                    {| cur := fst (vstep o' (cur r)); stack := stack r; rnext := rnext r |}).
  { intros o' _ Hw. destruct (sim_step_core o' (core f) Hw) as (Hret & HV & Hok).
    destruct (vstep_cong o' _ _ HC) as (Hret2 & HV2).
    split; [congruence|]. pose proof Hok as (K & _).
    split; cbn [core with_core cur stack rnext revs next_rev].
    - rewrite K. exact HB.
    - eapply veq_trans; eauto.
    - apply (clean_step _ _ Hok HCl).
    - exact HN.
    - destruct Hok as (K' & new & J & Hrest).
      apply revs_rel_weaken with (b1 := length (journal (core f))); [rewrite J, app_length; lia|].
      apply (revs_rel_step (core f)); [split; [exact K'|exists new; split; [exact J|exact Hrest]] | lia | exact HRv]. }
  assert (Hcreate : forall a, wf_create (k_stor k0) (cur r) a -> wf_create (k_stor (kp (core f))) (V (core f)) a).
  { intros a (H1 & H2). split; [intro k; rewrite HB; apply H1|].
    rewrite (eq_acct _ _ HC a). destruct (v_acct (cur r) a); [|exact I].
    destruct H2 as (A & B & C & D). split; [exact A|]. split; [exact B|]. split; [exact C|]. intro k. rewrite (eq_stor _ _ HC a k). apply D. }
  destruct (is_core o) eqn:Hic.
  { rewrite (step_core_eq o f Hic), (rstep_core_eq o r Hic). cbn [fst snd]. apply Hcore; [exact Hic|].
    destruct o; try exact I. cbn [wf_core]. apply Hcreate. exact Hwf. }
  destruct o; try discriminate.
  - (* Snapshot *)
    cbn [step rstep fst snd]. split; [rewrite HN; reflexivity|].
    split; cbn [core with_core cur stack rnext revs next_rev]; auto.
    + rewrite HN; reflexivity.
    + simpl. split; [exact HN|]. split; [lia|]. split; [|exact HRv].
      unfold snap_ok. rewrite Nat.sub_diag. simpl. split; [exact HC|]. eapply clean_veq; eauto.
  - (* RevertToSnapshot *)
    cbn [step rstep]. cbn [wf_step] in Hwf.
    pose proof (find_rel (core f) (revs f) (stack r) _ id HRv) as Hf.
    destruct (find_rev id (revs f)) as [[n older]|], (find_copy id (stack r)) as [[vw older']|];
      try contradiction; try (exfalso; apply Hwf; reflexivity).
    destruct Hf as (Hn & [HV HK] & Hr). cbn [fst snd]. split; [reflexivity|].
    destruct (unwind_spec n (core f) Hn) as (J & K & HU).
    split; cbn [core with_core cur stack rnext revs next_rev].
    + rewrite K. exact HB.
    + eapply veq_trans; [exact HU|exact HV].
    + rewrite K, J. eapply clean_veq; [|exact HK]. apply veq_sym. eapply veq_trans; [exact HU|exact HV].
    + exact HN.
    + assert (Hlen : length (journal (unwind n (core f))) = n).
      { rewrite J, skipn_length. lia. }
      rewrite Hlen. apply revs_rel_unwind; auto.
Qed.

(** ** whole sequences *)
Theorem run_sim k0 : forall ops f r,
  R k0 f r -> wf_run (k_stor k0) ops r ->
  snd (run ops f) = snd (rrun ops r) /\ R k0 (fst (run ops f)) (fst (rrun ops r)).
Proof.
  induction ops as [|o ops IH]; intros f r HR Hwf; simpl.
  - split; [reflexivity|exact HR].
  - destruct Hwf as [Hw Hrest]. destruct (step_sim k0 f r o HR Hw) as (Hret & HR').
    destruct (step o f) as [f1 x]. destruct (rstep o r) as [r1 y]. cbn [fst snd] in *.
    destruct (IH f1 r1 HR' Hrest) as (Hrets & HR'').
    destruct (run ops f1) as [f2 xs]. destruct (rrun ops r1) as [r2 ys]. cbn [fst snd] in *.
    split; [congruence|exact HR''].
Qed.

(** ** a fresh StateDB over a keeper is related to the reference started from the keeper's world *)
Lemma lookup_new k a : lookup (new_sdb k) a = kobj k a.
Proof. rewrite lookup_def. reflexivity. Qed.

Lemma R_init k : R k (new_full k) (ref_begin (world_of k)).
Proof.
  split; cbn [core new_full cur ref_begin stack rnext revs next_rev].
  - reflexivity.
  - split; simpl; intros; try reflexivity; rewrite lookup_new; unfold kobj;
      destruct (k_acct k a); reflexivity.
  - intros a _. split; [simpl; rewrite lookup_new; reflexivity|].
    intro kk. simpl. rewrite lookup_new. destruct (kobj k a) eqn:H; [apply (st_kobj _ _ _ _ H)|reflexivity].
  - reflexivity.
  - exact I.
Qed.
