(** C03 — proofs, part 9: the boolean protocol check evaluated on traces ([wf_txs_b], over the
    finite key universe of a case) implies the Prop-level hypotheses of the theorems ([wf_run],
    [ref_hist_wf]) provided the case only writes storage keys of its universe. *)
From Coq Require Import ZArith List Bool Lia.
Import ListNotations.
Require Import Nib.C03.Model Nib.C03.Ref Nib.C03.Spec Nib.C03.ProofsBase Nib.C03.ProofsUndo
               Nib.C03.ProofsOps Nib.C03.ProofsSim Nib.C03.ProofsInv Nib.C03.ProofsCommit Nib.C03.ProofsTx
               Nib.C03.ProofsHist.
Local Open Scope Z_scope.

(** storage is zero outside the key universe *)
Definition fsupp (ks : list key) (f : addr -> key -> word) : Prop := forall a k, ~ In k ks -> f a k = 0.
Definition vsupp (ks : list key) (v : view) : Prop := fsupp ks (v_stor v).
Definition rsupp (ks : list key) (r : ref) : Prop :=
  vsupp ks (cur r) /\ Forall (fun p => vsupp ks (snd p)) (stack r).

Definition op_keys_in (ks : list key) (o : op) : Prop :=
  match o with OSetState _ k _ => In k ks | _ => True end.

Lemma all_zero_spec ks f : all_zero ks f = true -> forall k, In k ks -> f k = 0.
Proof.
  unfold all_zero. rewrite forallb_forall. intros H k Hk. apply Z.eqb_eq, H, Hk.
Qed.

Lemma zero_everywhere ks (f : key -> word) :
  all_zero ks f = true -> (forall k, ~ In k ks -> f k = 0) -> forall k, f k = 0.
Proof.
  intros H1 H2 k. destruct (in_dec Z.eq_dec k ks); [apply (all_zero_spec ks f H1), i|apply H2, n].
Qed.

Lemma vprepare_stor v sd dst pre al : v_stor (vprepare v sd dst pre al) = v_stor v.
Proof.
  unfold vprepare.
  assert (Hs : forall l a v0, v_stor (fold_left (fun v k => vadd_slot v a k) l v0) = v_stor v0).
  { induction l; intros; simpl; [reflexivity|]. rewrite IHl. reflexivity. }
  assert (Ha : forall l v0, v_stor (fold_left vadd_addr l v0) = v_stor v0).
  { induction l; intros; simpl; [reflexivity|]. rewrite IHl. reflexivity. }
  assert (Hal : forall l v0, v_stor (fold_left (fun v el => fold_left (fun v k => vadd_slot v (fst el) k) (snd el) (vadd_addr v (fst el))) l v0) = v_stor v0).
  { induction l; intros; simpl; [reflexivity|]. rewrite IHl, Hs. reflexivity. }
  rewrite Hal, Ha. destruct dst; reflexivity.
Qed.

Lemma vstep_supp ks o v : op_keys_in ks o -> vsupp ks v -> vsupp ks (fst (vstep o v)).
Proof.
  intros Ho Hv. destruct o; cbn [vstep fst op_keys_in] in *; try exact Hv;
    try (intros a' k' Hk; cbn [v_stor vset_acct vset_stor vset_comm vset_refund vset_logs]; apply Hv, Hk).
  - (* CreateAccount *) intros a' k' Hk. simpl. unfold upd. destruct (a' =? a); [reflexivity|apply Hv, Hk].
  - destruct (v_refund v <? g); exact Hv.
  - (* SetState *) intros a' k' Hk. simpl. unfold upd. destruct (a' =? a); [|apply Hv, Hk].
    destruct (Z.eqb_spec k' k); [subst; contradiction|apply Hv, Hk].
  - destruct (v_acct v a); cbn [fst]; [|exact Hv]. intros a' k' Hk. simpl. apply Hv, Hk.
  - intros a' k' Hk. rewrite vprepare_stor. apply Hv, Hk.
Qed.

Lemma find_copy_supp ks id : forall stk v older,
  Forall (fun p => vsupp ks (snd p)) stk -> find_copy id stk = Some (v, older) ->
  vsupp ks v /\ Forall (fun p => vsupp ks (snd p)) older.
Proof.
  induction stk as [|[i w] stk IH]; intros v older H; simpl; [discriminate|].
  inversion H; subst. destruct (i =? id); [intros [= <- <-]; auto|apply IH; assumption].
Qed.

Lemma rstep_supp ks o r : op_keys_in ks o -> rsupp ks r -> rsupp ks (fst (rstep o r)).
Proof.
  intros Ho [Hc Hs]. destruct (is_core o) eqn:Hic.
  - rewrite (rstep_core_eq o r Hic). cbn [fst]. split; [apply vstep_supp; assumption|exact Hs].
  - destruct o; try discriminate; cbn [rstep].
    + split; [exact Hc|constructor; assumption].
    + destruct (find_copy id (stack r)) as [[v older]|] eqn:E; [|split; assumption].
      destruct (find_copy_supp ks id _ _ _ Hs E). split; assumption.
Qed.

(** one step: the boolean check implies the protocol (and whole-unibi amounts) *)
Lemma wf_step_b_sound as_ ks base r o :
  fsupp ks base -> rsupp ks r -> wf_step_b as_ ks base r o = true -> wf_step base r o /\ op_whole o.
Proof.
  intros Hb [Hc _] H. destruct o; cbn [wf_step_b wf_step op_whole] in *; try (split; exact I).
  - (* CreateAccount *)
    split; [|exact I]. unfold wf_create_b in H. apply andb_true_iff in H as [H1 H2].
    split; [apply (zero_everywhere ks (base a) H1); intros k Hk; apply Hb, Hk|].
    destruct (v_acct (cur r) a) as [x|]; [|exact I].
    apply andb_true_iff in H2 as [H2 Hz]. apply andb_true_iff in H2 as [H2 Hsu].
    apply andb_true_iff in H2 as [Hn Hco].
    split; [apply Z.eqb_eq; assumption|]. split; [apply Z.eqb_eq; assumption|].
    split; [destruct (av_suic x); [discriminate|reflexivity]|].
    apply (zero_everywhere ks (v_stor (cur r) a)); [assumption|]. intros k Hk. apply Hc, Hk.
  - split; [exact I|]. apply andb_true_iff in H as [H _]. unfold divides_wei in H.
    apply andb_true_iff in H as [_ H]. apply Z.eqb_eq, H.
  - split; [exact I|]. unfold divides_wei in H. apply andb_true_iff in H as [_ H]. apply Z.eqb_eq, H.
  - split; [apply Z.leb_le, H|exact I].
  - split; [|exact I]. destruct (find_copy id (stack r)); [discriminate|discriminate].
Qed.

Theorem wf_run_b_sound as_ ks base : fsupp ks base -> forall ops r,
  Forall (op_keys_in ks) ops -> rsupp ks r -> wf_run_b as_ ks base ops r = true ->
  wf_run base ops r /\ Forall op_whole ops /\ rsupp ks (fst (rrun ops r)).
Proof.
  intros Hb. induction ops as [|o ops IH]; intros r Hk Hr H; simpl in *.
  - split; [exact I|]. split; [constructor|exact Hr].
  - inversion Hk as [|? ? Ko Kops]; subst. apply andb_true_iff in H as [Hb1 Hb2].
    destruct (wf_step_b_sound as_ ks base r o Hb Hr Hb1) as [W1 W2].
    pose proof (rstep_supp ks o r Ko Hr) as Hr1.
    destruct (IH (fst (rstep o r)) Kops Hr1 Hb2) as (A & B & C).
    destruct (rstep o r) as [r1 x]. cbn [fst] in *. destruct (rrun ops r1) as [r2 xs]. cbn [fst] in *.
    split; [split; assumption|]. split; [constructor; assumption|exact C].
Qed.

(** histories *)
Definition wsupp (ks : list key) (w : world) : Prop := fsupp ks (w_stor w).

Lemma ref_begin_supp ks w : wsupp ks w -> rsupp ks (ref_begin w).
Proof. intro H. split; [exact H|constructor]. Qed.

Lemma ref_commit_supp ks v : vsupp ks v -> wsupp ks (ref_commit v).
Proof.
  intros H a k Hk. simpl. destruct (v_acct v a) as [x|]; [destruct (av_suic x); [reflexivity|]|]; apply H, Hk.
Qed.

Theorem wf_txs_b_sound as_ ks : forall txs w,
  Forall (Forall (op_keys_in ks)) txs -> wsupp ks w ->
  wf_txs_b as_ ks w txs = true -> ref_hist_wf w txs.
Proof.
  induction txs as [|t txs IH]; intros w Hk Hw H; simpl in *; [exact I|].
  inversion Hk as [|? ? Kt Ktxs]; subst. apply andb_true_iff in H as [Hb1 Hb2].
  destruct (wf_run_b_sound as_ ks (w_stor w) Hw t (ref_begin w) Kt (ref_begin_supp ks w Hw) Hb1) as (A & B & C).
  split; [exact A|]. split; [exact B|].
  apply IH; [exact Ktxs| |exact Hb2].
  unfold ref_tx. destruct (rrun t (ref_begin w)) as [r xs]. cbn [fst] in *. apply ref_commit_supp, C.
Qed.

(** a trace whose boolean protocol check passes satisfies the hypothesis of the history theorem *)
Corollary checked_trace_meets_theorem t :
  Forall (Forall (op_keys_in (t_keys t))) (t_txs t) ->
  wf_txs_b (t_addrs t) (t_keys t) empty_world (t_txs t) = true ->
  snd (run_txs empty_keeper (t_txs t)) = snd (ref_txs empty_world (t_txs t)) /\
  weq (world_of (fst (run_txs empty_keeper (t_txs t)))) (fst (ref_txs empty_world (t_txs t))).
Proof.
  intros Hk H. apply history_from_empty_world.
  apply (wf_txs_b_sound (t_addrs t) (t_keys t)); [exact Hk| |exact H].
  intros a k _. reflexivity.
Qed.
