(** C03 — the standard precompiles: what the choice of the upstream table changes. *)
From Coq Require Import ZArith List Bool String Lia.
Import ListNotations.
Require Import Nib.C03.Precompiles.
Local Open Scope Z_scope.

(** Istanbul and Berlin price every standard precompile except MODEXP identically *)
Lemma istanbul_berlin_same_prices a n : std_gas Istanbul a n = std_gas Berlin a n.
Proof. unfold std_gas. repeat (destruct (a =? _); [reflexivity|]). reflexivity. Qed.

(** EIP-2565: MODEXP never costs less than 200 gas under the London table *)
Lemma modexp_berlin_floor blen elen mlen hb : 200 <= modexp_gas Berlin blen elen mlen hb.
Proof. unfold modexp_gas. lia. Qed.

(** the London price of MODEXP is monotone in nothing but its inputs: it is the EIP-2565 formula *)
Lemma modexp_berlin_formula blen elen mlen hb :
  modexp_gas Berlin blen elen mlen hb =
  Z.max 200 (ceil_div (Z.max blen mlen) 8 * ceil_div (Z.max blen mlen) 8 * Z.max (adj_exp_len elen hb) 1 / 3).
Proof. reflexivity. Qed.

(** only the Berlin table is the London one: with 32-byte operands the Istanbul (and Byzantium) table
    charges 13056 gas where London charges 1360 *)
Theorem istanbul_modexp_pricing_refuted :
  modexp_gas Berlin 32 32 32 256 = 1360 /\ modexp_gas Istanbul 32 32 32 256 = 13056 /\
  modexp_gas Byzantium 32 32 32 256 = 13056.
Proof. vm_compute. repeat split; reflexivity. Qed.

Lemma table_of_names_berlin l : table_of_names l = Some Berlin -> l = ["PrecompiledContractsBerlin"%string].
Proof.
  destruct l as [|s [|]]; try discriminate. unfold table_of_names, table_of_name.
  destruct (String.eqb s "PrecompiledContractsBerlin") eqn:E; [apply String.eqb_eq in E; subst; reflexivity|].
  destruct (String.eqb s "PrecompiledContractsIstanbul"); [discriminate|].
  destruct (String.eqb s "PrecompiledContractsByzantium"); discriminate.
Qed.
