(** C03 — the message layer (Msg.v): the pointer / branch plumbing of Keeper.EthereumTx is
    invisible when the published StateDB is forgotten on every return path, message histories
    then equal the reference (go-ethereum's state transition on the reference world) — and the
    variant that forgets it only on the success path is refuted. *)
From Coq Require Import ZArith List Bool Lia.
Import ListNotations.
Require Import Nib.C03.Model Nib.C03.Ref Nib.C03.Spec Nib.C03.Msg.
Require Import Nib.C03.ProofsInv Nib.C03.ProofsCommit Nib.C03.ProofsTx Nib.C03.ProofsHist.
Local Open Scope Z_scope.

(** * 1. the pointer discipline *)

(** With `defer ClearTxStateDB` a message that starts with no published StateDB is the pure
    specification: ante; one StateDB transaction; refund — or nothing at all — and it ends with no
    published StateDB. *)
Lemma deliver_is_spec f st m : ms_ptr st = None ->
  ms_blk (fst (deliver true true f st m)) = fst (spec_deliver f (ms_blk st) m) /\
  snd (deliver true true f st m) = snd (spec_deliver f (ms_blk st) m) /\
  ms_ptr (fst (deliver true true f st m)) = None.
Proof.
  intro Hp. unfold deliver, spec_deliver, run_tx. rewrite Hp.
  destruct (ante true f (ms_blk st) m) as [b|]; [|simpl; auto].
  destruct (m_gas m <? intrinsic m); [simpl; auto|].
  destruct (run (m_ops m) (new_full b)) as [f1 rets]. simpl. auto.
Qed.

Theorem deliver_hist_is_spec f : forall ms st, ms_ptr st = None ->
  ms_blk (fst (deliver_hist true true f st ms)) = fst (spec_hist f (ms_blk st) ms) /\
  snd (deliver_hist true true f st ms) = snd (spec_hist f (ms_blk st) ms) /\
  ms_ptr (fst (deliver_hist true true f st ms)) = None.
Proof.
  induction ms as [|m ms IH]; intros st Hp; simpl; [auto|].
  destruct (deliver_is_spec f st m Hp) as (A & B & C).
  destruct (deliver true true f st m) as [st1 r]. destruct (spec_deliver f (ms_blk st) m) as [k1 r']. simpl in *. subst.
  destruct (IH st1 C) as (D & E & F).
  destruct (deliver_hist true true f st1 ms) as [st2 rs]. destruct (spec_hist f (ms_blk st1) ms) as [k2 rs']. simpl in *.
  subst. auto.
Qed.

(** a rejected message (ante or intrinsic gas) leaves the block state untouched *)
Lemma rejected_no_effect c b f st m : snd (deliver c b f st m) = MRejected -> ms_blk (fst (deliver c b f st m)) = ms_blk st.
Proof.
  unfold deliver. destruct (ante b f (ms_blk st) m) as [br|]; [|reflexivity].
  destruct (m_gas m <? intrinsic m); [reflexivity|].
  destruct (run _ _) as [f1 rets]. simpl. discriminate.
Qed.

(** * 2. message histories against the reference *)

(** base fee, tip and fee cap are whole unibi per gas (so every fee is whole unibi); the tip is not negative *)
Definition price_whole (m : msg) : Prop :=
  m_base m mod WEI = 0 /\ m_tip m mod WEI = 0 /\ m_cap m mod WEI = 0 /\ 0 <= m_tip m.

(** side condition of the message theorems: the gas price / fee cap is not below the base fee.  (Below
    it Nibiru's ante chain admits the message and charges the base fee, go-ethereum rejects it:
    [admission_below_base_fee_refuted].) *)
Definition cap_covers_base (m : msg) : Prop := m_base m <= m_cap m.

(** true of every real message (unsigned quantities) *)
Definition amounts_nonneg (m : msg) : Prop := 0 <= m_tip m /\ 0 <= m_gas m /\ 0 <= m_value m.



Lemma mul_whole a p : p mod WEI = 0 -> (a * p) mod WEI = 0.
Proof.
  intro H. pose proof WEI_pos. apply Z.mod_divide in H; [|lia]. apply Z.mod_divide; [lia|].
  apply Z.divide_mul_r. exact H.
Qed.

Lemma nib_price_whole m : price_whole m -> nib_price m mod WEI = 0.
Proof.
  intros (Hb & Ht & Hc & _). pose proof WEI_pos as Hw.
  assert (Hs : (m_tip m + m_base m) mod WEI = 0).
  { apply Z.mod_divide; [lia|]. apply Z.divide_add_r; apply Z.mod_divide; auto; lia. }
  unfold nib_price.
  destruct (Z.max_spec (m_base m) (Z.min (m_tip m + m_base m) (m_cap m))) as [[_ ->]|[_ ->]]; [|exact Hb].
  destruct (Z.min_spec (m_tip m + m_base m) (m_cap m)) as [[_ ->]|[_ ->]]; assumption.
Qed.

(** once the fee cap covers the base fee, Nibiru's effective price is go-ethereum's gas price *)
Lemma prices_eq m : m_base m <= m_cap m -> 0 <= m_tip m -> nib_price m = geth_price m.
Proof. unfold nib_price, geth_price. lia. Qed.

(** the effective fee never exceeds gas * feeCap + value, so the bank never refuses the fee of a
    message that passed CheckSenderBalance *)
Lemma fee_le_cap_cost m : cap_covers_base m -> amounts_nonneg m -> fee m <= cap_cost m.
Proof.
  intros Hc (Ht & Hg & Hv). unfold fee, cap_cost. rewrite (prices_eq m Hc Ht). unfold geth_price.
  assert (m_gas m * Z.min (m_tip m + m_base m) (m_cap m) <= m_gas m * m_cap m) by (apply Z.mul_le_mono_nonneg_l; lia).
  lia.
Qed.

Lemma fee_whole m : price_whole m -> to_wei (to_native (fee m)) = fee m.
Proof. intro H. apply whole_unibi_iff. apply mul_whole, nib_price_whole, H. Qed.
Lemma leftover_whole m : price_whole m -> to_wei (to_native (leftover m)) = leftover m.
Proof. intro H. apply whole_unibi_iff. apply mul_whole, nib_price_whole, H. Qed.

Lemma to_wei_sub a b : to_wei (a - b) = to_wei a - to_wei b.
Proof. unfold to_wei. apply Z.mul_sub_distr_r. Qed.
Lemma to_wei_add a b : to_wei (a + b) = to_wei a + to_wei b.
Proof. unfold to_wei. apply Z.mul_add_distr_r. Qed.

Lemma kwf_kset_acct k a y : kwf k -> (ka_code y = 0 \/ k_code k (ka_code y) = true) -> kwf (kset_acct k a (Some y)).
Proof.
  intros [H1 H2] Hc. split.
  - intros a0 H ky. simpl in *. unfold upd in H. destruct (a0 =? a); [discriminate|]. apply H1, H.
  - intros a0 x H. simpl in *. unfold upd in H. destruct (a0 =? a).
    + injection H as <-. exact Hc.
    + eapply H2, H.
Qed.

Lemma k_get_code k a : kwf k -> ka_code (k_get k a) = 0 \/ k_code k (ka_code (k_get k a)) = true.
Proof.
  intros [_ H2]. unfold k_get. destruct (k_acct k a) as [x|] eqn:E; [eapply H2, E|left; reflexivity].
Qed.

Lemma w_get_world_of k w a : weq (world_of k) w ->
  w_get w a = {| wa_bal := to_wei (ka_bal (k_get k a)); wa_nonce := ka_nonce (k_get k a); wa_code := ka_code (k_get k a) |}.
Proof.
  intros [Ha _]. unfold w_get, k_get. rewrite <- (Ha a). simpl. destruct (k_acct k a); reflexivity.
Qed.

Lemma weq_set k w a y x : weq (world_of k) w ->
  x = {| wa_bal := to_wei (ka_bal y); wa_nonce := ka_nonce y; wa_code := ka_code y |} ->
  weq (world_of (kset_acct k a (Some y))) (wset_acct w a (Some x)).
Proof.
  intros [Ha Hs] ->. split.
  - intro a0. simpl. unfold upd. destruct (a0 =? a); [reflexivity|]. apply (Ha a0).
  - intros a0 ky. simpl. apply (Hs a0 ky).
Qed.

(** THE ADMISSION DECISION: with the balance checked against TxData.Cost() the ante chain admits a
    message exactly when go-ethereum's preCheck + buyGas does — the same function of sender code,
    nonce, balance, tip, fee cap, base fee, gas limit and value — for every message (no side condition) *)
Lemma admission_sim f k w m : weq (world_of k) w -> cap_covers_base m -> amounts_nonneg m ->
  (ante true f k m = None <-> ref_buy w m = None).
Proof.
  intros Hw Hc Hn. pose proof (fee_le_cap_cost m Hc Hn) as Hf. apply Z.ltb_ge in Hc. unfold ante, ref_buy. rewrite Hc.
  rewrite andb_false_r. rewrite (w_get_world_of k w (m_from m) Hw). cbn [wa_bal wa_nonce wa_code].
  destruct (negb (ka_code (k_get k (m_from m)) =? 0)); [tauto|].
  destruct (m_cap m <? m_tip m); [tauto|].
  destruct (to_wei (ka_bal (k_get k (m_from m))) <? cap_cost m) eqn:Eb; [tauto|].
  apply Z.ltb_ge in Eb.
  assert (E2 : (to_wei (ka_bal (k_get k (m_from m))) <? fee m) = false) by (apply Z.ltb_ge; lia). rewrite E2.
  destruct (negb (ka_nonce (k_get k (m_from m)) =? m_nonce m)); [tauto|].
  split; discriminate.
Qed.

(** the ante chain on the keeper = go-ethereum's preCheck + buyGas on the world *)
(** when the ante chain compares the FEE CAP with the base fee ([floor_check] = true) the admission
    decision is go-ethereum's for EVERY message — no side condition on the prices *)
Lemma admission_exact k w m : weq (world_of k) w -> amounts_nonneg m ->
  (ante true true k m = None <-> ref_buy w m = None).
Proof.
  intros Hw Hn. destruct (Z.ltb_spec (m_cap m) (m_base m)) as [Hlt|Hge].
  - unfold ante, ref_buy. rewrite (w_get_world_of k w (m_from m) Hw). cbn [wa_bal wa_nonce wa_code].
    apply Z.ltb_lt in Hlt. rewrite Hlt. cbn [andb].
    destruct (negb (ka_code (k_get k (m_from m)) =? 0)); [tauto|].
    destruct (m_cap m <? m_tip m); tauto.
  - apply admission_sim; assumption.
Qed.

Lemma ante_sim f k w m : kwf k -> weq (world_of k) w -> price_whole m -> cap_covers_base m -> amounts_nonneg m ->
  match ante true f k m, ref_buy w m with
  | Some k1, Some w1 => kwf k1 /\ weq (world_of k1) w1
  | None, None => True
  | _, _ => False
  end.
Proof.
  intros Hk Hw Hp Eb Hn. pose proof Eb as Eb'. apply Z.ltb_ge in Eb'.
  unfold ante, ref_buy. rewrite Eb'. rewrite andb_false_r. rewrite (w_get_world_of k w (m_from m) Hw). cbn [wa_bal wa_nonce wa_code].
  destruct (negb (ka_code (k_get k (m_from m)) =? 0)) eqn:Ec; [exact I|].
  destruct (m_cap m <? m_tip m); [exact I|].
  destruct (to_wei (ka_bal (k_get k (m_from m))) <? cap_cost m) eqn:Ebal; [exact I|].
  apply Z.ltb_ge in Ebal. pose proof (fee_le_cap_cost m Eb Hn) as Hfc.
  assert (E2 : (to_wei (ka_bal (k_get k (m_from m))) <? fee m) = false) by (apply Z.ltb_ge; lia). rewrite E2.
  destruct (negb (ka_nonce (k_get k (m_from m)) =? m_nonce m)); [exact I|].
  assert (Hf : rfee m = fee m).
  { unfold rfee, fee. rewrite (prices_eq m Eb); [reflexivity|apply Hp]. }
  split.
  - apply kwf_kset_acct; [exact Hk|]. cbn [ka_code]. apply k_get_code, Hk.
  - apply weq_set; [exact Hw|]. cbn [ka_bal ka_nonce ka_code]. rewrite to_wei_sub, (fee_whole m Hp), Hf. reflexivity.
Qed.

Lemma refund_sim k w m : kwf k -> weq (world_of k) w -> price_whole m -> m_base m <= m_cap m ->
  kwf (refund_gas k m) /\ weq (world_of (refund_gas k m)) (ref_refund w m).
Proof.
  intros Hk Hw Hp Hc. unfold refund_gas, ref_refund.
  assert (Hl : rleftover m = leftover m).
  { unfold rleftover, leftover. rewrite (prices_eq m Hc); [reflexivity|apply Hp]. }
  rewrite Hl.
  destruct (to_native (leftover m) =? 0); [split; assumption|].
  rewrite (w_get_world_of k w (m_from m) Hw). cbn [wa_bal wa_nonce wa_code]. split.
  - apply kwf_kset_acct; [exact Hk|]. cbn [ka_code]. apply k_get_code, Hk.
  - apply weq_set; [exact Hw|]. cbn [ka_bal ka_nonce ka_code]. rewrite to_wei_add, (leftover_whole m Hp). reflexivity.
Qed.

(** hypotheses on a history, stated on the REFERENCE only: prices are whole unibi per gas, and the
    calls of every message that is executed obey the interpreter's protocol and move whole unibi *)
Definition msg_wf (w : world) (m : msg) : Prop :=
  (price_whole m /\ cap_covers_base m /\ amounts_nonneg m) /\
  match ref_buy w m with
  | Some w1 => if m_gas m <? intrinsic m then True
               else wf_run (w_stor w1) (m_ops m) (ref_begin w1) /\ Forall op_whole (m_ops m)
  | None => True
  end.

Fixpoint msgs_wf (w : world) (ms : list msg) : Prop :=
  match ms with
  | [] => True
  | m :: rest => msg_wf w m /\ msgs_wf (fst (ref_deliver w m)) rest
  end.

Lemma spec_deliver_sim f k w m : kwf k -> weq (world_of k) w -> msg_wf w m ->
  snd (spec_deliver f k m) = snd (ref_deliver w m) /\
  weq (world_of (fst (spec_deliver f k m))) (fst (ref_deliver w m)) /\ kwf (fst (spec_deliver f k m)).
Proof.
  intros Hk Hw [(Hp & Hcap & Hn) Hm]. pose proof (ante_sim f k w m Hk Hw Hp Hcap Hn) as Ha.
  unfold spec_deliver, ref_deliver.
  destruct (ante true f k m) as [k1|] eqn:Ea, (ref_buy w m) as [w1|]; try contradiction; [|simpl; auto].
  destruct Ha as [Hk1 Hw1].
  destruct (m_gas m <? intrinsic m); [simpl; auto|].
  destruct Hm as [Hwf Hwhole].
  destruct (history_equals_reference [m_ops m] k1 w1 Hk1 Hw1) as (E1 & E2 & E3).
  { simpl. auto. }
  simpl in E1, E2, E3.
  destruct (run_tx k1 (m_ops m)) as [k2 rs]. destruct (ref_tx w1 (m_ops m)) as [w2 xs]. simpl in *.
  destruct (refund_sim k2 w2 m E3 E2 Hp Hcap) as [R1 R2].
  split; [injection E1 as ->; reflexivity|]. split; assumption.
Qed.

Theorem msgs_refine f : forall ms k w, kwf k -> weq (world_of k) w -> msgs_wf w ms ->
  snd (spec_hist f k ms) = snd (ref_hist w ms) /\
  weq (world_of (fst (spec_hist f k ms))) (fst (ref_hist w ms)) /\ kwf (fst (spec_hist f k ms)).
Proof.
  induction ms as [|m ms IH]; intros k w Hk Hw Hwf; simpl; [auto|].
  destruct Hwf as [Hm Hrest].
  destruct (spec_deliver_sim f k w m Hk Hw Hm) as (A & B & C).
  destruct (spec_deliver f k m) as [k1 r]. destruct (ref_deliver w m) as [w1 r']. simpl in *. subst.
  destruct (IH k1 w1 C B Hrest) as (D & E & F).
  destruct (spec_hist f k1 ms) as [k2 rs]. destruct (ref_hist w1 ms) as [w2 rs']. simpl in *. subst. auto.
Qed.

(** the two together: delivery with the pointer and the branches, from a chain with no published
    StateDB, reports for EVERY message what the reference reports (rejected / executed with the same
    return value of every call) and ends in the reference's world *)
Theorem messages_equal_reference f : forall ms k w, kwf k -> weq (world_of k) w -> msgs_wf w ms ->
  let r := deliver_hist true true f {| ms_blk := k; ms_ptr := None |} ms in
  snd r = snd (ref_hist w ms) /\ weq (world_of (ms_blk (fst r))) (fst (ref_hist w ms)) /\
  kwf (ms_blk (fst r)) /\ ms_ptr (fst r) = None.
Proof.
  intros ms k w Hk Hw Hwf.
  destruct (deliver_hist_is_spec f ms {| ms_blk := k; ms_ptr := None |} eq_refl) as (A & B & C).
  destruct (msgs_refine f ms k w Hk Hw Hwf) as (D & E & F0).
  cbn [ms_blk] in A, B. cbv zeta. rewrite A, B. auto.
Qed.

(** every prefix: the world after EVERY message is the reference's *)
Lemma deliver_hist_app c b f : forall ms1 ms2 st,
  deliver_hist c b f st (ms1 ++ ms2) =
  let '(st1, r1) := deliver_hist c b f st ms1 in let '(st2, r2) := deliver_hist c b f st1 ms2 in (st2, r1 ++ r2).
Proof.
  induction ms1 as [|m ms1 IH]; intros ms2 st; simpl.
  - destruct (deliver_hist c b f st ms2). reflexivity.
  - destruct (deliver c b f st m) as [st1 r]. rewrite IH.
    destruct (deliver_hist c b f st1 ms1) as [st2 r1]. destruct (deliver_hist c b f st2 ms2) as [st3 r2]. reflexivity.
Qed.

Lemma msgs_wf_prefix : forall ms1 ms2 w, msgs_wf w (ms1 ++ ms2) -> msgs_wf w ms1.
Proof.
  induction ms1 as [|m ms1 IH]; intros ms2 w H; simpl in *; [exact I|].
  destruct H as [A B]. split; [exact A|]. eapply IH, B.
Qed.

Corollary messages_equal_reference_after_every_message f : forall ms1 ms2 k w,
  kwf k -> weq (world_of k) w -> msgs_wf w (ms1 ++ ms2) ->
  weq (world_of (ms_blk (fst (deliver_hist true true f {| ms_blk := k; ms_ptr := None |} ms1)))) (fst (ref_hist w ms1)).
Proof.
  intros ms1 ms2 k w Hk Hw H.
  apply (messages_equal_reference f ms1 k w Hk Hw (msgs_wf_prefix ms1 ms2 w H)).
Qed.

(** * 3. the variant that forgets the published StateDB only on the success path is refuted:
    after a message with a gas limit below the intrinsic gas, the next ordinary message REPORTS the
    same result and return values as the specification, but its SSTORE never reaches the block state *)
Theorem stale_statedb_refuted :
  let bad := deliver_hist false true true {| ms_blk := ex_k0; ms_ptr := None |} ex_msgs in
  let good := spec_hist true ex_k0 ex_msgs in
  snd bad = snd good /\
  snd good = [MRejected; MExecuted [[]; []; [0]; [0]; []; []; []]] /\
  k_stor (fst good) 2 0 = 5 /\ k_stor (ms_blk (fst bad)) 2 0 = 0.
Proof. vm_compute. repeat split; reflexivity. Qed.

(** the variant whose sender-balance precheck uses the EFFECTIVE cost (gas * effective price + value)
    instead of gas * feeCap + value is refuted: a dynamic-fee transfer with fee cap 10 unibi and no tip
    from a sender that can pay 21000 + 50000 unibi but not 210000 + 50000 is an invalid message for the
    reference (no effect) and for the cap-cost ante chain — the variant executes it: nonce bumped, value moved *)
Theorem effective_cost_admission_refuted :
  let st0 := {| ms_blk := ex_k_poor; ms_ptr := None |} in
  let bad := deliver_hist true false true st0 [ex_m_feecap] in
  snd (ref_hist (world_of ex_k_poor) [ex_m_feecap]) = [MRejected] /\
  snd (deliver_hist true true true st0 [ex_m_feecap]) = [MRejected] /\
  (exists rets, snd bad = [MExecuted rets]) /\
  option_map ka_nonce (k_acct (ms_blk (fst bad)) 1) = Some 1 /\
  option_map ka_bal (k_acct (ms_blk (fst bad)) 1) = Some (100000 - 21000 - 50000) /\
  option_map ka_bal (k_acct (ms_blk (fst bad)) 3) = Some 50000.
Proof. vm_compute. repeat split; try reflexivity. eexists. reflexivity. Qed.

(** a gas price below the base fee, when the ante chain does not compare the fee cap itself with the
    base fee ([floor_check] = false): it admits the message (and charges the base fee: the sender pays
    100000 unibi up front for a gas price of 0); the reference rejects it, and so does [floor_check] = true *)
Theorem admission_below_base_fee_refuted :
  ref_buy (world_of ex_k0) ex_m_lowprice = None /\ ante true true ex_k0 ex_m_lowprice = None /\
  option_map (fun k1 => option_map ka_bal (k_acct k1 1)) (ante true false ex_k0 ex_m_lowprice) = Some (Some (1000000 - 100000)).
Proof. vm_compute. repeat split; reflexivity. Qed.

Lemma msg_wf_intro w m w1 : price_whole m /\ cap_covers_base m /\ amounts_nonneg m -> ref_buy w m = Some w1 ->
  wf_run (w_stor w1) (m_ops m) (ref_begin w1) -> Forall op_whole (m_ops m) -> msg_wf w m.
Proof. intros Hp E A B. split; [exact Hp|]. rewrite E. destruct (m_gas m <? intrinsic m); [exact I|split; assumption]. Qed.

Lemma ex_kwf : kwf ex_k0.
Proof.
  split.
  - intros a H ky. reflexivity.
  - intros a x H. unfold ex_k0 in H. cbn [k_acct kset_code kset_acct] in H. unfold upd in H.
    destruct (a =? 2); [injection H as <-; right; reflexivity|].
    destruct (a =? 1); [injection H as <-; left; reflexivity|discriminate].
Qed.

(** non-vacuity: a history with a message rejected for its gas limit followed by an ordinary call
    meets the hypotheses of [messages_equal_reference] *)
Example ex_msgs_nonvacuous : kwf ex_k0 /\ msgs_wf (world_of ex_k0) ex_msgs.
Proof.
  split; [exact ex_kwf|].
  cbn [msgs_wf ex_msgs]. split; [|split; [|exact I]].
  - split; [repeat split; try reflexivity; discriminate|]. vm_compute. exact I.
  - set (w := fst (ref_deliver (world_of ex_k0) ex_m_low)).
    destruct (ref_buy w ex_m_call) as [w1|] eqn:E.
    + apply (msg_wf_intro w ex_m_call w1); [repeat split; try reflexivity; discriminate|exact E| |unfold ex_m_call; cbn [m_ops]; repeat constructor].
      vm_compute in E. injection E as <-.
      vm_compute. repeat split; try discriminate; intros; reflexivity.
    + assert (H : match ref_buy w ex_m_call with Some _ => true | None => false end = true) by (vm_compute; reflexivity).
      rewrite E in H. discriminate.
Qed.
