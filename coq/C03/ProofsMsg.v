(** C03 — the message layer (Msg.v): the pointer / branch plumbing of Keeper.EthereumTx is
    invisible when the published StateDB is forgotten on every return path, message histories
    then equal the reference (go-ethereum's state transition on the reference world) — and the
    variant that forgets it only on the success path is refuted. *)
From Coq Require Import ZArith List Bool Lia.
Import ListNotations.
Require Import Nib.C03.Model Nib.C03.Ref Nib.C03.Spec Nib.C03.Msg.
Require Import Nib.C03.ProofsInv Nib.C03.ProofsCommit Nib.C03.ProofsTx Nib.C03.ProofsHist.
Local Open Scope Z_scope.

(** * 1. the pointer discipline *)

(** With `defer ClearTxStateDB` a message that starts with no published StateDB is the pure
    specification: ante; one StateDB transaction; refund — or nothing at all — and it ends with no
    published StateDB. *)
Lemma deliver_is_spec st m : ms_ptr st = None ->
  ms_blk (fst (deliver true st m)) = fst (spec_deliver (ms_blk st) m) /\
  snd (deliver true st m) = snd (spec_deliver (ms_blk st) m) /\
  ms_ptr (fst (deliver true st m)) = None.
Proof.
  intro Hp. unfold deliver, spec_deliver, run_tx. rewrite Hp.
  destruct (ante (ms_blk st) m) as [b|]; [|simpl; auto].
  destruct (m_gas m <? intrinsic m); [simpl; auto|].
  destruct (run (m_ops m) (new_full b)) as [f1 rets]. simpl. auto.
Qed.

Theorem deliver_hist_is_spec : forall ms st, ms_ptr st = None ->
  ms_blk (fst (deliver_hist true st ms)) = fst (spec_hist (ms_blk st) ms) /\
  snd (deliver_hist true st ms) = snd (spec_hist (ms_blk st) ms) /\
  ms_ptr (fst (deliver_hist true st ms)) = None.
Proof.
  induction ms as [|m ms IH]; intros st Hp; simpl; [auto|].
  destruct (deliver_is_spec st m Hp) as (A & B & C).
  destruct (deliver true st m) as [st1 r]. destruct (spec_deliver (ms_blk st) m) as [k1 r']. simpl in *. subst.
  destruct (IH st1 C) as (D & E & F).
  destruct (deliver_hist true st1 ms) as [st2 rs]. destruct (spec_hist (ms_blk st1) ms) as [k2 rs']. simpl in *.
  subst. auto.
Qed.

(** a rejected message (ante or intrinsic gas) leaves the block state untouched *)
Lemma rejected_no_effect c st m : snd (deliver c st m) = MRejected -> ms_blk (fst (deliver c st m)) = ms_blk st.
Proof.
  unfold deliver. destruct (ante (ms_blk st) m) as [b|]; [|reflexivity].
  destruct (m_gas m <? intrinsic m); [reflexivity|].
  destruct (run _ _) as [f1 rets]. simpl. discriminate.
Qed.

(** * 2. message histories against the reference *)

Definition price_whole (m : msg) : Prop := m_price m mod WEI = 0.

Lemma mul_whole a p : p mod WEI = 0 -> (a * p) mod WEI = 0.
Proof.
  intro H. pose proof WEI_pos. apply Z.mod_divide in H; [|lia]. apply Z.mod_divide; [lia|].
  apply Z.divide_mul_r. exact H.
Qed.

Lemma fee_whole m : price_whole m -> to_wei (to_native (fee m)) = fee m.
Proof. intro H. apply whole_unibi_iff. apply mul_whole, H. Qed.
Lemma leftover_whole m : price_whole m -> to_wei (to_native (leftover m)) = leftover m.
Proof. intro H. apply whole_unibi_iff. apply mul_whole, H. Qed.

Lemma to_wei_sub a b : to_wei (a - b) = to_wei a - to_wei b.
Proof. unfold to_wei. apply Z.mul_sub_distr_r. Qed.
Lemma to_wei_add a b : to_wei (a + b) = to_wei a + to_wei b.
Proof. unfold to_wei. apply Z.mul_add_distr_r. Qed.

Lemma kwf_kset_acct k a y : kwf k -> (ka_code y = 0 \/ k_code k (ka_code y) = true) -> kwf (kset_acct k a (Some y)).
Proof.
  intros [H1 H2] Hc. split.
  - intros a0 H ky. simpl in *. unfold upd in H. destruct (a0 =? a); [discriminate|]. apply H1, H.
  - intros a0 x H. simpl in *. unfold upd in H. destruct (a0 =? a).
    + injection H as <-. exact Hc.
    + eapply H2, H.
Qed.

Lemma k_get_code k a : kwf k -> ka_code (k_get k a) = 0 \/ k_code k (ka_code (k_get k a)) = true.
Proof.
  intros [_ H2]. unfold k_get. destruct (k_acct k a) as [x|] eqn:E; [eapply H2, E|left; reflexivity].
Qed.

Lemma w_get_world_of k w a : weq (world_of k) w ->
  w_get w a = {| wa_bal := to_wei (ka_bal (k_get k a)); wa_nonce := ka_nonce (k_get k a); wa_code := ka_code (k_get k a) |}.
Proof.
  intros [Ha _]. unfold w_get, k_get. rewrite <- (Ha a). simpl. destruct (k_acct k a); reflexivity.
Qed.

Lemma weq_set k w a y x : weq (world_of k) w ->
  x = {| wa_bal := to_wei (ka_bal y); wa_nonce := ka_nonce y; wa_code := ka_code y |} ->
  weq (world_of (kset_acct k a (Some y))) (wset_acct w a (Some x)).
Proof.
  intros [Ha Hs] ->. split.
  - intro a0. simpl. unfold upd. destruct (a0 =? a); [reflexivity|]. apply (Ha a0).
  - intros a0 ky. simpl. apply (Hs a0 ky).
Qed.

(** the ante chain on the keeper = go-ethereum's preCheck + buyGas on the world *)
Lemma ante_sim k w m : kwf k -> weq (world_of k) w -> price_whole m ->
  match ante k m, ref_buy w m with
  | Some k1, Some w1 => kwf k1 /\ weq (world_of k1) w1
  | None, None => True
  | _, _ => False
  end.
Proof.
  intros Hk Hw Hp. unfold ante, ref_buy. rewrite (w_get_world_of k w (m_from m) Hw). cbn [wa_bal wa_nonce wa_code].
  destruct (negb (ka_code (k_get k (m_from m)) =? 0)) eqn:Ec; [exact I|].
  destruct (to_wei (ka_bal (k_get k (m_from m))) <? fee m + m_value m); [exact I|].
  destruct (negb (ka_nonce (k_get k (m_from m)) =? m_nonce m)); [exact I|].
  split.
  - apply kwf_kset_acct; [exact Hk|]. cbn [ka_code]. apply k_get_code, Hk.
  - apply weq_set; [exact Hw|]. cbn [ka_bal ka_nonce ka_code]. rewrite to_wei_sub, (fee_whole m Hp). reflexivity.
Qed.

Lemma refund_sim k w m : kwf k -> weq (world_of k) w -> price_whole m ->
  kwf (refund_gas k m) /\ weq (world_of (refund_gas k m)) (ref_refund w m).
Proof.
  intros Hk Hw Hp. unfold refund_gas, ref_refund.
  destruct (to_native (leftover m) =? 0); [split; assumption|].
  rewrite (w_get_world_of k w (m_from m) Hw). cbn [wa_bal wa_nonce wa_code]. split.
  - apply kwf_kset_acct; [exact Hk|]. cbn [ka_code]. apply k_get_code, Hk.
  - apply weq_set; [exact Hw|]. cbn [ka_bal ka_nonce ka_code]. rewrite to_wei_add, (leftover_whole m Hp). reflexivity.
Qed.

(** hypotheses on a history, stated on the REFERENCE only: prices are whole unibi per gas, and the
    calls of every message that is executed obey the interpreter's protocol and move whole unibi *)
Definition msg_wf (w : world) (m : msg) : Prop :=
  price_whole m /\
  match ref_buy w m with
  | Some w1 => if m_gas m <? intrinsic m then True
               else wf_run (w_stor w1) (m_ops m) (ref_begin w1) /\ Forall op_whole (m_ops m)
  | None => True
  end.

Fixpoint msgs_wf (w : world) (ms : list msg) : Prop :=
  match ms with
  | [] => True
  | m :: rest => msg_wf w m /\ msgs_wf (fst (ref_deliver w m)) rest
  end.

Lemma spec_deliver_sim k w m : kwf k -> weq (world_of k) w -> msg_wf w m ->
  snd (spec_deliver k m) = snd (ref_deliver w m) /\
  weq (world_of (fst (spec_deliver k m))) (fst (ref_deliver w m)) /\ kwf (fst (spec_deliver k m)).
Proof.
  intros Hk Hw [Hp Hm]. pose proof (ante_sim k w m Hk Hw Hp) as Ha.
  unfold spec_deliver, ref_deliver.
  destruct (ante k m) as [k1|], (ref_buy w m) as [w1|]; try contradiction; [|simpl; auto].
  destruct Ha as [Hk1 Hw1].
  destruct (m_gas m <? intrinsic m); [simpl; auto|].
  destruct Hm as [Hwf Hwhole].
  destruct (history_equals_reference [m_ops m] k1 w1 Hk1 Hw1) as (E1 & E2 & E3).
  { simpl. auto. }
  simpl in E1, E2, E3.
  destruct (run_tx k1 (m_ops m)) as [k2 rs]. destruct (ref_tx w1 (m_ops m)) as [w2 xs]. simpl in *.
  destruct (refund_sim k2 w2 m E3 E2 Hp) as [R1 R2].
  split; [injection E1 as ->; reflexivity|]. split; assumption.
Qed.

Theorem msgs_refine : forall ms k w, kwf k -> weq (world_of k) w -> msgs_wf w ms ->
  snd (spec_hist k ms) = snd (ref_hist w ms) /\
  weq (world_of (fst (spec_hist k ms))) (fst (ref_hist w ms)) /\ kwf (fst (spec_hist k ms)).
Proof.
  induction ms as [|m ms IH]; intros k w Hk Hw Hwf; simpl; [auto|].
  destruct Hwf as [Hm Hrest].
  destruct (spec_deliver_sim k w m Hk Hw Hm) as (A & B & C).
  destruct (spec_deliver k m) as [k1 r]. destruct (ref_deliver w m) as [w1 r']. simpl in *. subst.
  destruct (IH k1 w1 C B Hrest) as (D & E & F).
  destruct (spec_hist k1 ms) as [k2 rs]. destruct (ref_hist w1 ms) as [w2 rs']. simpl in *. subst. auto.
Qed.

(** the two together: delivery with the pointer and the branches, from a chain with no published
    StateDB, reports for EVERY message what the reference reports (rejected / executed with the same
    return value of every call) and ends in the reference's world *)
Theorem messages_equal_reference : forall ms k w, kwf k -> weq (world_of k) w -> msgs_wf w ms ->
  let r := deliver_hist true {| ms_blk := k; ms_ptr := None |} ms in
  snd r = snd (ref_hist w ms) /\ weq (world_of (ms_blk (fst r))) (fst (ref_hist w ms)) /\
  kwf (ms_blk (fst r)) /\ ms_ptr (fst r) = None.
Proof.
  intros ms k w Hk Hw Hwf.
  destruct (deliver_hist_is_spec ms {| ms_blk := k; ms_ptr := None |} eq_refl) as (A & B & C).
  destruct (msgs_refine ms k w Hk Hw Hwf) as (D & E & F).
  cbn [ms_blk] in A, B. cbv zeta. rewrite A, B. auto.
Qed.

(** every prefix: the world after EVERY message is the reference's *)
Lemma deliver_hist_app c : forall ms1 ms2 st,
  deliver_hist c st (ms1 ++ ms2) =
  let '(st1, r1) := deliver_hist c st ms1 in let '(st2, r2) := deliver_hist c st1 ms2 in (st2, r1 ++ r2).
Proof.
  induction ms1 as [|m ms1 IH]; intros ms2 st; simpl.
  - destruct (deliver_hist c st ms2). reflexivity.
  - destruct (deliver c st m) as [st1 r]. rewrite IH.
    destruct (deliver_hist c st1 ms1) as [st2 r1]. destruct (deliver_hist c st2 ms2) as [st3 r2]. reflexivity.
Qed.

Lemma msgs_wf_prefix : forall ms1 ms2 w, msgs_wf w (ms1 ++ ms2) -> msgs_wf w ms1.
Proof.
  induction ms1 as [|m ms1 IH]; intros ms2 w H; simpl in *; [exact I|].
  destruct H as [A B]. split; [exact A|]. eapply IH, B.
Qed.

Corollary messages_equal_reference_after_every_message : forall ms1 ms2 k w,
  kwf k -> weq (world_of k) w -> msgs_wf w (ms1 ++ ms2) ->
  weq (world_of (ms_blk (fst (deliver_hist true {| ms_blk := k; ms_ptr := None |} ms1)))) (fst (ref_hist w ms1)).
Proof.
  intros ms1 ms2 k w Hk Hw H.
  apply (messages_equal_reference ms1 k w Hk Hw (msgs_wf_prefix ms1 ms2 w H)).
Qed.

(** * 3. the variant that forgets the published StateDB only on the success path is refuted:
    after a message with a gas limit below the intrinsic gas, the next ordinary message REPORTS the
    same result and return values as the specification, but its SSTORE never reaches the block state *)
Theorem stale_statedb_refuted :
  let bad := deliver_hist false {| ms_blk := ex_k0; ms_ptr := None |} ex_msgs in
  let good := spec_hist ex_k0 ex_msgs in
  snd bad = snd good /\
  snd good = [MRejected; MExecuted [[]; []; [0]; [0]; []; []; []]] /\
  k_stor (fst good) 2 0 = 5 /\ k_stor (ms_blk (fst bad)) 2 0 = 0.
Proof. vm_compute. repeat split; reflexivity. Qed.

Lemma msg_wf_intro w m w1 : price_whole m -> ref_buy w m = Some w1 ->
  wf_run (w_stor w1) (m_ops m) (ref_begin w1) -> Forall op_whole (m_ops m) -> msg_wf w m.
Proof. intros Hp E A B. split; [exact Hp|]. rewrite E. destruct (m_gas m <? intrinsic m); [exact I|split; assumption]. Qed.

Lemma ex_kwf : kwf ex_k0.
Proof.
  split.
  - intros a H ky. reflexivity.
  - intros a x H. unfold ex_k0 in H. cbn [k_acct kset_code kset_acct] in H. unfold upd in H.
    destruct (a =? 2); [injection H as <-; right; reflexivity|].
    destruct (a =? 1); [injection H as <-; left; reflexivity|discriminate].
Qed.

(** non-vacuity: a history with a message rejected for its gas limit followed by an ordinary call
    meets the hypotheses of [messages_equal_reference] *)
Example ex_msgs_nonvacuous : kwf ex_k0 /\ msgs_wf (world_of ex_k0) ex_msgs.
Proof.
  split; [exact ex_kwf|].
  cbn [msgs_wf ex_msgs]. split; [|split; [|exact I]].
  - split; [reflexivity|]. vm_compute. exact I.
  - set (w := fst (ref_deliver (world_of ex_k0) ex_m_low)).
    destruct (ref_buy w ex_m_call) as [w1|] eqn:E.
    + apply (msg_wf_intro w ex_m_call w1); [reflexivity|exact E| |unfold ex_m_call; cbn [m_ops]; repeat constructor].
      vm_compute in E. injection E as <-.
      vm_compute. repeat split; try discriminate; intros; reflexivity.
    + assert (H : match ref_buy w ex_m_call with Some _ => true | None => false end = true) by (vm_compute; reflexivity).
      rewrite E in H. discriminate.
Qed.
