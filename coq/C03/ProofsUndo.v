(** C03 — proofs, part 2: reverting a journal entry, seen on the view; unwinding the journal. *)
From Coq Require Import ZArith List Bool Lia.
Import ListNotations.
Require Import Nib.C03.Model Nib.C03.Ref Nib.C03.Spec Nib.C03.ProofsBase.
Local Open Scope Z_scope.

Definition vmod (v : view) (a : addr) (f : aview -> aview) : view :=
  match v_acct v a with Some x => vset_acct v a (Some (f x)) | None => v end.

(** [Revert] of one entry as a function of the view *)
Definition vundo (kp0 : keeper) (e : entry) (v : view) : view :=
  match e with
  | ECreate a => vdrop kp0 v a
  | EReset a p => vput kp0 v a p
  | ESuicide a ps pb => vmod v a (fun x => av_with_bal (av_with_suic x ps) pb)
  | EBalance a pb => vmod v a (fun x => av_with_bal x pb)
  | ENonce a pn => vmod v a (fun x => av_with_nonce x pn)
  | ECode a ph => vmod v a (fun x => av_with_code x ph)
  | EStorage a k pv =>
    match v_acct v a with Some _ => vset_stor v a (upd (v_stor v a) k pv) | None => v end
  | ERefund p => vset_refund v p
  | ELog => vset_logs v (tl (v_logs v))
  | EAlAddr a => vset_al v (upd (v_ala v) a false) (upd (v_als v) a (fun _ => false))
  | EAlSlot a k => vset_al v (v_ala v) (upd (v_als v) a (upd (v_als v a) k false))
  end.

Lemma vmod_veq v w a f : veq v w -> veq (vmod v a f) (vmod w a f).
Proof.
  intros H. unfold vmod. rewrite (eq_acct _ _ H a). destruct (v_acct w a); [|exact H].
  destruct H. split; simpl; intros; unfold upd; try destruct (_ =? _); auto.
Qed.

Lemma vundo_veq kp0 e v w : veq v w -> veq (vundo kp0 e v) (vundo kp0 e w).
Proof.
  intros H. destruct e; simpl; try (apply vmod_veq; exact H);
    try (apply vdrop_veq; exact H); try (apply vput_veq; exact H).
  - rewrite (eq_acct _ _ H a). destruct (v_acct w a); [|exact H].
    destruct H. split; simpl; intros; unfold upd; repeat destruct (_ =? _); auto.
  - destruct H. split; simpl; intros; auto.
  - destruct H. split; simpl; intros; auto. congruence.
  - destruct H. split; simpl; intros; unfold upd; repeat destruct (_ =? _); auto.
  - destruct H. split; simpl; intros; unfold upd; repeat destruct (_ =? _); auto.
Qed.

(** ** concrete undo vs view undo *)
Lemma on_obj_eq s a f :
  on_obj s a f = match lookup s a with
                 | Some o => set_obj (snd (get_obj s a)) a (f o)
                 | None => snd (get_obj s a)
                 end.
Proof. unfold on_obj. rewrite get_obj_eq. destruct (lookup s a); reflexivity. Qed.

Lemma kp_set_obj s a o : kp (set_obj s a o) = kp s. Proof. reflexivity. Qed.
Lemma journal_set_obj s a o : journal (set_obj s a o) = journal s. Proof. reflexivity. Qed.
Lemma kp_on_obj s a f : kp (on_obj s a f) = kp s.
Proof. rewrite on_obj_eq. destruct (lookup s a); simpl; apply kp_loaded. Qed.

Lemma V_on_obj s a f g :
  (forall o, aview_of (f o) = g (aview_of o)) ->
  (forall o k, st (kp s) a (f o) k = st (kp s) a o k) ->
  (forall o k, comm (kp s) a (f o) k = comm (kp s) a o k) ->
  veq (V (on_obj s a f)) (vmod (V s) a g).
Proof.
  intros Hg Hs Hc. rewrite on_obj_eq. unfold vmod. rewrite V_acct_lookup.
  destruct (lookup s a) as [o|] eqn:Hl; simpl; [|apply V_loaded].
  eapply veq_trans; [apply V_set_obj|]. rewrite kp_loaded.
  eapply veq_trans; [apply vput_veq, V_loaded|].
  split; simpl; intros; try reflexivity; unfold upd; destruct (Z.eqb_spec a0 a); subst; try reflexivity.
  - rewrite Hg. reflexivity.
  - rewrite Hl. apply Hs.
  - rewrite Hl. apply Hc.
Qed.

Lemma st_with_dirty kp0 a o k v k' :
  st kp0 a (with_dirty o k v) k' = if k' =? k then v else st kp0 a o k'.
Proof. unfold st, comm. simpl. unfold upd. destruct (k' =? k); reflexivity. Qed.
Lemma comm_with_dirty kp0 a o k v k' : comm kp0 a (with_dirty o k v) k' = comm kp0 a o k'.
Proof. reflexivity. Qed.

Lemma lookup_ext s t a : objs s = objs t -> kp s = kp t -> lookup s a = lookup t a.
Proof. intros H1 H2. rewrite !lookup_def, H1, H2. reflexivity. Qed.

Lemma V_set_refund s r : veq (V (set_refund s r)) (vset_refund (V s) r).
Proof. split; simpl; intros; try reflexivity; rewrite (lookup_ext (set_refund s r) s) by reflexivity; reflexivity. Qed.
Lemma V_set_logs s l : veq (V (set_logs s l)) (vset_logs (V s) l).
Proof. split; simpl; intros; try reflexivity; rewrite (lookup_ext (set_logs s l) s) by reflexivity; reflexivity. Qed.
Lemma V_set_al s fa fs :
  veq (V (set_al s fa fs)) (vset_al (V s) fa (fun a k => fa a && fs a k)).
Proof. split; simpl; intros; try reflexivity; rewrite (lookup_ext (set_al s fa fs) s) by reflexivity; reflexivity. Qed.

Lemma V_undo e s : veq (V (undo e s)) (vundo (kp s) e (V s)).
Proof.
  destruct e; cbn [undo vundo].
  - apply V_del_obj.
  - apply V_set_obj.
  - apply V_on_obj; reflexivity.
  - apply V_on_obj; reflexivity.
  - apply V_on_obj; reflexivity.
  - apply V_on_obj; reflexivity.
  - (* EStorage *)
    rewrite on_obj_eq, V_acct_lookup.
    destruct (lookup s a) as [o|] eqn:Hl; simpl; [|apply V_loaded].
    eapply veq_trans; [apply V_set_obj|]. rewrite kp_loaded.
    eapply veq_trans; [apply vput_veq, V_loaded|].
    split; simpl; intros; try reflexivity; unfold upd; destruct (Z.eqb_spec a0 a); subst; try reflexivity.
    + rewrite Hl. reflexivity.
    + rewrite st_with_dirty, Hl. reflexivity.
    + rewrite Hl. reflexivity.
  - apply V_set_refund.
  - apply V_set_logs.
  - eapply veq_trans; [apply V_set_al|].
    split; simpl; intros; try reflexivity. unfold upd. destruct (a0 =? a); reflexivity.
  - eapply veq_trans; [apply V_set_al|].
    split; simpl; intros; try reflexivity. unfold upd.
    destruct (Z.eqb_spec a0 a); [subst|reflexivity]. destruct (k0 =? k); [apply andb_false_r|reflexivity].
Qed.

Lemma kp_undo e s : kp (undo e s) = kp s.
Proof. destruct e; simpl; try reflexivity; apply kp_on_obj. Qed.

Lemma journal_on_obj s a f : journal (on_obj s a f) = journal s.
Proof. rewrite on_obj_eq. destruct (lookup s a); simpl; apply journal_loaded. Qed.
Lemma journal_undo e s : journal (undo e s) = journal s.
Proof. destruct e; simpl; try reflexivity; apply journal_on_obj. Qed.

(** ** unwinding *)
Definition vunwind (kp0 : keeper) (es : list entry) (v : view) : view :=
  fold_left (fun v e => vundo kp0 e v) es v.

Lemma vunwind_veq kp0 es : forall v w, veq v w -> veq (vunwind kp0 es v) (vunwind kp0 es w).
Proof. induction es as [|e es IH]; intros v w H; simpl; [exact H|]. apply IH, vundo_veq, H. Qed.

Lemma vunwind_app kp0 es1 es2 v : vunwind kp0 (es1 ++ es2) v = vunwind kp0 es2 (vunwind kp0 es1 v).
Proof. apply fold_left_app. Qed.

Lemma V_set_journal s j d t : veq (V (set_journal s j d t)) (V s).
Proof. apply V_ext; try reflexivity. intro a. apply lookup_ext; reflexivity. Qed.

Lemma pop_undo_cons s e rest :
  journal s = e :: rest ->
  journal (pop_undo s) = rest /\ kp (pop_undo s) = kp s /\ veq (V (pop_undo s)) (vundo (kp s) e (V s)).
Proof.
  intros Hj. unfold pop_undo. rewrite Hj.
  destruct (dirtied e); simpl; (split; [reflexivity|]); (split; [apply kp_undo|]);
    (eapply veq_trans; [apply V_set_journal|]); apply V_undo.
Qed.

Lemma unwind_k_spec n : forall s, (n <= length (journal s))%nat ->
  journal (unwind_k n s) = skipn n (journal s) /\ kp (unwind_k n s) = kp s /\
  veq (V (unwind_k n s)) (vunwind (kp s) (firstn n (journal s)) (V s)).
Proof.
  induction n as [|n IH]; intros s Hn; simpl.
  - split; [reflexivity|]. split; [reflexivity|]. apply veq_refl.
  - destruct (journal s) as [|e rest] eqn:Hj; simpl in Hn; [lia|].
    destruct (pop_undo_cons s e rest Hj) as (J & K & HV).
    destruct (IH (pop_undo s)) as (J2 & K2 & HV2); [rewrite J; lia|].
    rewrite J in *. rewrite K in *. split; [exact J2|]. split; [exact K2|].
    simpl. eapply veq_trans; [exact HV2|]. apply vunwind_veq, HV.
Qed.

Lemma unwind_spec n s : (n <= length (journal s))%nat ->
  journal (unwind n s) = skipn (length (journal s) - n) (journal s) /\ kp (unwind n s) = kp s /\
  veq (V (unwind n s)) (vunwind (kp s) (firstn (length (journal s) - n) (journal s)) (V s)).
Proof. intro H. unfold unwind. apply unwind_k_spec. lia. Qed.
