(** C03 — evaluation of implementation traces: correspondence (model vs observed Nibiru,
    reference vs observed geth) and the property predicate [Pb] on the observed trace. *)
From Coq Require Import ZArith List Bool.
Import ListNotations.
Require Import Nib.C03.Model Nib.C03.Ref Nib.C03.Spec.
Local Open Scope Z_scope.

Record prog_case := {
  pc_quot : Z;        (* params.RefundQuotientEIP3529 as linked into the binary *)
  pc_refund : Z;      (* StateDB refund counter after execution *)
  pc_used_pre : Z;    (* intrinsic gas + gas used by the top frame, before the refund; -1 = unknown *)
  pc_nib : prog_obs; pc_geth : prog_obs
}.

Inductive case : Type := CSeq (t : trace) | CProg (p : prog_case).

(** the keeper table as the driver reads it: the code id of an account whose bytecode cannot be
    retrieved from the (shared) code table is reported as -3 *)
Definition table_of_keeper (as_ : list addr) (ks : list key) (k : keeper) : list arow :=
  map (fun a => match k_acct k a with
                | Some x => (true, to_wei (ka_bal x), ka_nonce x,
                             (if (ka_code x =? 0) || k_code k (ka_code x) then ka_code x else -3),
                             map (k_stor k a) ks)
                | None => (false, 0, 0, 0, map (k_stor k a) ks)
                end) as_.

(** the Nibiru model's observations: return values + the keeper table after each Commit *)
Fixpoint model_obs (as_ : list addr) (ks : list key) (k : keeper) (txs : list (list op)) : list tx_obs :=
  match txs with
  | [] => []
  | t :: rest =>
    let '(k1, rs) := run_tx k t in
    {| o_rets := rs; o_table := table_of_keeper as_ ks k1 |} :: model_obs as_ ks k1 rest
  end.

(** the driver marks a failed Commit with code -7 in every row *)
Definition obs_failed (o : tx_obs) : bool :=
  existsb (fun r : arow => let '(_, _, _, c, _) := r in c =? -7) (o_table o).

(** the model against the observed history: return values of every call; after a Commit that the
    model predicts to succeed the keeper table; a Commit the model predicts to FAIL (negative unibi
    balance, only reachable by overdrawing call sequences of the malformed stream) must fail, and
    nothing is compared afterwards (Go leaves a partial write) *)
Fixpoint model_matches (as_ : list addr) (ks : list key) (k : keeper) (txs : list (list op)) (obs : list tx_obs) : bool :=
  match txs, obs with
  | [], [] => true
  | t :: rest, o :: os =>
    let '(f, rs) := run t (new_full k) in
    list_eqb zlist_eqb rs (o_rets o) &&
    (if commit_fails (core f) then obs_failed o
     else let k1 := commit (core f) in
          list_eqb row_eqb (table_of_keeper as_ ks k1) (o_table o) && model_matches as_ ks k1 rest os)
  | _, _ => false
  end.

(** model output ≠ observed: (i) the StateDB model vs Nibiru on EVERY case (also malformed ones);
    (ii) on protocol-obeying cases the reference semantics vs go-ethereum, up to empty accounts *)
Definition mismatch_seq (c : trace) : bool :=
  negb (model_matches (t_addrs c) (t_keys c) empty_keeper (t_txs c) (t_nib c)) ||
  (wf_txs_b (t_addrs c) (t_keys c) empty_world (t_txs c) &&
   negb (list_eqb obs_eqb (norm_all (t_txs c) (ref_obs (t_addrs c) (t_keys c) empty_world (t_txs c)))
                          (norm_all (t_txs c) (t_geth c)))).

(** the refund arithmetic of ApplyEvmMsg as modelled by [gas_to_refund] *)
Definition mismatch_prog (p : prog_case) : bool :=
  if p_rej (pc_nib p) || (pc_used_pre p <? 0) then false
  else negb (p_gas (pc_nib p) =? pc_used_pre p - gas_to_refund (pc_quot p) (pc_refund p) (pc_used_pre p)).

Definition mismatch (c : case) : bool :=
  match c with CSeq t => mismatch_seq t | CProg p => mismatch_prog p end.

Definition violates (c : case) : bool :=
  match c with CSeq t => negb (Pb t) | CProg p => negb (Pprog_b (pc_nib p) (pc_geth p)) end.

(** case constructors used by the generated cases file *)
Definition mk_obs (rs : list ret) (tb : list arow) : tx_obs := {| o_rets := rs; o_table := tb |}.
Definition mk_case (as_ : list addr) (ks : list key) (txs : list (list op)) (n g : list tx_obs) : case :=
  CSeq {| t_addrs := as_; t_keys := ks; t_txs := txs; t_nib := n; t_geth := g |}.
Definition mk_pobs (rej : bool) (gas err : Z) (ret logs : list Z) (st : list arow) : prog_obs :=
  {| p_rej := rej; p_gas := gas; p_err := err; p_ret := ret; p_logs := logs; p_state := st |}.
Definition mk_prog (quot refund used_pre : Z) (n g : prog_obs) : case :=
  CProg {| pc_quot := quot; pc_refund := refund; pc_used_pre := used_pre; pc_nib := n; pc_geth := g |}.
