(** C03 — evaluation of implementation traces: correspondence (model vs observed Nibiru,
    reference vs observed geth) and the property predicate [Pb] on the observed trace. *)
From Coq Require Import ZArith List Bool.
Import ListNotations.
Require Import Nib.C03.Model Nib.C03.Ref Nib.C03.Spec.
Local Open Scope Z_scope.

Definition case : Type := trace.

(** the Nibiru model's observations: return values + the keeper table after each Commit *)
Fixpoint model_obs (as_ : list addr) (ks : list key) (k : keeper) (txs : list (list op)) : list tx_obs :=
  match txs with
  | [] => []
  | t :: rest =>
    let '(k1, rs) := run_tx k t in
    {| o_rets := rs; o_table := table_of_world as_ ks (world_of k1) |} :: model_obs as_ ks k1 rest
  end.

(** model output ≠ observed: (i) the StateDB model vs Nibiru on EVERY case (also malformed ones);
    (ii) on protocol-obeying cases the reference semantics vs go-ethereum, up to empty accounts *)
Definition mismatch (c : case) : bool :=
  negb (list_eqb obs_eqb (model_obs (t_addrs c) (t_keys c) empty_keeper (t_txs c)) (t_nib c)) ||
  (wf_txs_b (t_addrs c) (t_keys c) empty_world (t_txs c) &&
   negb (list_eqb obs_eqb (norm_all (t_txs c) (ref_obs (t_addrs c) (t_keys c) empty_world (t_txs c)))
                          (norm_all (t_txs c) (t_geth c)))).

Definition violates (c : case) : bool := negb (Pb c).

(** case constructors used by the generated cases file *)
Definition mk_obs (rs : list ret) (tb : list arow) : tx_obs := {| o_rets := rs; o_table := tb |}.
Definition mk_case (as_ : list addr) (ks : list key) (txs : list (list op)) (n g : list tx_obs) : case :=
  {| t_addrs := as_; t_keys := ks; t_txs := txs; t_nib := n; t_geth := g |}.
