(** C03 — evaluation of implementation traces: correspondence (model vs observed Nibiru,
    reference vs observed geth) and the property predicate [Pb] on the observed trace. *)
From Coq Require Import ZArith List Bool.
Import ListNotations.
Require Import Nib.C03.Model Nib.C03.Ref Nib.C03.Spec Nib.C03.Msg Nib.C03.Precompiles.
Require Nib.Gen.C03Facts.
Local Open Scope Z_scope.

Record prog_case := {
  pc_quot : Z;        (* params.RefundQuotientEIP3529 as linked into the binary *)
  pc_refund : Z;      (* StateDB refund counter after execution *)
  pc_used_pre : Z;    (* intrinsic gas + gas used by the top frame, before the refund; -1 = unknown *)
  pc_nib : prog_obs; pc_geth : prog_obs;
  (* a message sent straight to MODEXP (0x05): intrinsic gas, base / exponent / modulus length, bit
     length of the first 32 bytes of the exponent *)
  pc_modexp : option (Z * Z * Z * Z * Z)
}.

(** driver (c): a history of messages; [mc_hdrs] = the header of every message as the driver built
    it (sender = its row index, nonce, gas limit, price, value, what IntrinsicGas looks at, the gas
    Nibiru reported), with the nonce bracket of ApplyEvmMsg as the only known StateDB calls *)
Record msgs_case := { mc_trace : msgs_trace; mc_hdrs : list (msg * Z) }.  (* header, sender balance SET before the message (-1: untouched) *)

Inductive case : Type := CSeq (t : trace) | CProg (p : prog_case) | CMsgs (m : msgs_case).

(** the keeper table as the driver reads it: the code id of an account whose bytecode cannot be
    retrieved from the (shared) code table is reported as -3 *)
Definition table_of_keeper (as_ : list addr) (ks : list key) (k : keeper) : list arow :=
  map (fun a => match k_acct k a with
                | Some x => (true, to_wei (ka_bal x), ka_nonce x,
                             (if (ka_code x =? 0) || k_code k (ka_code x) then ka_code x else -3),
                             map (k_stor k a) ks)
                | None => (false, 0, 0, 0, map (k_stor k a) ks)
                end) as_.

(** the Nibiru model's observations: return values + the keeper table after each Commit *)
Fixpoint model_obs (as_ : list addr) (ks : list key) (k : keeper) (txs : list (list op)) : list tx_obs :=
  match txs with
  | [] => []
  | t :: rest =>
    let '(k1, rs) := run_tx k t in
    {| o_rets := rs; o_table := table_of_keeper as_ ks k1 |} :: model_obs as_ ks k1 rest
  end.

(** the driver marks a failed Commit with code -7 in every row *)
Definition obs_failed (o : tx_obs) : bool :=
  existsb (fun r : arow => let '(_, _, _, c, _) := r in c =? -7) (o_table o).

(** the model against the observed history: return values of every call; after a Commit that the
    model predicts to succeed the keeper table; a Commit the model predicts to FAIL (negative unibi
    balance, only reachable by overdrawing call sequences of the malformed stream) must fail, and
    nothing is compared afterwards (Go leaves a partial write) *)
Fixpoint model_matches (as_ : list addr) (ks : list key) (k : keeper) (txs : list (list op)) (obs : list tx_obs) : bool :=
  match txs, obs with
  | [], [] => true
  | t :: rest, o :: os =>
    let '(f, rs) := run t (new_full k) in
    list_eqb zlist_eqb rs (o_rets o) &&
    (if commit_fails (core f) then obs_failed o
     else let k1 := commit (core f) in
          list_eqb row_eqb (table_of_keeper as_ ks k1) (o_table o) && model_matches as_ ks k1 rest os)
  | _, _ => false
  end.

(** model output ≠ observed: (i) the StateDB model vs Nibiru on EVERY case (also malformed ones);
    (ii) on protocol-obeying cases the reference semantics vs go-ethereum, up to empty accounts *)
Definition mismatch_seq (c : trace) : bool :=
  negb (model_matches (t_addrs c) (t_keys c) empty_keeper (t_txs c) (t_nib c)) ||
  (wf_txs_b (t_addrs c) (t_keys c) empty_world (t_txs c) &&
   negb (list_eqb obs_eqb (norm_all (t_txs c) (ref_obs (t_addrs c) (t_keys c) empty_world (t_txs c)))
                          (norm_all (t_txs c) (t_geth c)))).

(** the refund arithmetic of ApplyEvmMsg as modelled by [gas_to_refund] *)
(** the price of the standard MODEXP precompile under the upstream table InitPrecompiles copies (the
    table is re-extracted from the source): a successful message straight to 0x05 uses exactly
    intrinsic gas + [modexp_gas table] *)
Definition mismatch_modexp (p : prog_case) : bool :=
  match pc_modexp p with
  | None => false
  | Some (intr, bl, el, ml, hb) =>
    if p_rej (pc_nib p) || (pc_used_pre p <? 0) || negb (p_err (pc_nib p) =? 0) then false
    else match table_of_names Nib.Gen.C03Facts.c03_std_precompile_tables with
         | Some t => negb (pc_used_pre p =? intr + modexp_gas t bl el ml hb)
         | None => true
         end
  end.

Definition mismatch_prog (p : prog_case) : bool :=
  mismatch_modexp p ||
  if p_rej (pc_nib p) || (pc_used_pre p <? 0) then false
  else negb (p_gas (pc_nib p) =? pc_used_pre p - gas_to_refund (pc_quot p) (pc_refund p) (pc_used_pre p)).

(** ** driver (c): the message-layer model [deliver] against the observed history.  The block
    state before each message is rebuilt from the OBSERVED table (the interpreter is not modelled,
    so the effect of an executed message is not predicted), the pointer is threaded through the
    history, and [clears_on_error] / [cap_check] are the values extracted from the source.  Compared per
    message: the verdict rejected / executed (ante: EOA, tip vs fee cap vs base fee, funds against
    gas*feeCap+value or the effective cost, nonce; ApplyEvmMsg: intrinsic gas); after a
    rejected message the whole table (no effect); after an executed message the sender's nonce. *)
Definition nth_row (rows : list arow) (a : addr) : option arow :=
  if a <? 0 then None else nth_error rows (Z.to_nat a).

Definition keeper_of_rows (rows : list arow) : keeper :=
  {| k_acct := fun a => match nth_row rows a with
                        | Some (true, b, n, c, _) => Some {| ka_bal := to_native b; ka_nonce := n; ka_code := c |}
                        | _ => None
                        end;
     k_stor := fun a k => match nth_row rows a with
                          | Some (_, _, _, _, st) => nth (Z.to_nat k) st 0
                          | None => 0
                          end;
     k_code := fun _ => true |}.

Definition row_nonce (rows : list arow) (a : addr) : Z :=
  match nth_row rows a with Some (_, _, n, _, _) => n | None => -1 end.

Definition msg_keys : list key := [0; 1; 2; 3].

(** the driver funds the sender between two messages (balance placement around an admission limit) *)
Fixpoint set_bal_at (i : nat) (rows : list arow) (b : Z) : list arow :=
  match rows, i with
  | [], _ => []
  | (_, _, n, c, st) :: rest, O => (true, b, n, c, st) :: rest
  | r :: rest, S j => r :: set_bal_at j rest b
  end.

Fixpoint model_msgs (clears cap_check floor_check : bool) (prev : list arow) (ptr : option full) (hs : list (msg * Z))
         (obs : list (prog_obs * prog_obs * bool)) : bool :=
  match hs, obs with
  | [], [] => true
  | (m, placed) :: hs', (n, _, _) :: obs' =>
    let prev := if placed <? 0 then prev else set_bal_at (Z.to_nat (m_from m)) prev placed in
    let as_ := map Z.of_nat (seq 0 (length prev)) in
    let '(st1, r) := deliver clears cap_check floor_check {| ms_blk := keeper_of_rows prev; ms_ptr := ptr |} m in
    let rej := match r with MRejected => true | MExecuted _ => false end in
    Bool.eqb rej (p_rej n) &&
    (if rej then list_eqb row_eqb (table_of_keeper as_ msg_keys (ms_blk st1)) (p_state n)
     else row_nonce (table_of_keeper as_ msg_keys (ms_blk st1)) (m_from m) =? row_nonce (p_state n) (m_from m)) &&
    model_msgs clears cap_check floor_check (p_state n) (ms_ptr st1) hs' obs'
  | _, _ => false
  end.

Definition mismatch_msgs (c : msgs_case) : bool :=
  negb (model_msgs Nib.Gen.C03Facts.c03_ethereumtx_clears_on_every_return
                   Nib.Gen.C03Facts.c03_sender_balance_checked_against_cap_cost
                   Nib.Gen.C03Facts.c03_ante_rejects_fee_cap_below_base_fee
                   (mt_init_n (mc_trace c)) None (mc_hdrs c) (mt_msgs (mc_trace c))).

Definition mismatch (c : case) : bool :=
  match c with CSeq t => mismatch_seq t | CProg p => mismatch_prog p | CMsgs m => mismatch_msgs m end.

Definition violates (c : case) : bool :=
  match c with
  | CSeq t => negb (Pb t)
  | CProg p => negb (Pprog_b (pc_nib p) (pc_geth p))
  | CMsgs m => negb (Pmsgs_b (mc_trace m))
  end.

(** case constructors used by the generated cases file *)
Definition mk_obs (rs : list ret) (tb : list arow) : tx_obs := {| o_rets := rs; o_table := tb |}.
Definition mk_case (as_ : list addr) (ks : list key) (txs : list (list op)) (n g : list tx_obs) : case :=
  CSeq {| t_addrs := as_; t_keys := ks; t_txs := txs; t_nib := n; t_geth := g |}.
Definition mk_pobs (rej : bool) (gas err : Z) (ret logs : list Z) (st : list arow) : prog_obs :=
  {| p_rej := rej; p_gas := gas; p_err := err; p_ret := ret; p_logs := logs; p_state := st |}.
Definition mk_prog (quot refund used_pre : Z) (n g : prog_obs) : case :=
  CProg {| pc_quot := quot; pc_refund := refund; pc_used_pre := used_pre; pc_nib := n; pc_geth := g; pc_modexp := None |}.
Definition mk_prog_modexp (quot refund used_pre : Z) (n g : prog_obs) (intr bl el ml hb : Z) : case :=
  CProg {| pc_quot := quot; pc_refund := refund; pc_used_pre := used_pre; pc_nib := n; pc_geth := g;
           pc_modexp := Some (intr, bl, el, ml, hb) |}.
Definition mk_hdr (from nonce gas base tip cap value : Z) (create : bool) (nz z al_addrs al_keys used : Z) : msg :=
  {| m_from := from; m_nonce := nonce; m_gas := gas; m_base := base; m_tip := tip; m_cap := cap; m_value := value;
     m_create := create; m_nz := nz; m_z := z; m_al_addrs := al_addrs; m_al_keys := al_keys;
     m_ops := [OSetNonce from nonce; OSetNonce from (nonce + 1)]; m_used := used |}.
Definition mk_msgs (init_n init_g : list arow) (hdrs : list (msg * Z)) (obs : list (prog_obs * prog_obs * bool)) : case :=
  CMsgs {| mc_trace := {| mt_init_n := init_n; mt_init_g := init_g; mt_msgs := obs |}; mc_hdrs := hdrs |}.
