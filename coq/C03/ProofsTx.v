(** C03 — proofs, part 7: one transaction and a history of transactions against the reference;
    the ApplyEvmMsg arithmetic. *)
From Coq Require Import ZArith List Bool Lia.
Import ListNotations.
Require Import Nib.C03.Model Nib.C03.Ref Nib.C03.Spec Nib.C03.ProofsBase Nib.C03.ProofsUndo
               Nib.C03.ProofsOps Nib.C03.ProofsSim Nib.C03.ProofsInv Nib.C03.ProofsCommit.
Local Open Scope Z_scope.

(** pointwise equality of worlds *)
Definition weq (w1 w2 : world) : Prop :=
  (forall a, w_acct w1 a = w_acct w2 a) /\ (forall a k, w_stor w1 a k = w_stor w2 a k).

(** the property's side condition: every balance is a whole number of unibi *)
Definition whole_unibi (w : world) : Prop :=
  forall a x, w_acct w a = Some x -> to_wei (to_native (wa_bal x)) = wa_bal x.

Lemma ref_commit_veq v w : veq v w -> weq (ref_commit v) (ref_commit w).
Proof.
  intros []. split; simpl; intros.
  - rewrite eq_acct. reflexivity.
  - rewrite eq_acct, eq_stor. reflexivity.
Qed.

Lemma committed_at_weq v w k' a : weq (ref_commit v) (ref_commit w) -> committed_at v k' a -> committed_at w k' a.
Proof.
  intros [A B] [C D]. split.
  - rewrite <- A. exact C.
  - intro ky. rewrite <- B. apply D.
Qed.

(** ** one transaction: fresh StateDB, any protocol-obeying call sequence, Commit *)
Theorem tx_refines k ops :
  kwf k -> wf_run (k_stor k) ops (ref_begin (world_of k)) ->
  let k' := fst (run_tx k ops) in
  let w' := fst (ref_tx (world_of k) ops) in
  (* every value returned to the interpreter is the reference's *)
  snd (run_tx k ops) = snd (ref_tx (world_of k) ops) /\
  (* Commit leaves in the keeper exactly the reference's final state (balances in unibi) *)
  (forall a, match w_acct w' a, k_acct k' a with
             | Some x, Some y => ka_bal y = to_native (wa_bal x) /\ ka_nonce y = wa_nonce x /\ ka_code y = wa_code x
             | None, None => True
             | _, _ => False
             end /\ forall ky, k_stor k' a ky = w_stor w' a ky) /\
  kwf k' /\
  (whole_unibi w' -> weq (world_of k') w').
Proof.
  intros Hk Hwf. unfold run_tx, ref_tx.
  destruct (run_sim k ops (new_full k) (ref_begin (world_of k)) (R_init k) Hwf) as (Hrets & HR).
  pose proof (Inv_run ops (new_full k) (Inv_new k)) as HI.
  destruct (run ops (new_full k)) as [f rs]. destruct (rrun ops (ref_begin (world_of k))) as [r xs].
  cbn [fst snd] in *. destruct HR as [HB HC HCl HN HRv].
  assert (Hkp : kp (core f) = k) by exact HB.
  assert (Hcm : forall a, committed_at (cur r) (commit (core f)) a).
  { intro a. eapply committed_at_weq; [apply ref_commit_veq, HC|].
    apply commit_writes_visible; auto. rewrite Hkp. exact Hk. }
  split; [exact Hrets|]. split; [exact Hcm|]. split.
  - intros a Ha ky. destruct (Hcm a) as [A B]. rewrite Ha in A. rewrite B.
    cbn [ref_commit w_acct w_stor] in A |- *. destruct (v_acct (cur r) a) as [x|] eqn:Hx.
    + destruct (av_suic x); [reflexivity|contradiction].
    + rewrite <- (eq_acct _ _ HC a) in Hx. rewrite <- (eq_stor _ _ HC a ky).
      simpl in Hx. destruct (lookup (core f) a) eqn:Hl; [discriminate|].
      simpl. rewrite Hl. rewrite <- Hkp in Hk. apply Hk. apply lookup_none_kobj_acct, Hl.
  - intros Hw. split; intros a; [|intro ky; apply (Hcm a)].
    destruct (Hcm a) as [A _]. simpl w_acct at 1.
    destruct (w_acct (ref_commit (cur r)) a) as [x|] eqn:Hx, (k_acct (commit (core f)) a) as [y|]; try contradiction; [|reflexivity].
    destruct A as (A1 & A2 & A3). rewrite A1, A2, A3, (Hw a x Hx). destruct x; reflexivity.
Qed.

(** ** histories: each transaction starts from the world the keeper holds *)
Fixpoint hist_wf (k : keeper) (txs : list (list op)) : Prop :=
  match txs with
  | [] => True
  | t :: rest =>
    wf_run (k_stor k) t (ref_begin (world_of k)) /\
    whole_unibi (fst (ref_tx (world_of k) t)) /\
    hist_wf (fst (run_tx k t)) rest
  end.

Fixpoint hist_ok (k : keeper) (txs : list (list op)) : Prop :=
  match txs with
  | [] => True
  | t :: rest =>
    snd (run_tx k t) = snd (ref_tx (world_of k) t) /\
    weq (world_of (fst (run_tx k t))) (fst (ref_tx (world_of k) t)) /\
    hist_ok (fst (run_tx k t)) rest
  end.

Theorem history_refines : forall txs k, kwf k -> hist_wf k txs -> hist_ok k txs.
Proof.
  induction txs as [|t txs IH]; intros k Hk Hwf; simpl; [exact I|].
  destruct Hwf as (Hw & Hu & Hrest).
  destruct (tx_refines k t Hk Hw) as (A & _ & C & D).
  split; [exact A|]. split; [apply D, Hu|]. apply IH; assumption.
Qed.

Lemma kwf_empty : kwf empty_keeper.
Proof. intros a _ ky. reflexivity. Qed.

(** ** ApplyEvmMsg arithmetic *)
(** EIP-3529: refund = min(gasUsed / quotient, refund counter) — go-ethereum's
    [st.refundGas(params.RefundQuotientEIP3529)] computes the same minimum *)
Lemma gas_to_refund_is_min q avail used : gas_to_refund q avail used = Z.min (used / q) avail.
Proof. unfold gas_to_refund. destruct (Z.ltb_spec avail (used / q)); lia. Qed.

Lemma gas_to_refund_bounds q avail used :
  0 < q -> 0 <= avail -> 0 <= used ->
  0 <= gas_to_refund q avail used <= avail /\ gas_to_refund q avail used * q <= used.
Proof.
  intros Hq Ha Hu. rewrite gas_to_refund_is_min.
  pose proof (Z.div_pos used q Hu Hq). pose proof (Z.mul_div_le used q Hq).
  split; [lia|]. nia.
Qed.

(** with the London quotient the gas charged after refunds is at least 4/5 of the gas used *)
Lemma refund_cap_london avail used :
  0 <= avail -> 0 <= used -> 4 * used <= 5 * (used - gas_to_refund 5 avail used).
Proof. intros Ha Hu. destruct (gas_to_refund_bounds 5 avail used) as [A B]; lia. Qed.

(** ParseWeiAsMultipleOfMicronibi: whole-unibi values pass unchanged; others are truncated by < 1 unibi or rejected *)
Lemma parse_wei_multiple n : 0 <= n -> parse_wei (to_wei n) = Some (to_wei n).
Proof.
  intro Hn. unfold parse_wei, to_wei, WEI in *. destruct (Z.leb_spec (n * 1000000000000) 0); [f_equal|].
  destruct (Z.ltb_spec (n * 1000000000000) 1000000000000); [lia|].
  unfold to_native, WEI. rewrite Z.div_mul by lia. reflexivity.
Qed.

Lemma parse_wei_spec w w' : parse_wei w = Some w' -> w' <= w /\ (0 < w -> 0 < w' /\ w - w' < WEI /\ w' mod WEI = 0).
Proof.
  unfold parse_wei. destruct (Z.leb_spec w 0); [intros [= <-]; split; lia|].
  destruct (Z.ltb_spec w WEI); [discriminate|]. intros [= <-].
  unfold to_wei, to_native, WEI in *. pose proof (Z.div_mod w 1000000000000 ltac:(lia)).
  pose proof (Z.mod_pos_bound w 1000000000000 ltac:(lia)).
  assert (1 <= w / 1000000000000) by (apply Z.div_le_lower_bound; lia).
  split; [lia|]. intros _. split; [lia|]. split; [lia|]. apply Z.mod_mul. lia.
Qed.

(** the nonce bracket of ApplyEvmMsg: whatever the call did, after [SetNonce(from, n+1)] the
    sender's nonce reads n+1 (C07 builds on this) *)
Lemma nonce_bracket s a m :
  snd (step_core (OGetNonce a) (fst (step_core (OSetNonce a m) s))) = [m].
Proof.
  destruct (sim_set_nonce s a m) as (_ & HV & _).
  destruct (sim_get_nonce (fst (step_core (OSetNonce a m) s)) a) as (Hr & _).
  rewrite Hr. destruct (vstep_cong (OGetNonce a) _ _ HV) as (E & _). rewrite E.
  cbn [vstep fst snd vset_acct v_acct]. rewrite upd_same. reflexivity.
Qed.

