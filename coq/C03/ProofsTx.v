(** C03 — proofs, part 7: one transaction and a history of transactions against the reference;
    the ApplyEvmMsg arithmetic. *)
From Coq Require Import ZArith List Bool Lia.
Import ListNotations.
Require Import Nib.C03.Model Nib.C03.Ref Nib.C03.Spec Nib.C03.ProofsBase Nib.C03.ProofsUndo
               Nib.C03.ProofsOps Nib.C03.ProofsSim Nib.C03.ProofsInv Nib.C03.ProofsCommit.
Local Open Scope Z_scope.

(** pointwise equality of worlds *)
Definition weq (w1 w2 : world) : Prop :=
  (forall a, w_acct w1 a = w_acct w2 a) /\ (forall a k, w_stor w1 a k = w_stor w2 a k).

(** the property's side condition: every balance is a whole number of unibi *)
Definition whole_unibi (w : world) : Prop :=
  forall a x, w_acct w a = Some x -> to_wei (to_native (wa_bal x)) = wa_bal x.

Lemma ref_commit_veq v w : veq v w -> weq (ref_commit v) (ref_commit w).
Proof.
  intros []. split; simpl; intros.
  - rewrite eq_acct. reflexivity.
  - rewrite eq_acct, eq_stor. reflexivity.
Qed.

Lemma committed_at_weq v w k' a : weq (ref_commit v) (ref_commit w) -> committed_at v k' a -> committed_at w k' a.
Proof.
  intros [A B] [C D]. split.
  - rewrite <- A. exact C.
  - intro ky. rewrite <- B. apply D.
Qed.

(** ** one transaction: fresh StateDB, any protocol-obeying call sequence, Commit *)
Theorem tx_refines k ops :
  kwf k -> wf_run (k_stor k) ops (ref_begin (world_of k)) ->
  let k' := fst (run_tx k ops) in
  let w' := fst (ref_tx (world_of k) ops) in
  (* every value returned to the interpreter is the reference's *)
  snd (run_tx k ops) = snd (ref_tx (world_of k) ops) /\
  (* Commit leaves in the keeper exactly the reference's final state (balances in unibi) *)
  (forall a, match w_acct w' a, k_acct k' a with
             | Some x, Some y => ka_bal y = to_native (wa_bal x) /\ ka_nonce y = wa_nonce x /\ ka_code y = wa_code x
             | None, None => True
             | _, _ => False
             end /\ forall ky, k_stor k' a ky = w_stor w' a ky) /\
  kwf k' /\
  (whole_unibi w' -> weq (world_of k') w').
Proof.
  intros Hk Hwf. unfold run_tx, ref_tx.
  destruct (run_sim k ops (new_full k) (ref_begin (world_of k)) (R_init k) Hwf) as (Hrets & HR).
  pose proof (Inv_run ops (new_full k) (Inv_new k (proj2 Hk))) as HI.
  destruct (run ops (new_full k)) as [f rs]. destruct (rrun ops (ref_begin (world_of k))) as [r xs].
  cbn [fst snd] in *. destruct HR as [HB HC HCl HN HRv].
  assert (Hkp : kp (core f) = k) by exact HB.
  assert (Hcm : forall a, committed_at (cur r) (commit (core f)) a).
  { intro a. eapply committed_at_weq; [apply ref_commit_veq, HC|].
    apply commit_writes_visible; auto. rewrite Hkp. exact Hk. }
  split; [exact Hrets|]. split; [exact Hcm|]. split.
  - split; [|apply commit_code_table; assumption]. intros a Ha ky. destruct (Hcm a) as [A B]. rewrite Ha in A. rewrite B.
    cbn [ref_commit w_acct w_stor] in A |- *. destruct (v_acct (cur r) a) as [x|] eqn:Hx.
    + destruct (av_suic x); [reflexivity|contradiction].
    + rewrite <- (eq_acct _ _ HC a) in Hx. rewrite <- (eq_stor _ _ HC a ky).
      simpl in Hx. destruct (lookup (core f) a) eqn:Hl; [discriminate|].
      simpl. rewrite Hl. rewrite <- Hkp in Hk. apply (proj1 Hk). apply lookup_none_kobj_acct, Hl.
  - intros Hw. split; intros a; [|intro ky; apply (Hcm a)].
    destruct (Hcm a) as [A _]. simpl w_acct at 1.
    destruct (w_acct (ref_commit (cur r)) a) as [x|] eqn:Hx, (k_acct (commit (core f)) a) as [y|]; try contradiction; [|reflexivity].
    destruct A as (A1 & A2 & A3). rewrite A1, A2, A3, (Hw a x Hx). destruct x; reflexivity.
Qed.

(** ** histories: each transaction starts from the world the keeper holds *)
Fixpoint hist_wf (k : keeper) (txs : list (list op)) : Prop :=
  match txs with
  | [] => True
  | t :: rest =>
    wf_run (k_stor k) t (ref_begin (world_of k)) /\
    whole_unibi (fst (ref_tx (world_of k) t)) /\
    hist_wf (fst (run_tx k t)) rest
  end.

Fixpoint hist_ok (k : keeper) (txs : list (list op)) : Prop :=
  match txs with
  | [] => True
  | t :: rest =>
    snd (run_tx k t) = snd (ref_tx (world_of k) t) /\
    weq (world_of (fst (run_tx k t))) (fst (ref_tx (world_of k) t)) /\
    hist_ok (fst (run_tx k t)) rest
  end.

Theorem history_refines : forall txs k, kwf k -> hist_wf k txs -> hist_ok k txs.
Proof.
  induction txs as [|t txs IH]; intros k Hk Hwf; simpl; [exact I|].
  destruct Hwf as (Hw & Hu & Hrest).
  destruct (tx_refines k t Hk Hw) as (A & _ & C & D).
  split; [exact A|]. split; [apply D, Hu|]. apply IH; assumption.
Qed.

Lemma kwf_empty : kwf empty_keeper.
Proof. split; [intros a _ ky; reflexivity|intros a x H; discriminate]. Qed.

(** ** ApplyEvmMsg arithmetic *)
(** EIP-3529: refund = min(gasUsed / quotient, refund counter) — go-ethereum's
    [st.refundGas(params.RefundQuotientEIP3529)] computes the same minimum *)
Lemma gas_to_refund_is_min q avail used : gas_to_refund q avail used = Z.min (used / q) avail.
Proof. unfold gas_to_refund. destruct (Z.ltb_spec avail (used / q)); lia. Qed.

Lemma gas_to_refund_bounds q avail used :
  0 < q -> 0 <= avail -> 0 <= used ->
  0 <= gas_to_refund q avail used <= avail /\ gas_to_refund q avail used * q <= used.
Proof.
  intros Hq Ha Hu. rewrite gas_to_refund_is_min.
  pose proof (Z.div_pos used q Hu Hq). pose proof (Z.mul_div_le used q Hq).
  split; [lia|]. nia.
Qed.

(** with the London quotient the gas charged after refunds is at least 4/5 of the gas used *)
Lemma refund_cap_london avail used :
  0 <= avail -> 0 <= used -> 4 * used <= 5 * (used - gas_to_refund 5 avail used).
Proof. intros Ha Hu. destruct (gas_to_refund_bounds 5 avail used) as [A B]; lia. Qed.

(** ParseWeiAsMultipleOfMicronibi: whole-unibi values pass unchanged; others are truncated by < 1 unibi or rejected *)
Lemma parse_wei_multiple n : 0 <= n -> parse_wei (to_wei n) = Some (to_wei n).
Proof.
  intro Hn. unfold parse_wei, to_wei, WEI in *. destruct (Z.leb_spec (n * 1000000000000) 0); [f_equal|].
  destruct (Z.ltb_spec (n * 1000000000000) 1000000000000); [lia|].
  unfold to_native, WEI. rewrite Z.quot_mul by lia. reflexivity.
Qed.

Lemma parse_wei_spec w w' : parse_wei w = Some w' -> w' <= w /\ (0 < w -> 0 < w' /\ w - w' < WEI /\ w' mod WEI = 0).
Proof.
  unfold parse_wei. destruct (Z.leb_spec w 0); [intros [= <-]; split; lia|].
  destruct (Z.ltb_spec w WEI); [discriminate|]. intros [= <-].
  unfold to_wei, to_native, WEI in *. rewrite Z.quot_div_nonneg by lia. pose proof (Z.div_mod w 1000000000000 ltac:(lia)).
  pose proof (Z.mod_pos_bound w 1000000000000 ltac:(lia)).
  assert (1 <= w / 1000000000000) by (apply Z.div_le_lower_bound; lia).
  split; [lia|]. intros _. split; [lia|]. split; [lia|]. apply Z.mod_mul. lia.
Qed.

(** the nonce bracket of ApplyEvmMsg: whatever the call did, after [SetNonce(from, n+1)] the
    sender's nonce reads n+1 (C07 builds on this) *)
Lemma nonce_bracket s a m :
  snd (step_core (OGetNonce a) (fst (step_core (OSetNonce a m) s))) = [m].
Proof.
  destruct (sim_set_nonce s a m) as (_ & HV & _).
  destruct (sim_get_nonce (fst (step_core (OSetNonce a m) s)) a) as (Hr & _).
  rewrite Hr. destruct (vstep_cong (OGetNonce a) _ _ HV) as (E & _). rewrite E.
  cbn [vstep fst snd vset_acct v_acct]. rewrite upd_same. reflexivity.
Qed.

(** ** non-vacuity: a concrete protocol-obeying sequence with nested, partially reverted frames
    (a contract creation, a reverted inner frame holding SSTORE / refund / log / SELFDESTRUCT,
    a second reverted frame) *)
Definition ex_ops : list op :=
  [ OAddBalance 1 5000000000000; OSnapshot;
      OCreateAccount 2; OSetNonce 2 1; OSubBalance 1 2000000000000; OAddBalance 2 2000000000000;
      OSnapshot; OSetState 2 0 7; OAddRefund 4800; OAddLog 1; OSuicide 2; ORevert 1;
      OSetState 2 1 9; OSetCode 2 3;
    OSnapshot; OSetState 2 1 0; ORevert 2;
    OGetState 2 1; OGetState 2 0; OGetRefund; OLogs; OGetBalance 2 ].

Example ex_wf_nonvacuous : wf_run (k_stor empty_keeper) ex_ops (ref_begin (world_of empty_keeper)).
Proof. vm_compute. repeat split; try discriminate; intros; reflexivity. Qed.

Example ex_run : snd (run_tx empty_keeper ex_ops) =
  [[]; [0]; []; []; []; []; [1]; []; []; []; [1]; []; []; []; [2]; []; []; [9]; [0]; [0]; []; [2000000000000]].
Proof. vm_compute. reflexivity. Qed.

(** ** the side condition "value moves in whole multiples of 1 unibi" is syntactic *)
Definition op_whole (o : op) : Prop :=
  match o with OAddBalance _ z | OSubBalance _ z => z mod WEI = 0 | _ => True end.

Definition vwhole (v : view) : Prop := forall a x, v_acct v a = Some x -> av_bal x mod WEI = 0.

Lemma WEI_pos : 0 < WEI. Proof. unfold WEI. lia. Qed.

Lemma whole_add x y : x mod WEI = 0 -> y mod WEI = 0 -> (x + y) mod WEI = 0.
Proof. intros A B. rewrite Z.add_mod, A, B by (unfold WEI; lia). reflexivity. Qed.
Lemma whole_sub x y : x mod WEI = 0 -> y mod WEI = 0 -> (x - y) mod WEI = 0.
Proof. intros A B. rewrite Zminus_mod, A, B. reflexivity. Qed.

Lemma vwhole_al v fa fs : vwhole v -> vwhole (vset_al v fa fs).
Proof. exact (fun H => H). Qed.

Lemma vprepare_acct v sd dst pre al : v_acct (vprepare v sd dst pre al) = v_acct v.
Proof.
  unfold vprepare.
  assert (Hs : forall l a v0, v_acct (fold_left (fun v k => vadd_slot v a k) l v0) = v_acct v0).
  { induction l; intros; simpl; [reflexivity|]. rewrite IHl. reflexivity. }
  assert (Ha : forall l v0, v_acct (fold_left vadd_addr l v0) = v_acct v0).
  { induction l; intros; simpl; [reflexivity|]. rewrite IHl. reflexivity. }
  assert (Hal : forall l v0, v_acct (fold_left (fun v el => fold_left (fun v k => vadd_slot v (fst el) k) (snd el) (vadd_addr v (fst el))) l v0) = v_acct v0).
  { induction l; intros; simpl; [reflexivity|]. rewrite IHl, Hs. reflexivity. }
  rewrite Hal, Ha. destruct dst; reflexivity.
Qed.

Lemma vstep_whole o v : op_whole o -> vwhole v -> vwhole (fst (vstep o v)).
Proof.
  intros Ho Hv.
  assert (Hb : av_bal blank mod WEI = 0) by reflexivity.
  assert (Hg : forall a, av_bal (vget_or_new v a) mod WEI = 0).
  { intro a. unfold vget_or_new. destruct (v_acct v a) eqn:E; [apply (Hv a), E|exact Hb]. }
  destruct o; cbn [vstep fst op_whole] in *; try exact Hv;
    try (intros a' x; cbn [v_acct vset_acct vset_stor vset_comm vset_refund vset_logs]; unfold upd;
         destruct (a' =? a); [intros [= <-]; simpl; auto using whole_add, whole_sub|apply Hv]).
  - (* CreateAccount *) destruct (v_acct v a) eqn:E; [apply (Hv a), E|reflexivity].
  - destruct (v_refund v <? g); exact Hv.
  - destruct (v_acct v a) eqn:E; cbn [fst]; [|exact Hv].
    intros a' x. cbn [v_acct vset_acct]. unfold upd. destruct (a' =? a); [intros [= <-]; reflexivity|apply Hv].
  - intros a' x. rewrite vprepare_acct. apply Hv.
Qed.

Definition rwhole (r : ref) : Prop := vwhole (cur r) /\ Forall (fun p => vwhole (snd p)) (stack r).

Lemma find_copy_whole id : forall stk v older,
  Forall (fun p => vwhole (snd p)) stk -> find_copy id stk = Some (v, older) ->
  vwhole v /\ Forall (fun p => vwhole (snd p)) older.
Proof.
  induction stk as [|[i w] stk IH]; intros v older H; simpl; [discriminate|].
  inversion H; subst. destruct (i =? id); [intros [= <- <-]; auto|apply IH; assumption].
Qed.

Lemma rstep_whole o r : op_whole o -> rwhole r -> rwhole (fst (rstep o r)).
Proof.
  intros Ho [Hc Hs]. destruct o;
    try (cbn [rstep]; match goal with |- rwhole (fst (let '(v, x) := vstep ?o ?c in _)) =>
           pose proof (vstep_whole o c Ho Hc) as Hw; destruct (vstep o c) end; split; assumption).
  - split; [exact Hc|constructor; assumption].
  - cbn [rstep]. destruct (find_copy id (stack r)) as [[v older]|] eqn:E; [|split; assumption].
    destruct (find_copy_whole id _ _ _ Hs E). split; assumption.
Qed.

Lemma rrun_whole : forall ops r, Forall op_whole ops -> rwhole r -> rwhole (fst (rrun ops r)).
Proof.
  induction ops as [|o ops IH]; intros r Ho Hr; simpl; [exact Hr|].
  inversion Ho; subst. pose proof (rstep_whole o r H1 Hr) as H. destruct (rstep o r) as [r1 x]. cbn [fst] in H.
  specialize (IH r1 H2 H). destruct (rrun ops r1). exact IH.
Qed.

Lemma whole_unibi_iff z : z mod WEI = 0 -> to_wei (to_native z) = z.
Proof.
  intro H. unfold to_wei, to_native.
  assert (Hr : Z.rem z WEI = 0).
  { apply Z.rem_divide; [unfold WEI; lia|]. apply Z.mod_divide; [unfold WEI; lia|exact H]. }
  pose proof (Z.quot_rem' z WEI). lia.
Qed.

Theorem whole_amounts_whole_world k ops :
  Forall op_whole ops -> whole_unibi (fst (ref_tx (world_of k) ops)).
Proof.
  intro Ho. unfold ref_tx.
  assert (Hr : rwhole (ref_begin (world_of k))).
  { split; [|constructor]. intros a x. simpl. destruct (k_acct k a); [|discriminate].
    intros [= <-]. simpl. unfold to_wei. apply Z.mod_mul. unfold WEI. lia. }
  pose proof (rrun_whole ops _ Ho Hr) as [Hc _]. destruct (rrun ops (ref_begin (world_of k))) as [r xs].
  cbn [fst] in *. intros a x. simpl. destruct (v_acct (cur r) a) as [y|] eqn:E; [|discriminate].
  destruct (av_suic y); [discriminate|]. intros [= <-]. simpl. apply whole_unibi_iff, (Hc a), E.
Qed.

(** histories under the syntactic side condition *)
Fixpoint hist_wf' (k : keeper) (txs : list (list op)) : Prop :=
  match txs with
  | [] => True
  | t :: rest =>
    wf_run (k_stor k) t (ref_begin (world_of k)) /\ Forall op_whole t /\ hist_wf' (fst (run_tx k t)) rest
  end.

Lemma hist_wf'_wf : forall txs k, hist_wf' k txs -> hist_wf k txs.
Proof.
  induction txs as [|t txs IH]; intros k H; simpl in *; [exact I|].
  destruct H as (A & B & C). split; [exact A|]. split; [apply whole_amounts_whole_world, B|apply IH, C].
Qed.

Definition ex_tx2 : list op := [OSnapshot; OSetState 2 1 4; ORevert 0; OGetState 2 1; OGetCommittedState 2 1].

Example ex_hist_nonvacuous : hist_wf' empty_keeper [ex_ops; ex_tx2].
Proof.
  cbn [hist_wf']. split; [apply ex_wf_nonvacuous|]. split.
  - unfold ex_ops. repeat constructor.
  - split; [vm_compute; repeat split; try discriminate; intros; reflexivity|]. split; [|exact I].
    unfold ex_tx2. repeat constructor.
Qed.

Example ex_hist_run : snd (run_txs empty_keeper [ex_ops; ex_tx2]) =
  [snd (run_tx empty_keeper ex_ops); [[0]; []; []; [9]; [9]]].
Proof. vm_compute. reflexivity. Qed.

(** ** shared bytecode: a contract that self-destructs does not take the code of its siblings with it *)
Corollary code_retrievable_after_tx k ops :
  kwf k -> wf_run (k_stor k) ops (ref_begin (world_of k)) ->
  forall a x, k_acct (fst (run_tx k ops)) a = Some x -> ka_code x = 0 \/ k_code (fst (run_tx k ops)) (ka_code x) = true.
Proof. intros Hk Hwf. destruct (tx_refines k ops Hk Hwf) as (_ & _ & [_ Hc] & _). exact Hc. Qed.

(** two contracts (1 and 2) with the same code 3; contract 1 self-destructs in the second transaction *)
Definition ex_shared : list (list op) :=
  [ [OSetNonce 1 1; OSetCode 1 3; OSetNonce 2 1; OSetCode 2 3; OAddBalance 1 1000000000000];
    [OGetBalance 1; OAddBalance 0 1000000000000; OSuicide 1] ].

Example ex_shared_code_survives :
  let k := fst (run_txs empty_keeper ex_shared) in
  k_acct k 1 = None /\ option_map ka_code (k_acct k 2) = Some 3 /\ k_code k 3 = true.
Proof. vm_compute. repeat split. Qed.
