(** C03 — proofs, part 8: histories against the PURE reference history (the reference never looks
    at the keeper): the reference machine respects pointwise equality of its states, so the
    per-transaction theorem chains. *)
From Coq Require Import ZArith List Bool Lia.
Import ListNotations.
Require Import Nib.C03.Model Nib.C03.Ref Nib.C03.Spec Nib.C03.ProofsBase Nib.C03.ProofsUndo
               Nib.C03.ProofsOps Nib.C03.ProofsSim Nib.C03.ProofsInv Nib.C03.ProofsCommit Nib.C03.ProofsTx.
Local Open Scope Z_scope.

Definition stack_eq (s s' : list (Z * view)) : Prop :=
  Forall2 (fun p q => fst p = fst q /\ veq (snd p) (snd q)) s s'.

Definition req (r r' : ref) : Prop :=
  veq (cur r) (cur r') /\ rnext r = rnext r' /\ stack_eq (stack r) (stack r').

Lemma find_copy_req id : forall s s', stack_eq s s' ->
  match find_copy id s, find_copy id s' with
  | None, None => True
  | Some (v, o), Some (v', o') => veq v v' /\ stack_eq o o'
  | _, _ => False
  end.
Proof.
  induction 1 as [|[i v] [i' v'] s s' [Hi Hv] Hs IH]; simpl; [exact I|].
  simpl in Hi. subst i'. destruct (i =? id); [split; assumption|exact IH].
Qed.

Lemma rstep_req o r r' : req r r' ->
  snd (rstep o r) = snd (rstep o r') /\ req (fst (rstep o r)) (fst (rstep o r')).
Proof.
  intros (Hc & Hn & Hs).
  destruct (is_core o) eqn:Hic.
  - rewrite !(rstep_core_eq o _ Hic). cbn [fst snd]. destruct (vstep_cong o _ _ Hc) as [A B].
    split; [exact A|]. split; [exact B|]. split; assumption.
  - destruct o; try discriminate; cbn [rstep fst snd].
    + rewrite Hn. split; [reflexivity|]. split; [exact Hc|]. split; [simpl; congruence|].
      constructor; [split; [reflexivity|exact Hc]|exact Hs].
    + pose proof (find_copy_req id _ _ Hs) as H.
      destruct (find_copy id (stack r)) as [[v o]|], (find_copy id (stack r')) as [[v' o']|]; try contradiction.
      * destruct H as [Hv Ho]. split; [reflexivity|]. split; [exact Hv|]. split; assumption.
      * split; [reflexivity|]. split; [exact Hc|]. split; assumption.
Qed.

Lemma rrun_req : forall ops r r', req r r' ->
  snd (rrun ops r) = snd (rrun ops r') /\ req (fst (rrun ops r)) (fst (rrun ops r')).
Proof.
  induction ops as [|o ops IH]; intros r r' H; simpl; [split; [reflexivity|exact H]|].
  destruct (rstep_req o r r' H) as [A B].
  destruct (rstep o r) as [r1 x], (rstep o r') as [r1' x']. cbn [fst snd] in *.
  destruct (IH r1 r1' B) as [C D].
  destruct (rrun ops r1) as [r2 xs], (rrun ops r1') as [r2' xs']. cbn [fst snd] in *.
  split; [congruence|exact D].
Qed.

Lemma wf_step_req base base' r r' o :
  (forall a k, base a k = base' a k) -> req r r' -> wf_step base r o -> wf_step base' r' o.
Proof.
  intros Hb (Hc & Hn & Hs). destruct o; cbn [wf_step]; auto.
  - intros (H1 & H2). split; [intro k; rewrite <- Hb; apply H1|].
    rewrite <- (eq_acct _ _ Hc a). destruct (v_acct (cur r) a); [|exact I].
    destruct H2 as (A & B & C & D). split; [exact A|]. split; [exact B|]. split; [exact C|].
    intro k. rewrite <- (eq_stor _ _ Hc a k). apply D.
  - rewrite <- (eq_refund _ _ Hc). auto.
  - pose proof (find_copy_req id _ _ Hs) as H.
    destruct (find_copy id (stack r)) as [[v o]|], (find_copy id (stack r')) as [[v' o']|]; try contradiction; congruence.
Qed.

Lemma wf_run_req base base' : (forall a k, base a k = base' a k) -> forall ops r r',
  req r r' -> wf_run base ops r -> wf_run base' ops r'.
Proof.
  intros Hb. induction ops as [|o ops IH]; intros r r' H; simpl; [auto|].
  intros [A B]. split; [eapply wf_step_req; eauto|].
  eapply IH; [apply rstep_req, H|exact B].
Qed.

Lemma ref_begin_weq w w' : weq w w' -> req (ref_begin w) (ref_begin w').
Proof.
  intros [A B]. split; [|split; [reflexivity|constructor]].
  split; simpl; intros; rewrite ?A, ?B; reflexivity.
Qed.

Lemma weq_sym w w' : weq w w' -> weq w' w.
Proof. intros [A B]. split; intros; symmetry; auto. Qed.
Lemma weq_trans w1 w2 w3 : weq w1 w2 -> weq w2 w3 -> weq w1 w3.
Proof. intros [A B] [C D]. split; intros; etransitivity; eauto. Qed.

Lemma ref_tx_weq w w' ops : weq w w' ->
  snd (ref_tx w ops) = snd (ref_tx w' ops) /\ weq (fst (ref_tx w ops)) (fst (ref_tx w' ops)).
Proof.
  intro H. unfold ref_tx. destruct (rrun_req ops _ _ (ref_begin_weq _ _ H)) as [A (B & _)].
  destruct (rrun ops (ref_begin w)) as [r xs], (rrun ops (ref_begin w')) as [r' xs']. cbn [fst snd] in *.
  split; [exact A|apply ref_commit_veq, B].
Qed.

(** the protocol and the side condition, stated on the reference history alone *)
Fixpoint ref_hist_wf (w : world) (txs : list (list op)) : Prop :=
  match txs with
  | [] => True
  | t :: rest => wf_run (w_stor w) t (ref_begin w) /\ Forall op_whole t /\ ref_hist_wf (fst (ref_tx w t)) rest
  end.

Lemma ref_hist_wf_weq : forall txs w w', weq w w' -> ref_hist_wf w txs -> ref_hist_wf w' txs.
Proof.
  induction txs as [|t txs IH]; intros w w' H; simpl; [auto|]. intros (A & B & C).
  split; [eapply wf_run_req; [apply H|apply ref_begin_weq, H|exact A]|]. split; [exact B|].
  eapply IH; [apply ref_tx_weq, H|exact C].
Qed.

Theorem history_equals_reference : forall txs k w,
  kwf k -> weq (world_of k) w -> ref_hist_wf w txs ->
  snd (run_txs k txs) = snd (ref_txs w txs) /\
  weq (world_of (fst (run_txs k txs))) (fst (ref_txs w txs)) /\ kwf (fst (run_txs k txs)).
Proof.
  induction txs as [|t txs IH]; intros k w Hk Hw Hwf; simpl.
  - split; [reflexivity|]. split; assumption.
  - destruct Hwf as (A & B & C).
    assert (A' : wf_run (k_stor k) t (ref_begin (world_of k))).
    { eapply wf_run_req; [|apply ref_begin_weq, weq_sym, Hw|exact A]. intros a ky. symmetry. apply Hw. }
    destruct (tx_refines k t Hk A') as (R1 & _ & R3 & R4).
    destruct (ref_tx_weq _ _ t Hw) as [E1 E2].
    specialize (R4 (whole_amounts_whole_world k t B)).
    destruct (run_tx k t) as [k1 rs] eqn:Et. destruct (ref_tx w t) as [w1 xs] eqn:Er. cbn [fst snd] in *.
    assert (Hw1 : weq (world_of k1) w1) by (eapply weq_trans; eauto).
    destruct (IH k1 w1 R3 Hw1 C) as (I1 & I2 & I3).
    destruct (run_txs k1 txs) as [k2 rss]. destruct (ref_txs w1 txs) as [w2 xss]. cbn [fst snd] in *.
    split; [congruence|]. split; assumption.
Qed.

Lemma weq_empty : weq (world_of empty_keeper) empty_world.
Proof. split; reflexivity. Qed.

(** from genesis *)
Corollary history_from_empty_world txs :
  ref_hist_wf empty_world txs ->
  snd (run_txs empty_keeper txs) = snd (ref_txs empty_world txs) /\
  weq (world_of (fst (run_txs empty_keeper txs))) (fst (ref_txs empty_world txs)).
Proof.
  intro H. destruct (history_equals_reference txs empty_keeper empty_world kwf_empty weq_empty H) as (A & B & _).
  split; assumption.
Qed.

Example ex_ref_hist_nonvacuous : ref_hist_wf empty_world [ex_ops; ex_tx2].
Proof.
  cbn [ref_hist_wf]. split; [vm_compute; repeat split; try discriminate; intros; reflexivity|]. split.
  - unfold ex_ops. repeat constructor.
  - split; [vm_compute; repeat split; try discriminate; intros; reflexivity|]. split; [|exact I].
    unfold ex_tx2. repeat constructor.
Qed.
