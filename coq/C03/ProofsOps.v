(** C03 — proofs, part 3: every vm.StateDB method (a) acts on the view exactly as the reference
    operation [vstep] and returns the same value, and (b) only prepends journal entries whose
    reverts lead back to the previous view ([ok]). *)
From Coq Require Import ZArith List Bool Lia.
Import ListNotations.
Require Import Nib.C03.Model Nib.C03.Ref Nib.C03.Spec Nib.C03.ProofsBase Nib.C03.ProofsUndo.
Local Open Scope Z_scope.

(** [s'] extends the journal of [s]; reverting the new entries restores the view of [s] *)
Definition ok (s s' : sdb) : Prop :=
  kp s' = kp s /\
  exists new, journal s' = new ++ journal s /\ veq (vunwind (kp s) new (V s')) (V s).

Lemma ok_same s s' : kp s' = kp s -> journal s' = journal s -> veq (V s') (V s) -> ok s s'.
Proof. intros K J H. split; [exact K|]. exists []. split; [exact J|exact H]. Qed.

Lemma ok_refl s : ok s s.
Proof. apply ok_same; auto using veq_refl. Qed.

Lemma ok_trans s1 s2 s3 : ok s1 s2 -> ok s2 s3 -> ok s1 s3.
Proof.
  intros (K1 & n1 & J1 & H1) (K2 & n2 & J2 & H2). split; [congruence|].
  exists (n2 ++ n1). split; [rewrite J2, J1, app_assoc; reflexivity|].
  rewrite vunwind_app. rewrite K1 in H2.
  eapply veq_trans; [apply vunwind_veq, H2|exact H1].
Qed.

Lemma ok_loaded s a : ok s (snd (get_obj s a)).
Proof. apply ok_same; [apply kp_loaded | apply journal_loaded | apply V_loaded]. Qed.

(** ** getOrNewStateObject *)
Definition blank_obj : obj := new_obj 0 0 0.

Lemma get_obj_none s a : lookup s a = None -> get_obj s a = (None, s).
Proof.
  intro H. rewrite get_obj_eq, H. f_equal. rewrite get_obj_snd.
  rewrite lookup_def in H. destruct (objs s a); [discriminate|]. rewrite H. reflexivity.
Qed.

Lemma get_or_new_some s a o : lookup s a = Some o -> get_or_new s a = (o, snd (get_obj s a)).
Proof. intro H. unfold get_or_new. rewrite get_obj_eq, H. reflexivity. Qed.

Lemma get_or_new_none s a : lookup s a = None ->
  get_or_new s a = (blank_obj, set_obj (push s (ECreate a)) a blank_obj).
Proof.
  intro H. unfold get_or_new, create_object. rewrite !(get_obj_none s a H). reflexivity.
Qed.

Definition obj_or_blank (s : sdb) (a : addr) : obj :=
  match lookup s a with Some o => o | None => blank_obj end.

Lemma vdrop_vput_none s a o : lookup s a = None -> veq (vdrop (kp s) (vput (kp s) (V s) a o) a) (V s).
Proof.
  intro H. pose proof (lookup_none_kobj s a H) as Hk.
  split; simpl; intros; try reflexivity; unfold upd; destruct (Z.eqb_spec a0 a); subst;
    rewrite ?Hk, ?H; reflexivity.
Qed.

Lemma vput_lookup s a o : lookup s a = Some o -> veq (vput (kp s) (V s) a o) (V s).
Proof.
  intro H. apply vput_same; simpl; intros; rewrite H; reflexivity.
Qed.

Lemma get_or_new_spec s a :
  let o := fst (get_or_new s a) in let s1 := snd (get_or_new s a) in
  o = obj_or_blank s a /\ lookup s1 a = Some o /\
  veq (V s1) (vput (kp s) (V s) a o) /\ ok s s1.
Proof.
  unfold obj_or_blank. destruct (lookup s a) as [o|] eqn:Hl.
  - rewrite (get_or_new_some s a o Hl). simpl.
    split; [reflexivity|]. split; [rewrite lookup_loaded; exact Hl|].
    split; [|apply ok_loaded].
    eapply veq_trans; [apply V_loaded|]. apply veq_sym, vput_lookup, Hl.
  - rewrite (get_or_new_none s a Hl). simpl.
    split; [reflexivity|]. split; [rewrite lookup_set_obj, Z.eqb_refl; reflexivity|].
    assert (HV : veq (V (set_obj (push s (ECreate a)) a blank_obj)) (vput (kp s) (V s) a blank_obj)).
    { eapply veq_trans; [apply V_set_obj|]. rewrite kp_push. apply vput_veq, V_push. }
    split; [exact HV|].
    split; [apply kp_push|]. exists [ECreate a]. split; [rewrite journal_set_obj, journal_push; reflexivity|].
    cbn [vunwind fold_left vundo]. eapply veq_trans; [apply vdrop_veq, HV|]. apply vdrop_vput_none, Hl.
Qed.

(** ** a journaled update of the object at [a] *)
Lemma vput_vput kp0 v a o o' : veq (vput kp0 (vput kp0 v a o) a o') (vput kp0 v a o').
Proof.
  split; simpl; intros; try reflexivity; unfold upd; destruct (Z.eqb_spec a0 a); subst; reflexivity.
Qed.

Lemma journaled_set s1 a o e o' :
  lookup s1 a = Some o ->
  (forall v, veq (vundo (kp s1) e (vput (kp s1) v a o')) (vput (kp s1) v a o)) ->
  veq (V (set_obj (push s1 e) a o')) (vput (kp s1) (V s1) a o') /\ ok s1 (set_obj (push s1 e) a o').
Proof.
  intros Hl Hu.
  assert (HV : veq (V (set_obj (push s1 e) a o')) (vput (kp s1) (V s1) a o')).
  { eapply veq_trans; [apply V_set_obj|]. rewrite kp_push. apply vput_veq, V_push. }
  split; [exact HV|]. split; [apply kp_push|].
  exists [e]. split; [rewrite journal_set_obj, journal_push; reflexivity|].
  cbn [vunwind fold_left]. eapply veq_trans; [apply vundo_veq, HV|].
  eapply veq_trans; [apply Hu|]. apply vput_lookup, Hl.
Qed.

Lemma mutator s a (E : obj -> entry) (F : obj -> obj) :
  (forall v o, veq (vundo (kp s) (E o) (vput (kp s) v a (F o))) (vput (kp s) v a o)) ->
  let s' := (let '(o, s1) := get_or_new s a in set_obj (push s1 (E o)) a (F o)) in
  veq (V s') (vput (kp s) (V s) a (F (obj_or_blank s a))) /\ ok s s'.
Proof.
  intros Hu. destruct (get_or_new_spec s a) as (Ho & Hl & HV & Hok).
  destruct (get_or_new s a) as [o s1]. simpl in *. subst o.
  destruct Hok as (K & Hok'). 
  destruct (journaled_set s1 a _ (E (obj_or_blank s a)) (F (obj_or_blank s a)) Hl) as (HV2 & Hok2).
  { intro v. rewrite K. apply Hu. }
  split.
  - eapply veq_trans; [exact HV2|]. rewrite K.
    eapply veq_trans; [apply vput_veq, HV|]. apply vput_vput.
  - eapply ok_trans; [split; [exact K|exact Hok']|exact Hok2].
Qed.

(** the object the setters work on shows what the view shows *)
Lemma aview_blank : aview_of blank_obj = blank. Proof. reflexivity. Qed.

Lemma aview_obj_or_blank s a : aview_of (obj_or_blank s a) = vget_or_new (V s) a.
Proof. unfold obj_or_blank, vget_or_new. simpl. destruct (lookup s a); reflexivity. Qed.
Lemma st_obj_or_blank s a k : st (kp s) a (obj_or_blank s a) k = v_stor (V s) a k.
Proof. unfold obj_or_blank. simpl. destruct (lookup s a); reflexivity. Qed.
Lemma comm_obj_or_blank s a k : comm (kp s) a (obj_or_blank s a) k = v_comm (V s) a k.
Proof. unfold obj_or_blank. simpl. destruct (lookup s a); reflexivity. Qed.

Lemma vput_field s a (F : obj -> obj) (G : aview -> aview) :
  (forall o, aview_of (F o) = G (aview_of o)) ->
  (forall o k, st (kp s) a (F o) k = st (kp s) a o k) ->
  (forall o k, comm (kp s) a (F o) k = comm (kp s) a o k) ->
  veq (vput (kp s) (V s) a (F (obj_or_blank s a))) (vset_acct (V s) a (Some (G (vget_or_new (V s) a)))).
Proof.
  intros HG Hs Hc.
  split; cbn [vput vset_acct vset_stor vset_comm v_acct v_stor v_comm v_refund v_logs v_ala v_als];
    intros; try reflexivity; unfold upd; destruct (Z.eqb_spec a0 a); subst; try reflexivity.
  - rewrite HG, aview_obj_or_blank. reflexivity.
  - rewrite Hs. apply st_obj_or_blank.
  - rewrite Hc. apply comm_obj_or_blank.
Qed.

(** reverting a field update *)
Lemma vundo_field kp0 a e (F : obj -> obj) (G' : aview -> aview) :
  (forall v, vundo kp0 e v = vmod v a G') ->
  forall v o,
  G' (aview_of (F o)) = aview_of o ->
  (forall k, st kp0 a (F o) k = st kp0 a o k) -> (forall k, comm kp0 a (F o) k = comm kp0 a o k) ->
  veq (vundo kp0 e (vput kp0 v a (F o))) (vput kp0 v a o).
Proof.
  intros He v o HG Hs Hc. rewrite He. unfold vmod.
  cbn [vput vset_acct vset_stor vset_comm v_acct]. rewrite upd_same.
  split; cbn [vput vset_acct vset_stor vset_comm v_acct v_stor v_comm v_refund v_logs v_ala v_als];
    intros; try reflexivity; unfold upd; destruct (Z.eqb_spec a0 a); subst; try reflexivity;
    rewrite ?Z.eqb_refl; auto.
  rewrite HG. reflexivity.
Qed.

(** ** the statement proved for every method *)
Definition sim_op (o : op) (s : sdb) : Prop :=
  snd (step_core o s) = snd (vstep o (V s)) /\
  veq (V (fst (step_core o s))) (fst (vstep o (V s))) /\
  ok s (fst (step_core o s)).

Ltac vcases a0 a :=
  cbn [vput vset_acct vset_stor vset_comm vset_refund vset_logs vset_al
       v_acct v_stor v_comm v_refund v_logs v_ala v_als];
  intros; try reflexivity; unfold upd; destruct (Z.eqb_spec a0 a); subst; try reflexivity.

(** *** SetNonce / SetCode / AddBalance / SubBalance *)
Lemma sim_set_nonce s a n : sim_op (OSetNonce a n) s.
Proof.
  unfold sim_op. cbn [step_core vstep fst snd]. split; [reflexivity|].
  destruct (mutator s a (fun o => ENonce a (nonce o)) (fun o => with_nonce o n)) as (HV & Hok).
  { intros v o. apply (vundo_field (kp s) a _ (fun o => with_nonce o n) (fun x => av_with_nonce x (nonce o)));
      try reflexivity. }
  split; [|exact Hok].
  eapply veq_trans; [exact HV|]. apply (vput_field s a (fun o => with_nonce o n) (fun x => av_with_nonce x n)); reflexivity.
Qed.

Lemma sim_set_code s a c : sim_op (OSetCode a c) s.
Proof.
  unfold sim_op. cbn [step_core vstep fst snd]. split; [reflexivity|].
  destruct (mutator s a (fun o => ECode a (chash o)) (fun o => with_code o c)) as (HV & Hok).
  { intros v o. apply (vundo_field (kp s) a _ (fun o => with_code o c) (fun x => av_with_code x (chash o)));
      try reflexivity. }
  split; [|exact Hok].
  eapply veq_trans; [exact HV|]. apply (vput_field s a (fun o => with_code o c) (fun x => av_with_code x c)); reflexivity.
Qed.

Lemma av_with_bal_same x : av_with_bal x (av_bal x) = x.
Proof. destruct x; reflexivity. Qed.

Lemma sim_balance_gen s a (d : Z) :
  let s' := (let '(o, s1) := get_or_new s a in if d =? 0 then s1 else set_balance s1 a o (bal o + d)) in
  veq (V s') (vset_acct (V s) a (Some (av_with_bal (vget_or_new (V s) a) (av_bal (vget_or_new (V s) a) + d)))) /\
  ok s s'.
Proof.
  destruct (Z.eqb_spec d 0) as [->|Hd].
  - destruct (get_or_new_spec s a) as (Ho & Hl & HV & Hok).
    destruct (get_or_new s a) as [o s1]. simpl in *. subst o. split; [|exact Hok].
    eapply veq_trans; [exact HV|]. rewrite Z.add_0_r, av_with_bal_same.
    apply (vput_field s a (fun o => o) (fun x => x)); reflexivity.
  - destruct (mutator s a (fun o => EBalance a (bal o)) (fun o => with_bal o (bal o + d))) as (HV & Hok).
    { intros v o. apply (vundo_field (kp s) a _ (fun o => with_bal o (bal o + d)) (fun x => av_with_bal x (bal o)));
        try reflexivity. }
    unfold set_balance. split; [|exact Hok].
    eapply veq_trans; [exact HV|].
    apply (vput_field s a (fun o => with_bal o (bal o + d)) (fun x => av_with_bal x (av_bal x + d))); reflexivity.
Qed.

Lemma sim_add_balance s a d : sim_op (OAddBalance a d) s.
Proof.
  unfold sim_op. cbn [step_core vstep fst snd]. split; [reflexivity|]. apply sim_balance_gen.
Qed.

Lemma sim_sub_balance s a d : sim_op (OSubBalance a d) s.
Proof.
  unfold sim_op. cbn [step_core vstep fst snd]. split; [reflexivity|].
  pose proof (sim_balance_gen s a (- d)) as H. unfold sub_balance.
  replace (- d =? 0) with (d =? 0) in H
    by (destruct (Z.eqb_spec d 0), (Z.eqb_spec (- d) 0); try reflexivity; lia).
  replace (fun o => bal o - d) with (fun o => bal o - d) in H by reflexivity.
  destruct (get_or_new s a) as [o s1]. replace (bal o - d) with (bal o + - d) by lia.
  replace (av_bal (vget_or_new (V s) a) - d) with (av_bal (vget_or_new (V s) a) + - d) by lia. exact H.
Qed.

(** *** reads through getStateObject *)
Lemma sim_read s a (f : option obj -> ret) (g : option aview -> ret) :
  (forall o, f o = g (option_map aview_of o)) ->
  snd (read_obj s a f) = g (v_acct (V s) a) /\ veq (V (fst (read_obj s a f))) (V s) /\ ok s (fst (read_obj s a f)).
Proof.
  intro H. unfold read_obj. rewrite get_obj_eq. cbn [fst snd].
  split; [apply H|]. split; [apply V_loaded|apply ok_loaded].
Qed.

Ltac read_tac :=
  unfold sim_op; cbn [step_core vstep fst snd];
  match goal with |- snd (read_obj ?s ?a ?f) = ?r /\ _ =>
    let H := fresh in
    pose proof (sim_read s a f (fun x => match x with Some y => _ | None => _ end)) as H;
    apply H; intros [o|]; reflexivity
  end.

Lemma sim_get_balance s a : sim_op (OGetBalance a) s.
Proof.
  unfold sim_op; cbn [step_core vstep fst snd].
  apply (sim_read s a _ (fun x => match x with Some y => [av_bal y] | None => [0] end)). intros [o|]; reflexivity.
Qed.
Lemma sim_get_nonce s a : sim_op (OGetNonce a) s.
Proof.
  unfold sim_op; cbn [step_core vstep fst snd].
  apply (sim_read s a _ (fun x => match x with Some y => [av_nonce y] | None => [0] end)). intros [o|]; reflexivity.
Qed.
Lemma sim_get_code_hash s a : sim_op (OGetCodeHash a) s.
Proof.
  unfold sim_op; cbn [step_core vstep fst snd].
  apply (sim_read s a _ (fun x => match x with Some y => [av_code y] | None => [NOHASH] end)). intros [o|]; reflexivity.
Qed.
Lemma sim_get_code s a : sim_op (OGetCode a) s.
Proof.
  unfold sim_op; cbn [step_core vstep fst snd].
  apply (sim_read s a _ (fun x => match x with Some y => [av_code y] | None => [0] end)). intros [o|]; reflexivity.
Qed.
Lemma sim_get_code_size s a : sim_op (OGetCodeSize a) s.
Proof.
  unfold sim_op; cbn [step_core vstep fst snd].
  apply (sim_read s a _ (fun x => match x with Some y => [av_code y] | None => [0] end)). intros [o|]; reflexivity.
Qed.
Lemma sim_has_suicided s a : sim_op (OHasSuicided a) s.
Proof.
  unfold sim_op; cbn [step_core vstep fst snd].
  apply (sim_read s a _ (fun x => match x with Some y => rbool (av_suic y) | None => rbool false end)). intros [o|]; reflexivity.
Qed.
Lemma sim_exist s a : sim_op (OExist a) s.
Proof.
  unfold sim_op; cbn [step_core vstep fst snd].
  apply (sim_read s a _ (fun x => match x with Some y => rbool true | None => rbool false end)). intros [o|]; reflexivity.
Qed.
Lemma sim_empty s a : sim_op (OEmpty a) s.
Proof.
  unfold sim_op; cbn [step_core vstep fst snd].
  apply (sim_read s a _ (fun x => match x with Some y => rbool (av_empty y) | None => rbool true end)). intros [o|]; reflexivity.
Qed.

(** *** GetState / GetCommittedState (fill OriginStorage) *)
Lemma recache s a o o' :
  lookup s a = Some o -> aview_of o' = aview_of o ->
  (forall k, st (kp s) a o' k = st (kp s) a o k) -> (forall k, comm (kp s) a o' k = comm (kp s) a o k) ->
  veq (V (set_obj (snd (get_obj s a)) a o')) (V s) /\ ok s (set_obj (snd (get_obj s a)) a o').
Proof.
  intros Hl Ha Hs Hc.
  assert (HV : veq (V (set_obj (snd (get_obj s a)) a o')) (V s)).
  { eapply veq_trans; [apply V_set_obj|]. rewrite kp_loaded.
    eapply veq_trans; [apply vput_veq, V_loaded|].
    apply vput_same; simpl; intros; rewrite Hl; simpl; auto. rewrite Ha. reflexivity. }
  split; [exact HV|]. apply ok_same; [apply kp_loaded | apply journal_loaded | exact HV].
Qed.

Lemma sim_get_state s a k : sim_op (OGetState a k) s.
Proof.
  unfold sim_op; cbn [step_core vstep fst snd]. unfold get_state.
  rewrite get_obj_eq. simpl v_acct. destruct (lookup s a) as [o|] eqn:Hl; cbn [fst snd option_map].
  - rewrite kp_loaded. split; [simpl; rewrite Hl; reflexivity|].
    apply (recache s a o); [exact Hl | apply aview_cache_state | intro; apply st_cache_state | intro; apply comm_cache_state].
  - split; [reflexivity|]. split; [apply V_loaded|apply ok_loaded].
Qed.

Lemma sim_get_committed s a k : sim_op (OGetCommittedState a k) s.
Proof.
  unfold sim_op; cbn [step_core vstep fst snd]. unfold get_committed.
  rewrite get_obj_eq. simpl v_acct. destruct (lookup s a) as [o|] eqn:Hl; cbn [fst snd option_map].
  - rewrite kp_loaded. split; [simpl; rewrite Hl; reflexivity|].
    apply (recache s a o); [exact Hl | apply aview_cache_origin | intro; apply st_cache_origin | intro; apply comm_cache_origin].
  - split; [reflexivity|]. split; [apply V_loaded|apply ok_loaded].
Qed.

(** *** SetState *)
Lemma sim_set_state s a k w : sim_op (OSetState a k w) s.
Proof.
  unfold sim_op. cbn [step_core vstep fst snd]. split; [reflexivity|]. unfold set_state.
  destruct (get_or_new_spec s a) as (Ho & Hl & HV & Hok).
  destruct (get_or_new s a) as [o s1]. cbn [fst snd] in *. subst o. set (o := obj_or_blank s a) in *.
  assert (K : kp s1 = kp s) by apply Hok.
  set (o1 := cache_state (kp s1) a o k).
  assert (Ha1 : aview_of o1 = aview_of o) by apply aview_cache_state.
  assert (Hs1 : forall k', st (kp s1) a o1 k' = st (kp s1) a o k') by (intro; apply st_cache_state).
  assert (Hc1 : forall k', comm (kp s1) a o1 k' = comm (kp s1) a o k') by (intro; apply comm_cache_state).
  (* the view after get_or_new, explicitly *)
  assert (HV1 : veq (V s1) (vset_acct (V s) a (Some (vget_or_new (V s) a)))).
  { eapply veq_trans; [exact HV|]. apply (vput_field s a (fun o => o) (fun x => x)); reflexivity. }
  destruct (Z.eqb_spec (st (kp s1) a o k) w) as [Heq|Hne].
  - (* unchanged value: nothing is journaled *)
    assert (HV2 : veq (V (set_obj s1 a o1)) (V s1)).
    { eapply veq_trans; [apply V_set_obj|]. apply vput_same; simpl; intros; rewrite Hl; simpl; auto.
      rewrite Ha1. reflexivity. }
    split.
    + eapply veq_trans; [exact HV2|]. eapply veq_trans; [exact HV1|].
      split; vcases a0 a. destruct (Z.eqb_spec k0 k); [subst|reflexivity].
      rewrite K. symmetry. apply st_obj_or_blank.
    + eapply ok_trans; [exact Hok|]. apply ok_same; [reflexivity|reflexivity|exact HV2].
  - destruct (journaled_set s1 a o (EStorage a k (st (kp s1) a o k)) (with_dirty o1 k w) Hl) as (HV2 & Hok2).
    { intro v. cbn [vundo vput vset_acct vset_stor vset_comm v_acct v_stor]. rewrite upd_same.
      split; vcases a0 a.
      - change (aview_of (with_dirty o1 k w)) with (aview_of o1). rewrite Ha1. reflexivity.
      - rewrite Z.eqb_refl, st_with_dirty. destruct (Z.eqb_spec k0 k); [subst; reflexivity|apply Hs1].
      - rewrite comm_with_dirty. apply Hc1. }
    split; [|eapply ok_trans; [exact Hok|exact Hok2]].
    eapply veq_trans; [exact HV2|]. eapply veq_trans; [apply vput_veq, HV1|].
    split; vcases a0 a.
    + change (aview_of (with_dirty o1 k w)) with (aview_of o1). rewrite Ha1. unfold o. rewrite aview_obj_or_blank. reflexivity.
    + rewrite st_with_dirty. destruct (Z.eqb_spec k0 k); [reflexivity|].
      rewrite Hs1, K. apply st_obj_or_blank.
    + rewrite comm_with_dirty, Hc1, K. apply comm_obj_or_blank.
Qed.

(** *** Suicide *)
Lemma sim_suicide s a : sim_op (OSuicide a) s.
Proof.
  unfold sim_op. cbn [step_core vstep]. unfold suicide. rewrite get_obj_eq. simpl v_acct.
  destruct (lookup s a) as [o|] eqn:Hl; cbn [fst snd option_map].
  - split; [reflexivity|].
    assert (Hl1 : lookup (snd (get_obj s a)) a = Some o) by (rewrite lookup_loaded; exact Hl).
    destruct (journaled_set _ a o (ESuicide a (suicided o) (bal o)) (with_bal (with_suicided o true) 0) Hl1)
      as (HV2 & Hok2).
    { intro v. apply (vundo_field _ a _ (fun o => with_bal (with_suicided o true) 0)
                        (fun x => av_with_bal (av_with_suic x (suicided o)) (bal o))); try reflexivity.
      destruct o; reflexivity. }
    split; [|eapply ok_trans; [apply ok_loaded|exact Hok2]].
    eapply veq_trans; [exact HV2|]. rewrite kp_loaded.
    eapply veq_trans; [apply vput_veq, V_loaded|].
    split; vcases a0 a; simpl; rewrite Hl; reflexivity.
  - split; [reflexivity|]. split; [apply V_loaded|apply ok_loaded].
Qed.

(** *** CreateAccount — the only method that needs the usage protocol *)
Lemma sim_create s a : wf_create (k_stor (kp s)) (V s) a -> sim_op (OCreateAccount a) s.
Proof.
  intros (Hbase & Hwf). unfold sim_op. cbn [step_core vstep fst snd]. split; [reflexivity|].
  unfold create_account, create_object. rewrite get_obj_eq. simpl v_acct in *.
  destruct (lookup s a) as [p|] eqn:Hl; cbn [option_map] in *.
  - (* an object exists: resetObjectChange, balance carried over *)
    set (s0 := snd (get_obj s a)).
    assert (K0 : kp s0 = kp s) by apply kp_loaded.
    set (nw := with_bal (new_obj 0 0 0) (bal p)).
    assert (HV : veq (V (set_obj (set_obj (push s0 (EReset a p)) a (new_obj 0 0 0)) a nw))
                     (vput (kp s) (V s) a nw)).
    { eapply veq_trans; [apply V_set_obj|]. cbn [kp set_obj set_objs]. rewrite kp_push, K0.
      eapply veq_trans; [apply vput_veq, V_set_obj|]. cbn [kp set_obj set_objs]. rewrite kp_push, K0.
      eapply veq_trans; [apply vput_vput|]. apply vput_veq.
      eapply veq_trans; [apply V_push|apply V_loaded]. }
    split.
    + eapply veq_trans; [exact HV|].
      split; vcases a0 a; unfold st, comm; simpl; apply Hbase.
    + split; [cbn [kp set_obj set_objs]; rewrite kp_push; exact K0|].
      exists [EReset a p]. split.
      { cbn [journal set_obj set_objs]. rewrite journal_push. unfold s0. rewrite journal_loaded. reflexivity. }
      cbn [vunwind fold_left vundo]. eapply veq_trans; [apply vput_veq, HV|].
      eapply veq_trans; [apply vput_vput|]. apply vput_lookup, Hl.
  - (* no object: createObjectChange *)
    rewrite (get_obj_none s a Hl). cbn [fst snd].
    assert (HV : veq (V (set_obj (push s (ECreate a)) a (new_obj 0 0 0))) (vput (kp s) (V s) a blank_obj)).
    { eapply veq_trans; [apply V_set_obj|]. cbn [kp set_obj set_objs]. rewrite kp_push. apply vput_veq, V_push. }
    split.
    + eapply veq_trans; [exact HV|].
      split; vcases a0 a; unfold st, comm; simpl; apply Hbase.
    + split; [cbn [kp set_obj set_objs]; apply kp_push|].
      exists [ECreate a]. split; [cbn [journal set_obj set_objs]; rewrite journal_push; reflexivity|].
      cbn [vunwind fold_left vundo]. eapply veq_trans; [apply vdrop_veq, HV|]. apply vdrop_vput_none, Hl.
Qed.
